(* Executable model of src/hpotk/graph/csr/_csr.py : ImmutableCsrMatrix and CsrMatrixBuilder.
   Generic in the value type (dtype int / bool / float are instances: any type with a decidable
   equality and a zero).  Definitions only. *)
From Coq Require Import List Bool Arith ZArith Lia.
From Hpotk Require Import Base.Result.
Import ListNotations.

Section Csr.
Variable V : Type.
Variable veqb : V -> V -> bool.
Variable zero : V.                       (* _default_for_dtype *)

(* row = indptr (len R+1), col = column indices, data = values, shape = (R, C) *)
Record csr := mkCsr { indptr : list nat; cols : list nat; vals : list V; nrows : nat; ncols : nat }.

(* Python slice l[a:b] for 0 <= a, 0 <= b *)
Definition slice {A} (l : list A) (a b : nat) : list A := firstn (b - a) (skipn a l).

Definition row_start (m : csr) (r : nat) : nat := nth r (indptr m) 0.
Definition row_end (m : csr) (r : nat) : nat := nth (S r) (indptr m) 0.
Definition row_cols (m : csr) (r : nat) : list nat := slice (cols m) (row_start m r) (row_end m r).
Definition row_vals (m : csr) (r : nat) : list V := slice (vals m) (row_start m r) (row_end m r).

Definition in_range (i : Z) (n : nat) : bool := ((0 <=? i) && (i <? Z.of_nat n))%Z.

(* _check_bounds *)
Definition check_bounds (r c : Z) (R C : nat) : res (nat * nat) :=
  if in_range r R then if in_range c C then Ok (Z.to_nat r, Z.to_nat c) else Err IndexError
  else Err IndexError.

(* ImmutableCsrMatrix.__getitem__((qrow, qcol)): first matching column in the row slice *)
Fixpoint first_match (cs : list nat) (vs : list V) (q : nat) : option V :=
  match cs, vs with
  | c :: cs', v :: vs' => if c =? q then Some v else first_match cs' vs' q
  | _, _ => None
  end.

Definition getitem_cell (m : csr) (r c : Z) : res V :=
  bind (check_bounds r c (nrows m) (ncols m)) (fun '(r', c') =>
    Ok (match first_match (row_cols m r') (row_vals m r') c' with Some v => v | None => zero end)).

(* `row[idxs] = vals` on a row filled with the default (numpy fancy assignment, last write wins) *)
Fixpoint set_nth {A} (i : nat) (x : A) (l : list A) : list A :=
  match l, i with
  | [], _ => []
  | _ :: t, 0 => x :: t
  | h :: t, S k => h :: set_nth k x t
  end.

Fixpoint scatter (row : list V) (cs : list nat) (vs : list V) : list V :=
  match cs, vs with
  | c :: cs', v :: vs' => scatter (set_nth c v row) cs' vs'
  | _, _ => row
  end.

(* ImmutableCsrMatrix.__getitem__(int) *)
Definition getitem_row (m : csr) (r : Z) : res (list V) :=
  if in_range r (nrows m) then
    let r' := Z.to_nat r in Ok (scatter (repeat zero (ncols m)) (row_cols m r') (row_vals m r'))
  else if (r <? 0)%Z then Err ValueError else Err IndexError.

Fixpoint mask_eq (cs : list nat) (vs : list V) (q : V) : list nat :=
  match cs, vs with
  | c :: cs', v :: vs' => if veqb v q then c :: mask_eq cs' vs' q else mask_eq cs' vs' q
  | _, _ => []
  end.

(* ImmutableCsrMatrix.col_indices_of_val *)
Definition col_indices_of_val (m : csr) (r : Z) (q : V) : res (list nat) :=
  if in_range r (nrows m) then
    let r' := Z.to_nat r in
    let cs := row_cols m r' in
    if veqb q zero then
      Ok (filter (fun c => negb (existsb (Nat.eqb c) cs)) (seq 0 (ncols m)))
    else Ok (mask_eq cs (row_vals m r') q)
  else Err IndexError.

(* ---------------- CsrMatrixBuilder ---------------- *)
Definition builder_init (R C : nat) : csr := mkCsr (repeat 0 (S R)) [] [] R C.

(* the scan over the row slice: number of leading columns < qcol, and whether the first
   column >= qcol equals qcol *)
Fixpoint scan (sl : list nat) (qcol : nat) : nat * bool :=
  match sl with
  | [] => (0, false)
  | c :: r => if c <? qcol then let '(a, u) := scan r qcol in (S a, u) else (0, c =? qcol)
  end.

Definition insert_at {A} (i : nat) (x : A) (l : list A) : list A := firstn i l ++ x :: skipn i l.

(* self._row[np.arange(n) > qrow] += 1 *)
Fixpoint bump_after (qrow : nat) (i : nat) (l : list nat) : list nat :=
  match l with
  | [] => []
  | x :: t => (if qrow <? i then S x else x) :: bump_after qrow (S i) t
  end.

(* CsrMatrixBuilder.__setitem__((qrow, qcol), value) *)
Definition setitem (b : csr) (r c : Z) (v : V) : res csr :=
  bind (check_bounds r c (nrows b) (ncols b)) (fun '(qrow, qcol) =>
    let start := row_start b qrow in
    let '(adj, upd) := scan (row_cols b qrow) qcol in
    let idx := start + adj in
    if upd then Ok (mkCsr (indptr b) (cols b) (set_nth idx v (vals b)) (nrows b) (ncols b))
    else Ok (mkCsr (bump_after qrow 0 (indptr b)) (insert_at idx qcol (cols b))
                   (insert_at idx v (vals b)) (nrows b) (ncols b))).

(* a sequence of assignments; an out-of-bounds assignment raises and leaves the builder as it was *)
Definition assign := (Z * Z * V)%type.
Definition step (b : csr) (a : assign) : csr :=
  let '(r, c, v) := a in match setitem b r c v with Ok b' => b' | Err _ => b end.
Definition run (R C : nat) (ops : list assign) : csr := fold_left step ops (builder_init R C).

(* ---------------- the dense matrix a history of assignments denotes ---------------- *)
Definition dense := nat -> nat -> V.
Definition dense_zero : dense := fun _ _ => zero.
Definition dense_upd (d : dense) (r c : nat) (v : V) : dense :=
  fun r' c' => if (r' =? r) && (c' =? c) then v else d r' c'.
Definition dense_step (R C : nat) (d : dense) (a : assign) : dense :=
  let '(r, c, v) := a in
  match check_bounds r c R C with Ok (r', c') => dense_upd d r' c' v | Err _ => d end.
Definition dense_of (R C : nat) (ops : list assign) : dense := fold_left (dense_step R C) ops dense_zero.

End Csr.

Arguments mkCsr {V}.
Arguments indptr {V}. Arguments cols {V}. Arguments vals {V}. Arguments nrows {V}. Arguments ncols {V}.
Arguments row_start {V}. Arguments row_end {V}. Arguments row_cols {V}. Arguments row_vals {V}.
Arguments first_match {V}. Arguments getitem_cell {V}. Arguments scatter {V}. Arguments getitem_row {V}.
Arguments mask_eq {V}. Arguments col_indices_of_val {V}. Arguments setitem {V}. Arguments step {V}.
Arguments run {V}. Arguments dense_upd {V}. Arguments dense_step {V}. Arguments dense_of {V}.
Arguments dense_zero {V}.
