(* Proofs about the CSR model (C17). *)
From Coq Require Import List Bool Arith ZArith Lia Sorted Permutation.
From Hpotk Require Import Base.Result Csr.Model.
Import ListNotations.

Section CsrProofs.
Variable V : Type.
Variable veqb : V -> V -> bool.
Variable zero : V.
Hypothesis veqb_eq : forall a b, veqb a b = true <-> a = b.

Notation csr := (csr V).

(* A valid (row, col, data, shape): row pointers start at 0, are monotone and end at
   len(col) = len(data); within one row the column indices are in range and distinct.
   Sortedness of a row is NOT required. *)
Record WF (m : csr) : Prop := {
  wf_len   : length (indptr m) = S (nrows m);
  wf_first : nth 0 (indptr m) 0 = 0;
  wf_mono  : forall i j, i <= j -> j <= nrows m -> nth i (indptr m) 0 <= nth j (indptr m) 0;
  wf_last  : nth (nrows m) (indptr m) 0 = length (cols m);
  wf_vals  : length (vals m) = length (cols m);
  wf_range : forall r c, r < nrows m -> In c (row_cols m r) -> c < ncols m;
  wf_nodup : forall r, r < nrows m -> NoDup (row_cols m r) }.

(* the builder additionally keeps every row strictly increasing *)
Definition Inv (m : csr) : Prop :=
  WF m /\ forall r, r < nrows m -> StronglySorted lt (row_cols m r).

(* all stored values are non-zero (the property is about assignments of non-zero values) *)
Definition NZ (m : csr) : Prop := forall v, In v (vals m) -> v <> zero.

(* the dense matrix a CSR triple denotes *)
Definition den (m : csr) (r c : nat) : V :=
  match first_match (row_cols m r) (row_vals m r) c with Some v => v | None => zero end.
(* ---------- generic list facts (independent of the value type) ---------- *)
Section ListFacts.
Context {A : Type}.

Lemma nth_error_ext_eq (l l' : list A) :
  (forall k, nth_error l k = nth_error l' k) -> l = l'.
Proof.
  revert l'. induction l as [|h t IH]; intros l' H.
  - destruct l' as [|h' t']; [reflexivity|]. specialize (H 0). cbn in H. discriminate H.
  - destruct l' as [|h' t'].
    + specialize (H 0). cbn in H. discriminate H.
    + pose proof (H 0) as H0. cbn in H0. injection H0 as H0. subst h'.
      f_equal. apply IH. intro k. exact (H (S k)).
Qed.

Lemma nth_error_firstn_if (n : nat) (l : list A) k :
  nth_error (firstn n l) k = if k <? n then nth_error l k else None.
Proof.
  revert l k. induction n as [|n IH]; intros l k.
  - cbn [firstn]. destruct k; reflexivity.
  - destruct l as [|h t].
    + cbn [firstn]. destruct k; cbn [nth_error]; destruct (_ <? _); reflexivity.
    + cbn [firstn]. destruct k as [|k].
      * reflexivity.
      * cbn [nth_error]. rewrite IH.
        destruct (Nat.ltb_spec k n) as [H1|H1]; destruct (Nat.ltb_spec (S k) (S n)) as [H2|H2];
          try lia; reflexivity.
Qed.

Lemma nth_error_skipn_add (n : nat) (l : list A) k :
  nth_error (skipn n l) k = nth_error l (n + k).
Proof.
  revert l. induction n as [|n IH]; intros l.
  - reflexivity.
  - destruct l as [|h t].
    + cbn [skipn]. destruct k; reflexivity.
    + cbn [skipn]. rewrite IH. reflexivity.
Qed.

Lemma slice_length (l : list A) a b : length (slice l a b) = Nat.min (b - a) (length l - a).
Proof. unfold slice. rewrite firstn_length, skipn_length. reflexivity. Qed.

Lemma nth_error_slice (l : list A) a b k :
  nth_error (slice l a b) k = if k <? b - a then nth_error l (a + k) else None.
Proof. unfold slice. rewrite nth_error_firstn_if, nth_error_skipn_add. reflexivity. Qed.

Lemma In_slice (l : list A) a b x : In x (slice l a b) -> In x l.
Proof.
  intro H. apply In_nth_error in H. destruct H as [k Hk].
  rewrite nth_error_slice in Hk. destruct (k <? b - a); [|discriminate Hk].
  eapply nth_error_In. exact Hk.
Qed.

(* set_nth *)
Lemma set_nth_length i (x : A) l : length (set_nth i x l) = length l.
Proof.
  revert i. induction l as [|h t IH]; intros i.
  - destruct i; reflexivity.
  - destruct i as [|i]; cbn [set_nth length]; [reflexivity|]. rewrite IH. reflexivity.
Qed.

Lemma nth_error_set_nth i (x : A) l k :
  nth_error (set_nth i x l) k =
  if k =? i then match nth_error l k with Some _ => Some x | None => None end else nth_error l k.
Proof.
  revert i k. induction l as [|h t IH]; intros i k.
  - assert (E : set_nth i x (@nil A) = []) by (destruct i; reflexivity). rewrite E.
    destruct k; cbn [nth_error]; destruct (_ =? _); reflexivity.
  - destruct i as [|i]; cbn [set_nth].
    + destruct k as [|k]; reflexivity.
    + destruct k as [|k]; cbn [nth_error].
      * reflexivity.
      * rewrite IH. reflexivity.
Qed.

Lemma In_set_nth i (x : A) l y : In y (set_nth i x l) -> y = x \/ In y l.
Proof.
  revert i. induction l as [|h t IH]; intros i H.
  - destruct i; destruct H.
  - destruct i as [|i]; cbn [set_nth] in H.
    + destruct H as [H|H]; [left; symmetry; exact H | right; right; exact H].
    + destruct H as [H|H]; [right; left; exact H|].
      destruct (IH _ H) as [H'|H']; [left; exact H' | right; right; exact H'].
Qed.

Lemma nth_set_nth_same i (x : A) l d : i < length l -> nth i (set_nth i x l) d = x.
Proof.
  intro H. apply nth_error_nth. rewrite nth_error_set_nth, Nat.eqb_refl.
  destruct (nth_error l i) eqn:E; [reflexivity|]. apply nth_error_None in E. lia.
Qed.

Lemma nth_set_nth_other i (x : A) l d k : k <> i -> nth k (set_nth i x l) d = nth k l d.
Proof.
  intro H.
  assert (E : nth_error (set_nth i x l) k = nth_error l k).
  { rewrite nth_error_set_nth. destruct (Nat.eqb_spec k i) as [H1|H1]; [contradiction|reflexivity]. }
  destruct (nth_error l k) as [y|] eqn:E'.
  - rewrite (nth_error_nth _ _ d E), (nth_error_nth _ _ d E'). reflexivity.
  - rewrite (nth_overflow (set_nth i x l)), (nth_overflow l); [reflexivity| |].
    + apply nth_error_None. exact E'.
    + apply nth_error_None. exact E.
Qed.

(* insert_at *)
Lemma insert_at_length i (x : A) l : length (insert_at i x l) = S (length l).
Proof.
  unfold insert_at. rewrite app_length. cbn [length]. rewrite Nat.add_succ_r, <- app_length, firstn_skipn.
  reflexivity.
Qed.

Lemma In_insert_at i (x : A) l y : In y (insert_at i x l) <-> y = x \/ In y l.
Proof.
  unfold insert_at. rewrite <- (firstn_skipn i l) at 3.
  rewrite !in_app_iff. cbn [In]. intuition congruence.
Qed.

Lemma nth_error_insert_at i (x : A) l k : i <= length l ->
  nth_error (insert_at i x l) k =
  if k <? i then nth_error l k else if k =? i then Some x else nth_error l (k - 1).
Proof.
  intro Hi. unfold insert_at.
  assert (Hl : length (firstn i l) = i) by (rewrite firstn_length; lia).
  destruct (Nat.ltb_spec k i) as [H1|H1].
  - rewrite nth_error_app1 by lia. rewrite nth_error_firstn_if.
    destruct (Nat.ltb_spec k i) as [H2|H2]; [reflexivity|lia].
  - rewrite nth_error_app2 by lia. rewrite Hl.
    destruct (Nat.eqb_spec k i) as [H2|H2].
    + subst k. rewrite Nat.sub_diag. reflexivity.
    + destruct (k - i) as [|j] eqn:E; [lia|]. cbn [nth_error].
      rewrite nth_error_skipn_add. f_equal. lia.
Qed.

(* slices of updated lists *)
Lemma slice_set_nth_before i (x : A) l a b : b <= i -> slice (set_nth i x l) a b = slice l a b.
Proof.
  intro H. apply nth_error_ext_eq. intro k. rewrite !nth_error_slice, nth_error_set_nth.
  destruct (Nat.ltb_spec k (b - a)) as [H1|H1]; [|reflexivity].
  destruct (Nat.eqb_spec (a + k) i) as [H2|H2]; [lia|reflexivity].
Qed.

Lemma slice_set_nth_after i (x : A) l a b : i < a -> slice (set_nth i x l) a b = slice l a b.
Proof.
  intro H. apply nth_error_ext_eq. intro k. rewrite !nth_error_slice, nth_error_set_nth.
  destruct (Nat.ltb_spec k (b - a)) as [H1|H1]; [|reflexivity].
  destruct (Nat.eqb_spec (a + k) i) as [H2|H2]; [lia|reflexivity].
Qed.

Lemma slice_set_nth_in j (x : A) l a b :
  slice (set_nth (a + j) x l) a b = set_nth j x (slice l a b).
Proof.
  apply nth_error_ext_eq. intro k.
  rewrite nth_error_slice, !nth_error_set_nth, nth_error_slice.
  destruct (Nat.ltb_spec k (b - a)) as [H1|H1].
  - destruct (Nat.eqb_spec (a + k) (a + j)) as [H2|H2]; destruct (Nat.eqb_spec k j) as [H3|H3];
      try lia; reflexivity.
  - destruct (Nat.eqb_spec k j) as [H3|H3]; reflexivity.
Qed.

Lemma slice_insert_before i (x : A) l a b : i <= length l -> b <= i ->
  slice (insert_at i x l) a b = slice l a b.
Proof.
  intros Hi H. apply nth_error_ext_eq. intro k. rewrite !nth_error_slice.
  destruct (Nat.ltb_spec k (b - a)) as [H1|H1]; [|reflexivity].
  rewrite nth_error_insert_at by exact Hi.
  destruct (Nat.ltb_spec (a + k) i) as [H2|H2]; [reflexivity|lia].
Qed.

Lemma slice_insert_after i (x : A) l a b : i <= length l -> i <= a ->
  slice (insert_at i x l) (S a) (S b) = slice l a b.
Proof.
  intros Hi H. apply nth_error_ext_eq. intro k. rewrite !nth_error_slice.
  replace (S b - S a) with (b - a) by lia.
  destruct (Nat.ltb_spec k (b - a)) as [H1|H1]; [|reflexivity].
  rewrite nth_error_insert_at by exact Hi.
  destruct (Nat.ltb_spec (S a + k) i) as [H2|H2]; [lia|].
  destruct (Nat.eqb_spec (S a + k) i) as [H3|H3]; [lia|].
  f_equal. lia.
Qed.

Lemma slice_insert_in j (x : A) l a b : a <= b -> b <= length l -> j <= b - a ->
  slice (insert_at (a + j) x l) a (S b) = insert_at j x (slice l a b).
Proof.
  intros Hab Hb Hj. apply nth_error_ext_eq. intro k.
  rewrite nth_error_slice.
  rewrite (nth_error_insert_at j x (slice l a b)) by (rewrite slice_length; lia).
  rewrite !nth_error_slice.
  rewrite nth_error_insert_at by lia.
  destruct (Nat.ltb_spec k (S b - a)) as [H1|H1].
  - destruct (Nat.ltb_spec (a + k) (a + j)) as [H2|H2]; destruct (Nat.ltb_spec k j) as [H3|H3]; try lia.
    + destruct (Nat.ltb_spec k (b - a)) as [H4|H4]; [reflexivity|lia].
    + destruct (Nat.eqb_spec (a + k) (a + j)) as [H4|H4]; destruct (Nat.eqb_spec k j) as [H5|H5]; try lia.
      * reflexivity.
      * destruct (Nat.ltb_spec (k - 1) (b - a)) as [H6|H6]; [|lia]. f_equal. lia.
  - destruct (Nat.ltb_spec k j) as [H3|H3]; [lia|].
    destruct (Nat.eqb_spec k j) as [H5|H5]; [lia|].
    destruct (Nat.ltb_spec (k - 1) (b - a)) as [H6|H6]; [lia|reflexivity].
Qed.

End ListFacts.

(* bump_after *)
Lemma bump_after_length q s l : length (bump_after q s l) = length l.
Proof.
  revert s. induction l as [|h t IH]; intro s; cbn [bump_after length]; [reflexivity|].
  rewrite IH. reflexivity.
Qed.

Lemma nth_bump_after q s l i : i < length l ->
  nth i (bump_after q s l) 0 = if q <? s + i then S (nth i l 0) else nth i l 0.
Proof.
  revert s i. induction l as [|h t IH]; intros s i Hi; cbn [length] in Hi; [lia|].
  cbn [bump_after]. destruct i as [|i]; cbn [nth].
  - rewrite Nat.add_0_r. reflexivity.
  - rewrite IH by lia. replace (S s + i) with (s + S i) by lia. reflexivity.
Qed.

(* scan *)
Lemma scan_le sl q a u : scan sl q = (a, u) -> a <= length sl.
Proof.
  revert a u. induction sl as [|c r IH]; intros a u H; cbn [scan] in H.
  - injection H as Ha Hu. subst a. cbn. lia.
  - destruct (c <? q).
    + destruct (scan r q) as [a' u'] eqn:E. injection H as Ha Hu. subst a.
      specialize (IH _ _ eq_refl). cbn [length]. lia.
    + injection H as Ha Hu. subst a. lia.
Qed.

Lemma scan_true_lt sl q a : scan sl q = (a, true) -> a < length sl.
Proof.
  revert a. induction sl as [|c r IH]; intros a H; cbn [scan] in H.
  - discriminate H.
  - destruct (c <? q).
    + destruct (scan r q) as [a' u'] eqn:E. injection H as Ha Hu. subst a u'.
      specialize (IH _ eq_refl). cbn [length]. lia.
    + injection H as Ha Hu. subst a. cbn [length]. lia.
Qed.

Lemma insert_at_cons {A} i (x h : A) t : insert_at (S i) x (h :: t) = h :: insert_at i x t.
Proof. reflexivity. Qed.

Lemma insert_at_0 {A} (x : A) l : insert_at 0 x l = x :: l.
Proof. reflexivity. Qed.

Lemma scan_insert_sorted sl q a : StronglySorted lt sl -> scan sl q = (a, false) ->
  StronglySorted lt (insert_at a q sl).
Proof.
  revert a. induction sl as [|c r IH]; intros a Hs H; cbn [scan] in H.
  - injection H as Ha. subst a. rewrite insert_at_0. constructor; constructor.
  - apply StronglySorted_inv in Hs. destruct Hs as [Hs Hc].
    destruct (Nat.ltb_spec c q) as [H1|H1].
    + destruct (scan r q) as [a' u'] eqn:E. injection H as Ha Hu. subst a u'.
      rewrite insert_at_cons. constructor.
      * apply IH; [exact Hs|reflexivity].
      * apply Forall_forall. intros y Hy. apply In_insert_at in Hy. destruct Hy as [Hy|Hy].
        -- subst y. exact H1.
        -- rewrite Forall_forall in Hc. apply Hc. exact Hy.
    + injection H as Ha Hu. subst a. apply Nat.eqb_neq in Hu. rewrite insert_at_0.
      constructor.
      * constructor; assumption.
      * constructor; [lia|]. rewrite Forall_forall in Hc. apply Forall_forall.
        intros y Hy. specialize (Hc y Hy). lia.
Qed.

Lemma sorted_lt_nodup l : StronglySorted lt l -> NoDup l.
Proof.
  induction l as [|h t IH]; intro Hs; [constructor|].
  apply StronglySorted_inv in Hs. destruct Hs as [Hs Hh]. constructor.
  - intro Hin. rewrite Forall_forall in Hh. specialize (Hh h Hin). lia.
  - apply IH. exact Hs.
Qed.

(* bounds *)
Lemma in_range_true i n : in_range i n = true <-> (0 <= i < Z.of_nat n)%Z.
Proof.
  unfold in_range. rewrite andb_true_iff, Z.leb_le, Z.ltb_lt. reflexivity.
Qed.

Lemma check_bounds_ok r c R C : (0 <= r < Z.of_nat R)%Z -> (0 <= c < Z.of_nat C)%Z ->
  check_bounds r c R C = Ok (Z.to_nat r, Z.to_nat c).
Proof.
  intros Hr Hc. unfold check_bounds.
  apply in_range_true in Hr. apply in_range_true in Hc. rewrite Hr, Hc. reflexivity.
Qed.

Lemma check_bounds_err r c R C : ~ ((0 <= r < Z.of_nat R)%Z /\ (0 <= c < Z.of_nat C)%Z) ->
  check_bounds r c R C = Err IndexError.
Proof.
  intro H. unfold check_bounds.
  destruct (in_range r R) eqn:Er; [|reflexivity].
  destruct (in_range c C) eqn:Ec; [|reflexivity].
  apply in_range_true in Er. apply in_range_true in Ec. exfalso. apply H. split; assumption.
Qed.

(* ---------- first_match / scatter / mask_eq ---------- *)
Lemma fm_notin (cs : list nat) (vs : list V) c : ~ In c cs -> first_match cs vs c = None.
Proof.
  revert vs. induction cs as [|c0 cs IH]; intros vs H; [reflexivity|].
  destruct vs as [|v0 vs]; [reflexivity|]. cbn [first_match].
  destruct (Nat.eqb_spec c0 c) as [H1|H1].
  - exfalso. apply H. left. exact H1.
  - apply IH. intro Hin. apply H. right. exact Hin.
Qed.

Lemma fm_nth (cs : list nat) (vs : list V) k c v : NoDup cs ->
  nth_error cs k = Some c -> nth_error vs k = Some v -> first_match cs vs c = Some v.
Proof.
  revert vs k. induction cs as [|c0 cs IH]; intros vs k Hnd Hc Hv.
  - destruct k; discriminate Hc.
  - inversion Hnd as [|x l Hnotin Hnd']; subst x l.
    destruct vs as [|v0 vs]; [destruct k; discriminate Hv|].
    destruct k as [|k]; cbn [nth_error] in Hc, Hv; cbn [first_match].
    + injection Hc as Hc. injection Hv as Hv. subst c0 v0. rewrite Nat.eqb_refl. reflexivity.
    + destruct (Nat.eqb_spec c0 c) as [H1|H1].
      * subst c0. exfalso. apply Hnotin. eapply nth_error_In. exact Hc.
      * eapply IH; eassumption.
Qed.

Lemma fm_some_inv (cs : list nat) (vs : list V) c v : first_match cs vs c = Some v ->
  exists k, nth_error cs k = Some c /\ nth_error vs k = Some v.
Proof.
  revert vs. induction cs as [|c0 cs IH]; intros vs H; [discriminate H|].
  destruct vs as [|v0 vs]; [discriminate H|]. cbn [first_match] in H.
  destruct (Nat.eqb_spec c0 c) as [H1|H1].
  - injection H as H. subst c0 v0. exists 0. split; reflexivity.
  - destruct (IH _ H) as [k [Hk1 Hk2]]. exists (S k). split; assumption.
Qed.

Lemma fm_in (cs : list nat) (vs : list V) c : In c cs -> length cs <= length vs ->
  exists v, first_match cs vs c = Some v.
Proof.
  revert vs. induction cs as [|c0 cs IH]; intros vs Hin Hlen; [destruct Hin|].
  destruct vs as [|v0 vs]; [cbn [length] in Hlen; lia|]. cbn [first_match].
  destruct (Nat.eqb_spec c0 c) as [H1|H1].
  - exists v0. reflexivity.
  - destruct Hin as [Hin|Hin]; [contradiction|]. apply IH; [exact Hin|]. cbn [length] in Hlen. lia.
Qed.

Lemma scatter_length (cs : list nat) (vs : list V) row : length (scatter row cs vs) = length row.
Proof.
  revert vs row. induction cs as [|c0 cs IH]; intros vs row; [reflexivity|].
  destruct vs as [|v0 vs]; [reflexivity|]. cbn [scatter]. rewrite IH. apply set_nth_length.
Qed.

Lemma scatter_nth (cs : list nat) (vs : list V) row d c : NoDup cs ->
  (forall x, In x cs -> x < length row) ->
  nth c (scatter row cs vs) d =
  match first_match cs vs c with Some v => v | None => nth c row d end.
Proof.
  revert vs row. induction cs as [|c0 cs IH]; intros vs row Hnd Hr; [reflexivity|].
  destruct vs as [|v0 vs]; [reflexivity|]. cbn [scatter first_match].
  inversion Hnd as [|x l Hnotin Hnd']; subst x l.
  rewrite IH.
  - destruct (Nat.eqb_spec c0 c) as [H1|H1].
    + subst c0. rewrite (fm_notin cs vs c Hnotin). apply nth_set_nth_same. apply Hr. left. reflexivity.
    + rewrite nth_set_nth_other by (intro Hx; apply H1; symmetry; exact Hx). reflexivity.
  - exact Hnd'.
  - intros x Hx. rewrite set_nth_length. apply Hr. right. exact Hx.
Qed.

Lemma mask_in (cs : list nat) (vs : list V) q c : In c (mask_eq veqb cs vs q) <->
  exists k, nth_error cs k = Some c /\ nth_error vs k = Some q.
Proof.
  revert vs. induction cs as [|c0 cs IH]; intros vs.
  - cbn [mask_eq]. split; [intros []|]. intros [k [Hk _]]. destruct k; discriminate Hk.
  - destruct vs as [|v0 vs].
    + cbn [mask_eq]. split; [intros []|]. intros [k [_ Hk]]. destruct k; discriminate Hk.
    + cbn [mask_eq]. destruct (veqb v0 q) eqn:E.
      * apply veqb_eq in E. subst v0. split.
        -- intros [H|H].
           ++ subst c0. exists 0. split; reflexivity.
           ++ apply IH in H. destruct H as [k [H1 H2]]. exists (S k). split; assumption.
        -- intros [k [H1 H2]]. destruct k as [|k]; cbn [nth_error] in H1, H2.
           ++ injection H1 as H1. left. exact H1.
           ++ right. apply IH. exists k. split; assumption.
      * split.
        -- intro H. apply IH in H. destruct H as [k [H1 H2]]. exists (S k). split; assumption.
        -- intros [k [H1 H2]]. destruct k as [|k]; cbn [nth_error] in H1, H2.
           ++ injection H2 as H2. subst v0. assert (Ht : veqb q q = true) by (apply veqb_eq; reflexivity).
              rewrite Ht in E. discriminate E.
           ++ apply IH. exists k. split; assumption.
Qed.

Lemma mask_nodup (cs : list nat) (vs : list V) q : NoDup cs -> NoDup (mask_eq veqb cs vs q).
Proof.
  revert vs. induction cs as [|c0 cs IH]; intros vs Hnd; [constructor|].
  destruct vs as [|v0 vs]; [constructor|]. cbn [mask_eq].
  inversion Hnd as [|x l Hnotin Hnd']; subst x l.
  destruct (veqb v0 q).
  - constructor; [|apply IH; exact Hnd'].
    intro Hin. apply mask_in in Hin. destruct Hin as [k [Hk _]]. apply Hnotin.
    eapply nth_error_In. exact Hk.
  - apply IH. exact Hnd'.
Qed.

(* ---------- row slices of a well-formed matrix ---------- *)
Lemma wf_row_bounds m r : WF m -> r < nrows m ->
  row_start m r <= row_end m r /\ row_end m r <= length (cols m).
Proof.
  intros Hwf Hr. unfold row_start, row_end. split.
  - apply (wf_mono m Hwf); lia.
  - rewrite <- (wf_last m Hwf). apply (wf_mono m Hwf); lia.
Qed.

Lemma row_cols_length m r : WF m -> r < nrows m ->
  length (row_cols m r) = row_end m r - row_start m r.
Proof.
  intros Hwf Hr. destruct (wf_row_bounds m r Hwf Hr) as [H1 H2].
  unfold row_cols. rewrite slice_length. lia.
Qed.

Lemma row_vals_length m r : WF m -> r < nrows m ->
  length (row_vals m r) = row_end m r - row_start m r.
Proof.
  intros Hwf Hr. destruct (wf_row_bounds m r Hwf Hr) as [H1 H2].
  unfold row_vals. rewrite slice_length, (wf_vals m Hwf). lia.
Qed.

(* `den` is the unique reading: ANY stored entry (r, c) -> v of a well-formed matrix is what
   den returns, and a column that is not stored reads zero *)
Lemma den_stored m r c k v : WF m -> r < nrows m ->
  nth_error (row_cols m r) k = Some c -> nth_error (row_vals m r) k = Some v -> den m r c = v.
Proof.
  intros Hwf Hr Hc Hv. unfold den.
  rewrite (fm_nth _ _ k c v (wf_nodup m Hwf r Hr) Hc Hv). reflexivity.
Qed.

Lemma den_absent (m : csr) r c : ~ In c (row_cols m r) -> den m r c = zero.
Proof.
  intro H. unfold den. rewrite fm_notin by exact H. reflexivity.
Qed.

(* ---------- reading ---------- *)
Lemma getitem_cell_spec (m : csr) r c : (0 <= r < Z.of_nat (nrows m))%Z -> (0 <= c < Z.of_nat (ncols m))%Z ->
  getitem_cell zero m r c = Ok (den m (Z.to_nat r) (Z.to_nat c)).
Proof.
  intros Hr Hc. unfold getitem_cell. rewrite (check_bounds_ok _ _ _ _ Hr Hc). reflexivity.
Qed.

Lemma getitem_cell_oob (m : csr) r c :
  ~ ((0 <= r < Z.of_nat (nrows m))%Z /\ (0 <= c < Z.of_nat (ncols m))%Z) ->
  getitem_cell zero m r c = Err IndexError.
Proof.
  intro H. unfold getitem_cell. rewrite (check_bounds_err _ _ _ _ H). reflexivity.
Qed.

Lemma getitem_row_spec m r : WF m -> (0 <= r < Z.of_nat (nrows m))%Z ->
  getitem_row zero m r = Ok (map (den m (Z.to_nat r)) (seq 0 (ncols m))).
Proof.
  intros Hwf Hr. unfold getitem_row.
  pose proof (proj2 (in_range_true r (nrows m)) Hr) as Hir. rewrite Hir.
  assert (Hr' : Z.to_nat r < nrows m) by lia.
  f_equal.
  apply (nth_ext _ _ zero (den m (Z.to_nat r) 0)).
  - rewrite scatter_length, repeat_length, map_length, seq_length. reflexivity.
  - intros n Hn. rewrite scatter_length, repeat_length in Hn.
    rewrite map_nth, seq_nth by exact Hn. cbn [Nat.add].
    rewrite scatter_nth.
    + unfold den. rewrite nth_repeat. reflexivity.
    + apply (wf_nodup m Hwf). exact Hr'.
    + intros x Hx. rewrite repeat_length. apply (wf_range m Hwf (Z.to_nat r)); assumption.
Qed.

Lemma getitem_row_oob (m : csr) r : ~ (0 <= r < Z.of_nat (nrows m))%Z ->
  getitem_row zero m r = Err (if (r <? 0)%Z then ValueError else IndexError).
Proof.
  intro H. unfold getitem_row.
  destruct (in_range r (nrows m)) eqn:E.
  - apply in_range_true in E. contradiction.
  - destruct (r <? 0)%Z; reflexivity.
Qed.

(* value -> columns: exactly the columns whose dense value is the query, each once;
   for stored values, for the default and for absent values alike *)
Lemma col_indices_spec m r q : WF m -> NZ m -> (0 <= r < Z.of_nat (nrows m))%Z ->
  exists l, col_indices_of_val veqb zero m r q = Ok l /\ NoDup l /\
            forall c, In c l <-> (c < ncols m /\ den m (Z.to_nat r) c = q).
Proof.
  intros Hwf Hnz Hr. unfold col_indices_of_val.
  pose proof (proj2 (in_range_true r (nrows m)) Hr) as Hir. rewrite Hir.
  assert (Hr' : Z.to_nat r < nrows m) by lia.
  set (r' := Z.to_nat r) in *.
  destruct (veqb q zero) eqn:Eq.
  - apply veqb_eq in Eq. subst q.
    eexists. split; [reflexivity|]. split.
    + apply NoDup_filter. apply seq_NoDup.
    + intro c. rewrite filter_In, in_seq, negb_true_iff. split.
      * intros [Hc Hex]. split; [lia|]. apply den_absent. intro Hin.
        assert (Ht : existsb (Nat.eqb c) (row_cols m r') = true).
        { apply existsb_exists. exists c. split; [exact Hin|apply Nat.eqb_refl]. }
        rewrite Ht in Hex. discriminate Hex.
      * intros [Hc Hd]. split; [lia|].
        destruct (existsb (Nat.eqb c) (row_cols m r')) eqn:Ex; [|reflexivity]. exfalso.
        apply existsb_exists in Ex. destruct Ex as [x [Hx Hcx]]. apply Nat.eqb_eq in Hcx. subst x.
        destruct (fm_in (row_cols m r') (row_vals m r') c Hx) as [v Hv].
        { rewrite row_cols_length, row_vals_length by assumption. lia. }
        unfold den in Hd. rewrite Hv in Hd. subst v.
        apply fm_some_inv in Hv. destruct Hv as [k [_ Hk]]. apply nth_error_In in Hk.
        unfold row_vals in Hk. apply In_slice in Hk. exact (Hnz _ Hk eq_refl).
  - eexists. split; [reflexivity|]. split.
    + apply mask_nodup. apply (wf_nodup m Hwf). exact Hr'.
    + intro c. rewrite mask_in. split.
      * intros [k [Hk1 Hk2]]. split.
        -- apply (wf_range m Hwf r'); [exact Hr'|]. eapply nth_error_In. exact Hk1.
        -- eapply den_stored; eassumption.
      * intros [Hc Hd]. unfold den in Hd.
        destruct (first_match (row_cols m r') (row_vals m r') c) as [v|] eqn:Ef.
        -- subst v. apply fm_some_inv in Ef. exact Ef.
        -- subst q. assert (Ht : veqb zero zero = true) by (apply veqb_eq; reflexivity).
           rewrite Ht in Eq. discriminate Eq.
Qed.

Lemma col_indices_oob (m : csr) r q : ~ (0 <= r < Z.of_nat (nrows m))%Z ->
  col_indices_of_val veqb zero m r q = Err IndexError.
Proof.
  intro H. unfold col_indices_of_val.
  destruct (in_range r (nrows m)) eqn:E; [|reflexivity].
  apply in_range_true in E. contradiction.
Qed.

(* ---------- building ---------- *)
Lemma slice_nil {A} a b : slice (@nil A) a b = [].
Proof. unfold slice. rewrite skipn_nil. apply firstn_nil. Qed.

Lemma init_inv R C : Inv (builder_init V R C) /\ NZ (builder_init V R C) /\
  forall r c, den (builder_init V R C) r c = zero.
Proof.
  assert (Hrc : forall r, row_cols (builder_init V R C) r = []).
  { intro r. unfold row_cols, builder_init. cbn [cols]. apply slice_nil. }
  split; [|split].
  - split.
    + constructor; unfold builder_init; cbn [indptr cols vals nrows ncols].
      * apply repeat_length.
      * reflexivity.
      * intros i j Hij Hj. rewrite !nth_repeat. lia.
      * rewrite nth_repeat. reflexivity.
      * reflexivity.
      * intros r c Hr Hin. rewrite Hrc in Hin. destruct Hin.
      * intros r Hr. rewrite Hrc. constructor.
    + intros r Hr. rewrite Hrc. constructor.
  - intros v Hin. destruct Hin.
  - intros r c. apply den_absent. rewrite Hrc. intros [].
Qed.

Lemma setitem_oob (b : csr) r c (v : V) :
  ~ ((0 <= r < Z.of_nat (nrows b))%Z /\ (0 <= c < Z.of_nat (ncols b))%Z) ->
  setitem b r c v = Err IndexError.
Proof.
  intro H. unfold setitem. rewrite (check_bounds_err _ _ _ _ H). reflexivity.
Qed.

(* lookups after the builder's insertion / in-place update *)
Lemma fm_insert (cs : list nat) (vs : list V) q v a c' : length cs = length vs ->
  scan cs q = (a, false) ->
  first_match (insert_at a q cs) (insert_at a v vs) c' =
  if c' =? q then Some v else first_match cs vs c'.
Proof.
  revert vs a. induction cs as [|c0 cs IH]; intros vs a Hlen H; cbn [scan] in H.
  - injection H as Ha. subst a. rewrite !insert_at_0.
    destruct vs as [|v0 vs]; [|discriminate Hlen]. cbn [first_match].
    rewrite (Nat.eqb_sym q c'). destruct (c' =? q); reflexivity.
  - destruct vs as [|v0 vs]; [discriminate Hlen|]. cbn [length] in Hlen. injection Hlen as Hlen.
    destruct (Nat.ltb_spec c0 q) as [H1|H1].
    + destruct (scan cs q) as [a' u'] eqn:E. injection H as Ha Hu. subst a u'.
      rewrite !insert_at_cons. cbn [first_match]. rewrite (IH vs a' Hlen eq_refl).
      destruct (Nat.eqb_spec c0 c') as [H2|H2]; destruct (Nat.eqb_spec c' q) as [H3|H3];
        try reflexivity. lia.
    + injection H as Ha Hu. subst a. rewrite !insert_at_0. cbn [first_match].
      rewrite (Nat.eqb_sym q c'). destruct (c' =? q); reflexivity.
Qed.

Lemma fm_update (cs : list nat) (vs : list V) q v a c' : length cs = length vs ->
  scan cs q = (a, true) ->
  first_match cs (set_nth a v vs) c' = if c' =? q then Some v else first_match cs vs c'.
Proof.
  revert vs a. induction cs as [|c0 cs IH]; intros vs a Hlen H; cbn [scan] in H.
  - discriminate H.
  - destruct vs as [|v0 vs]; [discriminate Hlen|]. cbn [length] in Hlen. injection Hlen as Hlen.
    destruct (Nat.ltb_spec c0 q) as [H1|H1].
    + destruct (scan cs q) as [a' u'] eqn:E. injection H as Ha Hu. subst a u'.
      cbn [set_nth first_match]. rewrite (IH vs a' Hlen eq_refl).
      destruct (Nat.eqb_spec c0 c') as [H2|H2]; destruct (Nat.eqb_spec c' q) as [H3|H3];
        try reflexivity. lia.
    + injection H as Ha Hu. subst a. apply Nat.eqb_eq in Hu. subst c0.
      cbn [set_nth first_match]. rewrite (Nat.eqb_sym q c'). destruct (c' =? q); reflexivity.
Qed.

(* the row slices after an insertion into row qrow at offset adj *)
Lemma slice_rows {A} (l : list A) (x : A) ip R qrow adj r' :
  (forall i j, i <= j -> j <= R -> nth i ip 0 <= nth j ip 0) ->
  length ip = S R -> nth R ip 0 = length l -> qrow < R -> r' < R ->
  adj <= nth (S qrow) ip 0 - nth qrow ip 0 ->
  slice (insert_at (nth qrow ip 0 + adj) x l)
        (nth r' (bump_after qrow 0 ip) 0) (nth (S r') (bump_after qrow 0 ip) 0) =
  if r' =? qrow then insert_at adj x (slice l (nth qrow ip 0) (nth (S qrow) ip 0))
  else slice l (nth r' ip 0) (nth (S r') ip 0).
Proof.
  intros Hmono Hlen Hlast Hq Hr Hadj.
  rewrite !nth_bump_after by lia. cbn [Nat.add].
  pose proof (Hmono qrow (S qrow) ltac:(lia) ltac:(lia)) as Hse.
  pose proof (Hmono (S qrow) R ltac:(lia) ltac:(lia)) as Hel.
  destruct (Nat.eqb_spec r' qrow) as [He|He].
  - subst r'.
    destruct (Nat.ltb_spec qrow qrow) as [H1|H1]; [lia|].
    destruct (Nat.ltb_spec qrow (S qrow)) as [H2|H2]; [|lia].
    apply slice_insert_in; lia.
  - destruct (Nat.ltb_spec qrow r') as [H1|H1].
    + destruct (Nat.ltb_spec qrow (S r')) as [H2|H2]; [|lia].
      pose proof (Hmono (S qrow) r' ltac:(lia) ltac:(lia)) as Hm.
      apply slice_insert_after; lia.
    + destruct (Nat.ltb_spec qrow (S r')) as [H2|H2]; [lia|].
      pose proof (Hmono (S r') qrow ltac:(lia) ltac:(lia)) as Hm.
      apply slice_insert_before; lia.
Qed.

(* one in-bounds assignment: invariant kept, shape kept, and the denoted dense matrix is
   updated at exactly that cell (last write wins, nothing else changes) *)
Lemma setitem_spec (b : csr) r c (v : V) : Inv b ->
  (0 <= r < Z.of_nat (nrows b))%Z -> (0 <= c < Z.of_nat (ncols b))%Z ->
  exists b', setitem b r c v = Ok b' /\ Inv b' /\ nrows b' = nrows b /\ ncols b' = ncols b /\
    (forall r' c', r' < nrows b -> c' < ncols b ->
        den b' r' c' = dense_upd (den b) (Z.to_nat r) (Z.to_nat c) v r' c') /\
    (NZ b -> v <> zero -> NZ b').
Proof.
  intros [Hwf Hsort] Hr Hc. unfold setitem.
  rewrite (check_bounds_ok _ _ _ _ Hr Hc). cbn [bind].
  assert (Hqr : Z.to_nat r < nrows b) by lia.
  assert (Hqc : Z.to_nat c < ncols b) by lia.
  set (qrow := Z.to_nat r) in *. set (qcol := Z.to_nat c) in *.
  destruct (wf_row_bounds b qrow Hwf Hqr) as [Hse Hel].
  pose proof (row_cols_length b qrow Hwf Hqr) as Hlc.
  pose proof (row_vals_length b qrow Hwf Hqr) as Hlv.
  destruct (scan (row_cols b qrow) qcol) as [adj upd] eqn:Esc.
  pose proof (scan_le _ _ _ _ Esc) as Hadj.
  destruct upd.
  - (* in-place update of a stored cell *)
    pose proof (scan_true_lt _ _ _ Esc) as Hadj'.
    set (b' := mkCsr (indptr b) (cols b) (set_nth (row_start b qrow + adj) v (vals b)) (nrows b) (ncols b)).
    assert (Hrc : forall r', row_cols b' r' = row_cols b r') by reflexivity.
    assert (Hrv : forall r', r' < nrows b ->
              row_vals b' r' = if r' =? qrow then set_nth adj v (row_vals b qrow) else row_vals b r').
    { intros r' Hr'. unfold b', row_vals, row_start, row_end. cbn [indptr vals].
      destruct (Nat.eqb_spec r' qrow) as [He|He].
      - subst r'. apply slice_set_nth_in.
      - unfold row_start, row_end in Hse, Hel, Hlc, Hadj'. rewrite Hlc in Hadj'.
        destruct (Nat.lt_ge_cases r' qrow) as [Hlt|Hge].
        + apply slice_set_nth_before.
          pose proof (wf_mono b Hwf (S r') qrow ltac:(lia) ltac:(lia)) as Hm. lia.
        + apply slice_set_nth_after.
          pose proof (wf_mono b Hwf (S qrow) r' ltac:(lia) ltac:(lia)) as Hm. lia. }
    exists b'. split; [reflexivity|]. split; [|split; [reflexivity|split; [reflexivity|split]]].
    + split.
      * constructor; unfold b' at 1; cbn [indptr cols vals nrows ncols].
        -- apply (wf_len b Hwf).
        -- apply (wf_first b Hwf).
        -- apply (wf_mono b Hwf).
        -- apply (wf_last b Hwf).
        -- rewrite set_nth_length. apply (wf_vals b Hwf).
        -- intros r0 c0 Hr0 Hin. rewrite Hrc in Hin. apply (wf_range b Hwf r0); assumption.
        -- intros r0 Hr0. rewrite Hrc. apply (wf_nodup b Hwf); assumption.
      * intros r0 Hr0. rewrite Hrc. apply Hsort. exact Hr0.
    + intros r' c' Hr' Hc'. unfold den, dense_upd. rewrite Hrc, (Hrv r' Hr').
      destruct (Nat.eqb_spec r' qrow) as [He|He]; cbn [andb].
      * subst r'. rewrite (fm_update _ _ qcol v adj c') by (try exact Esc; lia).
        destruct (c' =? qcol); reflexivity.
      * reflexivity.
    + intros Hnz Hv x Hx. unfold b' in Hx. cbn [vals] in Hx. apply In_set_nth in Hx.
      destruct Hx as [Hx|Hx]; [subst x; exact Hv|apply Hnz; exact Hx].
  - (* insertion of a new cell *)
    set (b' := mkCsr (bump_after qrow 0 (indptr b)) (insert_at (row_start b qrow + adj) qcol (cols b))
                     (insert_at (row_start b qrow + adj) v (vals b)) (nrows b) (ncols b)).
    rewrite Hlc in Hadj.
    assert (Hrc : forall r', r' < nrows b ->
              row_cols b' r' = if r' =? qrow then insert_at adj qcol (row_cols b qrow) else row_cols b r').
    { intros r' Hr'. unfold b', row_cols, row_start, row_end. cbn [indptr cols].
      apply (slice_rows (cols b) qcol (indptr b) (nrows b) qrow adj r');
        [apply (wf_mono b Hwf)|apply (wf_len b Hwf)|apply (wf_last b Hwf)|exact Hqr|exact Hr'|exact Hadj]. }
    assert (Hrv : forall r', r' < nrows b ->
              row_vals b' r' = if r' =? qrow then insert_at adj v (row_vals b qrow) else row_vals b r').
    { intros r' Hr'. unfold b', row_vals, row_start, row_end. cbn [indptr vals].
      apply (slice_rows (vals b) v (indptr b) (nrows b) qrow adj r');
        [apply (wf_mono b Hwf)|apply (wf_len b Hwf)|rewrite (wf_vals b Hwf); apply (wf_last b Hwf)
        |exact Hqr|exact Hr'|exact Hadj]. }
    assert (Hnth : forall i, i <= nrows b -> nth i (bump_after qrow 0 (indptr b)) 0 =
                     if qrow <? i then S (nth i (indptr b) 0) else nth i (indptr b) 0).
    { intros i Hi. rewrite nth_bump_after by (rewrite (wf_len b Hwf); lia). reflexivity. }
    assert (Hsort' : forall r0, r0 < nrows b -> StronglySorted lt (row_cols b' r0)).
    { intros r0 Hr0. rewrite (Hrc r0 Hr0). destruct (Nat.eqb_spec r0 qrow) as [He|He].
      - apply scan_insert_sorted; [apply Hsort; exact Hqr|exact Esc].
      - apply Hsort. exact Hr0. }
    assert (Hidx : row_start b qrow + adj <= length (cols b)) by lia.
    exists b'. split; [reflexivity|]. split; [|split; [reflexivity|split; [reflexivity|split]]].
    + split.
      * constructor.
        1-5: unfold b'; cbn [indptr cols vals nrows ncols].
        -- rewrite bump_after_length. apply (wf_len b Hwf).
        -- rewrite (Hnth 0) by lia. destruct (Nat.ltb_spec qrow 0) as [H1|H1]; [lia|]. apply (wf_first b Hwf).
        -- intros i j Hij Hj. rewrite (Hnth i), (Hnth j) by lia.
           pose proof (wf_mono b Hwf i j Hij Hj) as Hm.
           destruct (Nat.ltb_spec qrow i) as [H1|H1]; destruct (Nat.ltb_spec qrow j) as [H2|H2]; lia.
        -- rewrite (Hnth (nrows b)) by lia. destruct (Nat.ltb_spec qrow (nrows b)) as [H1|H1]; [|lia].
           rewrite insert_at_length, (wf_last b Hwf). reflexivity.
        -- rewrite !insert_at_length, (wf_vals b Hwf). reflexivity.
        -- intros r0 c0 Hr0 Hin. rewrite (Hrc r0 Hr0) in Hin.
           destruct (Nat.eqb_spec r0 qrow) as [He|He].
           ++ apply In_insert_at in Hin. destruct Hin as [Hin|Hin]; [subst c0; exact Hqc|].
              apply (wf_range b Hwf qrow); assumption.
           ++ apply (wf_range b Hwf r0); assumption.
        -- intros r0 Hr0. apply sorted_lt_nodup. apply Hsort'. exact Hr0.
      * exact Hsort'.
    + intros r' c' Hr' Hc'. unfold den, dense_upd. rewrite (Hrc r' Hr'), (Hrv r' Hr').
      destruct (Nat.eqb_spec r' qrow) as [He|He]; cbn [andb].
      * rewrite (fm_insert _ _ qcol v adj c') by (try exact Esc; lia).
        subst r'. destruct (c' =? qcol); reflexivity.
      * reflexivity.
    + intros Hnz Hv x Hx. unfold b' in Hx. cbn [vals] in Hx. apply In_insert_at in Hx.
      destruct Hx as [Hx|Hx]; [subst x; exact Hv|apply Hnz; exact Hx].
Qed.

(* the refinement for an arbitrary start state *)
Lemma run_gen R C (ops : list (assign V)) : forall (b0 : csr) (d0 : nat -> nat -> V),
  Inv b0 -> nrows b0 = R -> ncols b0 = C ->
  (forall r c, r < R -> c < C -> den b0 r c = d0 r c) ->
  Inv (fold_left step ops b0) /\ nrows (fold_left step ops b0) = R /\
  ncols (fold_left step ops b0) = C /\
  (forall r c, r < R -> c < C ->
     den (fold_left step ops b0) r c = fold_left (dense_step R C) ops d0 r c) /\
  ((forall r c v, In (r, c, v) ops -> v <> zero) -> NZ b0 -> NZ (fold_left step ops b0)).
Proof.
  induction ops as [|a ops IH]; intros b0 d0 Hinv HR HC Hden; cbn [fold_left].
  - split; [exact Hinv|]. split; [exact HR|]. split; [exact HC|]. split; [exact Hden|].
    intros _ Hnz. exact Hnz.
  - destruct a as [[r c] v].
    destruct (in_range r R && in_range c C) eqn:E.
    + apply andb_true_iff in E. destruct E as [Er Ec].
      apply in_range_true in Er. apply in_range_true in Ec.
      assert (Hr' : (0 <= r < Z.of_nat (nrows b0))%Z) by (rewrite HR; exact Er).
      assert (Hc' : (0 <= c < Z.of_nat (ncols b0))%Z) by (rewrite HC; exact Ec).
      destruct (setitem_spec b0 r c v Hinv Hr' Hc') as [b' [Hset [Hinv' [Hnr [Hnc [Hd Hnz']]]]]].
      assert (Hstep : step b0 (r, c, v) = b') by (unfold step; rewrite Hset; reflexivity).
      assert (Hds : dense_step R C d0 (r, c, v) = dense_upd d0 (Z.to_nat r) (Z.to_nat c) v).
      { unfold dense_step. rewrite (check_bounds_ok _ _ _ _ Er Ec). reflexivity. }
      rewrite Hstep, Hds.
      assert (Hden' : forall r0 c0, r0 < R -> c0 < C ->
                den b' r0 c0 = dense_upd d0 (Z.to_nat r) (Z.to_nat c) v r0 c0).
      { intros r0 c0 Hr0 Hc0. rewrite Hd by (rewrite ?HR, ?HC; assumption).
        unfold dense_upd. destruct ((r0 =? Z.to_nat r) && (c0 =? Z.to_nat c)); [reflexivity|].
        apply Hden; assumption. }
      destruct (IH b' _ Hinv' (eq_trans Hnr HR) (eq_trans Hnc HC) Hden')
        as [H1 [H2 [H3 [H4 H5]]]].
      split; [exact H1|]. split; [exact H2|]. split; [exact H3|]. split; [exact H4|].
      intros Hall Hnz. apply H5.
      * intros r1 c1 v1 Hin. apply (Hall r1 c1 v1). right. exact Hin.
      * apply Hnz'; [exact Hnz|]. apply (Hall r c v). left. reflexivity.
    + assert (Hoob : ~ ((0 <= r < Z.of_nat R)%Z /\ (0 <= c < Z.of_nat C)%Z)).
      { intros [Er Ec]. apply in_range_true in Er. apply in_range_true in Ec.
        rewrite Er, Ec in E. discriminate E. }
      assert (Hstep : step b0 (r, c, v) = b0).
      { unfold step. rewrite setitem_oob; [reflexivity|]. rewrite HR, HC. exact Hoob. }
      assert (Hds : dense_step R C d0 (r, c, v) = d0).
      { unfold dense_step. rewrite (check_bounds_err _ _ _ _ Hoob). reflexivity. }
      rewrite Hstep, Hds.
      destruct (IH b0 d0 Hinv HR HC Hden) as [H1 [H2 [H3 [H4 H5]]]].
      split; [exact H1|]. split; [exact H2|]. split; [exact H3|]. split; [exact H4|].
      intros Hall Hnz. apply H5; [|exact Hnz].
      intros r1 c1 v1 Hin. apply (Hall r1 c1 v1). right. exact Hin.
Qed.

(* every history of assignments (any order, repeats, overwrites, out-of-range ones that raise):
   the builder stays a valid CSR and denotes the dense matrix of the history *)
Theorem builder_refines_dense R C (ops : list (assign V)) :
  let b := run R C ops in
  Inv b /\ nrows b = R /\ ncols b = C /\
  (forall r c, r < R -> c < C -> den b r c = dense_of zero R C ops r c) /\
  ((forall r c v, In (r, c, v) ops -> v <> zero) -> NZ b).
Proof.
  cbv zeta. unfold run, dense_of.
  destruct (init_inv R C) as [Hinv [Hnz Hz]].
  destruct (run_gen R C ops (builder_init V R C) (dense_zero zero) Hinv eq_refl eq_refl)
    as [H1 [H2 [H3 [H4 H5]]]].
  { intros r c _ _. rewrite Hz. reflexivity. }
  split; [exact H1|]. split; [exact H2|]. split; [exact H3|]. split; [exact H4|].
  intro Hall. apply H5; [exact Hall|exact Hnz].
Qed.

End CsrProofs.

Print Assumptions builder_refines_dense.
Print Assumptions col_indices_spec.
Print Assumptions getitem_row_spec.
