(* Specification of the version extraction (DATE_PATTERN = '.*/(?P<date>\d{4}-\d{2}-\d{2})/.*', search):
   the date of the LAST position at which "/dddd-dd-dd/" occurs. *)
From Coq Require Import String Ascii List Bool Arith Lia.
From Hpotk Require Import Base.Result Base.Str Graph.Model Io.Model Obographs.Model.
Import ListNotations.
Notation length := String.length.
Open Scope string_scope.

(* dddd-dd-dd *)
Definition is_dateb (d : string) : bool :=
  match d with
  | String a (String b (String c (String d (String "-" (String e (String f (String "-" (String g (String h EmptyString))))))))) =>
      is_digit a && is_digit b && is_digit c && is_digit d && is_digit e && is_digit f && is_digit g && is_digit h
  | _ => false
  end.

Ltac next_char H s c := destruct s as [|c s]; [cbn in H; discriminate H|].
Ltac lit_char H c := destruct c as [[] [] [] [] [] [] [] []]; try (cbn in H; discriminate H).

Lemma date_at_spec s d : date_at s = Some d <-> (is_dateb d = true /\ exists post, s = "/" ++ d ++ "/" ++ post).
Proof.
  split.
  - intro H. unfold date_at in H.
    next_char H s k0. lit_char H k0.
    next_char H s k1. next_char H s k2. next_char H s k3. next_char H s k4.
    next_char H s k5. lit_char H k5.
    next_char H s k6. next_char H s k7.
    next_char H s k8. lit_char H k8.
    next_char H s k9. next_char H s k10.
    next_char H s k11. lit_char H k11.
    cbn in H.
    match type of H with (if ?b then _ else _) = _ => destruct b eqn:E; [|discriminate H] end.
    inversion H; subst; clear H. split; [exact E | exists s; reflexivity].
  - intros [Hd [post ->]]. unfold is_dateb in Hd.
    next_char Hd d k1. next_char Hd d k2. next_char Hd d k3. next_char Hd d k4.
    next_char Hd d k5. lit_char Hd k5.
    next_char Hd d k6. next_char Hd d k7.
    next_char Hd d k8. lit_char Hd k8.
    next_char Hd d k9. next_char Hd d k10.
    destruct d; [|cbn in Hd; discriminate Hd].
    cbn [append date_at]. cbn in Hd. cbn. rewrite Hd. reflexivity.
Qed.

(* ---- the LAST occurrence ---- *)
Definition last_date_post (s : string) (o : option string) : Prop :=
  match o with
  | Some d => exists pre t, s = pre ++ t /\ date_at t = Some d /\
                            (forall pre' t', s = pre' ++ t' -> String.length pre < String.length pre' -> date_at t' = None)
  | None => forall pre t, s = pre ++ t -> date_at t = None
  end.

Lemma last_date_post_holds s : last_date_post s (last_date s).
Proof.
  induction s as [|c r IH].
  - cbn [last_date last_date_post]. intros pre t E. destruct pre; cbn in E; [subst t; reflexivity | discriminate].
  - cbn [last_date]. destruct (last_date r) as [d|] eqn:L.
    + cbn [last_date_post] in *. destruct IH as (pre & t & E & D & M). exists (String c pre), t. split; [cbn [append]; rewrite E; reflexivity|].
      split; [exact D|]. intros pre' t' E' Hl. destruct pre' as [|c' pre'']; [cbn in Hl; lia|].
      cbn [append] in E'. injection E' as _ Er. apply (M pre'' t'); [congruence | cbn [String.length] in Hl; lia].
    + cbn [last_date_post] in IH. destruct (date_at (String c r)) as [d|] eqn:D.
      * cbn [last_date_post]. exists "", (String c r). split; [reflexivity|]. split; [exact D|].
        intros pre' t' E' Hl. destruct pre' as [|c' pre'']; [cbn in Hl; lia|]. cbn [append] in E'. injection E' as _ Er.
        exact (IH pre'' t' Er).
      * cbn [last_date_post]. intros pre t E. destruct pre as [|c' pre'']; [cbn in E; subst t; exact D|].
        cbn [append] in E. injection E as _ Er. exact (IH pre'' t Er).
Qed.

Lemma app_length_s (a b : string) : length (a ++ b) = length a + length b.
Proof. induction a as [|c a IH]; cbn [append length]; [reflexivity | rewrite IH; reflexivity]. Qed.
Lemma app_inj_len (a b a' b' : string) : a ++ b = a' ++ b' -> length a = length a' -> a = a' /\ b = b'.
Proof.
  revert a'. induction a as [|c a IH]; intros a' E L; destruct a' as [|c' a']; cbn [length] in L; try discriminate.
  - cbn in E. auto.
  - cbn [append] in E. inversion E; subst. destruct (IH a' H1 ltac:(lia)) as [-> ->]. auto.
Qed.

(* the postcondition determines the answer: it IS the specification *)
Theorem last_date_unique s o o' : last_date_post s o -> last_date_post s o' -> o = o'.
Proof.
  destruct o as [d|], o' as [d'|]; cbn [last_date_post].
  - intros (pre & t & E & D & M) (pre' & t' & E' & D' & M').
    destruct (Nat.lt_trichotomy (length pre) (length pre')) as [Hl|[Hl|Hl]].
    + rewrite (M pre' t' E' Hl) in D'. discriminate.
    + rewrite E in E'. destruct (app_inj_len _ _ _ _ E' Hl) as [_ ->]. rewrite D in D'. exact D'.
    + rewrite (M' pre t E Hl) in D. discriminate.
  - intros (pre & t & E & D & _) N. rewrite (N pre t E) in D. discriminate.
  - intros N (pre & t & E & D & _). rewrite (N pre t E) in D. discriminate.
  - reflexivity.
Qed.

(* extract_ontology_version for a 'version' entry: the date dddd-dd-dd of the last "/dddd-dd-dd/" in it
   (whatever else the string contains), None when there is none *)
Theorem last_date_spec s o : last_date s = o <-> last_date_post s o.
Proof.
  split; [intros <-; apply last_date_post_holds | intro H; exact (last_date_unique s _ _ (last_date_post_holds s) H)].
Qed.

Theorem version_spec (m : gmeta) (v : string) : gm_version m = Some v ->
  forall o, version_of m = o <->
    match o with
    | Some d => is_dateb d = true /\ exists pre post, v = pre ++ "/" ++ d ++ "/" ++ post /\
                  (forall pre' d' post', v = pre' ++ "/" ++ d' ++ "/" ++ post' -> is_dateb d' = true -> length pre' <= length pre)
    | None => forall pre d post, v = pre ++ "/" ++ d ++ "/" ++ post -> is_dateb d = false
    end.
Proof.
  intros Hv o. unfold version_of. rewrite Hv. rewrite last_date_spec. destruct o as [d|]; cbn [last_date_post].
  - split.
    + intros (pre & t & E & D & M). apply date_at_spec in D. destruct D as [Hd [post ->]]. split; [exact Hd|].
      exists pre, post. split; [exact E|]. intros pre' d' post' E' Hd'.
      destruct (Nat.le_gt_cases (length pre') (length pre)) as [Hl|Hl]; [exact Hl|].
      assert (X : date_at ("/" ++ d' ++ "/" ++ post') = Some d') by (apply date_at_spec; split; [exact Hd' | eexists; reflexivity]).
      rewrite (M pre' _ E' Hl) in X. discriminate.
    + intros (Hd & pre & post & E & M). exists pre, ("/" ++ d ++ "/" ++ post). split; [exact E|].
      split; [apply date_at_spec; split; [exact Hd | eexists; reflexivity]|].
      intros pre' t' E' Hl. destruct (date_at t') as [d'|] eqn:D'; [|reflexivity].
      apply date_at_spec in D'. destruct D' as [Hd' [post' ->]]. specialize (M pre' d' post' E' Hd'). lia.
  - split.
    + intros N pre d post E. destruct (is_dateb d) eqn:Hd; [|reflexivity].
      assert (X : date_at ("/" ++ d ++ "/" ++ post) = Some d) by (apply date_at_spec; split; [exact Hd | eexists; reflexivity]).
      rewrite (N pre _ E) in X. discriminate.
    + intros N pre t E. destruct (date_at t) as [d|] eqn:D; [|reflexivity].
      apply date_at_spec in D. destruct D as [Hd [post ->]]. rewrite (N pre d post E) in Hd. discriminate.
Qed.

(* the other encoding: the value of the FIRST basic property value that has both a pred and a val and whose
   pred ends with "#versionInfo" (whatever the value looks like); None when there is none *)
Definition is_version_bpv (b : bpv) : bool := match b with (Some p, Some _) => ssuffixb "#versionInfo" p | _ => false end.

Lemma find_first {A} (f : A -> bool) (l : list A) :
  match find f l with
  | Some x => exists l1 l2, l = (l1 ++ x :: l2)%list /\ f x = true /\ forall y, In y l1 -> f y = false
  | None => forall y, In y l -> f y = false
  end.
Proof.
  induction l as [|a l IH]; cbn [find]; [intros y []|]. destruct (f a) eqn:Fa.
  - exists [], l. split; [reflexivity|]. split; [exact Fa | intros y []].
  - destruct (find f l) as [x|].
    + destruct IH as (l1 & l2 & -> & Fx & N). exists (a :: l1), l2. split; [reflexivity|]. split; [exact Fx|].
      intros y [<-|Hy]; [exact Fa | exact (N y Hy)].
    + intros y [<-|Hy]; [exact Fa | exact (IH y Hy)].
Qed.

Theorem version_bpv_spec (m : gmeta) (l : list bpv) : gm_version m = None -> gm_bpvs m = Some l ->
  match version_of m with
  | Some v => exists l1 p l2, l = (l1 ++ (Some p, Some v) :: l2)%list /\ ssuffixb "#versionInfo" p = true /\
                              forall b, In b l1 -> is_version_bpv b = false
  | None => forall b, In b l -> is_version_bpv b = false
  end.
Proof.
  intros Hv Hb.
  assert (E : version_of m = match find is_version_bpv l with Some (_, v) => v | None => None end)
    by (unfold version_of; rewrite Hv, Hb; reflexivity).
  rewrite E. clear E.
  generalize (find_first is_version_bpv l). destruct (find is_version_bpv l) as [[p v]|]; intro F.
  - destruct F as (l1 & l2 & -> & Fx & N). destruct p as [p|]; [|discriminate Fx]. destruct v as [v|]; [|discriminate Fx].
    exists l1, p, l2. split; [reflexivity|]. split; [exact Fx | exact N].
  - exact F.
Qed.

Theorem version_absent (m : gmeta) : gm_version m = None -> gm_bpvs m = None -> version_of m = None.
Proof. intros Hv Hb. unfold version_of. rewrite Hv, Hb. reflexivity. Qed.

(* the loaded ontology carries that version *)
Theorem load_version full f P dc l : load full f P dc = Ok l -> ld_version l = version_of (d_meta dc).
Proof.
  unfold load. destruct (extract_terms full P (d_nodes dc)) as [[dict terms]|e]; cbn [bind]; [|discriminate].
  destruct (create f _) as [g|e]; cbn [bind]; [|discriminate]. intro H. injection H as <-. reflexivity.
Qed.

Print Assumptions version_spec.
Print Assumptions version_bpv_spec.
