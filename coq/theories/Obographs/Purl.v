(* Specification of the CURIE extraction (PURL_PATTERN = 'http://purl\.obolibrary\.org/obo/(?P<curie>(?P<prefix>\w+)_(?P<id>\w+))', match):
   the text must START with the OBO PURL prefix; the CURIE is the MAXIMAL run of word characters that follows, and it
   must contain an underscore that is neither its first nor its last character (so that both \w+ groups are non-empty).
   Whatever follows the run is ignored. *)
From Coq Require Import String Ascii List Bool Arith Lia.
From Hpotk Require Import Base.Str Io.Model Io.Proofs Obographs.Model.
Import ListNotations.
Open Scope string_scope.

Fixpoint all_word (s : string) : bool := match s with EmptyString => true | String c r => is_word c && all_word r end.
Definition starts_nonword (s : string) : bool := match s with EmptyString => true | String c _ => negb (is_word c) end.

Lemma word_run_split s : exists rest, s = word_run s ++ rest /\ all_word (word_run s) = true /\ starts_nonword rest = true.
Proof.
  induction s as [|c s IH]; [exists ""; auto|]. cbn [word_run]. destruct (is_word c) eqn:W.
  - destruct IH as (rest & E & A & N). exists rest. split; [cbn [append]; rewrite <- E; reflexivity|]. split; [cbn [all_word]; rewrite W, A; reflexivity | exact N].
  - exists (String c s). split; [reflexivity|]. split; [reflexivity | cbn [starts_nonword]; rewrite W; reflexivity].
Qed.

Lemma word_run_unique r rest : all_word r = true -> starts_nonword rest = true -> word_run (r ++ rest) = r.
Proof.
  induction r as [|c r IH]; intros A N.
  - cbn [append]. destruct rest as [|d rest]; [reflexivity|]. cbn [starts_nonword] in N. cbn [word_run]. apply negb_true_iff in N. rewrite N. reflexivity.
  - cbn [all_word] in A. apply andb_prop in A. destruct A as [Wc Ar]. cbn [append word_run]. rewrite Wc, (IH Ar N). reflexivity.
Qed.

Lemma sdrop_app p s : sdrop (String.length p) (p ++ s) = s.
Proof. induction p as [|c p IH]; [reflexivity | exact IH]. Qed.

(* an inner underscore: the run is a ++ "_" ++ b with both parts non-empty *)
Lemma inner_underscore_tail_spec s : inner_underscore_tail s = true <-> exists a b, s = a ++ String "_" b /\ b <> "".
Proof.
  induction s as [|c s IH]; cbn [inner_underscore_tail].
  - split; [discriminate | intros (a & b & E & _); destruct a; discriminate].
  - destruct s as [|d s'].
    + split; [discriminate|]. intros (a & b & E & Hb). destruct a as [|x a]; cbn [append] in E.
      * injection E as _ E. subst b. contradiction.
      * injection E as _ E. destruct a; discriminate.
    + rewrite orb_true_iff, IH. split.
      * intros [H|(a & b & E & Hb)].
        -- apply Ascii.eqb_eq in H. subst c. exists "", (String d s'). split; [reflexivity | discriminate].
        -- exists (String c a), b. split; [cbn [append]; rewrite E; reflexivity | exact Hb].
      * intros (a & b & E & Hb). destruct a as [|x a]; cbn [append] in E.
        -- injection E as -> _. left. reflexivity.
        -- injection E as -> E. right. exists a, b. auto.
Qed.

Lemma has_inner_underscore_spec r : has_inner_underscore r = true <-> exists a b, r = a ++ String "_" b /\ a <> "" /\ b <> "".
Proof.
  unfold has_inner_underscore. destruct r as [|c r].
  - split; [discriminate | intros (a & b & E & _); destruct a; discriminate].
  - rewrite inner_underscore_tail_spec. split.
    + intros (a & b & E & Hb). exists (String c a), b. split; [cbn [append]; rewrite E; reflexivity|]. split; [discriminate | exact Hb].
    + intros (a & b & E & Ha & Hb). destruct a as [|x a]; [contradiction|]. cbn [append] in E. injection E as _ E. exists a, b. auto.
Qed.

Theorem purl_curie_spec (p c : string) :
  purl_curie p = Some c <->
  exists rest, p = purl_prefix ++ c ++ rest /\ all_word c = true /\ starts_nonword rest = true /\
               exists a b, c = a ++ String "_" b /\ a <> "" /\ b <> "".
Proof.
  unfold purl_curie. split.
  - destruct (sprefixb purl_prefix p) eqn:Pf; [|discriminate]. apply sprefixb_iff in Pf. destruct Pf as [tail ->].
    rewrite sdrop_app. destruct (has_inner_underscore (word_run tail)) eqn:U; [|discriminate]. intro H. injection H as <-.
    destruct (word_run_split tail) as (rest & E & A & N). exists rest. split; [rewrite <- E; reflexivity|]. split; [exact A|]. split; [exact N|].
    apply has_inner_underscore_spec. exact U.
  - intros (rest & -> & A & N & U). assert (Pf : sprefixb purl_prefix (purl_prefix ++ c ++ rest) = true) by (apply sprefixb_iff; eexists; reflexivity).
    rewrite Pf, sdrop_app, (word_run_unique c rest A N). apply has_inner_underscore_spec in U. rewrite U. reflexivity.
Qed.

Theorem purl_curie_none (p : string) : purl_curie p = None <->
  (forall tail, p <> purl_prefix ++ tail) \/ (exists tail, p = purl_prefix ++ tail /\ has_inner_underscore (word_run tail) = false).
Proof.
  unfold purl_curie. destruct (sprefixb purl_prefix p) eqn:Pf.
  - apply sprefixb_iff in Pf. destruct Pf as [tail ->]. rewrite sdrop_app. destruct (has_inner_underscore (word_run tail)) eqn:U.
    + split; [discriminate|]. intros [H|(t & E & H)]; [exfalso; exact (H tail eq_refl)|].
      assert (t = tail). { clear -E. revert E. generalize purl_prefix. induction s as [|x s IH]; cbn [append]; intro E; [symmetry; exact E | injection E as E; exact (IH E)]. }
      subst t. rewrite U in H. discriminate.
    + split; [intros _; right; exists tail; auto | reflexivity].
  - split; [intros _; left; intros tail E; subst p; assert (X : sprefixb purl_prefix (purl_prefix ++ tail) = true) by (apply sprefixb_iff; eexists; reflexivity); rewrite X in Pf; discriminate | reflexivity].
Qed.

Print Assumptions purl_curie_spec.
