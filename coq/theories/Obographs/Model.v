(* Executable model of the Obographs loader, at the level of the parsed JSON document (json.load is
   an oracle):
     src/hpotk/ontology/load/obographs/_load.py     extract_terms, create_edge_list, extract_curie_from_purl
                                                    (PURL_PATTERN), extract_ontology_version (DATE_PATTERN), _load_impl
     src/hpotk/ontology/load/obographs/_model.py    create_node, create_meta (deprecated flag), create_edge
     src/hpotk/ontology/load/obographs/_factory.py  MinimalTermFactory, TermFactory, create_alt_term_ids,
                                                    parse_synonym_category / _type, create_xrefs
   then the graph factory (C01/C02 model) and the ontology container (C06 model).
   Regexes are modelled as string functions for ASCII.  Definitions only. *)
From Coq Require Import String Ascii List Bool Arith ZArith.
From Hpotk Require Import Base.Result Base.Str TermId.Model Graph.Model Ontology.Model Io.Model Sim.Model.
Import ListNotations.
Open Scope string_scope.
Open Scope list_scope.

(* ---------- the document ---------- *)
Inductive ntype := TClass | TIndividual | TProperty | TOther | TAbsent.   (* "type": CLASS | INDIVIDUAL | PROPERTY | anything else | no key *)
Inductive flag := FAbsent | FTrue | FFalse.                                (* "deprecated": no key | true | false *)

Definition bpv : Type := (option string * option string)%type.            (* basicPropertyValue: pred?, val? *)
Record jsyn := mkSyn { sy_pred : option string; sy_val : option string; sy_type : option string; sy_xrefs : list string }.
Record jmeta := mkMeta {
  m_deprecated : flag;
  m_definition : option (option string * list string);                     (* val?, xrefs *)
  m_comments : list string;
  m_bpvs : list bpv;
  m_synonyms : list jsyn;
  m_xrefs : list string }.                                                 (* the "val" of every xref *)
Record jnode := mkNode { n_id : string; n_lbl : string; n_type : ntype; n_meta : option jmeta }.
Record jedge := mkEdge { e_sub : string; e_pred : string; e_obj : string }.
Record gmeta := mkGMeta { gm_version : option string; gm_bpvs : option (list bpv) }.
Record doc := mkDoc { d_nodes : list jnode; d_edges : list jedge; d_meta : gmeta }.

(* ---------- PURL_PATTERN.match(purl).group('curie') ---------- *)
Definition is_word (c : ascii) : bool :=
  let n := nat_of_ascii c in
  (Nat.leb 48 n && Nat.leb n 57) || (Nat.leb 65 n && Nat.leb n 90) || (Nat.leb 97 n && Nat.leb n 122) || Nat.eqb n 95.

Fixpoint word_run (s : string) : string :=
  match s with
  | String c r => if is_word c then String c (word_run r) else EmptyString
  | EmptyString => EmptyString
  end.

Fixpoint sdrop (n : nat) (s : string) : string :=
  match n, s with 0, _ => s | S k, String _ r => sdrop k r | S _, EmptyString => EmptyString end.

(* an underscore that is neither the first nor the last character of the run *)
Fixpoint inner_underscore_tail (s : string) : bool :=
  match s with
  | String c r => match r with
                  | EmptyString => false
                  | String _ _ => (Ascii.eqb c "_") || inner_underscore_tail r
                  end
  | EmptyString => false
  end.
Definition has_inner_underscore (run : string) : bool :=
  match run with String _ r => inner_underscore_tail r | EmptyString => false end.

Definition purl_prefix : string := "http://purl.obolibrary.org/obo/".

Definition purl_curie (purl : string) : option string :=
  if sprefixb purl_prefix purl then
    let run := word_run (sdrop (String.length purl_prefix) purl) in
    if has_inner_underscore run then Some run else None
  else None.

(* ---------- terms ---------- *)
(* the part of a term the minimal and the full loader share *)
Record fullx := mkFull {
  x_definition : option (option string * list string);
  x_comment : option string;
  x_synonyms : option (list (option string * option nat * option nat * option (list key)));   (* name, category, type, xrefs *)
  x_xrefs : option (list key) }.

Definition ends_with (x : string) (o : option string) : bool :=
  match o with Some s => ssuffixb x s | None => false end.

Definition is_deprecated (m : option jmeta) : bool :=
  match m with Some mm => match m_deprecated mm with FTrue => true | _ => false end | None => false end.

(* create_alt_term_ids: TermId.from_curie of every #hasAlternativeId value *)
Definition alt_ids (m : option jmeta) : res (list key) :=
  match m with
  | None => Ok []
  | Some mm => rsequence (flat_map (fun b => match b with
                                             | (Some p, Some v) => if ssuffixb "#hasAlternativeId" p then [rmap tkey (from_curie v)] else []
                                             | _ => [] end) (m_bpvs mm))
  end.

Definition syn_category (p : option string) : option nat :=
  match p with
  | Some s => if seqb s "hasRelatedSynonym" then Some 1 else if seqb s "hasExactSynonym" then Some 0
              else if seqb s "hasBroadSynonym" then Some 2 else if seqb s "hasNarrowSynonym" then Some 3 else None
  | None => None
  end.

(* parse_synonym_type: .../obo/hp...#<value> or .../obo/HP_0034334 | allelic_requirement *)
Fixpoint after_hash (s : string) : option string :=
  match s with
  | EmptyString => None
  | String c r => if Ascii.eqb c "#" then (match r with EmptyString => None | _ => Some r end) else after_hash r
  end.
Definition syn_type (t : option string) : option nat :=
  match t with
  | None => None
  | Some s =>
      if sprefixb purl_prefix s then
        let v := sdrop (String.length purl_prefix) s in
        match v with EmptyString => None | _ =>
        if sprefixb "hp" v then
          match after_hash v with
          | Some w => if seqb w "layperson" || seqb w "layperson term" then Some 0 else if seqb w "abbreviation" then Some 1
                      else if seqb w "uk_spelling" then Some 2 else if seqb w "obsolete_synonym" then Some 3
                      else if seqb w "plural_form" then Some 4 else None
          | None => if seqb v "HP_0034334" || seqb v "allelic_requirement" then Some 5 else None
          end
        else if seqb v "HP_0034334" || seqb v "allelic_requirement" then Some 5 else None
        end
      else None
  end.

(* synonym xrefs: CURIEs that parse are kept (ORCID URLs are outside the explored inputs) *)
Definition syn_xrefs (l : list string) : option (list key) :=
  match l with
  | [] => None
  | _ => match flat_map (fun x => match from_curie x with Ok t => [tkey t] | Err _ => [] end) l with [] => None | ks => Some ks end
  end.

Definition full_of (m : option jmeta) : res fullx :=
  match m with
  | None => Ok (mkFull None None None None)
  | Some mm =>
      bind (match m_xrefs mm with [] => Ok None | xs => rmap (@Some (list key)) (rsequence (map (fun x => rmap tkey (from_curie x)) xs)) end) (fun xr =>
      Ok (mkFull (m_definition mm)
                 (match m_comments mm with [] => None | cs => Some (sjoin ", " cs) end)
                 (match m_synonyms mm with [] => None
                  | ss => Some (map (fun s => (sy_val s, syn_category (sy_pred s), syn_type (sy_type s), syn_xrefs (sy_xrefs s))) ss) end)
                 xr))
  end.

(* extract_terms: (curie -> TermId dict, terms).  full = false: MinimalTermFactory (extra = empty) *)
Definition keep (prefixes : list string) (n : jnode) : option (string * key) :=
  match n_type n with
  | TClass => match purl_curie (n_id n) with
              | Some c => match from_curie c with
                          | Ok t => if existsb (seqb (prefix t)) prefixes then Some (c, tkey t) else None
                          | Err _ => None
                          end
              | None => None
              end
  | _ => None
  end.

Definition make_term (full : bool) (k : key) (n : jnode) : res (term fullx) :=
  bind (alt_ids (n_meta n)) (fun alts =>
  bind (if full then full_of (n_meta n) else Ok (mkFull None None None None)) (fun x =>
  Ok (mkTerm fullx k (n_lbl n) (if full then (match n_meta n with Some _ => alts | None => [] end) else alts) (is_deprecated (n_meta n)) x))).

Fixpoint extract_terms (full : bool) (prefixes : list string) (nodes : list jnode)
  : res (list (string * key) * list (term fullx)) :=
  match nodes with
  | [] => Ok ([], [])
  | n :: r =>
      match keep prefixes n with
      | None => extract_terms full prefixes r
      | Some (c, k) => bind (make_term full k n) (fun t => bind (extract_terms full prefixes r) (fun '(d, ts) => Ok ((c, k) :: d, t :: ts)))
      end
  end.

Definition cmem (c : string) (d : list (string * key)) : option key :=
  match find (fun p => seqb c (fst p)) d with Some p => Some (snd p) | None => None end.

(* create_edge_list *)
Definition edge_of (d : list (string * key)) (e : jedge) : list edge :=
  if seqb (e_pred e) "is_a" then
    match purl_curie (e_sub e), purl_curie (e_obj e) with
    | Some s, Some o => match cmem s d, cmem o d with Some ks, Some ko => [(ks, ko)] | _, _ => [] end
    | _, _ => []
    end
  else [].

(* ---------- version ---------- *)
Definition is_digit (c : ascii) : bool := let n := nat_of_ascii c in Nat.leb 48 n && Nat.leb n 57.
(* does s start with /dddd-dd-dd/ ? then the date *)
Definition date_at (s : string) : option string :=
  match s with
  | String "/" (String a (String b (String c (String d (String "-" (String e (String f (String "-" (String g (String h (String "/" _))))))))))) =>
      if is_digit a && is_digit b && is_digit c && is_digit d && is_digit e && is_digit f && is_digit g && is_digit h
      then Some (String a (String b (String c (String d (String "-" (String e (String f (String "-" (String g (String h EmptyString))))))))))
      else None
  | _ => None
  end.
(* DATE_PATTERN.search with the greedy leading .* : the LAST occurrence *)
Fixpoint last_date (s : string) : option string :=
  match s with
  | EmptyString => None
  | String _ r => match last_date r with Some d => Some d | None => date_at s end
  end.

Definition version_of (m : gmeta) : option string :=
  match gm_version m with
  | Some v => last_date v
  | None => match gm_bpvs m with
            | Some l => match find (fun b => match b with (Some p, Some _) => ssuffixb "#versionInfo" p | _ => false end) l with
                        | Some (_, v) => v
                        | None => None
                        end
            | None => None
            end
  end.

(* ---------- the loader ---------- *)
Record loaded := mkLoaded { ld_terms : list (term fullx); ld_graph : graph; ld_edges : list edge; ld_version : option string }.

Definition load (full : bool) (f : factory) (prefixes : list string) (d : doc) : res loaded :=
  bind (extract_terms full prefixes (d_nodes d)) (fun '(dict, terms) =>
  let es := flat_map (edge_of dict) (d_edges d) in
  bind (create f es) (fun g => Ok (mkLoaded terms g es (version_of (d_meta d))))).

Definition ontology_of (l : loaded) : onto fullx := create_ontology fullx (ld_terms l).
