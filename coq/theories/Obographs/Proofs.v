(* C05: Obographs loading is faithful to the document. *)
From Coq Require Import String Ascii List Bool Arith ZArith Lia Permutation Setoid.
From Hpotk Require Import Base.Result Base.Str TermId.Model TermId.Proofs Graph.Model Graph.Spec Graph.Main Graph.Top
  Ontology.Model Ontology.Proofs Io.Model Sim.Model Obographs.Model.
Import ListNotations.
Open Scope list_scope.

Definition olist {A} (o : option A) : list A := match o with Some x => [x] | None => [] end.

(* the retained nodes: typed CLASS, id an OBO PURL whose CURIE has a requested prefix - deprecated or not *)
Definition kept (P : list string) (nodes : list jnode) : list (string * key * jnode) :=
  flat_map (fun n => match keep P n with Some ck => [(ck, n)] | None => [] end) nodes.

Lemma keep_key P n c k : keep P n = Some (c, k) ->
  n_type n = TClass /\ purl_curie (n_id n) = Some c /\ exists t, from_curie c = Ok t /\ k = tkey t /\ existsb (seqb (prefix t)) P = true.
Proof.
  unfold keep. destruct (n_type n); try discriminate. destruct (purl_curie (n_id n)) as [c'|]; [|discriminate].
  destruct (from_curie c') as [t|e] eqn:F; [|discriminate]. destruct (existsb (seqb (prefix t)) P) eqn:E; [|discriminate].
  intro H. inversion H; subst. split; [reflexivity|]. split; [reflexivity|]. exists t. auto.
Qed.

(* extract_terms = map over the retained nodes *)
Theorem extract_terms_spec full P nodes d ts : extract_terms full P nodes = Ok (d, ts) ->
  d = map fst (kept P nodes) /\
  Forall2 (fun ckn t => make_term full (snd (fst ckn)) (snd ckn) = Ok t) (kept P nodes) ts.
Proof.
  revert d ts. induction nodes as [|n r IH]; intros d ts H; cbn [extract_terms] in H.
  - inversion H. split; [reflexivity | constructor].
  - unfold kept. cbn [flat_map]. fold (kept P r). destruct (keep P n) as [[c k]|] eqn:K.
    + destruct (make_term full k n) as [t|e] eqn:M; [|discriminate]. cbn [bind] in H.
      destruct (extract_terms full P r) as [[d' ts']|e] eqn:R; [|discriminate]. cbn [bind] in H. inversion H; subst.
      destruct (IH d' ts' eq_refl) as [E F]. split; [cbn [app map fst]; rewrite E; reflexivity|].
      cbn [app]. constructor; [exact M | exact F].
    + cbn [app]. exact (IH d ts H).
Qed.

(* nodes that are not retained are ignored altogether (PROPERTY / INDIVIDUAL / untyped nodes, non-PURL ids, other prefixes) *)
Theorem extract_terms_ignores full P nodes :
  extract_terms full P nodes = extract_terms full P (filter (fun n => match keep P n with Some _ => true | None => false end) nodes).
Proof.
  induction nodes as [|n r IH]; cbn [extract_terms filter]; [reflexivity|].
  destruct (keep P n) as [[c k]|] eqn:K; [|exact IH]. cbn [extract_terms]. rewrite K, IH. reflexivity.
Qed.

(* the shared fields of a term come from the node alone; minimal and full loader agree on them *)
Lemma make_term_fields full k n t : make_term full k n = Ok t ->
  t_id fullx t = k /\ t_name fullx t = n_lbl n /\ t_obsolete fullx t = is_deprecated (n_meta n) /\ alt_ids (n_meta n) = Ok (t_alts fullx t).
Proof.
  unfold make_term. destruct (alt_ids (n_meta n)) as [alts|e] eqn:A; [|discriminate]. cbn [bind].
  destruct (if full then full_of (n_meta n) else Ok (mkFull None None None None)) as [x|e]; [|discriminate]. cbn [bind].
  intro H. inversion H; subst. cbn. repeat split.
  destruct full; [|reflexivity]. destruct (n_meta n); [reflexivity|]. cbn in A. inversion A. reflexivity.
Qed.

Theorem min_full_agree P nodes d ts d' ts' :
  extract_terms false P nodes = Ok (d, ts) -> extract_terms true P nodes = Ok (d', ts') ->
  d = d' /\ Forall2 (fun t t' => t_id fullx t = t_id fullx t' /\ t_name fullx t = t_name fullx t' /\
                                 t_alts fullx t = t_alts fullx t' /\ t_obsolete fullx t = t_obsolete fullx t') ts ts'.
Proof.
  intros H H'. destruct (extract_terms_spec _ _ _ _ _ H) as [E F]. destruct (extract_terms_spec _ _ _ _ _ H') as [E' F'].
  split; [congruence|]. clear E E' H H'. revert ts ts' F F'. induction (kept P nodes) as [|x l IH]; intros ts ts' F F'.
  - inversion F; inversion F'; constructor.
  - inversion F as [|? t ? ts0 M F0]; subst. inversion F' as [|? t' ? ts0' M' F0']; subst. constructor; [|apply IH; assumption].
    destruct (make_term_fields _ _ _ _ M) as (A1 & A2 & A3 & A4). destruct (make_term_fields _ _ _ _ M') as (B1 & B2 & B3 & B4).
    rewrite A4 in B4. inversion B4. repeat split; congruence.
Qed.

(* the current terms of the ontology: exactly the retained, non-deprecated nodes, each with the
   fields stated in the document *)
Theorem current_terms_spec full f P dc l : load full f P dc = Ok l ->
  forall t, In t (terms_of fullx (ontology_of l)) <->
    exists c k n, In n (d_nodes dc) /\ keep P n = Some (c, k) /\ is_deprecated (n_meta n) = false /\ make_term full k n = Ok t.
Proof.
  unfold load. destruct (extract_terms full P (d_nodes dc)) as [[d ts]|e] eqn:X; [|discriminate]. cbn [bind].
  destruct (create f (flat_map (edge_of d) (d_edges dc))) as [g|e]; [|discriminate]. cbn [bind]. intro H. inversion H; subst l. clear H.
  destruct (extract_terms_spec _ _ _ _ _ X) as [_ F]. intro t. unfold ontology_of. cbn [ld_terms].
  rewrite (proj2 (proj2 (len_terms_spec fullx ts)) t).
  assert (G : forall t, In t ts <-> exists ckn, In ckn (kept P (d_nodes dc)) /\ make_term full (snd (fst ckn)) (snd ckn) = Ok t).
  { clear -F. induction F as [|x t0 l ts0 M _ IH]; intro t; [split; [intros [] | intros (x & [] & _)]|].
    cbn [In]. rewrite IH. split.
    - intros [<-|(y & Hy & My)]; [exists x; auto | exists y; auto].
    - intros (y & [<-|Hy] & My); [left; congruence | right; exists y; auto]. }
  rewrite G. split.
  - intros ((([c k] & n) & Hin & M) & Hob). cbn [fst snd] in M. unfold kept in Hin. apply in_flat_map in Hin. destruct Hin as (n' & Hn' & Hk).
    destruct (keep P n') as [ck|] eqn:K; [|destruct Hk]. destruct Hk as [E|[]]. inversion E; subst.
    exists c, k, n. split; [exact Hn'|]. split; [exact K|]. split; [|exact M].
    destruct (make_term_fields _ _ _ _ M) as (_ & _ & O & _). rewrite <- O. exact Hob.
  - intros (c & k & n & Hn & K & Hd & M). split.
    + exists ((c, k), n). split; [|exact M]. unfold kept. apply in_flat_map. exists n. split; [exact Hn|]. rewrite K. left. reflexivity.
    + destruct (make_term_fields _ _ _ _ M) as (_ & _ & O & _). rewrite O. exact Hd.
Qed.

(* ---------- edges ---------- *)
Lemma cmem_spec (d : list (string * key)) c k : (forall c' k1 k2, In (c', k1) d -> In (c', k2) d -> k1 = k2) ->
  (cmem c d = Some k <-> In (c, k) d).
Proof.
  intro U. unfold cmem. destruct (find (fun p => seqb c (fst p)) d) as [[c' k']|] eqn:F.
  - apply find_some in F. destruct F as [Hin E]. cbn [fst] in E. apply seqb_eq in E. subst c'. cbn [snd]. split.
    + intro H. inversion H; subst. exact Hin.
    + intro H. f_equal. exact (U c k' k Hin H).
  - split; [discriminate|]. intro H. pose proof (find_none _ _ F _ H) as N. cbn [fst] in N.
    assert (seqb c c = true) by (apply seqb_eq; reflexivity). congruence.
Qed.

Lemma kept_functional P nodes c k1 k2 :
  In (c, k1) (map fst (kept P nodes)) -> In (c, k2) (map fst (kept P nodes)) -> k1 = k2.
Proof.
  assert (G : forall k, In (c, k) (map fst (kept P nodes)) -> exists t, from_curie c = Ok t /\ k = tkey t).
  { intros k H. apply in_map_iff in H. destruct H as (((c', k'), n) & E & Hin). cbn [fst] in E. inversion E; subst.
    unfold kept in Hin. apply in_flat_map in Hin. destruct Hin as (n' & _ & Hk). destruct (keep P n') as [ck|] eqn:K; [|destruct Hk].
    destruct Hk as [E'|[]]. inversion E'; subst. destruct (keep_key _ _ _ _ K) as (_ & _ & t & Ft & Kt & _). exists t. auto. }
  intros H1 H2. destruct (G _ H1) as (t1 & F1 & ->). destruct (G _ H2) as (t2 & F2 & ->). congruence.
Qed.

(* the hierarchy contains exactly the is_a edges between retained nodes; every other edge predicate,
   dangling edge and edge to a foreign prefix is ignored *)
Theorem edges_spec full f P dc l : load full f P dc = Ok l ->
  forall s o, In (s, o) (ld_edges l) <->
    exists e cs co, In e (d_edges dc) /\ e_pred e = "is_a"%string /\
      purl_curie (e_sub e) = Some cs /\ purl_curie (e_obj e) = Some co /\
      In (cs, s) (map fst (kept P (d_nodes dc))) /\ In (co, o) (map fst (kept P (d_nodes dc))).
Proof.
  unfold load. destruct (extract_terms full P (d_nodes dc)) as [[d ts]|e] eqn:X; [|discriminate]. cbn [bind].
  destruct (create f (flat_map (edge_of d) (d_edges dc))) as [g|e]; [|discriminate]. cbn [bind]. intro H. inversion H; subst l. clear H.
  destruct (extract_terms_spec _ _ _ _ _ X) as [Ed _]. cbn [ld_edges]. intros s o. rewrite in_flat_map.
  assert (U : forall c' k1 k2, In (c', k1) d -> In (c', k2) d -> k1 = k2) by (rewrite Ed; apply kept_functional).
  split.
  - intros (e & He & Hin). unfold edge_of in Hin. destruct (seqb (e_pred e) "is_a") eqn:Pr; [|destruct Hin]. apply seqb_eq in Pr.
    destruct (purl_curie (e_sub e)) as [cs|] eqn:Ps; [|destruct Hin]. destruct (purl_curie (e_obj e)) as [co|] eqn:Po; [|destruct Hin].
    destruct (cmem cs d) as [ks|] eqn:Cs; [|destruct Hin]. destruct (cmem co d) as [ko|] eqn:Co; [|destruct Hin].
    destruct Hin as [E|[]]. inversion E; subst ks ko. apply (cmem_spec d cs s U) in Cs. apply (cmem_spec d co o U) in Co.
    exists e, cs, co. rewrite <- Ed. auto 10.
  - intros (e & cs & co & He & Pr & Ps & Po & Is & Io). exists e. split; [exact He|]. unfold edge_of. rewrite Pr.
    assert (R : seqb "is_a" "is_a" = true) by reflexivity. rewrite R, Ps, Po. rewrite <- Ed in Is, Io.
    apply (cmem_spec d cs s U) in Is. apply (cmem_spec d co o U) in Io. rewrite Is, Io. left. reflexivity.
Qed.

(* ---------- order of nodes and edges ---------- *)
Lemma kept_perm P nodes nodes' : Permutation nodes nodes' -> Permutation (kept P nodes) (kept P nodes').
Proof.
  unfold kept. induction 1 as [|a l l' _ IH|a b l|l l' l'' _ IH1 _ IH2]; cbn [flat_map].
  - constructor.
  - apply Permutation_app_head. exact IH.
  - rewrite !app_assoc. apply Permutation_app_tail. apply Permutation_app_comm.
  - eapply Permutation_trans; eassumption.
Qed.

(* re-ordering the nodes and the edges of the document: the same retained nodes, hence the same
   terms, and the same set of is_a edges - hence (C02) the same graph answers *)
Theorem order_irrelevant full f P dc dc' l l' :
  Permutation (d_nodes dc) (d_nodes dc') -> Permutation (d_edges dc) (d_edges dc') ->
  load full f P dc = Ok l -> load full f P dc' = Ok l' ->
  (forall t, In t (terms_of fullx (ontology_of l)) <-> In t (terms_of fullx (ontology_of l'))) /\
  (forall e, In e (ld_edges l) <-> In e (ld_edges l')).
Proof.
  intros Pn Pe H H'. split.
  - intro t. rewrite (current_terms_spec _ _ _ _ _ H t), (current_terms_spec _ _ _ _ _ H' t).
    split; intros (c & k & n & Hn & R); exists c, k, n; (split; [|exact R]);
      [eapply Permutation_in; [exact Pn | exact Hn] | eapply Permutation_in; [apply Permutation_sym; exact Pn | exact Hn]].
  - intros [s o]. rewrite (edges_spec _ _ _ _ _ H s o), (edges_spec _ _ _ _ _ H' s o).
    pose proof (Permutation_map fst (kept_perm P _ _ Pn)) as Pk.
    split; intros (e & cs & co & He & Pr & Ps & Po & Is & Io); exists e, cs, co.
    + split; [eapply Permutation_in; [exact Pe | exact He]|]. repeat split; try assumption; eapply Permutation_in; try exact Pk; assumption.
    + split; [eapply Permutation_in; [apply Permutation_sym; exact Pe | exact He]|].
      repeat split; try assumption; eapply Permutation_in; try (apply Permutation_sym; exact Pk); assumption.
Qed.

(* the version: the last /yyyy-mm-dd/ of the version IRI, else the first #versionInfo property value *)
Example version_examples :
  version_of (mkGMeta (Some "http://purl.obolibrary.org/obo/hp/releases/2022-10-05/hp.json"%string) None) = Some "2022-10-05"%string /\
  version_of (mkGMeta (Some "http://x/1999-01-01/y/2024-04-26/hp.json"%string) (Some [(Some "a#versionInfo", Some "zzz")]%string)) = Some "2024-04-26"%string /\
  version_of (mkGMeta (Some "http://x/no-date/hp.json"%string) None) = None /\
  version_of (mkGMeta None (Some [(Some "p", Some "q"); (Some "http://www.w3.org/2002/07/owl#versionInfo", Some "2023-01-27"); (Some "x#versionInfo", Some "other")]%string))
    = Some "2023-01-27"%string /\
  version_of (mkGMeta None None) = None.
Proof. vm_compute. repeat split; reflexivity. Qed.

Example purl_examples :
  map purl_curie ["http://purl.obolibrary.org/obo/HP_0001250"; "http://purl.obolibrary.org/obo/HP_1_"; "http://purl.obolibrary.org/obo/HP__1";
                  "http://purl.obolibrary.org/obo/HP_"; "http://purl.obolibrary.org/obo/_1"; "http://purl.obolibrary.org/obo/hp#x";
                  "http://purl.obolibrary.org/obo/HP_1#x"; "https://purl.obolibrary.org/obo/HP_1"; "HP_1"]%string
  = [Some "HP_0001250"; Some "HP_1_"; Some "HP__1"; None; None; None; Some "HP_1"; None; None]%string.
Proof. vm_compute. reflexivity. Qed.

Print Assumptions current_terms_spec.
Print Assumptions edges_spec.
Print Assumptions order_irrelevant.
