(* Proofs about the TermId model (C04). *)
From Coq Require Import String Ascii List Bool Arith ZArith Lia.
From Hpotk Require Import Base.Result Base.Str TermId.Model.
Import ListNotations.
Open Scope string_scope.

(* ---------- parsing ---------- *)
Lemma from_curie_ok_iff s :
  is_ok (from_curie s) = true <-> (smem colon s = true \/ smem underscore s = true).
Proof.
  unfold from_curie. destruct (sindex colon s) as [i|] eqn:Ec.
  - cbn. split; [intros _; left; eapply sindex_some_mem; exact Ec | reflexivity].
  - apply sindex_none_iff in Ec. destruct (sindex underscore s) as [j|] eqn:Eu.
    + cbn. split; [intros _; right; eapply sindex_some_mem; exact Eu | reflexivity].
    + apply sindex_none_iff in Eu. cbn. split; [discriminate|]. intros [H|H]; congruence.
Qed.

Lemma from_curie_err s : from_curie s = Err ValueError \/ exists t, from_curie s = Ok t.
Proof.
  unfold from_curie. destruct (sindex colon s); [right; eauto|].
  destruct (sindex underscore s); [right; eauto | left; reflexivity].
Qed.

(* the delimiter is the first ':' if there is one, otherwise the first '_' *)
Lemma from_curie_split s t :
  from_curie s = Ok t ->
  tvalue t = s /\
  (smem colon s = true ->
     s = prefix t ++ String colon (ident t) /\ smem colon (prefix t) = false) /\
  (smem colon s = false ->
     s = prefix t ++ String underscore (ident t) /\ smem underscore (prefix t) = false
     /\ smem colon (prefix t) = false /\ smem colon (ident t) = false).
Proof.
  unfold from_curie. destruct (sindex colon s) as [i|] eqn:Ec.
  - intros [= <-]. unfold prefix, ident; cbn [tvalue tidx]. split; [reflexivity|].
    destruct (sindex_split _ _ _ Ec) as (H1 & H2 & _). split.
    + intros _. split; assumption.
    + intro H. apply sindex_some_mem in Ec. congruence.
  - destruct (sindex underscore s) as [j|] eqn:Eu; [|discriminate].
    intros [= <-]. unfold prefix, ident; cbn [tvalue tidx]. split; [reflexivity|].
    apply sindex_none_iff in Ec.
    destruct (sindex_split _ _ _ Eu) as (H1 & H2 & _). split.
    + intro H. congruence.
    + intros _. split; [exact H1|]. split; [exact H2|].
      rewrite H1 in Ec. rewrite smem_app in Ec. apply orb_false_iff in Ec. destruct Ec as [E1 E2].
      split; [exact E1|]. cbn [smem] in E2. apply orb_false_iff in E2. destruct E2 as [_ E2]. exact E2.
Qed.

Lemma parsed_prefix_no_colon s t : from_curie s = Ok t -> smem colon (prefix t) = false.
Proof.
  intro H. destruct (from_curie_split _ _ H) as (_ & Hc & Hu).
  destruct (smem colon s) eqn:E; [apply Hc | apply Hu]; reflexivity.
Qed.

(* parsing the printed value again gives an equal term id with the same printed value *)
Lemma reparse_of_key p i :
  smem colon p = false ->
  exists t', from_curie (p ++ String colon i) = Ok t' /\ prefix t' = p /\ ident t' = i.
Proof.
  intro Hp. unfold from_curie. rewrite (sindex_app_fresh _ _ _ Hp).
  eexists. split; [reflexivity|]. unfold prefix, ident; cbn [tvalue tidx].
  rewrite sfirstn_app_len, sskipn_app_len. auto.
Qed.

Lemma value_reparse s t :
  from_curie s = Ok t ->
  exists t', from_curie (value t) = Ok t' /\ teqb t t' = true /\ value t' = value t /\ tkey t' = tkey t.
Proof.
  intro H. pose proof (parsed_prefix_no_colon _ _ H) as Hp.
  destruct (reparse_of_key (prefix t) (ident t) Hp) as (t' & H1 & H2 & H3).
  exists t'. unfold value at 1. cbn [append]. split; [exact H1|].
  unfold teqb, value, tkey. rewrite H2, H3. unfold seqb. rewrite !String.eqb_refl. auto.
Qed.

(* ---------- equality and hashing ---------- *)
Lemma teqb_iff t u : teqb t u = true <-> (prefix t = prefix u /\ ident t = ident u).
Proof. unfold teqb. rewrite andb_true_iff, !seqb_eq. tauto. Qed.

Lemma teqb_key t u : teqb t u = true <-> tkey t = tkey u.
Proof.
  rewrite teqb_iff. unfold tkey. split; [intros [-> ->]; reflexivity | intros [= -> ->]; auto].
Qed.

Lemma teqb_value t u : teqb t u = true -> value t = value u.
Proof. rewrite teqb_iff. unfold value. intros [-> ->]. reflexivity. Qed.

Lemma key_eqb_eq a b : key_eqb a b = true <-> a = b.
Proof.
  destruct a as [a1 a2], b as [b1 b2]. unfold key_eqb; cbn [fst snd].
  rewrite andb_true_iff, !seqb_eq. split; [intros [-> ->]; reflexivity | intros [= -> ->]; auto].
Qed.

Lemma teqb_refl t : teqb t t = true.
Proof. apply teqb_iff. auto. Qed.
Lemma teqb_sym t u : teqb t u = teqb u t.
Proof. unfold teqb, seqb. rewrite (String.eqb_sym (prefix t)), (String.eqb_sym (ident t)). reflexivity. Qed.
Lemma teqb_trans t u v : teqb t u = true -> teqb u v = true -> teqb t v = true.
Proof. rewrite !teqb_key. congruence. Qed.

Lemma eq_hash (H : string -> string -> Z) c1 c2 t u :
  teqb t u = true -> thash H c1 t = thash H c2 u.
Proof.
  rewrite teqb_iff. unfold prefix, ident. intros [E1 E2].
  destruct c1, c2; unfold thash, prefix, ident; rewrite E1, E2; reflexivity.
Qed.

(* ---------- ordering ---------- *)
Lemma tltb_key t u : tltb t u = key_ltb (tkey t) (tkey u).
Proof. reflexivity. Qed.

Lemma key_ltb_lex a b :
  key_ltb a b = true <->
  (sltb (fst a) (fst b) = true \/ (fst a = fst b /\ sltb (snd a) (snd b) = true)).
Proof.
  unfold key_ltb. destruct (seqb (fst a) (fst b)) eqn:E.
  - apply seqb_eq in E. rewrite E. rewrite sltb_irrefl. split; [auto | intros [H|[_ H]]; [discriminate | exact H]].
  - split; [auto|]. intros [H|[H _]]; [exact H|]. apply seqb_eq in H. congruence.
Qed.

Lemma key_ltb_irrefl a : key_ltb a a = false.
Proof. unfold key_ltb, seqb. rewrite String.eqb_refl. apply sltb_irrefl. Qed.

Lemma key_ltb_trans a b c : key_ltb a b = true -> key_ltb b c = true -> key_ltb a c = true.
Proof.
  rewrite !key_ltb_lex. intros [H1|[E1 H1]] [H2|[E2 H2]].
  - left. eapply sltb_trans; eassumption.
  - left. rewrite <- E2. exact H1.
  - left. rewrite E1. exact H2.
  - right. split; [congruence | eapply sltb_trans; eassumption].
Qed.

Lemma key_ltb_total a b : key_ltb a b = false -> key_ltb b a = false -> a = b.
Proof.
  destruct a as [a1 a2], b as [b1 b2]. unfold key_ltb; cbn [fst snd]. unfold seqb.
  rewrite (String.eqb_sym b1 a1). destruct (String.eqb a1 b1) eqn:E.
  - apply String.eqb_eq in E. subst b1. intros H1 H2.
    destruct (sltb_trichotomy a2 b2) as [(T&_)|[(_&T&_)|(_&_&T)]]; congruence.
  - intros H1 H2. destruct (sltb_trichotomy a1 b1) as [(T&_)|[(_&T&_)|(_&_&T)]]; try congruence.
    subst b1. rewrite String.eqb_refl in E. discriminate.
Qed.

Lemma key_ltb_asym a b : key_ltb a b = true -> key_ltb b a = false.
Proof.
  intro H. destruct (key_ltb b a) eqn:E; [|reflexivity].
  pose proof (key_ltb_trans _ _ _ H E) as T. rewrite key_ltb_irrefl in T. discriminate.
Qed.

(* exactly one of  a < b,  a == b,  b < a *)
Lemma key_trichotomy a b :
  (key_ltb a b = true /\ a <> b /\ key_ltb b a = false) \/
  (key_ltb a b = false /\ a = b /\ key_ltb b a = false) \/
  (key_ltb a b = false /\ a <> b /\ key_ltb b a = true).
Proof.
  destruct (key_ltb a b) eqn:E1.
  - left. split; [reflexivity|]. split; [|apply key_ltb_asym; exact E1].
    intro H. subst b. rewrite key_ltb_irrefl in E1. discriminate.
  - destruct (key_ltb b a) eqn:E2.
    + right. right. split; [reflexivity|]. split; [|reflexivity].
      intro H. subst b. rewrite key_ltb_irrefl in E2. discriminate.
    + right. left. split; [reflexivity|]. split; [apply key_ltb_total; assumption | reflexivity].
Qed.

Lemma tltb_irrefl t : tltb t t = false.
Proof. rewrite tltb_key. apply key_ltb_irrefl. Qed.

Lemma tltb_trans t u v : tltb t u = true -> tltb u v = true -> tltb t v = true.
Proof. rewrite !tltb_key. apply key_ltb_trans. Qed.

Lemma tltb_trichotomy t u :
  (tltb t u = true /\ teqb t u = false /\ tltb u t = false) \/
  (tltb t u = false /\ teqb t u = true /\ tltb u t = false) \/
  (tltb t u = false /\ teqb t u = false /\ tltb u t = true).
Proof.
  rewrite !tltb_key.
  assert (Hk : teqb t u = false <-> tkey t <> tkey u).
  { rewrite <- teqb_key. destruct (teqb t u); split; congruence. }
  destruct (key_trichotomy (tkey t) (tkey u)) as [(A&B&C)|[(A&B&C)|(A&B&C)]].
  - left. rewrite Hk. auto.
  - right. left. rewrite teqb_key. auto.
  - right. right. rewrite Hk. auto.
Qed.

Lemma tltb_lex t u :
  tltb t u = true <->
  (sltb (prefix t) (prefix u) = true \/ (prefix t = prefix u /\ sltb (ident t) (ident u) = true)).
Proof. rewrite tltb_key, key_ltb_lex. reflexivity. Qed.

(* < respects == (needed for sort/bisect over objects that are equal but not identical) *)
Lemma tltb_compat t t' u u' :
  teqb t t' = true -> teqb u u' = true -> tltb t u = tltb t' u'.
Proof. rewrite !teqb_key, !tltb_key. intros -> ->. reflexivity. Qed.

(* ---------- sorting / binary search instantiated at TermId keys ---------- *)
From Hpotk Require Import Base.Ord.
Local Ltac key_ord := first [exact key_ltb_irrefl | exact key_ltb_trans | exact key_ltb_total].

Lemma key_sort_sorted l : SSorted key_ltb (sort_unique key_ltb l).
Proof. apply sort_unique_sorted; key_ord. Qed.
Lemma key_sort_in l x : In x (sort_unique key_ltb l) <-> In x l.
Proof. apply sort_unique_in; key_ord. Qed.
Lemma key_sort_canonical l1 l2 :
  (forall x, In x l1 <-> In x l2) -> sort_unique key_ltb l1 = sort_unique key_ltb l2.
Proof. apply sort_unique_canonical; key_ord. Qed.
Lemma key_sorted_nodup l : SSorted key_ltb l -> NoDup l.
Proof. apply SSorted_NoDup; key_ord. Qed.
Lemma key_index_of_spec a x : SSorted key_ltb a ->
  forall i, index_of key_ltb a x = Some i <-> nth_error a i = Some x.
Proof. apply index_of_spec; key_ord. Qed.
Lemma key_index_of_none a x : SSorted key_ltb a -> (index_of key_ltb a x = None <-> ~ In x a).
Proof. apply index_of_none; key_ord. Qed.
Lemma key_index_of_lt a x i : SSorted key_ltb a -> index_of key_ltb a x = Some i -> i < length a.
Proof. apply index_of_lt; key_ord. Qed.
