(* Executable model of src/hpotk/model/_term_id.py  (TermId, DefaultTermId, SimpleTermId).
   Definitions only; proofs are in TermId/Proofs.v. *)
From Coq Require Import String Ascii List Bool Arith ZArith.
From Hpotk Require Import Base.Result Base.Str.
Import ListNotations.
Open Scope string_scope.

(* A term id object: the stored string and the position of the delimiter
   (`DefaultTermId(value, idx)` / `SimpleTermId(value, idx)`; 0 <= idx). *)
Record tid := mkTid { tvalue : string; tidx : nat }.

(* TermId.from_curie: `curie.index(':')`, falling back to `curie.index('_')`, else ValueError *)
Definition from_curie (s : string) : res tid :=
  match sindex colon s with
  | Some i => Ok (mkTid s i)
  | None => match sindex underscore s with
            | Some i => Ok (mkTid s i)
            | None => Err ValueError
            end
  end.

Definition prefix (t : tid) : string := sfirstn (tidx t) (tvalue t).        (* value[:idx]   *)
Definition ident (t : tid) : string := sskipn (S (tidx t)) (tvalue t).      (* value[idx+1:] *)
Definition value (t : tid) : string := prefix t ++ ":" ++ ident t.          (* prefix + ':' + id *)

(* TermId.__eq__ *)
Definition teqb (t u : tid) : bool := seqb (prefix t) (prefix u) && seqb (ident t) (ident u).

(* TermId.__lt__ *)
Definition tltb (t u : tid) : bool :=
  if seqb (prefix t) (prefix u) then sltb (ident t) (ident u) else sltb (prefix t) (prefix u).

(* canonical key of a term id: what equality, hashing and ordering look at *)
Definition key : Type := (string * string)%type.
Definition tkey (t : tid) : key := (prefix t, ident t).
Definition key_eqb (a b : key) : bool := seqb (fst a) (fst b) && seqb (snd a) (snd b).
Definition key_ltb (a b : key) : bool :=
  if seqb (fst a) (fst b) then sltb (snd a) (snd b) else sltb (fst a) (fst b).
Definition key_value (k : key) : string := fst k ++ ":" ++ snd k.

(* Hashing.  CPython's `hash((prefix, id))` is an oracle H; the only thing assumed of it is
   that it is a function of the two strings.  DefaultTermId caches
   H(value[:idx], value[idx+1:]) at construction, SimpleTermId recomputes H(prefix, id). *)
Section Hash.
  Variable H : string -> string -> Z.
  Inductive cls := DefaultCls | SimpleCls.
  Definition thash (c : cls) (t : tid) : Z :=
    match c with
    | DefaultCls => H (sfirstn (tidx t) (tvalue t)) (sskipn (S (tidx t)) (tvalue t))
    | SimpleCls => H (prefix t) (ident t)
    end.
End Hash.
