(* C04: parsing does not normalise.  Two CURIEs denote equal TermIds only if they are the same text up to the delimiter:
   other zero padding, a sign, blanks around the parts, digit separators, other digits or another letter case of the
   prefix always give a DIFFERENT id (what an "HPO-specific" id class that keeps the number as an int would break). *)
From Coq Require Import String Ascii List Bool ZArith.
From Hpotk Require Import Base.Result Base.Str Base.Ord TermId.Model TermId.Proofs.
Import ListNotations.
Open Scope string_scope.

Theorem parse_injective_colon : forall s s' t t',
  from_curie s = Ok t -> from_curie s' = Ok t' -> smem colon s = true -> smem colon s' = true ->
  teqb t t' = true -> s = s'.
Proof.
  intros s s' t t' H H' C C' E.
  destruct (from_curie_split s t H) as [_ [A _]]. destruct (from_curie_split s' t' H') as [_ [A' _]].
  destruct (A C) as [Es _]. destruct (A' C') as [Es' _].
  apply teqb_iff in E. destruct E as [Ep Ei]. rewrite Es, Es', Ep, Ei. reflexivity.
Qed.

Theorem parse_injective_underscore : forall s s' t t',
  from_curie s = Ok t -> from_curie s' = Ok t' -> smem colon s = false -> smem colon s' = false ->
  teqb t t' = true -> s = s'.
Proof.
  intros s s' t t' H H' C C' E.
  destruct (from_curie_split s t H) as [_ [_ A]]. destruct (from_curie_split s' t' H') as [_ [_ A']].
  destruct (A C) as [Es _]. destruct (A' C') as [Es' _].
  apply teqb_iff in E. destruct E as [Ep Ei]. rewrite Es, Es', Ep, Ei. reflexivity.
Qed.

(* across the two delimiters: the texts agree except for that one character *)
Theorem parse_equal_means_same_parts : forall s s' t t',
  from_curie s = Ok t -> from_curie s' = Ok t' -> teqb t t' = true ->
  exists p i d d', s = p ++ String d i /\ s' = p ++ String d' i /\
                   (d = colon \/ d = underscore) /\ (d' = colon \/ d' = underscore).
Proof.
  intros s s' t t' H H' E. apply teqb_iff in E. destruct E as [Ep Ei].
  destruct (from_curie_split s t H) as [_ [A B]]. destruct (from_curie_split s' t' H') as [_ [A' B']].
  exists (prefix t), (ident t).
  destruct (smem colon s) eqn:C; destruct (smem colon s') eqn:C'.
  - exists colon, colon. destruct (A eq_refl) as [Es _]. destruct (A' eq_refl) as [Es' _]. rewrite Ep, Ei. rewrite <- Ep, <- Ei at 1. auto.
  - exists colon, underscore. destruct (A eq_refl) as [Es _]. destruct (B' eq_refl) as [Es' _]. rewrite Ep, Ei. rewrite <- Ep, <- Ei at 1. auto.
  - exists underscore, colon. destruct (B eq_refl) as [Es _]. destruct (A' eq_refl) as [Es' _]. rewrite Ep, Ei. rewrite <- Ep, <- Ei at 1. auto.
  - exists underscore, underscore. destruct (B eq_refl) as [Es _]. destruct (B' eq_refl) as [Es' _]. rewrite Ep, Ei. rewrite <- Ep, <- Ei at 1. auto.
Qed.

(* the look-alikes of HP:0001250 are all different ids *)
Example lookalikes_differ :
  forallb (fun s => match from_curie "HP:0001250", from_curie s with
                    | Ok t, Ok u => negb (teqb t u)
                    | _, _ => false
                    end)
          ["HP:00001250"; "HP:001250"; "HP:+001250"; "HP: 001250"; "HP:001250 "; "HP:0_01250"; "HP:0001250 "; " HP:0001250"; "hp:0001250"; "Hp:0001250"] = true.
Proof. vm_compute. reflexivity. Qed.
