(* C08: a frequency written as an HPO frequency term or as a percentage lands inside that term's
   defined range / at that percentage, up to rounding to the cohort size - for every cohort size up
   to the stated bound (finite sweeps in the kernel, lifted with forallb_forall). *)
From Coq Require Import List Bool ZArith Lia.
From Coq Require Import PrimFloat.
From Hpotk Require Import Hpoa.Float Hpoa.Proofs Hpoa.SweepT1 Hpoa.SweepT2 Hpoa.SweepT3 Hpoa.SweepT4 Hpoa.SweepP1 Hpoa.SweepP2.
Import ListNotations.

Theorem freq_term_range : forall c i b, (1 <= c <= 100000)%Z -> nth_error freq_bounds i = Some b ->
  exists n lo hi, term_numerator b c = Some n /\ nth_error freq_pct i = Some (lo, hi) /\
    (0 <= n <= c)%Z /\ (lo * c / 100 <= n <= (hi * c + 99) / 100)%Z.
Proof.
  intros c i b Hc Hb. assert (E : Z.of_nat 25000 = 25000%Z) by (vm_compute; reflexivity).
  destruct (Z_le_gt_dec c 25000); [apply (term_sweep_lift 1 25000 term_sweep_1); [rewrite E; lia | exact Hb]|].
  destruct (Z_le_gt_dec c 50000); [apply (term_sweep_lift 25001 25000 term_sweep_2); [rewrite E; lia | exact Hb]|].
  destruct (Z_le_gt_dec c 75000); [apply (term_sweep_lift 50001 25000 term_sweep_3); [rewrite E; lia | exact Hb]|].
  apply (term_sweep_lift 75001 25000 term_sweep_4); [rewrite E; lia | exact Hb].
Qed.

Theorem percent_range : forall c k, (1 <= c <= 2000)%Z -> (0 <= k <= 200)%Z ->
  exists n, percent_numerator (of_Z_f k / 2)%float c = Some n /\ (0 <= n <= c)%Z /\ (Z.abs (200 * n - k * c) <= 100)%Z.
Proof.
  intros c k Hc Hk. assert (E : Z.of_nat 1000 = 1000%Z) by (vm_compute; reflexivity).
  destruct (Z_le_gt_dec c 1000); [apply (percent_sweep_lift 1 1000 percent_sweep_1); [rewrite E; lia | exact Hk]|].
  apply (percent_sweep_lift 1001 1000 percent_sweep_2); [rewrite E; lia | exact Hk].
Qed.

(* the six terms' representative frequencies lie between their bounds (exact binary64 comparison) *)
Theorem term_frequency_within_bounds :
  forallb (fun b => (fst b <=? term_frequency b)%float && (term_frequency b <=? snd b)%float) freq_bounds = true.
Proof. vm_compute. reflexivity. Qed.
