(* Binary64 arithmetic of the HPOA loader, evaluated with the kernel's primitive floats:
     round(hpo_frequency.frequency * cohort_size)            HpoFrequency.frequency = (lower + upper) / 2
     round(percentage * cohort_size / 100)
   Python's round(float) -> int is round-half-to-even on the exact binary value.  Definitions and
   two finite sweeps closed by computation (no float axioms are used). *)
From Coq Require Import ZArith List Bool Lia.
From Coq Require Import PrimFloat FloatOps SpecFloat Uint63.
Import ListNotations.

(* round(x) for a finite float x, as an integer; None for inf / nan *)
Definition round_half_even (x : float) : option Z :=
  match Prim2SF x with
  | S754_zero _ => Some 0%Z
  | S754_finite s m e =>
      let mz := Zpos m in
      let r := if (0 <=? e)%Z then (mz * 2 ^ e)%Z
               else let d := (2 ^ (- e))%Z in
                    let q := (mz / d)%Z in
                    let rem := (mz mod d)%Z in
                    match (2 * rem ?= d)%Z with
                    | Lt => q
                    | Gt => (q + 1)%Z
                    | Eq => if Z.even q then q else (q + 1)%Z
                    end in
      Some (if s then (- r)%Z else r)
  | _ => None
  end.

Definition of_nat_f (n : nat) : float := PrimFloat.of_uint63 (Uint63.of_Z (Z.of_nat n)).
Definition of_Z_f (z : Z) : float := PrimFloat.of_uint63 (Uint63.of_Z z).

(* the six frequency terms: (lower bound, upper bound), Excluded .. Obligate, literals as in
   hpotk/constants/hpo/frequency.py *)
Definition freq_bounds : list (float * float) :=
  [(0, 0); (0x1.47ae147ae147bp-7, 0x1.47ae147ae147bp-5); (0x1.999999999999ap-5, 0x1.28f5c28f5c28fp-2);
   (0x1.3333333333333p-2, 0x1.947ae147ae148p-1); (0x1.999999999999ap-1, 0x1.fae147ae147aep-1); (1, 1)]%float.

(* HpoFrequency.frequency *)
Definition term_frequency (b : float * float) : float := ((fst b + snd b) / 2)%float.

(* numerator for a frequency term on a non-negated line *)
Definition term_numerator (b : float * float) (cohort : Z) : option Z :=
  round_half_even (term_frequency b * of_Z_f cohort)%float.

(* numerator for a percentage on a line: round(percentage * cohort_size / 100) *)
Definition percent_numerator (p : float) (cohort : Z) : option Z :=
  round_half_even (p * of_Z_f cohort / 100)%float.

(* ---- finite sweeps ---- *)
(* the numerator lies in the term's defined range scaled to the cohort, up to rounding to an integer:
   floor(lower*c) <= n <= ceil(upper*c), hence 0 <= n <= c; checked with exact rational bounds
   lower = lo/100, upper = hi/100 *)
Definition freq_pct : list (Z * Z) := [(0, 0); (1, 4); (5, 29); (30, 79); (80, 99); (100, 100)]%Z.

Definition term_ok (c : Z) (bp : (float * float) * (Z * Z)) : bool :=
  match term_numerator (fst bp) c with
  | Some n => let '(lo, hi) := snd bp in
              (0 <=? n)%Z && (n <=? c)%Z && (lo * c / 100 <=? n)%Z && (n <=? (hi * c + 99) / 100)%Z
  | None => false
  end.

Fixpoint zrange (start : Z) (n : nat) : list Z :=
  match n with O => [] | S k => start :: zrange (start + 1) k end.

Definition term_sweep (from : Z) (count : nat) : bool :=
  forallb (fun c => forallb (term_ok c) (combine freq_bounds freq_pct)) (zrange from count).

(* a percentage p = k/2 (0, 0.5, ..., 100): the numerator is within 1/2 of p*c/100, hence in 0..c *)
Definition percent_ok (c k : Z) : bool :=
  match percent_numerator (of_Z_f k / 2)%float c with
  | Some n => (0 <=? n)%Z && (n <=? c)%Z && (Z.abs (200 * n - k * c) <=? 100)%Z
  | None => false
  end.

Definition percent_sweep (from : Z) (count : nat) : bool :=
  forallb (fun c => forallb (percent_ok c) (zrange 0 201)) (zrange from count).
