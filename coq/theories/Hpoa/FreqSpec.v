(* Specifications of the three patterns that classify the frequency column of an HPOA line
     HPO_PATTERN '^HP:\d{7}$'      RATIO_PATTERN '^(\d+)/(\d+)$'      PERCENTAGE_PATTERN '^(\d+\.?(\d+)?)%$'
   as statements about the text, and the fact that the three forms (and the empty text) exclude one another, so the
   order in which the loader tries them does not matter. *)
From Coq Require Import String Ascii List Bool Arith ZArith Lia.
From Hpotk Require Import Base.Str Io.Model Io.Proofs Sim.Model Sim.Proofs Obographs.Model Hpoa.Text.
Import ListNotations.
Open Scope string_scope.

(* ---- str.split: joining the pieces gives the text back; no piece contains the separator ---- *)
Lemma ssplit_aux_join c s : forall cur, smem c cur = false ->
  sjoin (String c "") (ssplit_aux c s cur) = cur ++ s /\ (forall x, In x (ssplit_aux c s cur) -> smem c x = false) /\ ssplit_aux c s cur <> [].
Proof.
  induction s as [|x s IH]; intros cur Hc; cbn [ssplit_aux].
  - cbn [sjoin]. rewrite sapp_nil_r. split; [reflexivity|]. split; [intros y [<-|[]]; exact Hc | discriminate].
  - destruct (Ascii.eqb x c) eqn:E.
    + apply Ascii.eqb_eq in E. subst x. destruct (IH "" eq_refl) as (J & A & N). split; [|split; [|discriminate]].
      * destruct (ssplit_aux c s "") as [|y l]; [contradiction|].
        change (sjoin (String c "") (cur :: y :: l)) with (cur ++ String c "" ++ sjoin (String c "") (y :: l)).
        rewrite J. reflexivity.
      * intros y [<-|Hy]; [exact Hc | exact (A y Hy)].
    + assert (Hc' : smem c (cur ++ String x "") = false) by (rewrite smem_app; cbn [smem]; rewrite Hc, E; reflexivity).
      destruct (IH (cur ++ String x "") Hc') as (J & A & N). split; [rewrite J, sapp_assoc; reflexivity|]. split; [exact A | exact N].
Qed.

Lemma ssplit_two c s a b : ssplit c s = [a; b] <-> (s = a ++ String c b /\ smem c a = false /\ smem c b = false).
Proof.
  split.
  - intro H. destruct (ssplit_aux_join c s "" eq_refl) as (J & A & _). unfold ssplit in H. rewrite H in J, A. cbn [sjoin append] in J.
    split; [symmetry; exact J|]. split; [apply A; left; reflexivity | apply A; right; left; reflexivity].
  - intros (-> & Ha & Hb). unfold ssplit. rewrite (ssplit_aux_sep c a b Ha). cbn [append]. rewrite (ssplit_aux_nosep c b Hb). reflexivity.
Qed.
Lemma ssplit_one c s a : ssplit c s = [a] <-> (s = a /\ smem c a = false).
Proof.
  split.
  - intro H. destruct (ssplit_aux_join c s "" eq_refl) as (J & A & _). unfold ssplit in H. rewrite H in J, A. cbn [sjoin append] in J.
    split; [symmetry; exact J | apply A; left; reflexivity].
  - intros (-> & Ha). unfold ssplit. rewrite (ssplit_aux_nosep c a Ha). reflexivity.
Qed.

(* digits contain neither of the separators *)
Lemma all_digits_no c s : is_digit c = false -> all_digits s = true -> smem c s = false.
Proof.
  intros Hc. induction s as [|x s IH]; intro H; [reflexivity|]. cbn [all_digits] in H. apply andb_prop in H. destruct H as [Hx Hs].
  cbn [smem]. rewrite (IH Hs), orb_false_r. destruct (Ascii.eqb x c) eqn:E; [|reflexivity]. apply Ascii.eqb_eq in E. subst x. rewrite Hc in Hx. discriminate.
Qed.
Lemma digits_all s : digits s = true -> all_digits s = true /\ s <> "".
Proof. destruct s; [discriminate|]. intro H. split; [exact H | discriminate]. Qed.

(* ---- RATIO ---- *)
Theorem ratio_of_spec s n m : ratio_of s = Some (n, m) <->
  exists a b, s = a ++ String "/" b /\ digits a = true /\ digits b = true /\ n = int_of a /\ m = int_of b.
Proof.
  unfold ratio_of. split.
  - destruct (ssplit "/" s) as [|a [|b [|x l]]] eqn:S; try discriminate. destruct (digits a && digits b) eqn:D; [|discriminate].
    intro H. injection H as <- <-. apply andb_prop in D. destruct D as [Da Db]. apply ssplit_two in S. destruct S as (-> & _ & _).
    exists a, b. auto.
  - intros (a & b & -> & Da & Db & -> & ->).
    assert (Sa : smem "/" a = false) by (apply all_digits_no; [reflexivity | exact (proj1 (digits_all a Da))]).
    assert (Sb : smem "/" b = false) by (apply all_digits_no; [reflexivity | exact (proj1 (digits_all b Db))]).
    rewrite (proj2 (ssplit_two "/" _ a b) (conj eq_refl (conj Sa Sb))), Da, Db. reflexivity.
Qed.

(* ---- HP term ---- *)
Lemma sdrop_app3 p s : sdrop (String.length p) (p ++ s) = s.
Proof. induction p as [|c p IH]; [reflexivity | exact IH]. Qed.
Lemma slen_app3 (a b : string) : String.length (a ++ b) = String.length a + String.length b.
Proof. induction a as [|c a IH]; cbn [append String.length]; [reflexivity | rewrite IH; reflexivity]. Qed.

Theorem is_hpo_id_spec s : is_hpo_id s = true <-> exists d, s = "HP:" ++ d /\ String.length d = 7 /\ all_digits d = true.
Proof.
  unfold is_hpo_id. split.
  - intro H. apply andb_prop in H. destruct H as [H D]. apply andb_prop in H. destruct H as [P L]. apply sprefixb_iff in P. destruct P as [d ->].
    change 3 with (String.length "HP:") in D. rewrite sdrop_app3 in D. apply Nat.eqb_eq in L. rewrite slen_app3 in L. cbn [String.length] in L.
    exists d. split; [reflexivity|]. split; [lia | exact D].
  - intros (d & -> & L & D). assert (P : sprefixb "HP:" ("HP:" ++ d) = true) by (apply sprefixb_iff; eexists; reflexivity). rewrite P.
    change 3 with (String.length "HP:"). rewrite sdrop_app3, D, slen_app3, L. reflexivity.
Qed.

(* ---- PERCENTAGE: the literal handed to float() ---- *)
Theorem percent_literal_spec s v : percent_literal s = Some v <->
  (s = v ++ "%" /\ (digits v = true \/ exists a b, v = a ++ String "." b /\ digits a = true /\ all_digits b = true)).
Proof.
  unfold percent_literal. split.
  - destruct (ssuffixb "%" s) eqn:Sx; [|discriminate]. apply ssuffixb_iff in Sx. destruct Sx as [p ->].
    rewrite (sdroplast_snoc p "%"%char).
    destruct (ssplit "." p) as [|a [|b [|x l]]] eqn:S; try discriminate.
    + destruct (digits a) eqn:Da; [|discriminate]. intro H. injection H as <-. apply ssplit_one in S. destruct S as [-> _].
      split; [reflexivity | left; exact Da].
    + destruct (digits a && match b with "" => true | String _ _ => all_digits b end) eqn:D; [|discriminate]. intro H. injection H as <-.
      apply andb_prop in D. destruct D as [Da Db]. apply ssplit_two in S. destruct S as (-> & _ & _).
      split; [reflexivity|]. right. exists a, b. split; [reflexivity|]. split; [exact Da|]. destruct b; [reflexivity | exact Db].
  - intros (-> & H). assert (Sx : ssuffixb "%" (v ++ "%") = true) by (apply ssuffixb_iff; eexists; reflexivity). rewrite Sx.
    rewrite (sdroplast_snoc v "%"%char). destruct H as [Dv|(a & b & -> & Da & Db)].
    + assert (N : smem "." v = false) by (apply all_digits_no; [reflexivity | exact (proj1 (digits_all v Dv))]).
      rewrite (proj2 (ssplit_one "." v v) (conj eq_refl N)), Dv. reflexivity.
    + assert (Na : smem "." a = false) by (apply all_digits_no; [reflexivity | exact (proj1 (digits_all a Da))]).
      assert (Nb : smem "." b = false) by (apply all_digits_no; [reflexivity | exact Db]).
      rewrite (proj2 (ssplit_two "." _ a b) (conj eq_refl (conj Na Nb))), Da. destruct b; [reflexivity | rewrite Db; reflexivity].
Qed.

(* ---- the forms exclude one another ---- *)
Theorem frequency_forms_disjoint s :
  (is_hpo_id s = true -> ratio_of s = None /\ percent_literal s = None) /\
  (forall n m, ratio_of s = Some (n, m) -> percent_literal s = None).
Proof.
  split.
  - intro H. apply is_hpo_id_spec in H. destruct H as (d & -> & L & D). split.
    + destruct (ratio_of ("HP:" ++ d)) as [[n m]|] eqn:R; [|reflexivity]. apply ratio_of_spec in R. destruct R as (a & b & E & Da & _).
      destruct a as [|x a]; [discriminate Da|]. cbn [append] in E. injection E as <- _. cbn [digits all_digits] in Da. discriminate Da.
    + destruct (percent_literal ("HP:" ++ d)) as [v|] eqn:P; [|reflexivity]. apply percent_literal_spec in P. destruct P as (E & [Dv|(a & b & -> & Da & _)]).
      * destruct v as [|x v]; [discriminate Dv|]. cbn [append] in E. injection E as <- _. cbn [digits all_digits] in Dv. discriminate Dv.
      * destruct a as [|x a]; [discriminate Da|]. cbn [append] in E. injection E as <- _. cbn [digits all_digits] in Da. discriminate Da.
  - intros n m R. apply ratio_of_spec in R. destruct R as (a & b & -> & Da & Db & _ & _).
    destruct (percent_literal (a ++ String "/" b)) as [v|] eqn:P; [|reflexivity]. exfalso. apply percent_literal_spec in P. destruct P as (E & _).
    (* the text ends with a digit, not with a percent sign *)
    assert (G : forall t u : string, all_digits u = true -> u <> "" -> forall w, t ++ u = w ++ "%" -> False).
    { intros t u Du Hu. revert t. induction u as [|x u IH]; [contradiction|]. intros t w Ew. cbn [all_digits] in Du. apply andb_prop in Du. destruct Du as [Dx Du].
      destruct u as [|y u].
      - assert (X : t ++ String x "" = w ++ String "%" "") by exact Ew.
        apply (f_equal (fun z => sdroplast z)) in X. clear X.
        assert (L : forall (p q : string) c d, p ++ String c "" = q ++ String d "" -> c = d).
        { induction p as [|h p IHp]; intros q c d Q; destruct q as [|k q]; cbn [append] in Q.
          - injection Q as Q. exact Q.
          - injection Q as _ Q. destruct q; discriminate.
          - injection Q as _ Q. destruct p; discriminate.
          - injection Q as _ Q. exact (IHp q c d Q). }
        pose proof (L _ _ _ _ Ew) as Q. subst x. discriminate Dx.
      - apply (IH Du ltac:(discriminate) (t ++ String x "") w). rewrite sapp_assoc. exact Ew. }
    assert (E' : (a ++ "/") ++ b = v ++ "%") by (rewrite sapp_assoc; exact E).
    exact (G (a ++ "/") b (proj1 (digits_all b Db)) (proj2 (digits_all b Db)) v E').
Qed.

Print Assumptions frequency_forms_disjoint.
