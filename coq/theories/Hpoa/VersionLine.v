(* Specification of the HPOA header version (HPOA_VERSION_PATTERN = '^#(date|version): (?P<version>[\w-]+)\w?$', match on a
   header line): the line - without its trailing line feed, if any - is "#date: " or "#version: " followed by a
   non-empty text of word characters and dashes, and that whole text is the version. *)
From Coq Require Import String Ascii List Bool Arith Lia.
From Hpotk Require Import Base.Str Io.Model Io.Proofs Obographs.Model Hpoa.Text.
Import ListNotations.
Open Scope string_scope.

Lemma sdrop_app' p s : sdrop (String.length p) (p ++ s) = s.
Proof. induction p as [|c p IH]; [reflexivity | exact IH]. Qed.

Theorem version_of_line_spec (ln v : string) :
  version_of_line ln = Some v <->
  (v <> "" /\ all_word_dash v = true /\ (chomp ln = "#date: " ++ v \/ chomp ln = "#version: " ++ v)).
Proof.
  unfold version_of_line. set (l := chomp ln). split.
  - destruct (sprefixb "#date: " l) eqn:D.
    + apply sprefixb_iff in D. destruct D as [t D]. rewrite D. change 7 with (String.length "#date: "). rewrite sdrop_app'.
      destruct t as [|c t]; [discriminate|]. destruct (all_word_dash (String c t)) eqn:A; [|discriminate]. intro H. injection H as <-.
      split; [discriminate|]. split; [exact A | left; reflexivity].
    + destruct (sprefixb "#version: " l) eqn:V; [|discriminate]. apply sprefixb_iff in V. destruct V as [t V]. rewrite V.
      change 10 with (String.length "#version: "). rewrite sdrop_app'.
      destruct t as [|c t]; [discriminate|]. destruct (all_word_dash (String c t)) eqn:A; [|discriminate]. intro H. injection H as <-.
      split; [discriminate|]. split; [exact A | right; reflexivity].
  - intros (Hne & A & [E|E]); rewrite E.
    + assert (P : sprefixb "#date: " ("#date: " ++ v) = true) by (apply sprefixb_iff; eexists; reflexivity). rewrite P.
      change 7 with (String.length "#date: "). rewrite sdrop_app'. destruct v; [contradiction|]. rewrite A. reflexivity.
    + assert (P0 : sprefixb "#date: " ("#version: " ++ v) = false) by reflexivity. rewrite P0.
      assert (P : sprefixb "#version: " ("#version: " ++ v) = true) by (apply sprefixb_iff; eexists; reflexivity). rewrite P.
      change 10 with (String.length "#version: "). rewrite sdrop_app'. destruct v; [contradiction|]. rewrite A. reflexivity.
Qed.

Print Assumptions version_of_line_spec.
