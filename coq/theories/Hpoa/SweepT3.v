(* finite sweep closed by computation: cohort sizes 50001 .. 75000 x the six frequency terms *)
From Coq Require Import ZArith.
From Hpotk Require Import Hpoa.Float.
Lemma term_sweep_3 : term_sweep 50001 25000 = true.
Proof. vm_compute. reflexivity. Qed.
