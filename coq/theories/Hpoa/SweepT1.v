(* finite sweep closed by computation: cohort sizes 1 .. 25000 x the six frequency terms *)
From Coq Require Import ZArith.
From Hpotk Require Import Hpoa.Float.
Lemma term_sweep_1 : term_sweep 1 25000 = true.
Proof. vm_compute. reflexivity. Qed.
