(* C08, text level: loading the lines of a file = scanning the header, parsing every data line, then
   the line-level loader of Hpoa/Model.v (to which C08_aggregation etc. apply). *)
From Coq Require Import String List Bool Arith ZArith.
From Coq Require Import PrimFloat.
From Hpotk Require Import Base.Result Base.Str TermId.Model Io.Model Io.Proofs Hpoa.Float Hpoa.Model Hpoa.Proofs Hpoa.Text.
Import ListNotations.
Open Scope string_scope.
Open Scope list_scope.

Theorem load_text_factors cohort salvage cvt lines ds v :
  load_text cohort salvage cvt lines = Ok (ds, v) ->
  exists parsed,
    Forall2 (fun ln l => parse_hpoa_line cvt ln = Ok l) (snd (scan true None lines)) parsed /\
    load cohort salvage parsed = Ok ds /\ v = fst (scan true None lines).
Proof.
  unfold load_text. destruct (scan true None lines) as [version data]. cbn [fst snd].
  destruct (rsequence (map (parse_hpoa_line cvt) data)) as [parsed|e] eqn:R; [|discriminate]. cbn [bind].
  destruct (load cohort salvage parsed) as [ds'|e] eqn:L; [|discriminate]. cbn [bind]. intro H. inversion H; subst.
  exists parsed. split; [apply rsequence_forall2; exact R|]. auto.
Qed.

(* once the header line has been seen every following line is a data line, in file order *)
Theorem scan_after_header version lines : scan false version lines = (version, lines).
Proof. induction lines as [|ln r IH]; cbn [scan]; [reflexivity | rewrite IH; reflexivity]. Qed.

(* before it, lines are only inspected for the version; nothing before the header is data *)
Theorem scan_header_line version ln r : sprefixb "database_id" ln = true -> sprefixb "#" ln = false ->
  scan true version (ln :: r) = (version, r).
Proof. intros H1 H2. cbn [scan]. rewrite H2, H1. apply scan_after_header. Qed.

Theorem scan_old_header_line version ln r : sprefixb "#DatabaseID" ln = true ->
  scan true version (ln :: r) = (version, r).
Proof.
  intro H1. cbn [scan]. assert (H2 : sprefixb "#" ln = true).
  { apply Io.Proofs.sprefixb_iff in H1. destruct H1 as [r0 ->]. apply Io.Proofs.sprefixb_iff. exists ("DatabaseID" ++ r0)%string. reflexivity. }
  rewrite H2, H1. apply scan_after_header.
Qed.

Example text_examples :
  map (freq_of_string [("12.5", 0x1.9p+3%float)]) ["" ; "HP:0040280"; "HP:0040285"; "HP:0000001"; "3/10"; "0/0"; "12.5%"; "5%"; "1/2/3"; "abc"; "12.%"]%string
  = [FEmpty; FTerm 5; FTerm 0; FTerm 6; FRatio 3 10; FRatio 0 0; FPercent 0x1.9p+3%float; FBad; FBad; FBad; FBad] /\
  map version_of_line ["#version: 2024-04-26"; "#date: 2021-08-02
"; "#version: 2024-04-26 "; "#description: x"; "#version: "]%string
  = [Some "2024-04-26"; Some "2021-08-02"; None; None; None]%string /\
  strip "  a b	
"%string = "a b"%string.
Proof. vm_compute. repeat split; reflexivity. Qed.
