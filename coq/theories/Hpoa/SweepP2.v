(* finite sweep closed by computation: cohort sizes 1001 .. 2000 x percentages 0, 0.5, ..., 100 *)
From Coq Require Import ZArith.
From Hpotk Require Import Hpoa.Float.
Lemma percent_sweep_2 : percent_sweep 1001 1000 = true.
Proof. vm_compute. reflexivity. Qed.
