(* finite sweep closed by computation: cohort sizes 1 .. 1000 x percentages 0, 0.5, ..., 100 *)
From Coq Require Import ZArith.
From Hpotk Require Import Hpoa.Float.
Lemma percent_sweep_1 : percent_sweep 1 1000 = true.
Proof. vm_compute. reflexivity. Qed.
