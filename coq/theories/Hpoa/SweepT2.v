(* finite sweep closed by computation: cohort sizes 25001 .. 50000 x the six frequency terms *)
From Coq Require Import ZArith.
From Hpotk Require Import Hpoa.Float.
Lemma term_sweep_2 : term_sweep 25001 25000 = true.
Proof. vm_compute. reflexivity. Qed.
