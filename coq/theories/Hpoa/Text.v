(* Text level of the HPOA loader: from the lines of the file to the parsed lines of Hpoa/Model.v
     SimpleHpoaDiseaseLoader.load          header detection (both header styles), version line
     _parse_hpoa_line                      strip, split on TAB, NOT qualifier, ';' lists, evidence, aspect
     _parse_frequency                      classification of the frequency column (the four regexes)
   ASCII only (\d, \w, str.upper, str.strip are modelled for ASCII).  float('12.5') is an oracle: the
   conversion of a decimal literal to binary64 is supplied per case as a table.  Definitions only. *)
From Coq Require Import String Ascii List Bool Arith ZArith.
From Coq Require Import PrimFloat.
From Hpotk Require Import Base.Result Base.Str TermId.Model Io.Model Sim.Model Obographs.Model Hpoa.Float Hpoa.Model.
Import ListNotations.
Open Scope string_scope.
Open Scope list_scope.

Definition tab : ascii := "009"%char.

(* str.strip() / str.isspace() for ASCII whitespace *)
Definition is_space (c : ascii) : bool :=
  let n := nat_of_ascii c in Nat.eqb n 32 || (Nat.leb 9 n && Nat.leb n 13) || (Nat.leb 28 n && Nat.leb n 31).
Fixpoint lstrip (s : string) : string :=
  match s with String c r => if is_space c then lstrip r else s | EmptyString => EmptyString end.
Fixpoint srev_acc (s acc : string) : string := match s with EmptyString => acc | String c r => srev_acc r (String c acc) end.
Definition srev (s : string) : string := srev_acc s EmptyString.
Definition strip (s : string) : string := srev (lstrip (srev (lstrip s))).
Fixpoint all_space (s : string) : bool := match s with EmptyString => true | String c r => is_space c && all_space r end.
Definition isspace (s : string) : bool := match s with EmptyString => false | _ => all_space s end.

Definition upper_char (c : ascii) : ascii :=
  let n := nat_of_ascii c in if Nat.leb 97 n && Nat.leb n 122 then ascii_of_nat (n - 32) else c.
Fixpoint upper (s : string) : string := match s with EmptyString => EmptyString | String c r => String (upper_char c) (upper r) end.

Fixpoint all_digits (s : string) : bool := match s with EmptyString => true | String c r => is_digit c && all_digits r end.
Definition digits (s : string) : bool := match s with EmptyString => false | _ => all_digits s end.
Fixpoint int_acc (s : string) (acc : Z) : Z :=
  match s with EmptyString => acc | String c r => int_acc r (10 * acc + Z.of_nat (nat_of_ascii c - 48))%Z end.
Definition int_of (s : string) : Z := int_acc s 0%Z.

(* RATIO_PATTERN ^(\d+)/(\d+)$ *)
Definition ratio_of (s : string) : option (Z * Z) :=
  match ssplit "/"%char s with
  | [a; b] => if digits a && digits b then Some (int_of a, int_of b) else None
  | _ => None
  end.

(* PERCENTAGE_PATTERN ^(\d+\.?(\d+)?)%$ : the literal before the % sign *)
Definition sdroplast1 (s : string) : string := sdroplast s.
Definition percent_literal (s : string) : option string :=
  if ssuffixb "%" s then
    let v := sdroplast s in
    match ssplit "."%char v with
    | [a] => if digits a then Some v else None
    | [a; b] => if digits a && (match b with EmptyString => true | _ => all_digits b end) then Some v else None
    | _ => None
    end
  else None.

(* HPO_PATTERN ^HP:\d{7}$ *)
Definition is_hpo_id (s : string) : bool :=
  sprefixb "HP:" s && Nat.eqb (String.length s) 10 && all_digits (sdrop 3 s).

Definition freq_terms : list string := ["HP:0040285"; "HP:0040284"; "HP:0040283"; "HP:0040282"; "HP:0040281"; "HP:0040280"].
Fixpoint sindex_of (x : string) (l : list string) : nat :=
  match l with [] => 0 | y :: r => if seqb x y then 0 else S (sindex_of x r) end.

(* the frequency column; cvt is the float() oracle for percentage literals *)
Definition freq_of_string (cvt : list (string * float)) (s : string) : freq :=
  match s with
  | EmptyString => FEmpty
  | _ => if is_hpo_id s then FTerm (sindex_of s freq_terms)          (* 6 = not a frequency term: parse_hpo_frequency gives None *)
         else match ratio_of s with
              | Some (n, m) => FRatio n m
              | None => match percent_literal s with
                        | Some lit => match find (fun e => seqb lit (fst e)) cvt with Some e => FPercent (snd e) | None => FBad end
                        | None => FBad
                        end
              end
  end.

(* filter(lambda t: t and not t.isspace(), field.split(';')) then TermId.from_curie *)
Definition curie_list (field : string) : res (list key) :=
  rsequence (map (fun t => rmap tkey (from_curie t)) (filter (fun t => negb (seqb t "") && negb (isspace t)) (ssplit ";"%char field))).

Definition aspect_of (s : string) : aspect :=
  let u := upper s in if seqb u "P" then AP else if seqb u "I" then AI else if seqb u "C" then AC else if seqb u "M" then AM else ANone.

(* EvidenceCode.parse(...).name, or "" for None (then AnnotationReference.evidence_code is None) *)
Definition evidence_of (s : string) : string :=
  let u := upper s in if seqb u "IEA" || seqb u "TAS" || seqb u "PCS" then u else "".

(* _parse_hpoa_line: IndexError when there are fewer than 12 columns *)
Definition parse_hpoa_line (cvt : list (string * float)) (ln : string) : res line :=
  match ssplit tab (strip ln) with
  | f0 :: f1 :: f2 :: f3 :: f4 :: f5 :: f6 :: f7 :: f8 :: f9 :: f10 :: f11 :: _ =>
      bind (curie_list f4) (fun refs =>
      (* AnnotationReference(id, None) raises: an unknown evidence code is an error as soon as there is a reference *)
      bind (match refs, evidence_of f5 with _ :: _, EmptyString => Err ValueError | _, _ => Ok tt end) (fun _ =>
      bind (curie_list f9) (fun mods =>
      bind (rmap tkey (from_curie f3)) (fun ph =>
      Ok (mkLine f0 f1 (seqb (upper f2) "NOT") ph (map (fun r => (r, evidence_of f5)) refs) (freq_of_string cvt f7) mods (aspect_of f10))))))
  | _ => Err IndexError
  end.

(* HPOA_VERSION_PATTERN ^#(date|version): ([\w-]+)\w?$ on a line (with or without its trailing newline) *)
Definition is_word_dash (c : ascii) : bool := is_word c || Ascii.eqb c "-".
Fixpoint all_word_dash (s : string) : bool := match s with EmptyString => true | String c r => is_word_dash c && all_word_dash r end.
Definition chomp (s : string) : string := if ssuffixb (String "010"%char EmptyString) s then sdroplast s else s.
Definition version_of_line (ln : string) : option string :=
  let l := chomp ln in
  let body := if sprefixb "#date: " l then Some (sdrop 7 l) else if sprefixb "#version: " l then Some (sdrop 10 l) else None in
  match body with
  | Some v => match v with EmptyString => None | _ => if all_word_dash v then Some v else None end
  | None => None
  end.

(* the header state machine of load: (version, data lines) *)
Fixpoint scan (expecting_header : bool) (version : option string) (lines : list string) : option string * list string :=
  match lines with
  | [] => (version, [])
  | ln :: r =>
      if expecting_header then
        if sprefixb "#" ln then
          if sprefixb "#DatabaseID" ln then scan false version r
          else scan true (match version_of_line ln with Some v => Some v | None => version end) r
        else if sprefixb "database_id" ln then scan false version r
        else scan true version r
      else let '(v, ds) := scan false version r in (v, ln :: ds)
  end.

(* SimpleHpoaDiseaseLoader.load on the lines of a file *)
Definition load_text (cohort : Z) (salvage : bool) (cvt : list (string * float)) (lines : list string)
  : res (list disease * option string) :=
  let '(version, data) := scan true None lines in
  bind (rsequence (map (parse_hpoa_line cvt) data)) (fun parsed =>
  bind (load cohort salvage parsed) (fun ds => Ok (ds, version))).
