(* finite sweep closed by computation: cohort sizes 75001 .. 100000 x the six frequency terms *)
From Coq Require Import ZArith.
From Hpotk Require Import Hpoa.Float.
Lemma term_sweep_4 : term_sweep 75001 25000 = true.
Proof. vm_compute. reflexivity. Qed.
