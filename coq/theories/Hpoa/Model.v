(* Executable model of src/hpotk/annotations/load/hpoa/_impl.py at the level of parsed lines:
     SimpleHpoaDiseaseLoader.load (grouping by disease), _assemble_hpo_disease, _parse_hpo_annotations
     (grouping by phenotype, Ratio.fold, union of references / modifiers, modes of inheritance),
     _parse_frequency (empty | HPO frequency term | n/m | percentage; negation; salvage).
   The tab / ';' splitting of text lines is exercised by the correspondence only (real files).
   defaultdict(list) grouping = keys in first-occurrence order, each group in file order.
   Definitions only. *)
From Coq Require Import String List Bool Arith ZArith.
From Coq Require Import PrimFloat.
From Hpotk Require Import Base.Result Base.Str TermId.Model Hpoa.Float.
Import ListNotations.
Open Scope list_scope.

Inductive aspect := AP | AI | AC | AM | ANone.      (* P, I, C, M, anything else *)

Inductive freq :=
| FEmpty                       (* '' *)
| FTerm (i : nat)              (* HP:0040285 .. HP:0040280 -> 0 .. 5 *)
| FRatio (n m : Z)             (* n/m *)
| FPercent (p : float)         (* 12.5% -> float('12.5') *)
| FBad.                        (* anything else: ValueError *)

Record line := mkLine {
  l_disease : string;          (* database_id, used as is *)
  l_name : string;
  l_negated : bool;            (* qualifier.upper() == 'NOT' *)
  l_pheno : key;               (* hpo_id as a term id *)
  l_refs : list (key * string);(* (reference id, evidence code) *)
  l_freq : freq;
  l_mods : list key;
  l_aspect : aspect }.

Section Loader.
Variable cohort : Z.           (* cohort_size *)
Variable salvage : bool.       (* salvage_negated_frequencies *)

(* _parse_frequency -> (numerator, denominator) *)
Definition parse_frequency (negated : bool) (f : freq) : res (Z * Z) :=
  match f with
  | FEmpty => Ok ((if negated then 0 else 1), 1)%Z
  | FTerm i =>
      match nth_error freq_bounds i with
      | Some b => if negated then Ok (0%Z, cohort)
                  else match term_numerator b cohort with Some n => Ok (n, cohort) | None => Err OtherError end
      | None => Err OtherError         (* parse_hpo_frequency returned None: AttributeError *)
      end
  | FRatio i m =>
      if negated then
        let d := if (m =? 0)%Z then cohort else m in
        Ok ((if (i =? 0)%Z && salvage then 0 else d - i), d)%Z
      else Ok (i, m)
  | FPercent p => match percent_numerator p cohort with Some n => Ok (n, cohort) | None => Err OtherError end
  | FBad => Err ValueError
  end.

(* keys in first-occurrence order (dict / set semantics; order is not observable through the property) *)
Fixpoint gdedup {A} (eqb : A -> A -> bool) (l : list A) : list A :=
  match l with [] => [] | x :: r => x :: filter (fun y => negb (eqb x y)) (gdedup eqb r) end.
Definition sdedup := gdedup seqb.
Definition kdedup := gdedup key_eqb.
Definition ref_eqb (a b : key * string) : bool := key_eqb (fst a) (fst b) && seqb (snd a) (snd b).
Definition rdedup := gdedup ref_eqb.

Definition is_aspect (a b : aspect) : bool :=
  match a, b with AP, AP | AI, AI | AC, AC | AM, AM | ANone, ANone => true | _, _ => false end.

(* one annotation: (phenotype, numerator, denominator, references, modifiers) *)
Definition annotation : Type := (key * Z * Z * list (key * string) * list key)%type.

(* Ratio.fold over the lines of one phenotype; SimpleHpoDiseaseAnnotation checks numerator >= 0, denominator > 0 *)
Definition fold_lines (p : key) (ls : list line) : res annotation :=
  bind (rsequence (map (fun l => parse_frequency (l_negated l) (l_freq l)) ls)) (fun rs =>
    let n := fold_right Z.add 0%Z (map fst rs) in
    let d := fold_right Z.add 0%Z (map snd rs) in
    if (n <? 0)%Z || (d <=? 0)%Z then Err ValueError
    else Ok (p, n, d, rdedup (flat_map l_refs ls), kdedup (flat_map l_mods ls))).

Record disease := mkDisease { d_id : string; d_name : string; d_annotations : list annotation; d_moi : list key }.

Definition assemble (id : string) (ls : list line) : res disease :=
  let ph := filter (fun l => is_aspect (l_aspect l) AP) ls in
  bind (rsequence (map (fun p => fold_lines p (filter (fun l => key_eqb (l_pheno l) p) ph)) (kdedup (map l_pheno ph)))) (fun anns =>
  Ok (mkDisease id (match ls with l :: _ => l_name l | [] => EmptyString end) anns
                (kdedup (map l_pheno (filter (fun l => is_aspect (l_aspect l) AI) ls))))).

Definition load (lines : list line) : res (list disease) :=
  rsequence (map (fun id => assemble id (filter (fun l => seqb (l_disease l) id) lines)) (sdedup (map l_disease lines))).
End Loader.
