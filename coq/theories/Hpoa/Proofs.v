(* C08: HPOA loading aggregates lines into per-disease, per-phenotype frequencies. *)
From Coq Require Import String List Bool Arith ZArith Lia Permutation Setoid.
From Coq Require Import PrimFloat.
From Hpotk Require Import Base.Result Base.Str TermId.Model TermId.Proofs Hpoa.Float Hpoa.Model.
Import ListNotations.
Open Scope list_scope.

(* ---------- first-occurrence de-duplication ---------- *)
Section Dedup.
Context {A : Type} (eqb : A -> A -> bool).
Hypothesis eqb_eq : forall a b, eqb a b = true <-> a = b.

Lemma gdedup_in l x : In x (gdedup eqb l) <-> In x l.
Proof.
  induction l as [|a l IH]; cbn [gdedup In]; [reflexivity|]. rewrite filter_In, IH. split.
  - intros [H|[H _]]; auto.
  - intros [H|H]; [left; exact H|]. destruct (eqb a x) eqn:K; [left; apply eqb_eq; exact K | right; split; [exact H | reflexivity]].
Qed.

Lemma gdedup_nodup l : NoDup (gdedup eqb l).
Proof.
  induction l as [|a l IH]; cbn [gdedup]; constructor.
  - rewrite filter_In. intros [_ H]. assert (K : eqb a a = true) by (apply eqb_eq; reflexivity). rewrite K in H. discriminate.
  - apply NoDup_filter. exact IH.
Qed.
End Dedup.

Lemma ref_eqb_eq a b : ref_eqb a b = true <-> a = b.
Proof.
  destruct a as [k e], b as [k' e']. unfold ref_eqb. cbn [fst snd]. rewrite andb_true_iff, key_eqb_eq, seqb_eq.
  split; [intros [-> ->]; reflexivity | intro H; inversion H; auto].
Qed.

Lemma rsequence_forall2 {A B} (f : A -> res B) (l : list A) (rs : list B) :
  rsequence (map f l) = Ok rs -> Forall2 (fun a r => f a = Ok r) l rs.
Proof.
  revert rs. induction l as [|a l IH]; intros rs H; cbn [map rsequence] in H.
  - inversion H. constructor.
  - destruct (f a) as [b|e] eqn:Fa; [|discriminate]. cbn [bind] in H.
    destruct (rsequence (map f l)) as [bs|e] eqn:R; [|discriminate]. cbn [bind] in H. inversion H; subst.
    constructor; [exact Fa | apply IH; reflexivity].
Qed.

Definition zsum (l : list Z) : Z := fold_right Z.add 0%Z l.

Section Loader.
Variable cohort : Z.
Variable salvage : bool.

Definition pf (l : line) : res (Z * Z) := parse_frequency cohort salvage (l_negated l) (l_freq l).

(* the lines of disease id / its phenotype (aspect P) lines for phenotype p, in file order *)
Definition lines_of (lines : list line) (id : string) : list line := filter (fun l => seqb (l_disease l) id) lines.
Definition pheno_lines (ls : list line) : list line := filter (fun l => is_aspect (l_aspect l) AP) ls.
Definition lines_for (ls : list line) (p : key) : list line := filter (fun l => key_eqb (l_pheno l) p) (pheno_lines ls).

Definition ann_pheno (a : annotation) : key := let '(p, _, _, _, _) := a in p.

Lemma fold_lines_spec p ls a : fold_lines cohort salvage p ls = Ok a ->
  exists rs, Forall2 (fun l r => pf l = Ok r) ls rs /\
    a = (p, zsum (map fst rs), zsum (map snd rs), rdedup (flat_map l_refs ls), kdedup (flat_map l_mods ls)) /\
    (0 <= zsum (map fst rs))%Z /\ (0 < zsum (map snd rs))%Z.
Proof.
  unfold fold_lines. destruct (rsequence (map (fun l => parse_frequency cohort salvage (l_negated l) (l_freq l)) ls)) as [rs|e] eqn:R; [|discriminate].
  cbn [bind]. change (fold_right Z.add 0%Z (map fst rs)) with (zsum (map fst rs)).
  change (fold_right Z.add 0%Z (map snd rs)) with (zsum (map snd rs)).
  destruct ((zsum (map fst rs) <? 0)%Z || (zsum (map snd rs) <=? 0)%Z) eqn:C; intro H; [discriminate H|].
  inversion H; subst a. apply orb_false_iff in C. destruct C as [C1 C2]. apply Z.ltb_ge in C1. apply Z.leb_gt in C2.
  exists rs. split; [apply (rsequence_forall2 _ _ _ R)|]. auto.
Qed.

(* exactly one disease per distinct database id; per disease exactly one annotation per distinct
   phenotype (aspect P) term; numerator / denominator are the sums of the per-line counts; references
   and modifiers are united; inheritance (aspect I) terms become the modes of inheritance *)
Theorem load_spec lines ds : load cohort salvage lines = Ok ds ->
  map d_id ds = sdedup (map l_disease lines) /\ NoDup (map d_id ds) /\
  forall d, In d ds ->
    let ls := lines_of lines (d_id d) in
    ls <> [] /\
    map ann_pheno (d_annotations d) = kdedup (map l_pheno (pheno_lines ls)) /\ NoDup (map ann_pheno (d_annotations d)) /\
    d_moi d = kdedup (map l_pheno (filter (fun l => is_aspect (l_aspect l) AI) ls)) /\
    forall a, In a (d_annotations d) ->
      let g := lines_for ls (ann_pheno a) in
      g <> [] /\
      exists rs, Forall2 (fun l r => pf l = Ok r) g rs /\
        a = (ann_pheno a, zsum (map fst rs), zsum (map snd rs), rdedup (flat_map l_refs g), kdedup (flat_map l_mods g)) /\
        (0 <= zsum (map fst rs))%Z /\ (0 < zsum (map snd rs))%Z.
Proof.
  unfold load. intro H. apply rsequence_forall2 in H.
  set (ids := sdedup (map l_disease lines)) in *.
  assert (Hids : map d_id ds = ids /\ forall d, In d ds -> assemble cohort salvage (d_id d) (lines_of lines (d_id d)) = Ok d).
  { clear -H. induction H as [|id d ids ds Hd _ IH]; [split; [reflexivity | intros d []]|].
    assert (E : d_id d = id).
    { unfold assemble in Hd. destruct (rsequence _) in Hd; [|discriminate]. cbn [bind] in Hd. inversion Hd. reflexivity. }
    destruct IH as [IH1 IH2]. split; [cbn [map]; rewrite E, IH1; reflexivity|].
    intros d' [<-|Hd']; [rewrite E; exact Hd | exact (IH2 d' Hd')]. }
  destruct Hids as [Hm Hd]. split; [exact Hm|]. split; [rewrite Hm; exact (gdedup_nodup seqb seqb_eq _)|].
  intros d Hin. specialize (Hd d Hin). set (ls := lines_of lines (d_id d)) in *.
  assert (Hne : ls <> []).
  { assert (In (d_id d) ids) by (rewrite <- Hm; apply in_map; exact Hin).
    unfold ids, sdedup in H0. apply (proj1 (gdedup_in seqb seqb_eq _ _)) in H0. apply in_map_iff in H0. destruct H0 as (l & El & Hl).
    intro E. assert (In l ls) by (apply filter_In; split; [exact Hl | apply seqb_eq; exact El]). rewrite E in H0. destruct H0. }
  split; [exact Hne|].
  unfold assemble in Hd. fold (pheno_lines ls) in Hd.
  destruct (rsequence (map (fun p => fold_lines cohort salvage p (filter (fun l => key_eqb (l_pheno l) p) (pheno_lines ls)))
                           (kdedup (map l_pheno (pheno_lines ls))))) as [anns|e] eqn:R; [|discriminate].
  cbn [bind] in Hd. inversion Hd as [Hd']. cbn [d_annotations d_moi]. clear Hd Hd'.
  apply rsequence_forall2 in R.
  assert (HA : map ann_pheno anns = kdedup (map l_pheno (pheno_lines ls)) /\
               forall a, In a anns -> fold_lines cohort salvage (ann_pheno a) (lines_for ls (ann_pheno a)) = Ok a).
  { clear -R. unfold lines_for. induction R as [|p a ps anns Ha _ IH]; [split; [reflexivity | intros a []]|].
    assert (E : ann_pheno a = p) by (destruct (fold_lines_spec _ _ _ Ha) as (rs & _ & -> & _); reflexivity).
    destruct IH as [IH1 IH2]. split; [cbn [map]; rewrite E, IH1; reflexivity|].
    intros a' [<-|Ha']; [rewrite E; exact Ha | exact (IH2 a' Ha')]. }
  destruct HA as [HA1 HA2]. split; [exact HA1|]. split; [rewrite HA1; exact (gdedup_nodup key_eqb key_eqb_eq _)|]. split; [reflexivity|].
  intros a Ha. specialize (HA2 a Ha). set (g := lines_for ls (ann_pheno a)) in *. split.
  - assert (In (ann_pheno a) (kdedup (map l_pheno (pheno_lines ls)))) by (rewrite <- HA1; apply in_map; exact Ha).
    unfold kdedup in H0. apply (proj1 (gdedup_in key_eqb key_eqb_eq _ _)) in H0. apply in_map_iff in H0. destruct H0 as (l & El & Hl).
    intro E. assert (In l g) by (apply filter_In; split; [exact Hl | apply key_eqb_eq; exact El]). rewrite E in H0. destruct H0.
  - destruct (fold_lines_spec _ _ _ HA2) as (rs & F & Ea & P1 & P2). exists rs. auto.
Qed.

(* ---------- per-line ratios ---------- *)
(* what a well-formed line is, as far as its frequency goes *)
Definition term_bound : Z := 100000.
Definition percent_bound : Z := 2000.

Definition wf_freq (negated : bool) (f : freq) : Prop :=
  match f with
  | FEmpty => True
  | FTerm i => i < 6 /\ (1 <= cohort <= term_bound)%Z
  | FRatio n m => (0 <= n <= m)%Z /\ ((0 < m)%Z \/ (negated = true /\ m = 0%Z /\ n = 0%Z /\ (0 < cohort)%Z))
  | FPercent p => exists k, (0 <= k <= 200)%Z /\ p = (of_Z_f k / 2)%float /\ (1 <= cohort <= percent_bound)%Z
  | FBad => False
  end.
End Loader.

(* ---------- the finite float sweeps (compiled separately, see Hpoa/Sweep*.v) ---------- *)
Lemma zrange_in n : forall start c, In c (zrange start n) <-> (start <= c < start + Z.of_nat n)%Z.
Proof.
  induction n as [|n IH]; intros start c; cbn [zrange In]; [lia|]. rewrite IH. lia.
Qed.

Lemma term_sweep_lift from count : term_sweep from count = true ->
  forall c i b, (from <= c < from + Z.of_nat count)%Z -> nth_error freq_bounds i = Some b ->
  exists n lo hi, term_numerator b c = Some n /\ nth_error freq_pct i = Some (lo, hi) /\
    (0 <= n <= c)%Z /\ (lo * c / 100 <= n <= (hi * c + 99) / 100)%Z.
Proof.
  unfold term_sweep. intros H c i b Hc Hb. rewrite forallb_forall in H. specialize (H c (proj2 (zrange_in count from c) Hc)).
  rewrite forallb_forall in H.
  assert (exists pq, nth_error freq_pct i = Some pq) as [[lo hi] Hp].
  { assert (Hi : i < length freq_bounds) by (apply nth_error_Some; rewrite Hb; discriminate). cbn in Hi. do 6 (destruct i as [|i]; [eexists; reflexivity|]). lia. }
  assert (Hin : In (b, (lo, hi)) (combine freq_bounds freq_pct)).
  { clear -Hb Hp. revert Hb Hp. generalize freq_bounds freq_pct. induction i as [|i IH]; intros [|x xs] [|y ys] Hb Hp; cbn in *; try discriminate.
    - inversion Hb; inversion Hp; subst. left. reflexivity.
    - right. exact (IH xs ys Hb Hp). }
  specialize (H _ Hin). unfold term_ok in H. cbn [fst snd] in H. destruct (term_numerator b c) as [n|]; [|discriminate].
  exists n, lo, hi. split; [reflexivity|]. split; [exact Hp|]. rewrite !andb_true_iff, !Z.leb_le in H. lia.
Qed.

Lemma percent_sweep_lift from count : percent_sweep from count = true ->
  forall c k, (from <= c < from + Z.of_nat count)%Z -> (0 <= k <= 200)%Z ->
  exists n, percent_numerator (of_Z_f k / 2)%float c = Some n /\ (0 <= n <= c)%Z /\ (Z.abs (200 * n - k * c) <= 100)%Z.
Proof.
  unfold percent_sweep. intros H c k Hc Hk. rewrite forallb_forall in H. specialize (H c (proj2 (zrange_in count from c) Hc)).
  rewrite forallb_forall in H. specialize (H k). assert (Hin : In k (zrange 0 201)) by (apply zrange_in; lia).
  specialize (H Hin). unfold percent_ok in H. destruct (percent_numerator (of_Z_f k / 2)%float c) as [n|]; [|discriminate].
  exists n. split; [reflexivity|]. apply andb_prop in H. destruct H as [H H3]. apply andb_prop in H. destruct H as [H1 H2].
  apply Z.leb_le in H1, H2, H3. split; [lia | exact H3].
Qed.

(* sums over a rearranged list of lines are equal (line order does not matter) *)
Lemma zsum_perm l l' : Permutation l l' -> zsum l = zsum l'.
Proof. unfold zsum. induction 1; cbn [fold_right] in *; lia. Qed.

Lemma filter_perm {A} (p : A -> bool) l l' : Permutation l l' -> Permutation (filter p l) (filter p l').
Proof.
  induction 1 as [|a l l' _ IH|a b l|l l' l'' _ IH1 _ IH2]; cbn [filter].
  - constructor.
  - destruct (p a); [apply perm_skip|]; exact IH.
  - destruct (p a), (p b); try apply Permutation_refl. apply perm_swap.
  - eapply Permutation_trans; eassumption.
Qed.

Theorem line_order_irrelevant lines lines' : Permutation lines lines' ->
  (forall id, In id (sdedup (map l_disease lines)) <-> In id (sdedup (map l_disease lines'))) /\
  (forall id p, Permutation (lines_for (lines_of lines id) p) (lines_for (lines_of lines' id) p)) /\
  (forall id, Permutation (filter (fun l => is_aspect (l_aspect l) AI) (lines_of lines id))
                          (filter (fun l => is_aspect (l_aspect l) AI) (lines_of lines' id))).
Proof.
  intro P. split; [|split].
  - intro id. unfold sdedup. rewrite !(gdedup_in seqb seqb_eq). split; apply Permutation_in; [apply Permutation_map; exact P | apply Permutation_map; apply Permutation_sym; exact P].
  - intros id p. unfold lines_for, pheno_lines, lines_of. repeat apply filter_perm. exact P.
  - intro id. unfold lines_of. repeat apply filter_perm. exact P.
Qed.

Print Assumptions load_spec.
Print Assumptions line_order_irrelevant.
