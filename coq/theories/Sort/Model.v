(* Executable model of src/hpotk/util/sort/_hierarchical.py
     HierarchicalSorting.argsort / _hierarchical_cluster / _inorder_walk / _find_indices, Node
   The similarity measure and numpy's argmax only DECIDE which two clusters are merged next; the model
   is parameterised by an arbitrary decision oracle (step number, current clusters) -> decision, so
   the theorems hold for every similarity measure (edge distance, IC, ties, all-zero, ...).
   Term ids only matter up to equality: they are natural numbers here.  Definitions only. *)
From Coq Require Import List Bool Arith.
Import ListNotations.
Open Scope list_scope.

(* Node: a tagged leaf carrying an input id, or an untagged merge node (its identifier is never collected) *)
Inductive tree := Leaf (id : nat) | Merge (l r : tree).

(* _inorder_walk: left, the node itself if tagged, right *)
Fixpoint leaves (t : tree) : list nat :=
  match t with Leaf i => [i] | Merge l r => leaves l ++ leaves r end.

(* what one round of the loop decides *)
Inductive decision :=
| DPair (row col : nat)        (* argmax position of a similarity above epsilon *)
| DLast.                       (* similarity <= epsilon: pop the last two *)

(* nodes.pop(i) *)
Fixpoint pop_nth {A} (i : nat) (l : list A) : option (A * list A) :=
  match l, i with
  | [], _ => None
  | x :: r, 0 => Some (x, r)
  | x :: r, S k => match pop_nth k r with Some (y, r') => Some (y, x :: r') | None => None end
  end.

(* a = nodes.pop(); b = nodes.pop(); nodes.append(merge(a, b)) *)
Definition step_last (nodes : list tree) : option (list tree) :=
  match rev nodes with
  | a :: b :: rest => Some (rev rest ++ [Merge a b])
  | _ => None
  end.

(* a = nodes.pop(max(r, c)); b = nodes.pop(min(r, c)); nodes.append(merge(a, b)) *)
(* (r = c can happen - a negative epsilon with no positive similarity makes the diagonal entry (0, 0) the argmax -
   and then pops position r twice, i.e. the clusters at r and r + 1) *)
Definition step_pair (r c : nat) (nodes : list tree) : option (list tree) :=
  match pop_nth (Nat.max r c) nodes with
  | Some (a, n1) => match pop_nth (Nat.min r c) n1 with
                    | Some (b, n2) => Some (n2 ++ [Merge a b])
                    | None => None
                    end
  | None => None
  end.

(* an impossible decision (out-of-range positions) falls back to "pop the last two";
   the implementation never produces one (argmax is a position of the n x n matrix) *)
Definition step (d : decision) (nodes : list tree) : option (list tree) :=
  match d with
  | DPair r c => match step_pair r c nodes with Some n' => Some n' | None => step_last nodes end
  | DLast => step_last nodes
  end.

(* while len(nodes) > 1 *)
Fixpoint cluster (oracle : nat -> list tree -> decision) (fuel k : nat) (nodes : list tree) : list tree :=
  match fuel with
  | 0 => nodes
  | S f => match nodes with
           | _ :: _ :: _ => match step (oracle k nodes) nodes with
                            | Some n' => cluster oracle f (S k) n'
                            | None => nodes
                            end
           | _ => nodes
           end
  end.

(* _find_indices (repaired): every position of `source` is handed out once - for each ordered id the
   first position of source holding that id that has not been handed out yet *)
Fixpoint take_first (s : nat) (pool : list (nat * nat)) : option (nat * list (nat * nat)) :=
  match pool with
  | [] => None
  | (id, pos) :: r => if Nat.eqb id s then Some (pos, r)
                      else match take_first s r with Some (p, r') => Some (p, (id, pos) :: r') | None => None end
  end.

Fixpoint find_indices_pool (pool : list (nat * nat)) (ordered : list nat) : option (list nat) :=
  match ordered with
  | [] => Some []
  | s :: rest => match take_first s pool with
                 | Some (p, pool') => match find_indices_pool pool' rest with Some l => Some (p :: l) | None => None end
                 | None => None
                 end
  end.

Definition find_indices (source ordered : list nat) : option (list nat) :=
  find_indices_pool (combine source (seq 0 (length source))) ordered.

(* argsort: None models the ValueError for an empty sequence *)
Definition argsort (oracle : nat -> list tree -> decision) (ids : list nat) : option (list nat) :=
  match ids with
  | [] => None
  | _ => match cluster oracle (length ids) 0 (map Leaf ids) with
         | [t] => find_indices ids (leaves t)
         | _ => None
         end
  end.

(* the oracle that replays a recorded list of decisions *)
Definition replay (ds : list decision) : nat -> list tree -> decision := fun k _ => nth k ds DLast.
