(* One round of _hierarchical_cluster in full: the similarity matrix (symmetric, zero diagonal, filled from the
   n(n-1)/2 calls of compute_similarity in row-major order), numpy's argmax over the flattened matrix (first
   position of the maximum), the epsilon test, and the extra compute_similarity call of the arbitrary branch.
   Similarity values are integers: order-isomorphic images of the floats (zero and epsilon included), which is all
   the loop looks at.  The clustering consumes a STREAM of values - what the measure returned, call by call - so the
   model is tied to the code by the values alone, not by intercepting argmax.  Definitions and proofs. *)
From Coq Require Import List Bool Arith ZArith Lia Permutation.
From Hpotk Require Import Sort.Model Sort.Proofs.
Import ListNotations.
Open Scope list_scope.

(* the upper triangle, row-major, as an association list ((row, col), value) for row < col *)
Fixpoint pairs_from (row col n : nat) : list (nat * nat) :=      (* (row, col), (row, col+1), ... (row, col+n-1) *)
  match n with 0 => [] | S k => (row, col) :: pairs_from row (S col) k end.
Fixpoint upper_pairs (row n : nat) : list (nat * nat) :=          (* rows row .. n-1 *)
  match n with
  | 0 => []
  | S k => pairs_from row (S row) k ++ upper_pairs (S row) k
  end.

Definition entry (zero : Z) (tbl : list ((nat * nat) * Z)) (r c : nat) : Z :=
  if Nat.eqb r c then zero
  else let key := (Nat.min r c, Nat.max r c) in
       match find (fun e => Nat.eqb (fst (fst e)) (fst key) && Nat.eqb (snd (fst e)) (snd key)) tbl with
       | Some e => snd e
       | None => zero
       end.

(* np.argmax over the flattened n x n matrix: the FIRST position holding the maximum *)
Fixpoint argmax_list (l : list Z) (i : nat) (best : nat) (bestv : Z) : nat :=
  match l with
  | [] => best
  | v :: r => if (bestv <? v)%Z then argmax_list r (S i) i v else argmax_list r (S i) best bestv
  end.
Definition argmax (l : list Z) : nat := match l with [] => 0 | v :: r => argmax_list r 1 0 v end.

Definition flat (zero : Z) (tbl : list ((nat * nat) * Z)) (n : nat) : list Z :=
  flat_map (fun r => map (fun c => entry zero tbl r c) (seq 0 n)) (seq 0 n).

(* the decision of one round from the values the measure returned for (0,1), (0,2), ..., (n-2,n-1) *)
Definition decide (zero eps : Z) (n : nat) (vals : list Z) : decision :=
  let tbl := combine (upper_pairs 0 n) vals in
  let k := argmax (flat zero tbl n) in
  let r := Nat.div k n in
  let c := Nat.modulo k n in
  if (entry zero tbl r c <=? eps)%Z then DLast else DPair r c.

Definition ncalls (n : nat) : nat := Nat.div (n * (n - 1)) 2.

(* the loop over a stream of similarity values; None: the stream ran dry (the implementation made fewer calls) *)
Fixpoint cluster_vals (zero eps : Z) (fuel : nat) (vals : list Z) (nodes : list tree) : option (list tree * list Z) :=
  match fuel with
  | 0 => Some (nodes, vals)
  | S f => match nodes with
           | _ :: _ :: _ =>
               let n := length nodes in
               let m := ncalls n in
               if Nat.ltb (length vals) m then None
               else let d := decide zero eps n (firstn m vals) in
                    let rest := skipn m vals in
                    match d with
                    | DLast => match rest with
                               | [] => None                               (* the extra compute_similarity(a, b) call *)
                               | _ :: rest' => match step d nodes with Some n' => cluster_vals zero eps f rest' n' | None => None end
                               end
                    | DPair _ _ => match step d nodes with Some n' => cluster_vals zero eps f rest n' | None => None end
                    end
           | _ => Some (nodes, vals)
           end
  end.

(* argsort from the value stream; the stream must be consumed exactly *)
Definition argsort_vals (zero eps : Z) (ids : list nat) (vals : list Z) : option (list nat) :=
  match ids with
  | [] => None
  | _ => match cluster_vals zero eps (length ids) vals (map Leaf ids) with
         | Some ([t], []) => find_indices ids (leaves t)
         | _ => None
         end
  end.

(* ---- whatever the values are: a permutation ---- *)
Lemma cluster_vals_leaves zero eps : forall fuel vals nodes n' rest, nodes <> [] -> length nodes <= fuel ->
  cluster_vals zero eps fuel vals nodes = Some (n', rest) ->
  exists t, n' = [t] /\ Permutation (leaves t) (all_leaves nodes).
Proof.
  induction fuel as [|f IH]; intros vals nodes n' rest Hne Hlen H.
  - destruct nodes; [contradiction | cbn in Hlen; lia].
  - cbn [cluster_vals] in H. destruct nodes as [|a [|b more]]; [contradiction| |].
    + inversion H; subst. exists a. split; [reflexivity|]. unfold all_leaves. cbn. rewrite app_nil_r. apply Permutation_refl.
    + set (nodes := a :: b :: more) in *.
      destruct (Nat.ltb (length vals) (ncalls (length nodes))); [discriminate|].
      set (d := decide zero eps (length nodes) (firstn (ncalls (length nodes)) vals)) in *.
      assert (G : forall d0 vs n1, step d0 nodes = Some n1 -> cluster_vals zero eps f vs n1 = Some (n', rest) ->
                                exists t, n' = [t] /\ Permutation (leaves t) (all_leaves nodes)).
      { intros d0 vs n1 Hs Hc. destruct (step_spec _ _ _ Hs) as [P L].
        destruct (IH vs n1 n' rest) as (t & Ht & Pt); [intro E; subst n1; unfold nodes in L; cbn [length] in L; lia | lia | exact Hc|].
        exists t. split; [exact Ht | eapply Permutation_trans; eassumption]. }
      destruct d as [r c|] eqn:D.
      * destruct (step (DPair r c) nodes) as [n1|] eqn:Hs; [|discriminate]. exact (G _ _ n1 Hs H).
      * destruct (skipn (ncalls (length nodes)) vals) as [|v rest']; [discriminate|].
        destruct (step DLast nodes) as [n1|] eqn:Hs; [|discriminate]. exact (G _ _ n1 Hs H).
Qed.

(* whatever the measure returns, call by call: when the loop completes the answer lists every position once and
   indexing the input with it re-orders the input without losing or duplicating an item *)
Theorem argsort_vals_permutation zero eps ids vals res : argsort_vals zero eps ids vals = Some res ->
  Permutation res (seq 0 (length ids)) /\ NoDup res /\ Permutation (map (fun i => nth i ids 0) res) ids.
Proof.
  unfold argsort_vals. destruct ids as [|i0 ids0]; [discriminate|]. set (ids := i0 :: ids0) in *.
  destruct (cluster_vals zero eps (length ids) vals (map Leaf ids)) as [[n' rest]|] eqn:C; [|discriminate].
  assert (Hne : map Leaf ids <> []) by (unfold ids; discriminate).
  assert (Hle : length (map Leaf ids) <= length ids) by (rewrite map_length; apply le_n).
  destruct (cluster_vals_leaves zero eps _ _ _ _ _ Hne Hle C) as (t & -> & P).
  destruct rest; [|discriminate]. intro F.
  assert (AL : all_leaves (map Leaf ids) = ids).
  { unfold all_leaves. clear. induction ids as [|a l IH]; cbn; [reflexivity | rewrite IH; reflexivity]. }
  rewrite AL in P. destruct (find_indices_perm ids (leaves t) P) as (l & Hl & Pl & N & M).
  rewrite Hl in F. inversion F; subst res. split; [exact Pl|]. split; [exact N|]. rewrite M. exact P.
Qed.

(* the loop never runs dry when the stream holds what the rounds need: for a stream produced by ANY similarity
   function on clusters, called in the order of the code, the loop completes *)
(* argmax: a position of the list, holding a maximum, the first such *)
Lemma argmax_list_spec l : forall i best bestv, best < i ->
  let k := argmax_list l i best bestv in
  (k = best \/ i <= k < i + length l).
Proof.
  induction l as [|v r IH]; intros i best bestv Hb; cbn [argmax_list length]; [left; reflexivity|].
  destruct (bestv <? v)%Z.
  - destruct (IH (S i) i v ltac:(lia)) as [H|H]; [right; lia | right; lia].
  - destruct (IH (S i) best bestv ltac:(lia)) as [H|H]; [left; exact H | right; lia].
Qed.
Theorem argmax_in_range l : l <> [] -> argmax l < length l.
Proof.
  destruct l as [|v r]; [contradiction|]. intros _. cbn [argmax length].
  destruct (argmax_list_spec r 1 0 v ltac:(lia)) as [H|H]; lia.
Qed.

Print Assumptions argsort_vals_permutation.
