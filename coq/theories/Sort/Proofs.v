(* C13: argsort always returns a permutation of the input positions - for every decision oracle. *)
From Coq Require Import List Bool Arith Lia Permutation.
From Hpotk Require Import Sort.Model.
Import ListNotations.
Open Scope list_scope.

Definition all_leaves (nodes : list tree) : list nat := concat (map leaves nodes).

Lemma all_leaves_app a b : all_leaves (a ++ b) = all_leaves a ++ all_leaves b.
Proof. unfold all_leaves. rewrite map_app, concat_app. reflexivity. Qed.

Lemma pop_nth_spec {A} (l : list A) : forall i x r, pop_nth i l = Some (x, r) -> Permutation l (x :: r) /\ length l = S (length r).
Proof.
  induction l as [|a l IH]; intros i x r H; [destruct i; discriminate|]. destruct i as [|k]; cbn [pop_nth] in H.
  - inversion H; subst. split; [apply Permutation_refl | reflexivity].
  - destruct (pop_nth k l) as [[y r']|] eqn:E; [|discriminate]. inversion H; subst. destruct (IH k x r' E) as [P L].
    split; [|cbn [length]; lia]. eapply Permutation_trans; [apply perm_skip; exact P | apply perm_swap].
Qed.

Lemma all_leaves_perm (n1 n2 : list tree) : Permutation n1 n2 -> Permutation (all_leaves n1) (all_leaves n2).
Proof.
  unfold all_leaves. induction 1 as [|a l l' _ IH|a b l|l l' l'' _ IH1 _ IH2]; cbn [map concat].
  - constructor.
  - apply Permutation_app_head. exact IH.
  - rewrite !app_assoc. apply Permutation_app_tail. apply Permutation_app_comm.
  - eapply Permutation_trans; eassumption.
Qed.

(* one round merges two clusters: nothing lost, nothing duplicated, one cluster less *)
Lemma step_last_spec nodes n' : step_last nodes = Some n' ->
  Permutation (all_leaves n') (all_leaves nodes) /\ S (length n') = length nodes.
Proof.
  unfold step_last. destruct (rev nodes) as [|a [|b rest]] eqn:R; try discriminate. intro H. inversion H; subst n'. clear H.
  assert (E : nodes = rev rest ++ [b] ++ [a]).
  { rewrite <- (rev_involutive nodes), R. cbn [rev]. rewrite <- app_assoc. reflexivity. }
  split.
  - rewrite E, !all_leaves_app. unfold all_leaves at 2 4 5. cbn [map concat leaves]. rewrite !app_nil_r.
    apply Permutation_app_head. apply Permutation_app_comm.
  - rewrite E, !app_length. cbn [length]. lia.
Qed.

Lemma step_pair_spec r c nodes n' : step_pair r c nodes = Some n' ->
  Permutation (all_leaves n') (all_leaves nodes) /\ S (length n') = length nodes.
Proof.
  unfold step_pair.
  destruct (pop_nth (Nat.max r c) nodes) as [[a n1]|] eqn:E1; [|discriminate].
  destruct (pop_nth (Nat.min r c) n1) as [[b n2]|] eqn:E2; [|discriminate]. intro H. inversion H; subst n'. clear H.
  destruct (pop_nth_spec _ _ _ _ E1) as [P1 L1]. destruct (pop_nth_spec _ _ _ _ E2) as [P2 L2]. split.
  - apply Permutation_sym. eapply Permutation_trans; [apply all_leaves_perm; exact P1|].
    eapply Permutation_trans; [apply (all_leaves_perm (a :: n1) (a :: b :: n2)); apply perm_skip; exact P2|].
    rewrite all_leaves_app. unfold all_leaves. cbn [map concat leaves]. rewrite app_nil_r, app_assoc. apply Permutation_app_comm.
  - rewrite app_length. cbn [length]. lia.
Qed.

Lemma step_spec d nodes n' : step d nodes = Some n' ->
  Permutation (all_leaves n') (all_leaves nodes) /\ S (length n') = length nodes.
Proof.
  destruct d as [r c|]; cbn [step]; [|apply step_last_spec].
  destruct (step_pair r c nodes) as [n1|] eqn:E; [intro H; inversion H; subst; exact (step_pair_spec r c nodes n' E) | apply step_last_spec].
Qed.

Lemma step_total d nodes : 2 <= length nodes -> exists n', step d nodes = Some n'.
Proof.
  intro H. assert (exists n', step_last nodes = Some n') as [n' Hn].
  { unfold step_last. destruct (rev nodes) as [|a [|b rest]] eqn:R.
    - apply (f_equal (@length tree)) in R. rewrite rev_length in R. cbn in R. lia.
    - apply (f_equal (@length tree)) in R. rewrite rev_length in R. cbn in R. lia.
    - eexists. reflexivity. }
  destruct d as [r c|]; cbn [step]; [|exists n'; exact Hn].
  destruct (step_pair r c nodes); [eexists; reflexivity | exists n'; exact Hn].
Qed.

(* the clustering loop, for ANY oracle: it ends with a single tree whose in-order leaves are the
   input ids - each occurrence once *)
Theorem cluster_leaves oracle : forall fuel k nodes, nodes <> [] -> length nodes <= fuel ->
  exists t, cluster oracle fuel k nodes = [t] /\ Permutation (leaves t) (all_leaves nodes).
Proof.
  induction fuel as [|f IH]; intros k nodes Hne Hlen.
  - destruct nodes; [contradiction | cbn in Hlen; lia].
  - cbn [cluster]. destruct nodes as [|a [|b rest]]; [contradiction| |].
    + exists a. split; [reflexivity|]. unfold all_leaves. cbn. rewrite app_nil_r. apply Permutation_refl.
    + destruct (step_total (oracle k (a :: b :: rest)) (a :: b :: rest)) as [n' Hs]; [cbn; lia|]. rewrite Hs.
      destruct (step_spec _ _ _ Hs) as [P L]. destruct (IH (S k) n') as (t & Ht & Pt).
      * intro E. subst n'. cbn in L. lia.
      * cbn [length] in *. lia.
      * exists t. split; [exact Ht|]. eapply Permutation_trans; eassumption.
Qed.

(* ---- positions ---- *)
Lemma take_first_spec s pool p pool' : take_first s pool = Some (p, pool') -> Permutation pool ((s, p) :: pool').
Proof.
  revert p pool'. induction pool as [|[id pos] r IH]; intros p pool' H; cbn [take_first] in H; [discriminate|].
  destruct (Nat.eqb id s) eqn:E.
  - apply Nat.eqb_eq in E. subst id. inversion H; subst. apply Permutation_refl.
  - destruct (take_first s r) as [[q r']|] eqn:T; [|discriminate]. inversion H; subst.
    eapply Permutation_trans; [apply perm_skip; apply (IH _ _ eq_refl) | apply perm_swap].
Qed.

Lemma take_first_some s pool : In s (map fst pool) -> exists p pool', take_first s pool = Some (p, pool').
Proof.
  induction pool as [|[id pos] r IH]; cbn [map fst In take_first]; [intros []|]. intro H.
  destruct (Nat.eqb id s) eqn:E; [eexists; eexists; reflexivity|].
  destruct H as [H|H]; [subst id; rewrite Nat.eqb_refl in E; discriminate|].
  destruct (IH H) as (p & r' & T). rewrite T. eexists; eexists; reflexivity.
Qed.

Lemma find_indices_pool_spec ordered : forall pool, Permutation ordered (map fst pool) ->
  exists l, find_indices_pool pool ordered = Some l /\ Permutation (combine ordered l) pool /\ length l = length ordered.
Proof.
  induction ordered as [|s rest IH]; intros pool HP.
  - apply Permutation_nil in HP. destruct pool; [|discriminate]. exists []. repeat split; constructor.
  - assert (Hin : In s (map fst pool)) by (eapply Permutation_in; [exact HP | left; reflexivity]).
    destruct (take_first_some s pool Hin) as (p & pool' & T). cbn [find_indices_pool]. rewrite T.
    pose proof (take_first_spec _ _ _ _ T) as PT.
    assert (HP' : Permutation rest (map fst pool')).
    { apply (Permutation_cons_inv (a := s)). eapply Permutation_trans; [exact HP|].
      change (s :: map fst pool') with (map fst ((s, p) :: pool')). apply Permutation_map. exact PT. }
    destruct (IH pool' HP') as (l & Hl & Pl & Ll). rewrite Hl. exists (p :: l). split; [reflexivity|]. split.
    + cbn [combine]. eapply Permutation_trans; [apply perm_skip; exact Pl | apply Permutation_sym; exact PT].
    + cbn [length]. lia.
Qed.

Lemma combine_map_fst {A B} (l1 : list A) (l2 : list B) : length l1 = length l2 -> map fst (combine l1 l2) = l1.
Proof. revert l2. induction l1 as [|a l1 IH]; intros [|b l2] H; cbn in *; try lia; [reflexivity|]. f_equal. apply IH. lia. Qed.
Lemma combine_map_snd {A B} (l1 : list A) (l2 : list B) : length l1 = length l2 -> map snd (combine l1 l2) = l2.
Proof. revert l2. induction l1 as [|a l1 IH]; intros [|b l2] H; cbn in *; try lia; [reflexivity|]. f_equal. apply IH. lia. Qed.

(* if `ordered` is a rearrangement of `source` the result lists every position 0..n-1 exactly once and
   indexing the source with it yields `ordered` *)
Theorem find_indices_perm source ordered : Permutation ordered source ->
  exists l, find_indices source ordered = Some l /\ Permutation l (seq 0 (length source)) /\ NoDup l /\
            map (fun i => nth i source 0) l = ordered.
Proof.
  intro HP. unfold find_indices. set (pool := combine source (seq 0 (length source))).
  assert (Lp : length source = length (seq 0 (length source))) by (rewrite seq_length; reflexivity).
  assert (F : map fst pool = source) by (apply combine_map_fst; exact Lp).
  assert (S : map snd pool = seq 0 (length source)) by (apply combine_map_snd; exact Lp).
  destruct (find_indices_pool_spec ordered pool) as (l & Hl & Pl & Ll); [rewrite F; exact HP|].
  exists l. split; [exact Hl|].
  assert (P2 : Permutation l (seq 0 (length source))).
  { rewrite <- S. rewrite <- (combine_map_snd ordered l (eq_sym Ll)). apply Permutation_map. exact Pl. }
  split; [exact P2|]. split; [eapply Permutation_NoDup; [apply Permutation_sym; exact P2 | apply seq_NoDup]|].
  (* every pair (id, position) handed out is a pair of the pool, i.e. source[position] = id *)
  assert (G : forall id p, In (id, p) pool -> nth p source 0 = id).
  { unfold pool. clear. intros id p H. remember 0 as base eqn:Hb in H at 1.
    assert (K : forall src b id p, In (id, p) (combine src (seq b (length src))) -> b <= p /\ nth (p - b) src 0 = id).
    { induction src as [|a src IH]; intros b i q Hi; cbn [combine seq length] in Hi; [destruct Hi|].
      destruct Hi as [E|Hi]; [inversion E; subst; split; [lia | rewrite Nat.sub_diag; reflexivity]|].
      destruct (IH (S b) i q Hi) as [H1 H2]. split; [lia|]. replace (q - b) with (S (q - S b)) by lia. exact H2. }
    subst base. destruct (K source 0 id p H) as [_ K2]. rewrite Nat.sub_0_r in K2. exact K2. }
  clear -Pl Ll G. revert l Pl Ll. 
  assert (Q : forall ordered l, length l = length ordered -> (forall id p, In (id, p) (combine ordered l) -> nth p source 0 = id) ->
              map (fun i => nth i source 0) l = ordered).
  { induction ordered0 as [|s rest IH]; intros [|p l] Hlen Hall; cbn in Hlen; try lia; [reflexivity|].
    cbn [map]. f_equal; [apply Hall; left; reflexivity | apply IH; [lia | intros id q Hq; apply Hall; right; exact Hq]]. }
  intros l Pl Ll. apply Q; [exact Ll|]. intros id p Hin. apply G. eapply Permutation_in; [exact Pl | exact Hin].
Qed.

(* ---- argsort ---- *)
Theorem argsort_perm oracle (ids : list nat) : ids <> [] ->
  exists l, argsort oracle ids = Some l /\
    Permutation l (seq 0 (length ids)) /\ NoDup l /\
    Permutation (map (fun i => nth i ids 0) l) ids.
Proof.
  intro Hne. unfold argsort. destruct ids as [|i0 rest] eqn:E; [contradiction|]. rewrite <- E in *.
  destruct (cluster_leaves oracle (length ids) 0 (map Leaf ids)) as (t & Ht & Pt).
  - rewrite E. discriminate.
  - rewrite map_length. lia.
  - rewrite Ht.
    assert (AL : all_leaves (map Leaf ids) = ids).
    { unfold all_leaves. clear. induction ids as [|a l IH]; cbn; [reflexivity | rewrite IH; reflexivity]. }
    rewrite AL in Pt. destruct (find_indices_perm ids (leaves t) Pt) as (l & Hl & P & N & M).
    exists l. split; [exact Hl|]. split; [exact P|]. split; [exact N|]. rewrite M. exact Pt.
Qed.

Theorem argsort_single oracle (i : nat) : argsort oracle [i] = Some [0].
Proof. cbn. rewrite Nat.eqb_refl. reflexivity. Qed.

Theorem argsort_empty oracle : argsort oracle [] = None.
Proof. reflexivity. Qed.

Print Assumptions argsort_perm.
Print Assumptions cluster_leaves.
Print Assumptions find_indices_perm.
