(* C16: readers and writers treat paths, gzip paths and open streams alike. *)
From Coq Require Import String Ascii List Bool Arith Lia.
From Hpotk Require Import Base.Result Base.Str Io.Model.
Import ListNotations.
Open Scope string_scope.

Lemma sprefixb_iff p s : sprefixb p s = true <-> exists r, s = p ++ r.
Proof.
  revert s. induction p as [|a p IH]; intro s; cbn [sprefixb].
  - split; [intros _; exists s; reflexivity | reflexivity].
  - destruct s as [|b s]; [split; [discriminate | intros [r H]; discriminate]|].
    rewrite andb_true_iff, Ascii.eqb_eq, IH. split.
    + intros [-> [r ->]]. exists r. reflexivity.
    + intros [r H]. cbn in H. inversion H; subst. split; [reflexivity | exists r; reflexivity].
Qed.

Lemma ssuffixb_iff x s : ssuffixb x s = true <-> exists p, s = p ++ x.
Proof.
  induction s as [|a s IH].
  - cbn [ssuffixb]. rewrite orb_false_r, seqb_eq. split; [intros ->; exists ""; reflexivity|].
    intros [p H]. destruct p; cbn in H; [symmetry; exact H | discriminate].
  - cbn [ssuffixb]. rewrite orb_true_iff, seqb_eq, IH. split.
    + intros [->|[p ->]]; [exists ""; reflexivity | exists (String a p); reflexivity].
    + intros [p H]. destruct p as [|b p]; cbn in H; [left; symmetry; exact H|]. inversion H; subst. right. exists p. reflexivity.
Qed.

(* the suffix / prefix tests are what they claim to be *)
Theorem looks_gzipped_spec f : looks_gzipped f = true <-> exists p, f = p ++ ".gz".
Proof. apply ssuffixb_iff. Qed.
Theorem looks_like_url_spec f : looks_like_url f = true <-> ((exists r, f = "http://" ++ r) \/ (exists r, f = "https://" ++ r)).
Proof. unfold looks_like_url. rewrite orb_true_iff, !sprefixb_iff. reflexivity. Qed.

(* ---- newline translation ---- *)
Fixpoint has_cr (s : string) : bool := match s with EmptyString => false | String c r => Ascii.eqb c crc || has_cr r end.

Lemma universal_ind2 (P : string -> Prop) :
  P EmptyString -> (forall c r, P r -> (forall c2 r2, r = String c2 r2 -> P r2) -> P (String c r)) -> forall s, P s.
Proof.
  intros H0 HS. assert (G : forall s, P s /\ (forall c2 r2, s = String c2 r2 -> P r2)).
  { induction s as [|c r [IH1 IH2]].
    - split; [exact H0 | discriminate].
    - split; [apply HS; assumption|]. intros c2 r2 E. inversion E; subst. exact IH1. }
  intro s. exact (proj1 (G s)).
Qed.

(* universal-newline input never delivers a carriage return *)
Theorem universal_no_cr s : has_cr (universal s) = false.
Proof.
  induction s as [|c r IH IH2] using universal_ind2; [reflexivity|].
  cbn [universal]. destruct (Ascii.eqb c crc) eqn:E.
  - cbn [has_cr]. assert (L : Ascii.eqb lf crc = false) by reflexivity. rewrite L. cbn [orb].
    destruct r as [|c2 r2]; [reflexivity|]. destruct (Ascii.eqb c2 lf); [exact (IH2 c2 r2 eq_refl) | exact IH].
  - cbn [has_cr]. rewrite E, IH. reflexivity.
Qed.

(* text without a carriage return is delivered unchanged *)
Theorem universal_id s : has_cr s = false -> universal s = s.
Proof.
  induction s as [|c r IH]; intro H; [reflexivity|]. cbn [has_cr] in H. apply orb_false_iff in H. destruct H as [Hc Hr].
  cbn [universal]. rewrite Hc, (IH Hr). reflexivity.
Qed.

Theorem universal_idem s : universal (universal s) = universal s.
Proof. apply universal_id, universal_no_cr. Qed.

(* the three line-ending conventions of one text are delivered as the same text *)
Fixpoint with_ending (e s : string) : string :=
  match s with EmptyString => EmptyString | String c r => if Ascii.eqb c lf then e ++ with_ending e r else String c (with_ending e r) end.
Theorem universal_crlf s : has_cr s = false -> universal (with_ending (String crc (String lf "")) s) = s.
Proof.
  induction s as [|c r IH]; intro H; [reflexivity|]. cbn [has_cr] in H. apply orb_false_iff in H. destruct H as [Hc Hr].
  cbn [with_ending]. destruct (Ascii.eqb c lf) eqn:E.
  - apply Ascii.eqb_eq in E. subst c. cbn [append universal]. rewrite !Ascii.eqb_refl. rewrite (IH Hr). reflexivity.
  - cbn [universal]. rewrite Hc, (IH Hr). reflexivity.
Qed.
Theorem universal_cr_only s : has_cr s = false -> universal (with_ending (String crc "") s) = s.
Proof.
  induction s as [|c r IH]; intro H; [reflexivity|]. cbn [has_cr] in H. apply orb_false_iff in H. destruct H as [Hc Hr].
  cbn [with_ending]. destruct (Ascii.eqb c lf) eqn:E.
  - apply Ascii.eqb_eq in E. subst c. cbn [append universal]. rewrite Ascii.eqb_refl.
    destruct (with_ending (String crc "") r) as [|c2 r2] eqn:W.
    + cbn [universal] in IH. rewrite <- (IH Hr). reflexivity.
    + destruct (Ascii.eqb c2 lf) eqn:E2.
      * (* a line feed right after the carriage return: impossible, r has no CR and with_ending maps LF to CR *)
        exfalso. destruct r as [|c3 r3]; [discriminate|]. cbn [with_ending] in W. destruct (Ascii.eqb c3 lf) eqn:E3.
        -- cbn [append] in W. inversion W; subst. discriminate.
        -- inversion W; subst. rewrite E2 in E3. discriminate.
      * rewrite (IH Hr). reflexivity.
  - cbn [universal]. rewrite Hc, (IH Hr). reflexivity.
Qed.

(* on a platform whose line separator is LF, universal-newline output is the identity *)
Theorem expand_lf s : expand (String lf "") s = s.
Proof. induction s as [|c r IH]; [reflexivity|]. cbn [expand]. destruct (Ascii.eqb c lf) eqn:E; [apply Ascii.eqb_eq in E; subst c; cbn [append]|]; rewrite IH; reflexivity. Qed.

(* every text layer the helper creates for READING decodes with the requested encoding and translates line endings *)
Theorem read_layer a p l : open_for_reading a = Ok p -> rplan_layer p = Some l -> l = {| l_enc := EncParam; l_nl := NlUniversal |}.
Proof. destruct a as [f| | |]; cbn [open_for_reading]; intros H1 H2; inversion H1; subst; cbn [rplan_layer] in H2; inversion H2; reflexivity. Qed.
(* every text layer the helper creates for WRITING encodes with the requested encoding - never the locale's *)
Theorem write_layer_enc a p l : open_for_writing a = Ok p -> wplan_layer p = Some l -> l_enc l = EncParam.
Proof.
  destruct a as [f| | |]; cbn [open_for_writing]; intros H1 H2; [destruct (looks_gzipped f)| | |]; inversion H1; subst; cbn [wplan_layer] in H2; inversion H2; reflexivity.
Qed.

Section Codec.
Variable bytes : Type.
Variable encode : encsel -> string -> bytes.
Variable decode : encsel -> bytes -> string.
Variable gzip : bytes -> bytes.
Variable gunzip : bytes -> bytes.
(* the assumed laws of the runtime codecs: only of the REQUESTED encoding; the locale's may be anything *)
Hypothesis decode_encode : forall c, decode EncParam (encode EncParam c) = c.
Hypothesis gunzip_gzip : forall b, gunzip (gzip b) = b.

(* what a reader sees of the content c: a caller's text stream yields its text as it is; every
   handle the helper opens itself delivers the content with its line endings translated *)
Definition seen (a : arg) (c : string) : string := match a with ATextStream => c | _ => universal c end.

(* every reader sees the same text whatever kind of source carries it: a path, a .gz path (URL or
   local), an open binary stream; any other kind of argument is rejected *)
Theorem read_uniform (a : arg) (c : string) :
  match open_for_reading a with
  | Ok p => a <> AOther /\ read_text bytes decode gunzip p (materialise bytes encode gzip a c) = Some (seen a c)
  | Err e => a = AOther /\ e = ValueError
  end.
Proof.
  destruct a as [f| | |]; cbn [open_for_reading materialise read_text seen l_enc l_nl deliver].
  - split; [discriminate|]. destruct (looks_gzipped f); [rewrite gunzip_gzip|]; rewrite decode_encode; reflexivity.
  - split; [discriminate | reflexivity].
  - split; [discriminate|]. rewrite decode_encode. reflexivity.
  - auto.
Qed.

(* ... and a text stream opened the default way on the same file (universal newlines) yields that very text *)
Theorem read_uniform_all_kinds (a : arg) (c : string) p : open_for_reading a = Ok p ->
  read_text bytes decode gunzip p (materialise bytes encode gzip a (match a with ATextStream => universal c | _ => c end)) = Some (universal c).
Proof.
  intro H. pose proof (read_uniform a (match a with ATextStream => universal c | _ => c end)) as R. rewrite H in R.
  destruct R as [_ R]. rewrite R. destruct a; reflexivity.
Qed.

(* content without carriage returns is seen unchanged through every kind *)
Theorem read_uniform_plain (a : arg) (c : string) p : has_cr c = false -> open_for_reading a = Ok p ->
  read_text bytes decode gunzip p (materialise bytes encode gzip a c) = Some c.
Proof.
  intros Hc H. pose proof (read_uniform a c) as R. rewrite H in R. destruct R as [_ R]. rewrite R.
  destruct a; cbn [seen]; try rewrite (universal_id c Hc); reflexivity.
Qed.

(* every writer leaves, in a target of each kind, exactly what a source of that kind holds for c -
   on a platform whose line separator is LF - and a reader of the same kind reads it back *)
Theorem write_uniform (a : arg) (c : string) :
  match open_for_writing a, open_for_reading a with
  | Ok w, Ok r => a <> AOther /\ written bytes encode gzip (String lf "") w c = materialise bytes encode gzip a c /\
                  read_text bytes decode gunzip r (written bytes encode gzip (String lf "") w c) = Some (seen a c)
  | Err e, Err e' => a = AOther /\ e = ValueError /\ e' = ValueError
  | _, _ => False
  end.
Proof.
  destruct a as [f| | |]; cbn [open_for_writing open_for_reading].
  - destruct (looks_gzipped f) eqn:G; cbn [written materialise read_text seen l_enc l_nl emit deliver]; rewrite ?G, ?expand_lf.
    + split; [discriminate|]. split; [reflexivity|]. rewrite gunzip_gzip, decode_encode. reflexivity.
    + split; [discriminate|]. split; [reflexivity|]. rewrite decode_encode. reflexivity.
  - cbn [written materialise read_text seen]. split; [discriminate|]. split; reflexivity.
  - cbn [written materialise read_text seen l_enc l_nl emit deliver]. rewrite expand_lf. split; [discriminate|]. split; [reflexivity|]. rewrite decode_encode. reflexivity.
  - auto.
Qed.
End Codec.

(* PLATFORM CAVEAT (not executable in this sandbox): where os.linesep is CR LF the plain-path writer
   (universal-newline output) and the .gz-path writer (newline='') emit different text for the same rows *)
Example write_newline_platform_caveat :
  let crlf := String crc (String lf "") in
  emit crlf NlUniversal (String "a" crlf) <> emit crlf NlRaw (String "a" crlf).
Proof. vm_compute. discriminate. Qed.

Theorem other_rejected : open_for_reading AOther = Err ValueError /\ open_for_writing AOther = Err ValueError.
Proof. split; reflexivity. Qed.

Print Assumptions read_uniform.
Print Assumptions write_uniform.
Print Assumptions universal_no_cr.
