(* C16: readers and writers treat paths, gzip paths and open streams alike. *)
From Coq Require Import String Ascii List Bool Arith Lia.
From Hpotk Require Import Base.Result Base.Str Io.Model.
Import ListNotations.
Open Scope string_scope.

Lemma sprefixb_iff p s : sprefixb p s = true <-> exists r, s = p ++ r.
Proof.
  revert s. induction p as [|a p IH]; intro s; cbn [sprefixb].
  - split; [intros _; exists s; reflexivity | reflexivity].
  - destruct s as [|b s]; [split; [discriminate | intros [r H]; discriminate]|].
    rewrite andb_true_iff, Ascii.eqb_eq, IH. split.
    + intros [-> [r ->]]. exists r. reflexivity.
    + intros [r H]. cbn in H. inversion H; subst. split; [reflexivity | exists r; reflexivity].
Qed.

Lemma ssuffixb_iff x s : ssuffixb x s = true <-> exists p, s = p ++ x.
Proof.
  induction s as [|a s IH].
  - cbn [ssuffixb]. rewrite orb_false_r, seqb_eq. split; [intros ->; exists ""; reflexivity|].
    intros [p H]. destruct p; cbn in H; [symmetry; exact H | discriminate].
  - cbn [ssuffixb]. rewrite orb_true_iff, seqb_eq, IH. split.
    + intros [->|[p ->]]; [exists ""; reflexivity | exists (String a p); reflexivity].
    + intros [p H]. destruct p as [|b p]; cbn in H; [left; symmetry; exact H|]. inversion H; subst. right. exists p. reflexivity.
Qed.

(* the suffix / prefix tests are what they claim to be *)
Theorem looks_gzipped_spec f : looks_gzipped f = true <-> exists p, f = p ++ ".gz".
Proof. apply ssuffixb_iff. Qed.
Theorem looks_like_url_spec f : looks_like_url f = true <-> ((exists r, f = "http://" ++ r) \/ (exists r, f = "https://" ++ r)).
Proof. unfold looks_like_url. rewrite orb_true_iff, !sprefixb_iff. reflexivity. Qed.

Section Codec.
Variables text bytes : Type.
Variable encode : text -> bytes.
Variable decode : bytes -> text.
Variable gzip : bytes -> bytes.
Variable gunzip : bytes -> bytes.
(* the assumed laws of the runtime codecs *)
Hypothesis decode_encode : forall c, decode (encode c) = c.
Hypothesis gunzip_gzip : forall b, gunzip (gzip b) = b.

(* every reader sees the same text whatever kind of source carries it: a path, a .gz path (URL or
   local), an open text stream, an open binary stream; any other kind of argument is rejected *)
Theorem read_uniform (a : arg) (c : text) :
  match open_for_reading a with
  | Ok p => a <> AOther /\ read_text text bytes decode gunzip p (materialise text bytes encode gzip a c) = Some c
  | Err e => a = AOther /\ e = ValueError
  end.
Proof.
  destruct a as [f| | |]; cbn [open_for_reading materialise read_text].
  - split; [discriminate|]. destruct (looks_gzipped f); [rewrite gunzip_gzip|]; rewrite decode_encode; reflexivity.
  - split; [discriminate | reflexivity].
  - split; [discriminate|]. rewrite decode_encode. reflexivity.
  - auto.
Qed.

(* every writer leaves, in a target of each kind, exactly what a reader of that kind reads back as c *)
Theorem write_uniform (a : arg) (c : text) :
  match open_for_writing a, open_for_reading a with
  | Ok w, Ok r => a <> AOther /\ written text bytes encode gzip w c = materialise text bytes encode gzip a c /\
                  read_text text bytes decode gunzip r (written text bytes encode gzip w c) = Some c
  | Err e, Err e' => a = AOther /\ e = ValueError /\ e' = ValueError
  | _, _ => False
  end.
Proof.
  destruct a as [f| | |]; cbn [open_for_writing open_for_reading written materialise read_text].
  - split; [discriminate|]. split; [reflexivity|]. destruct (looks_gzipped f); [rewrite gunzip_gzip|]; rewrite decode_encode; reflexivity.
  - split; [discriminate|]. split; reflexivity.
  - split; [discriminate|]. split; [reflexivity|]. rewrite decode_encode. reflexivity.
  - auto.
Qed.
End Codec.

Theorem other_rejected : open_for_reading AOther = Err ValueError /\ open_for_writing AOther = Err ValueError.
Proof. split; reflexivity. Qed.

Print Assumptions read_uniform.
Print Assumptions write_uniform.
