(* Executable model of src/hpotk/util/_io.py
     looks_like_url, looks_gzipped, open_text_io_handle_for_reading, open_text_io_handle_for_writing
   as a decision table over the KIND of the argument, plus what each decision does to the content:
   which encoding the text layer uses (the `encoding` parameter or the locale's), which newline mode
   it uses (universal translation or none), with the byte-level codecs (text encoding, gzip) as
   section variables.  Which Python object falls into which
   kind (isinstance against the io ABCs) is runtime behaviour: the correspondence executes it.
   Definitions only. *)
From Coq Require Import String Ascii List Bool Arith.
From Hpotk Require Import Base.Result Base.Str.
Import ListNotations.
Open Scope string_scope.

Fixpoint sprefixb (p s : string) : bool :=
  match p, s with
  | EmptyString, _ => true
  | String a p', String b s' => Ascii.eqb a b && sprefixb p' s'
  | String _ _, EmptyString => false
  end.
(* s.endswith(x) *)
Fixpoint ssuffixb (x s : string) : bool :=
  seqb x s || match s with EmptyString => false | String _ r => ssuffixb x r end.

(* file.startswith('http://') or file.startswith('https://') *)
Definition looks_like_url (f : string) : bool := sprefixb "http://" f || sprefixb "https://" f.
(* file.endswith('.gz') *)
Definition looks_gzipped (f : string) : bool := ssuffixb ".gz" f.

(* the kind of the argument *)
Inductive arg :=
| AStr (name : string)      (* a str: a path or a URL *)
| ATextStream               (* an open text stream (io.TextIOBase): open(p), StringIO, gzip.open(p, 'rt') *)
| ABinaryStream             (* an open binary stream (io.BufferedIOBase / io.RawIOBase): open(p, 'rb'), BytesIO, gzip.open(p, 'rb') *)
| AOther.                   (* anything else: int, None, bytes, pathlib.Path, ... *)

(* ---- the text layer the helper puts on top of the bytes ---- *)
(* which encoding it uses: the helper's `encoding` parameter (default sys.getdefaultencoding(), i.e. UTF-8),
   or whatever the process locale prefers (what open(path, 'w') does when no encoding is passed) *)
Inductive encsel := EncParam | EncLocale.
(* TextIOWrapper newline=None (universal newlines: on input CR LF and CR become LF; on output LF becomes
   os.linesep) or newline='' (no translation) *)
Inductive nlmode := NlUniversal | NlRaw.
Record layer := { l_enc : encsel; l_nl : nlmode }.

Definition lf : ascii := "010"%char.
Definition crc : ascii := "013"%char.

(* input translation of universal-newline mode *)
Fixpoint universal (s : string) : string :=
  match s with
  | EmptyString => EmptyString
  | String c r =>
      if Ascii.eqb c crc
      then String lf (match r with
                      | String c2 r2 => if Ascii.eqb c2 lf then universal r2 else universal r
                      | EmptyString => EmptyString
                      end)
      else String c (universal r)
  end.
Definition deliver (m : nlmode) (s : string) : string := match m with NlUniversal => universal s | NlRaw => s end.

(* output translation: LF becomes the platform's line separator in universal mode *)
Fixpoint expand (linesep s : string) : string :=
  match s with
  | EmptyString => EmptyString
  | String c r => if Ascii.eqb c lf then linesep ++ expand linesep r else String c (expand linesep r)
  end.
Definition emit (linesep : string) (m : nlmode) (s : string) : string := match m with NlUniversal => expand linesep s | NlRaw => s end.

(* what the helper does *)
Inductive rplan :=
| ROpen (url gz : bool) (l : layer)   (* open the local file / the URL in binary mode; gunzip on the fly iff gz; decode through l *)
| RWrap (l : layer)                   (* wrap the caller's binary stream into a decoder *)
| RPass.                              (* return the caller's text stream itself *)

Definition open_for_reading (a : arg) : res rplan :=
  match a with
  | AStr f =>
      (* gzip.open(handle, 'rt', encoding=encoding) / io.TextIOWrapper(handle, encoding=encoding) *)
      Ok (ROpen (looks_like_url f) (looks_gzipped f) {| l_enc := EncParam; l_nl := NlUniversal |})
  | ABinaryStream => Ok (RWrap {| l_enc := EncParam; l_nl := NlUniversal |})     (* io.TextIOWrapper(fh, encoding=encoding) *)
  | ATextStream => Ok RPass
  | AOther => Err ValueError
  end.

Inductive wplan :=
| WOpen (gz : bool) (l : layer)       (* create the local file; gzip on the fly iff gz; encode through l *)
| WWrap (l : layer)                   (* wrap the caller's binary stream into an encoder *)
| WPass.                              (* return the caller's text stream itself *)

Definition open_for_writing (a : arg) : res wplan :=
  match a with
  | AStr f =>
      if looks_gzipped f
      then Ok (WOpen true {| l_enc := EncParam; l_nl := NlRaw |})          (* gzip.open(fh, 'wt', newline='', encoding=encoding) *)
      else Ok (WOpen false {| l_enc := EncParam; l_nl := NlUniversal |})   (* open(fh, 'w', encoding=encoding) *)
  | ABinaryStream => Ok (WWrap {| l_enc := EncParam; l_nl := NlUniversal |})    (* io.TextIOWrapper(fh, encoding=encoding) *)
  | ATextStream => Ok WPass
  | AOther => Err ValueError
  end.

Definition rplan_layer (p : rplan) : option layer := match p with ROpen _ _ l => Some l | RWrap l => Some l | RPass => None end.
Definition wplan_layer (p : wplan) : option layer := match p with WOpen _ l => Some l | WWrap l => Some l | WPass => None end.

(* ---- what the decisions do to the content ---- *)
Section Codec.
Variable bytes : Type.
(* one codec per encoding selection: nothing is assumed of the locale's *)
Variable encode : encsel -> string -> bytes.
Variable decode : encsel -> bytes -> string.
Variable gzip : bytes -> bytes.
Variable gunzip : bytes -> bytes.
Variable linesep : string.            (* os.linesep *)

(* what a source of each kind holds when it carries the text c *)
Inductive material := MBytes (b : bytes) | MText (t : string).

(* the content c, stored in the requested encoding behind a name or a binary stream; a text stream yields c itself *)
Definition materialise (a : arg) (c : string) : material :=
  match a with
  | AStr f => MBytes (if looks_gzipped f then gzip (encode EncParam c) else encode EncParam c)   (* the file / resource behind the name *)
  | ABinaryStream => MBytes (encode EncParam c)
  | ATextStream => MText c
  | AOther => MText c
  end.

(* the text the returned handle delivers *)
Definition read_text (p : rplan) (m : material) : option string :=
  match p, m with
  | ROpen _ gz l, MBytes b => Some (deliver (l_nl l) (decode (l_enc l) (if gz then gunzip b else b)))
  | RWrap l, MBytes b => Some (deliver (l_nl l) (decode (l_enc l) b))
  | RPass, MText t => Some t
  | _, _ => None
  end.

(* what ends up in the target after writing the text c through the returned handle *)
Definition written (p : wplan) (c : string) : material :=
  match p with
  | WOpen gz l => let b := encode (l_enc l) (emit linesep (l_nl l) c) in MBytes (if gz then gzip b else b)
  | WWrap l => MBytes (encode (l_enc l) (emit linesep (l_nl l) c))
  | WPass => MText c
  end.
End Codec.
