(* Executable model of src/hpotk/util/_io.py
     looks_like_url, looks_gzipped, open_text_io_handle_for_reading, open_text_io_handle_for_writing
   as a decision table over the KIND of the argument, plus what each decision does to the content,
   with the codecs (text encoding, gzip) as section variables.  Which Python object falls into which
   kind (isinstance against the io ABCs) is runtime behaviour: the correspondence executes it.
   Definitions only. *)
From Coq Require Import String Ascii List Bool Arith.
From Hpotk Require Import Base.Result Base.Str.
Import ListNotations.
Open Scope string_scope.

Fixpoint sprefixb (p s : string) : bool :=
  match p, s with
  | EmptyString, _ => true
  | String a p', String b s' => Ascii.eqb a b && sprefixb p' s'
  | String _ _, EmptyString => false
  end.
(* s.endswith(x) *)
Fixpoint ssuffixb (x s : string) : bool :=
  seqb x s || match s with EmptyString => false | String _ r => ssuffixb x r end.

(* file.startswith('http://') or file.startswith('https://') *)
Definition looks_like_url (f : string) : bool := sprefixb "http://" f || sprefixb "https://" f.
(* file.endswith('.gz') *)
Definition looks_gzipped (f : string) : bool := ssuffixb ".gz" f.

(* the kind of the argument *)
Inductive arg :=
| AStr (name : string)      (* a str: a path or a URL *)
| ATextStream               (* an open text stream (io.TextIOBase): open(p), StringIO, gzip.open(p, 'rt') *)
| ABinaryStream             (* an open binary stream (io.BufferedIOBase / io.RawIOBase): open(p, 'rb'), BytesIO, gzip.open(p, 'rb') *)
| AOther.                   (* anything else: int, None, bytes, pathlib.Path, ... *)

(* what the helper does *)
Inductive rplan :=
| ROpen (url gz : bool)     (* open the local file / the URL in binary mode; gunzip on the fly iff gz; decode *)
| RWrap                     (* wrap the caller's binary stream into a decoder *)
| RPass.                    (* return the caller's text stream itself *)

Definition open_for_reading (a : arg) : res rplan :=
  match a with
  | AStr f => Ok (ROpen (looks_like_url f) (looks_gzipped f))
  | ABinaryStream => Ok RWrap
  | ATextStream => Ok RPass
  | AOther => Err ValueError
  end.

Inductive wplan :=
| WOpen (gz : bool)         (* create the local file; gzip on the fly iff gz; encode *)
| WWrap                     (* wrap the caller's binary stream into an encoder *)
| WPass.                    (* return the caller's text stream itself *)

Definition open_for_writing (a : arg) : res wplan :=
  match a with
  | AStr f => Ok (WOpen (looks_gzipped f))
  | ABinaryStream => Ok WWrap
  | ATextStream => Ok WPass
  | AOther => Err ValueError
  end.

(* ---- what the decisions do to the content ---- *)
Section Codec.
Variables text bytes : Type.
Variable encode : text -> bytes.
Variable decode : bytes -> text.
Variable gzip : bytes -> bytes.
Variable gunzip : bytes -> bytes.

(* what a source of each kind holds when it carries the text c *)
Inductive material := MBytes (b : bytes) | MText (t : text).

Definition materialise (a : arg) (c : text) : material :=
  match a with
  | AStr f => MBytes (if looks_gzipped f then gzip (encode c) else encode c)   (* the file / resource behind the name *)
  | ABinaryStream => MBytes (encode c)
  | ATextStream => MText c
  | AOther => MText c
  end.

(* the text the returned handle delivers *)
Definition read_text (p : rplan) (m : material) : option text :=
  match p, m with
  | ROpen _ gz, MBytes b => Some (decode (if gz then gunzip b else b))
  | RWrap, MBytes b => Some (decode b)
  | RPass, MText t => Some t
  | _, _ => None
  end.

(* what ends up in the target after writing the text c through the returned handle *)
Definition written (p : wplan) (c : text) : material :=
  match p with
  | WOpen gz => MBytes (if gz then gzip (encode c) else encode c)
  | WWrap => MBytes (encode c)
  | WPass => MText c
  end.
End Codec.
