(* Correspondence check for C08: parsed lines + loader configuration -> the loaded diseases.
   Observed annotations are compared as sorted lists. Definitions only. *)
From Coq Require Import String Ascii List Bool Arith ZArith.
From Coq Require Import PrimFloat.
From Hpotk Require Import Base.Result Base.Str Base.Emit TermId.Model Corr.Graph Hpoa.Float Hpoa.Model Hpoa.Text.
Import ListNotations.
Open Scope string_scope.
Open Scope list_scope.

(* observed disease: id, name, annotations (phenotype value, numerator, denominator, sorted refs "id|evidence", sorted modifier values)
   sorted by phenotype value, sorted mode-of-inheritance values *)
Definition oann : Type := (string * Z * Z * list string * list string)%type.
Definition odisease : Type := (string * string * list oann * list string)%type.

Definition oann_eqb (a b : oann) : bool :=
  let '(p, n, d, r, m) := a in let '(p', n', d', r', m') := b in
  seqb p p' && Z.eqb n n' && Z.eqb d d' && list_eqb seqb r r' && list_eqb seqb m m'.
Definition odisease_eqb (a b : odisease) : bool :=
  let '(i, n, anns, moi) := a in let '(i', n', anns', moi') := b in
  seqb i i' && seqb n n' && list_eqb oann_eqb anns anns' && list_eqb seqb moi moi'.

Fixpoint ains (x : oann) (l : list oann) : list oann :=
  match l with [] => [x] | y :: r => if sltb (fst (fst (fst (fst y)))) (fst (fst (fst (fst x)))) then y :: ains x r else x :: l end.
Definition asort (l : list oann) : list oann := fold_right ains [] l.

Definition render_ann (a : annotation) : oann :=
  let '(p, n, d, refs, mods) := a in
  (key_value p, n, d, ssort (map (fun r => (key_value (fst r) ++ "|" ++ snd r)%string) refs), ssort (map key_value mods)).

Definition render_disease (d : disease) : odisease :=
  (d_id d, d_name d, asort (map render_ann (d_annotations d)), ssort (map key_value (d_moi d))).

Fixpoint dins (x : odisease) (l : list odisease) : list odisease :=
  match l with [] => [x] | y :: r => if sltb (fst (fst (fst y))) (fst (fst (fst x))) then y :: dins x r else x :: l end.
Definition dsort (l : list odisease) : list odisease := fold_right dins [] l.

Record hcase := mkHCase { hc_cohort : Z; hc_salvage : bool; hc_lines : list line; hc_obs : res (list odisease) }.

Definition check_hpoa_case (c : hcase) : bool :=
  match load (hc_cohort c) (hc_salvage c) (hc_lines c), hc_obs c with
  | Ok ds, Ok obs => list_eqb odisease_eqb (dsort (map render_disease ds)) obs
  | Err e, Err e' => exn_eqb e e'
  | _, _ => false
  end.

Definition hpoa_model_answer (c : hcase) : res (list odisease) :=
  rmap (fun ds => dsort (map render_disease ds)) (load (hc_cohort c) (hc_salvage c) (hc_lines c)).

(* the frequency table of the live module: (lower, upper, frequency) per term, compared bit for bit *)
Definition check_freq_table (obs : list (float * float * float)) : bool :=
  list_eqb (fun a b => PrimFloat.eqb (fst (fst a)) (fst (fst b)) && PrimFloat.eqb (snd (fst a)) (snd (fst b)) && PrimFloat.eqb (snd a) (snd b))
           (map (fun b => (fst b, snd b, term_frequency b)) freq_bounds) obs.

(* text level: the lines of a real file (with their line ends), the float() oracle for the percentage
   literals that occur in it, what the implementation loaded, and the version it reported *)
Record tcase := mkTCase { tc_cohort : Z; tc_salvage : bool; tc_cvt : list (string * float); tc_lines : list string;
                          tc_obs : res (list odisease); tc_version : option string }.

Definition check_hpoa_text_case (c : tcase) : bool :=
  match load_text (tc_cohort c) (tc_salvage c) (tc_cvt c) (tc_lines c), tc_obs c with
  | Ok (ds, v), Ok obs => list_eqb odisease_eqb (dsort (map render_disease ds)) obs && opt_eqb seqb v (tc_version c)
  | Err e, Err e' => exn_eqb e e'
  | _, _ => false
  end.

Definition hpoa_text_model_answer (c : tcase) : res (list odisease * option string) :=
  rmap (fun dv => (dsort (map render_disease (fst dv)), snd dv)) (load_text (tc_cohort c) (tc_salvage c) (tc_cvt c) (tc_lines c)).
