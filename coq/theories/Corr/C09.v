(* Correspondence for C09: the model's integer counts are printed and compared by the harness with
   -log(count/population) of the implementation.  Definitions only. *)
From Coq Require Import String Ascii List Bool Arith ZArith.
From Hpotk Require Import Base.Result Base.Str Base.Ord Base.Emit TermId.Model Graph.Model Corr.Graph Ic.Model.
Import ListNotations.
Open Scope string_scope.
Open Scope list_scope.

Record icase := mkICase {
  ic_factory : factory;
  ic_edges : list (string * string);
  ic_module : option key;
  ic_pseudo : bool;
  ic_terms : list key;           (* identifiers of ontology.terms *)
  ic_items : corpus;
  ic_queries : list key }.

Definition exn_code (e : exn) : Z :=
  match e with ValueError => 1 | IndexError => 2 | KeyError => 3 | TypeError => 4 | OtherError => 5 end%Z.

(* [1; population; count q1; count q2; ...]  or  [0; exception code] *)
Definition icase_counts (c : icase) : list Z :=
  match parse_edges (ic_edges c) with
  | Err _ => [0; 9]%Z
  | Ok es =>
      match create (ic_factory c) es with
      | Err _ => [0; 8]%Z
      | Ok g =>
          match ic_counts g (ic_module c) (ic_pseudo c) (ic_terms c) (ic_items c) with
          | Ok (final, pop) => 1%Z :: Z.of_nat pop :: map (fun q => Z.of_nat (lookup final q)) (ic_queries c)
          | Err e => [0%Z; exn_code e]
          end
      end
  end.
