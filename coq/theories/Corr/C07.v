(* Correspondence check for C07: a scenario is a list of commands (actions of the store model,
   "run loader i to completion") interleaved with checkpoints carrying what was observed on the real
   store at that moment.  Definitions only. *)
From Coq Require Import String List Bool Arith.
From Hpotk Require Import Base.Result Base.Str Base.Emit Store.Model Store.Paths.
Import ListNotations.
Open Scope list_scope.

(* observed state: cache files present (type, release), number of other files under the store,
   fetch log (oldest first), per loader: 0 running | 1 returned the right ontology | 2 raised | 3 killed | 4 returned something else *)
Record obs := mkObs { ob_finals : list (nat * string); ob_leftovers : nat; ob_fetches : list (nat * string); ob_outcomes : list nat }.

(* the observed state read off the RAW directory listing (names relative to the store directory, each with the
   (type, release) whose served bytes the file holds, if any): the names are classified inside Coq by Store.Paths *)
Definition listing : Type := list (string * option (nat * string)).
Definition listing_finals (l : listing) : list (nat * string) :=
  flat_map (fun e => match classify (fst e) with CFinal t r => [(t, r)] | _ => [] end) l.
Definition listing_leftovers (l : listing) : nat :=
  length (filter (fun e => match classify (fst e) with CFinal _ _ => false | _ => true end) l).
(* every file at a cache location holds exactly what the remote serves for that (type, release) *)
Definition listing_complete (l : listing) : bool :=
  forallb (fun e => match classify (fst e) with
                    | CFinal t r => match snd e with Some (t', r') => Nat.eqb t t' && seqb r r' | None => false end
                    | _ => true
                    end) l.

Inductive cmd :=
| CAct (a : action)
| CFinish (i : nat)            (* loader i runs alone to the end of its load *)
| CCheck (o : obs)
| CListing (l : listing) (fetches : list (nat * string)) (outcomes : list nat)   (* as CCheck, from the raw listing *)
| CResolve (t : nat) (release : string) (relpath : string).                        (* resolve_store_path(t, release) relative to the store directory *)

Definition tr_ltb (a b : nat * string) : bool := Nat.ltb (fst a) (fst b) || (Nat.eqb (fst a) (fst b) && sltb (snd a) (snd b)).
Fixpoint tr_ins (x : nat * string) (l : list (nat * string)) : list (nat * string) :=
  match l with [] => [x] | y :: r => if tr_ltb y x then y :: tr_ins x r else x :: l end.
Definition tr_sort (l : list (nat * string)) : list (nat * string) := fold_right tr_ins [] l.
Definition tr_eqb (a b : nat * string) : bool := Nat.eqb (fst a) (fst b) && seqb (snd a) (snd b).

Section Corr.
Variable remote : otype -> string -> bytes.

Definition bytes_eqb (a b : bytes) : bool := list_eqb Nat.eqb a b.

Definition outcome (l : loader) : nat :=
  match l_pc l with
  | PDone b => if bytes_eqb b (remote (l_type l) (l_release l)) then 1 else 4
  | PFailed => 2
  | PDead => 3
  | _ => 0
  end.

Definition observe (w : world) : obs :=
  mkObs (tr_sort (flat_map (fun e => match fst e with Final t r => [(t, r)] | _ => [] end) (w_fs w)))
        (length (filter (fun e => match fst e with Final _ _ => false | _ => true end) (w_fs w)))
        (rev (w_fetches w))
        (map outcome (w_loaders w)).

Definition obs_eqb (a b : obs) : bool :=
  list_eqb tr_eqb (ob_finals a) (ob_finals b) && Nat.eqb (ob_leftovers a) (ob_leftovers b) &&
  list_eqb tr_eqb (ob_fetches a) (ob_fetches b) && list_eqb Nat.eqb (ob_outcomes a) (ob_outcomes b).

(* every cache file of the model world is complete (this is the invariant; evaluated, not assumed) *)
Definition all_complete (w : world) : bool :=
  forallb (fun e => match fst e with Final t r => bytes_eqb (snd e) (remote t r) | _ => true end) (w_fs w).

Fixpoint exec (w : world) (cs : list cmd) : bool :=
  match cs with
  | [] => true
  | CAct a :: r => exec (do_action remote w a) r
  | CFinish i :: r => exec (run remote w (repeat (Step i) 9)) r
  | CCheck o :: r => obs_eqb (observe w) o && all_complete w && exec w r
  | CListing l f o :: r =>
      obs_eqb (observe w) (mkObs (tr_sort (listing_finals l)) (listing_leftovers l) f o) && listing_complete l && all_complete w && exec w r
  | CResolve t rel p :: r => seqb (final_name t rel) p && exec w r
  end.

Fixpoint final_world (w : world) (cs : list cmd) : world :=
  match cs with
  | [] => w
  | CAct a :: r => final_world (do_action remote w a) r
  | CFinish i :: r => final_world (run remote w (repeat (Step i) 9)) r
  | CCheck _ :: r | CListing _ _ _ :: r | CResolve _ _ _ :: r => final_world w r
  end.
End Corr.

(* the remote as a table *)
Definition table_remote (tbl : list (nat * string * bytes)) : otype -> string -> bytes :=
  fun t r => match find (fun e => Nat.eqb (fst (fst e)) t && seqb (snd (fst e)) r) tbl with Some e => snd e | None => [] end.

Record scase := mkSCase { sc_remote : list (nat * string * bytes); sc_cmds : list cmd }.
Definition check_scase7 (c : scase) : bool := exec (table_remote (sc_remote c)) (mkWorld [] [] []) (sc_cmds c).
Definition scase_final (c : scase) : obs :=
  observe (table_remote (sc_remote c)) (final_world (table_remote (sc_remote c)) (mkWorld [] [] []) (sc_cmds c)).

(* latest tag *)
Definition check_latest (tags : list string) (o : res string) : bool := res_eqb seqb (latest tags) o.
