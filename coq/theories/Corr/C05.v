(* Correspondence check for C05: the loaded ontology is flattened into a canonical list of tagged
   strings on both sides and compared.  Definitions only. *)
From Coq Require Import String Ascii List Bool Arith ZArith.
From Hpotk Require Import Base.Result Base.Str Base.Emit TermId.Model Graph.Model Corr.Graph Ontology.Model Obographs.Model.
Import ListNotations.
Open Scope string_scope.
Open Scope list_scope.

Definition digit (n : nat) : string :=
  match n with 0 => "0" | 1 => "1" | 2 => "2" | 3 => "3" | 4 => "4" | 5 => "5" | _ => "?" end.
Definition ostr (o : option string) : string := match o with Some s => ("=" ++ s)%string | None => "-" end.
Definition onat (o : option nat) : string := match o with Some n => digit n | None => "-" end.

Definition render_term (full : bool) (t : term fullx) : list string :=
  [("T|" ++ key_value (t_id fullx t) ++ "|" ++ t_name fullx t)%string] ++
  map (fun a => ("A|" ++ key_value a)%string) (t_alts fullx t) ++
  (if full then
     let x := t_extra fullx t in
     (match x_definition x with
      | None => ["D-"]
      | Some (v, xs) => [("D|" ++ ostr v)%string] ++ map (fun y => ("DX|" ++ y)%string) xs
      end) ++
     [("C|" ++ ostr (x_comment x))%string] ++
     (match x_synonyms x with
      | None => ["S-"]
      | Some ss => flat_map (fun '(nm, c, ty, xr) =>
                     [("S|" ++ ostr nm ++ "|" ++ onat c ++ "|" ++ onat ty)%string] ++
                     match xr with None => ["SX-"] | Some ks => map (fun k => ("SX|" ++ key_value k)%string) ks end) ss
      end) ++
     (match x_xrefs x with None => ["X-"] | Some ks => map (fun k => ("X|" ++ key_value k)%string) ks end)
   else []).

Definition render_loaded (full : bool) (l : loaded) : list string :=
  let o := ontology_of l in
  flat_map (render_term full) (terms_of fullx o) ++
  ssort (map (fun k => ("I|" ++ key_value k)%string) (term_ids fullx o)) ++
  ssort (flat_map (fun c => match g_query (ld_graph l) QParents (ATid c) false with
                            | Ok ps => map (fun p => ("E|" ++ key_value c ++ "|" ++ key_value p)%string) ps
                            | Err _ => ["E?"] end) (g_nodes (ld_graph l))) ++
  [match g_root (ld_graph l) with Ok r => ("R|" ++ key_value r)%string | Err _ => "R?" end] ++
  [("V|" ++ ostr (ld_version l))%string].

Record ocase := mkOCase5 { o5_full : bool; o5_factory : factory; o5_prefixes : list string; o5_doc : doc; o5_obs : res (list string) }.

Definition check_o5case (c : ocase) : bool :=
  match load (o5_full c) (o5_factory c) (o5_prefixes c) (o5_doc c), o5_obs c with
  | Ok l, Ok obs => list_eqb seqb (render_loaded (o5_full c) l) obs
  | Err e, Err e' => exn_eqb e e'
  | _, _ => false
  end.

Definition o5_model_answer (c : ocase) : res (list string) :=
  rmap (render_loaded (o5_full c)) (load (o5_full c) (o5_factory c) (o5_prefixes c) (o5_doc c)).
