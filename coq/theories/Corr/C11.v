(* Correspondence check for C11. Definitions only. *)
From Coq Require Import String Ascii List Bool Arith ZArith.
From Hpotk Require Import Base.Result Base.Str Base.Ord Base.Emit TermId.Model Graph.Model Corr.Graph Ontology.Model Validate.Model.
Import ListNotations.
Open Scope string_scope.
Open Scope list_scope.

(* the canonical rendering of a finding: kind | ids named in the message | state *)
Definition canon (x : finding) : string :=
  match x with
  | FProp d a st => "P|" ++ key_value d ++ "|" ++ key_value a ++ "|" ++ (if st then "present" else "excluded")
  | FPa k => "A|" ++ key_value k
  | FObs k p => "O|" ++ key_value k ++ "|" ++ key_value p
  end.

(* one call: the validators of the runner (a single validator = a runner of one), the items,
   what the implementation reported (sorted canonical findings, is_ok) *)
Record vrun := mkVRun { vr_validators : list vkind; vr_items : list item; vr_findings : res (list string); vr_ok : bool }.

Record vcase := mkVCase {
  vc_factory : factory;
  vc_edges : list (string * string);
  vc_terms : list (term unit);
  vc_runs : list vrun }.

Definition check_vrun (o : onto unit) (g : graph) (r : vrun) : bool :=
  match validate_all unit o g (vr_validators r) (vr_items r), vr_findings r with
  | Ok l, Ok obs => list_eqb seqb (ssort (map canon l)) obs && Bool.eqb (is_ok l) (vr_ok r)
  | Err _, Err _ => true
  | _, _ => false
  end.

Definition check_vcase (c : vcase) : bool :=
  match parse_edges (vc_edges c) with
  | Err _ => false
  | Ok es =>
      match create (vc_factory c) es with
      | Err _ => false
      | Ok g => forallb (check_vrun (create_ontology unit (vc_terms c)) g) (vc_runs c)
      end
  end.

Definition vmodel_answers (c : vcase) : res (list (res (list string))) :=
  bind (parse_edges (vc_edges c)) (fun es => bind (create (vc_factory c) es) (fun g =>
    Ok (map (fun r => rmap (fun l => ssort (map canon l)) (validate_all unit (create_ontology unit (vc_terms c)) g (vr_validators r) (vr_items r))) (vc_runs c)))).
