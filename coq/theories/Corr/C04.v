(* Correspondence check for C04: evaluates the TermId model on a generated case and compares
   with what the implementation answered.  Definitions only. *)
From Coq Require Import String Ascii List Bool Arith.
From Hpotk Require Import Base.Result Base.Str Base.Ord Base.Emit TermId.Model.
Import ListNotations.
Open Scope string_scope.

Inductive obj :=
| OCurie (s : string)                 (* TermId.from_curie(s) *)
| ODefault (s : string) (i : nat)     (* DefaultTermId(value=s, idx=i) *)
| OSimple (s : string) (i : nat).     (* SimpleTermId(value=s, idx=i) *)

Definition build (o : obj) : res tid :=
  match o with
  | OCurie s => from_curie s
  | ODefault s i | OSimple s i => Ok (mkTid s i)
  end.

Definition triple := (string * string * string)%type.   (* prefix, id, value == str() *)
Definition triple_eqb (a b : triple) : bool :=
  let '(a1, a2, a3) := a in let '(b1, b2, b3) := b in seqb a1 b1 && seqb a2 b2 && seqb a3 b3.
Definition observe (t : tid) : triple := (prefix t, ident t, value t).

(* keeps duplicates: Python's sorted() *)
Fixpoint kins (x : key) (l : list key) : list key :=
  match l with
  | [] => [x]
  | y :: r => if key_ltb y x then y :: kins x r else x :: l
  end.
Definition ksort (l : list key) : list key := fold_right kins [] l.

Inductive case :=
| CParse (o : obj) (first : res triple) (again : res triple)
    (* observation of the object, and of from_curie(object.value) *)
| CPair (a b : obj) (eq lt_ab lt_ba hash_eq : bool)
| CSort (l : list string) (sorted_vals unique_vals : list string)
        (probes : list (string * nat * option nat)).
    (* probe = (curie x, bisect_left(unique, x), _index_of_using_binary_search(unique, x)) *)

Definition check_case (c : case) : bool :=
  match c with
  | CParse o first again =>
      let m := build o in
      res_eqb triple_eqb (rmap observe m) first &&
      res_eqb triple_eqb (bind m (fun t => rmap observe (from_curie (value t)))) again
  | CPair a b eq lt_ab lt_ba hash_eq =>
      match build a, build b with
      | Ok t, Ok u =>
          Bool.eqb (teqb t u) eq && Bool.eqb (tltb t u) lt_ab && Bool.eqb (tltb u t) lt_ba &&
          (if teqb t u then hash_eq else true)
      | _, _ => false
      end
  | CSort l sorted_vals unique_vals probes =>
      match rsequence (map from_curie l) with
      | Ok ts =>
          let ks := map tkey ts in
          let uniq := sort_unique key_ltb ks in
          list_eqb seqb (map key_value (ksort ks)) sorted_vals &&
          list_eqb seqb (map key_value uniq) unique_vals &&
          forallb (fun p => let '(x, bl, io) := p in
                     match from_curie x with
                     | Ok t => Nat.eqb (bisect_left key_ltb uniq (tkey t)) bl &&
                               opt_eqb Nat.eqb (index_of key_ltb uniq (tkey t)) io
                     | Err _ => false
                     end) probes
      | Err _ => false
      end
  end.
