(* Correspondence check for C16: the decision table and the two string tests. Definitions only. *)
From Coq Require Import String Ascii List Bool Arith.
From Hpotk Require Import Base.Result Base.Str Base.Emit Io.Model.
Import ListNotations.
Open Scope string_scope.

(* what the harness observed the helper do with an argument of the given kind *)
Inductive robs := OOpenPlain | OOpenGz | OWrap | OPass | ORaise (e : exn).

Definition robs_of_rplan (r : res rplan) : robs :=
  match r with
  | Ok (ROpen _ false) => OOpenPlain
  | Ok (ROpen _ true) => OOpenGz
  | Ok RWrap => OWrap
  | Ok RPass => OPass
  | Err e => ORaise e
  end.
Definition robs_of_wplan (r : res wplan) : robs :=
  match r with
  | Ok (WOpen false) => OOpenPlain
  | Ok (WOpen true) => OOpenGz
  | Ok WWrap => OWrap
  | Ok WPass => OPass
  | Err e => ORaise e
  end.
Definition robs_eqb (a b : robs) : bool :=
  match a, b with
  | OOpenPlain, OOpenPlain | OOpenGz, OOpenGz | OWrap, OWrap | OPass, OPass => true
  | ORaise e, ORaise e' => exn_eqb e e'
  | _, _ => false
  end.

Inductive iocase :=
| IORead (a : arg) (o : robs)
| IOWrite (a : arg) (o : robs)
| IOUrl (f : string) (b : bool)          (* looks_like_url *)
| IOGz (f : string) (b : bool).          (* looks_gzipped *)

Definition check_iocase (c : iocase) : bool :=
  match c with
  | IORead a o => robs_eqb (robs_of_rplan (open_for_reading a)) o
  | IOWrite a o => robs_eqb (robs_of_wplan (open_for_writing a)) o
  | IOUrl f b => Bool.eqb (looks_like_url f) b
  | IOGz f b => Bool.eqb (looks_gzipped f) b
  end.
