(* Correspondence check for C16: the decision table and the two string tests. Definitions only. *)
From Coq Require Import String Ascii List Bool Arith.
From Hpotk Require Import Base.Result Base.Str Base.Emit Io.Model.
Import ListNotations.
Open Scope string_scope.

(* what the harness observed the helper do with an argument of the given kind *)
Inductive robs := OOpenPlain | OOpenGz | OWrap | OPass | ORaise (e : exn).

Definition robs_of_rplan (r : res rplan) : robs :=
  match r with
  | Ok (ROpen _ false _) => OOpenPlain
  | Ok (ROpen _ true _) => OOpenGz
  | Ok (RWrap _) => OWrap
  | Ok RPass => OPass
  | Err e => ORaise e
  end.
Definition robs_of_wplan (r : res wplan) : robs :=
  match r with
  | Ok (WOpen false _) => OOpenPlain
  | Ok (WOpen true _) => OOpenGz
  | Ok (WWrap _) => OWrap
  | Ok WPass => OPass
  | Err e => ORaise e
  end.
Definition robs_eqb (a b : robs) : bool :=
  match a, b with
  | OOpenPlain, OOpenPlain | OOpenGz, OOpenGz | OWrap, OWrap | OPass, OPass => true
  | ORaise e, ORaise e' => exn_eqb e e'
  | _, _ => false
  end.

Definition enc_is_param (e : encsel) : bool := match e with EncParam => true | EncLocale => false end.

Inductive iocase :=
| IORead (a : arg) (o : robs)
| IOWrite (a : arg) (o : robs)
(* the text layer of a handle the helper created: does its encoding follow the `encoding` parameter; the
   text it delivered for the raw decoded content `raw` / the text that reached the target for the written text `txt` *)
| IORLayer (a : arg) (enc_follows : bool) (raw got : string)
| IOWLayer (a : arg) (enc_follows : bool) (linesep txt got : string)
| IOUrl (f : string) (b : bool)          (* looks_like_url *)
| IOGz (f : string) (b : bool).          (* looks_gzipped *)

Definition check_iocase (c : iocase) : bool :=
  match c with
  | IORead a o => robs_eqb (robs_of_rplan (open_for_reading a)) o
  | IOWrite a o => robs_eqb (robs_of_wplan (open_for_writing a)) o
  | IORLayer a ef raw got =>
      match open_for_reading a with
      | Ok p => match rplan_layer p with
                | Some l => Bool.eqb (enc_is_param (l_enc l)) ef && seqb (deliver (l_nl l) raw) got
                | None => false
                end
      | Err _ => false
      end
  | IOWLayer a ef ls txt got =>
      match open_for_writing a with
      | Ok p => match wplan_layer p with
                | Some l => Bool.eqb (enc_is_param (l_enc l)) ef && seqb (emit ls (l_nl l) txt) got
                | None => false
                end
      | Err _ => false
      end
  | IOUrl f b => Bool.eqb (looks_like_url f) b
  | IOGz f b => Bool.eqb (looks_gzipped f) b
  end.
