(* Correspondence check for C15. Values are float.hex() tokens.  Definitions only. *)
From Coq Require Import String Ascii List Bool Arith ZArith.
From Hpotk Require Import Base.Result Base.Str Base.Emit Io.Model Sim.Model Sim.Csv Sim.CsvFile.
Import ListNotations.
Open Scope string_scope.
Open Scope list_scope.

Definition fzero : string := "0x0.0p+0".
(* sim < 0. on the hex token: a leading '-' unless it is -0.0 (nan compares false) *)
Definition fneg (s : string) : bool :=
  match s with
  | String "-" _ => negb (seqb s "-0x0.0p+0")
  | _ => false
  end.

Definition item : Type := (string * string * string)%type.
Definition item_ltb (x y : item) : bool :=
  let '(a, b, _) := x in let '(c, d, _) := y in sltb a c || (seqb a c && sltb b d).
Fixpoint iins (x : item) (l : list item) : list item :=
  match l with [] => [x] | y :: r => if item_ltb y x then y :: iins x r else x :: l end.
Definition isort (l : list item) : list item := fold_right iins [] l.
Definition item_eqb (x y : item) : bool :=
  let '(a, b, v) := x in let '(c, d, w) := y in seqb a c && seqb b d && seqb v w.

(* what is read back after a step: get for every ordered pair of the case's keys, len, sorted items *)
Record readback := mkRB { rb_gets : list string; rb_len : nat; rb_items : list item }.

Definition read_all (keys : list string) (s : cont string) : readback :=
  mkRB (flat_map (fun a => map (fun b => get_similarity string fzero s a b) keys) keys)
       (clen string s) (isort (items string s)).

Definition rb_eqb (x y : readback) : bool :=
  list_eqb seqb (rb_gets x) (rb_gets y) && Nat.eqb (rb_len x) (rb_len y) && list_eqb item_eqb (rb_items x) (rb_items y).

(* one step of a history: the operation, whether the implementation accepted it, what it read back *)
Definition hstep : Type := (string * string * string * bool * readback)%type.

Fixpoint check_history (keys : list string) (s : cont string) (h : list hstep) : bool :=
  match h with
  | [] => true
  | (a, b, v, accepted, rb) :: r =>
      match set_similarity string fneg s a b v with
      | Ok s' => accepted && rb_eqb (read_all keys s') rb && check_history keys s' r
      | Err _ => negb accepted && rb_eqb (read_all keys s) rb && check_history keys s r
      end
  end.

(* the float oracle: cell text -> (float() accepts it, the value is < 0, its float.hex()) *)
Definition ftable : Type := list (string * (bool * bool * string)).
Definition flook (t : ftable) (s : string) : bool * bool * string :=
  match find (fun e => seqb (fst e) s) t with Some e => snd e | None => (false, false, EmptyString) end.

(* SimilarityContainer(meta) + set_similarity per record, in file order: ValueError for a negative value, TypeError
   when a key is None (a short row), the first error wins *)
Definition build (t : ftable) (recs : list (option string * option string * string)) : res (cont string) :=
  fold_left (fun acc r => bind acc (fun s =>
               let '(a, b, v) := r in
               let '(_, ng, hx) := flook t v in
               if ng then Err ValueError
               else match a, b with
                    | Some a, Some b => set_similarity string (fun _ => false) s a b hx
                    | _, _ => Err TypeError
                    end)) recs (Ok []).

Fixpoint mins (x : string * string) (l : list (string * string)) : list (string * string) :=
  match l with [] => [x] | y :: r => if sltb (fst y) (fst x) then y :: mins x r else x :: l end.
Definition msort (l : list (string * string)) : list (string * string) := fold_right mins [] l.
Definition kv_eqb (x y : string * string) : bool := seqb (fst x) (fst y) && seqb (snd x) (snd y).

(* from_csv: the handle's universal-newline layer (C16), the text-level reader, _parse_meta, the container *)
Definition from_csv_model (t : ftable) (text : string) : res (list (string * string) * list item) :=
  bind (from_csv_text (fun s => fst (fst (flook t s))) (universal text)) (fun hr =>
  bind (match meta_line (fst hr) with None => Ok [] | Some s => metadata_from_str s end) (fun m =>
  bind (build t (snd hr)) (fun c => Ok (msort m, isort (items string c))))).

Inductive ccase :=
| CHistory (keys : list string) (h : list hstep)
| CMetaToStr (m : meta) (r : res string)
| CMetaFromStr (s : string) (r : res (list (string * string)))      (* parsed dict as sorted association list *)
| CFrame (s : string) (line : string)                               (* the header line written for metadata string s *)
| CCsvWrite (fields : list string) (line : string)                  (* csv.writer output for one row *)
| CCsvRead (line : string) (fields : list string)                   (* csv.reader result for one physical line *)
| CCsvFileWrite (description meta_str : string) (rows : list item) (text : string)   (* the whole file to_csv wrote (values as repr texts) *)
| CCsvFileRead (t : ftable) (text : string) (r : res (list (string * string) * list item)).  (* from_csv on an arbitrary text *)

Definition check_ccase (c : ccase) : bool :=
  match c with
  | CHistory keys h => check_history keys [] h
  | CMetaToStr m r => res_eqb seqb (metadata_to_str m) r
  | CMetaFromStr s r => res_eqb (list_eqb kv_eqb) (rmap msort (metadata_from_str s)) r
  | CFrame s line => seqb (frame s) line && seqb (unframe line) s
  | CCsvWrite fields line => seqb (write_row fields) line
  | CCsvRead line fields => list_eqb seqb (read_row line) fields
  | CCsvFileWrite d m rows text => seqb (to_csv_text d m rows) text
  | CCsvFileRead t text r =>
      res_eqb (fun x y => list_eqb kv_eqb (fst x) (fst y) && list_eqb item_eqb (snd x) (snd y)) (from_csv_model t text) r
  end.
