(* Correspondence check for C13: the recorded decisions of a real argsort run are replayed through
   the model; the final index tuple must be equal.  Definitions only. *)
From Coq Require Import List Bool Arith ZArith.
From Hpotk Require Import Base.Emit Sort.Model Sort.Argmax.
Import ListNotations.
Open Scope list_scope.

Inductive scase :=
| SArgsort (ids : list nat) (ds : list decision) (observed : option (list nat))     (* None = ValueError *)
| SFindIndices (source ordered : list nat) (observed : option (list nat))
(* the similarity values the measure returned, call by call (as ranks: an order-isomorphic image of the floats with
   zero and epsilon), and the index tuple argsort returned *)
| SArgsortVals (ids : list nat) (zero eps : Z) (vals : list Z) (observed : option (list nat)).

Definition check_scase (c : scase) : bool :=
  match c with
  | SArgsort ids ds obs => opt_eqb (list_eqb Nat.eqb) (argsort (replay ds) ids) obs
  | SFindIndices src ord obs => opt_eqb (list_eqb Nat.eqb) (find_indices src ord) obs
  | SArgsortVals ids zero eps vals obs => opt_eqb (list_eqb Nat.eqb) (argsort_vals zero eps ids vals) obs
  end.

Definition smodel_answer (c : scase) : option (list nat) :=
  match c with
  | SArgsort ids ds _ => argsort (replay ds) ids
  | SFindIndices src ord _ => find_indices src ord
  | SArgsortVals ids zero eps vals _ => argsort_vals zero eps ids vals
  end.
