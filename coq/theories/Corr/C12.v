(* Correspondence check for C12: what several simultaneously open, interleaved iterators yielded on
   the real graph, against the model's answer for each query (as a multiset) - and no repeats. Definitions only. *)
From Coq Require Import String Ascii List Bool Arith ZArith.
From Hpotk Require Import Base.Result Base.Str Base.Ord Base.Emit TermId.Model Graph.Model Corr.Graph.
Import ListNotations.
Open Scope string_scope.
Open Scope list_scope.

Fixpoint nodupb (l : list string) : bool :=
  match l with [] => true | x :: r => negb (existsb (seqb x) r) && nodupb r end.

(* an opened traversal: the query, its source, include_source, and everything it yielded (in order)
   while other iterators were advanced in between; None = it raised *)
Definition itobs : Type := (query * key * bool * option (list string))%type.

Record pcase := mkPCase { pc_factory : factory; pc_edges : list (string * string); pc_iters : list itobs }.

Definition check_itobs (g : graph) (o : itobs) : bool :=
  let '(q, k, incl, ys) := o in
  match g_query g q (ATid k) incl, ys with
  | Ok l, Some obs => nodupb obs && list_eqb seqb (ssort obs) (ssort (map key_value l))
  | Err _, None => true
  | _, _ => false
  end.

Definition check_pcase (c : pcase) : bool :=
  match parse_edges (pc_edges c) with
  | Err _ => false
  | Ok es => match create (pc_factory c) es with
             | Err _ => false
             | Ok g => forallb (check_itobs g) (pc_iters c)
             end
  end.
