(* Correspondence check shared by C01, C02, C03, C14 (and reused by C18): a case is an edge list,
   a factory and a list of (API call, what the implementation answered).  Definitions only. *)
From Coq Require Import String Ascii List Bool Arith ZArith.
From Hpotk Require Import Base.Result Base.Str Base.Ord Base.Emit TermId.Model Csr.Model Graph.Model.
Import ListNotations.
Open Scope string_scope.
Open Scope list_scope.

Inductive call :=
| CQuery (q : query) (a : arg) (incl : bool)     (* get_parents/children/ancestors/descendants *)
| CPred (q : query) (sub obj : arg)              (* is_parent/child/ancestor/descendant_of *)
| CLeaf (a : arg)
| CContains (k : key)
| CNodes                                         (* iter(graph) *)
| CRoot
| CNodeToIdx (k : key)
| CIdxToNode (i : Z)
| CRootIdx
| CIdxQuery (q : query) (i : Z)                  (* get_*_idx *)
| CIdxPred (q : query) (sub obj : Z).            (* is_*_of_idx *)

Inductive cres :=
| RKeys (r : res (list string))     (* sorted list of the CURIE values returned *)
| RBool (r : res bool)
| RKey (r : res string)
| ROptNat (o : option nat)
| RNat (n : nat)
| RNats (r : res (list nat))        (* sorted *)
| RUnsupported.

(* insertion sorts (duplicates kept) *)
Fixpoint sins (x : string) (l : list string) : list string :=
  match l with [] => [x] | y :: r => if sltb y x then y :: sins x r else x :: l end.
Definition ssort (l : list string) : list string := fold_right sins [] l.
Fixpoint nins (x : nat) (l : list nat) : list nat :=
  match l with [] => [x] | y :: r => if Nat.ltb y x then y :: nins x r else x :: l end.
Definition nsort (l : list nat) : list nat := fold_right nins [] l.

Definition keys_out (r : res (list key)) : cres := RKeys (rmap (fun l => ssort (map key_value l)) r).

Definition eval_call (g : graph) (c : call) : cres :=
  match c with
  | CQuery q a incl => keys_out (g_query g q a incl)
  | CPred q s o => RBool (g_pred g q s o)
  | CLeaf a => RBool (g_is_leaf g a)
  | CContains k => RBool (Ok (g_contains g k))
  | CNodes => keys_out (Ok (g_nodes g))
  | CRoot => RKey (rmap key_value (g_root g))
  | CNodeToIdx k => match g with GI ig => ROptNat (ig_node_to_idx ig k) | GM _ => RUnsupported end
  | CIdxToNode i => match g with GI ig => RKey (rmap key_value (ig_idx_to_node ig i)) | GM _ => RUnsupported end
  | CRootIdx => match g with GI ig => RNat (ig_root ig) | GM _ => RUnsupported end
  | CIdxQuery q i =>
      match g with
      | GI ig => RNats (rmap nsort (match q with
                                    | QParents => ig_parents_idx ig i
                                    | QChildren => ig_children_idx ig i
                                    | QAncestors => ig_ancestor_idx ig i
                                    | QDescendants => ig_descendant_idx ig i
                                    end))
      | GM _ => RUnsupported
      end
  | CIdxPred q s o =>
      match g with
      | GI ig => RBool (match q with
                        | QParents => ig_is_parent_of_idx ig s o
                        | QChildren => ig_is_child_of_idx ig s o
                        | QAncestors => ig_is_ancestor_of_idx ig s o
                        | QDescendants => ig_is_descendant_of_idx ig s o
                        end)
      | GM _ => RUnsupported
      end
  end.

Definition cres_eqb (a b : cres) : bool :=
  match a, b with
  | RKeys x, RKeys y => res_eqb (list_eqb seqb) x y
  | RBool x, RBool y => res_eqb Bool.eqb x y
  | RKey x, RKey y => res_eqb seqb x y
  | ROptNat x, ROptNat y => opt_eqb Nat.eqb x y
  | RNat x, RNat y => Nat.eqb x y
  | RNats x, RNats y => res_eqb (list_eqb Nat.eqb) x y
  | _, _ => false
  end.

(* edges are given as CURIE strings, exactly what the harness hands to TermId.from_curie *)
Definition parse_edges (es : list (string * string)) : res (list edge) :=
  rsequence (map (fun '(s, o) => bind (from_curie s) (fun ts => bind (from_curie o) (fun to => Ok (tkey ts, tkey to)))) es).

(* created = false: the implementation's factory raised ValueError *)
Record gcase := mkCase {
  gc_factory : factory;
  gc_edges : list (string * string);
  gc_created : bool;
  gc_calls : list (call * cres) }.

Definition check_gcase (c : gcase) : bool :=
  match parse_edges (gc_edges c) with
  | Err _ => false
  | Ok es =>
      match create (gc_factory c) es with
      | Err _ => negb (gc_created c)
      | Ok g => gc_created c && forallb (fun '(cl, r) => cres_eqb (eval_call g cl) r) (gc_calls c)
      end
  end.

(* for diagnostics in replay files: what the model answers *)
Definition model_answers (c : gcase) : res (list cres) :=
  bind (parse_edges (gc_edges c)) (fun es => bind (create (gc_factory c) es) (fun g =>
    Ok (map (fun '(cl, _) => eval_call g cl) (gc_calls c)))).

(* string table indirection used by generated files *)
Definition tb (tbl : list string) (i : nat) : string := nth i tbl "".
Definition kt (tbl : list string) (i : nat) : key :=
  match from_curie (nth i tbl "") with Ok t => tkey t | Err _ => key0 end.
