(* Correspondence check for C06. Definitions only. *)
From Coq Require Import String Ascii List Bool Arith ZArith.
From Hpotk Require Import Base.Result Base.Str Base.Ord Base.Emit TermId.Model Graph.Model Corr.Graph Ontology.Model.
Import ListNotations.
Open Scope string_scope.
Open Scope list_scope.

Inductive ocall := OLen | OTerms | OTermIds | OGet (a : arg) | OName (a : arg) | OIn (a : arg).
Inductive ores :=
| ONat (n : nat)
| ONats (l : list nat)                 (* payload indices of the terms, in iteration order *)
| OKeys (l : list string)              (* sorted CURIE values, duplicates kept *)
| OTerm (r : res (option nat))
| OStr (r : res (option string))
| OBool (r : res bool).

Definition ores_eqb (a b : ores) : bool :=
  match a, b with
  | ONat x, ONat y => Nat.eqb x y
  | ONats x, ONats y => list_eqb Nat.eqb x y
  | OKeys x, OKeys y => list_eqb seqb x y
  | OTerm x, OTerm y => res_eqb (opt_eqb Nat.eqb) x y
  | OStr x, OStr y => res_eqb (opt_eqb seqb) x y
  | OBool x, OBool y => res_eqb Bool.eqb x y
  | _, _ => false
  end.

Definition eval_ocall (o : onto nat) (c : ocall) : ores :=
  match c with
  | OLen => ONat (olen nat o)
  | OTerms => ONats (map (t_extra nat) (terms_of nat o))
  | OTermIds => OKeys (ssort (map key_value (term_ids nat o)))
  | OGet a => OTerm (rmap (option_map (t_extra nat)) (get_term nat o a))
  | OName a => OStr (get_term_name nat o a)
  | OIn a => OBool (contains nat o a)
  end.

Record ocase := mkOCase { oc_terms : list (term nat); oc_calls : list (ocall * ores) }.

Definition check_ocase (c : ocase) : bool :=
  let o := create_ontology nat (oc_terms c) in
  forallb (fun '(cl, r) => ores_eqb (eval_ocall o cl) r) (oc_calls c).

Definition omodel_answers (c : ocase) : list ores :=
  let o := create_ontology nat (oc_terms c) in map (fun '(cl, _) => eval_ocall o cl) (oc_calls c).
