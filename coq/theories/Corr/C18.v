(* Correspondence check for C18: helper calls on a graph built from an edge list. Definitions only. *)
From Coq Require Import String Ascii List Bool Arith ZArith.
From Hpotk Require Import Base.Result Base.Str Base.Ord Base.Emit TermId.Model Csr.Model Graph.Model Helpers.Model Corr.Graph.
Import ListNotations.
Open Scope string_scope.
Open Scope list_scope.

Inductive wkind := WGraph | WAware | WOther.
Definition wrap (k : wkind) (g : graph) : gwrap :=
  match k with WGraph => GGraph g | WAware => GAware g | WOther => GOtherG end.

Inductive hcall :=
| HHelper (q : query) (w : wkind) (a : harg) (incl : bool)
| HPath (w : wkind) (a b : harg)
| HAugment (q : query) (w : wkind) (s : asrc) (incl : bool).

Definition eval_hcall (g : graph) (c : hcall) : cres :=
  match c with
  | HHelper q w a incl => keys_out (helper q (wrap w g) a incl)
  | HPath w a b => RBool (exists_path (wrap w g) a b)
  | HAugment q w s incl => keys_out (augment q (wrap w g) s incl)
  end.

Record hcase := mkHCase {
  hc_factory : factory;
  hc_edges : list (string * string);
  hc_calls : list (hcall * cres) }.

Definition check_hcase (c : hcase) : bool :=
  match parse_edges (hc_edges c) with
  | Err _ => false
  | Ok es =>
      match create (hc_factory c) es with
      | Err _ => false
      | Ok g => forallb (fun '(cl, r) => cres_eqb (eval_hcall g cl) r) (hc_calls c)
      end
  end.

Definition hmodel_answers (c : hcase) : res (list cres) :=
  bind (parse_edges (hc_edges c)) (fun es => bind (create (hc_factory c) es) (fun g =>
    Ok (map (fun '(cl, _) => eval_hcall g cl) (hc_calls c)))).
