(* Correspondence check for C10. IC values and similarities are integers (dyadic floats scaled by 8). Definitions only. *)
From Coq Require Import String Ascii List Bool Arith ZArith.
From Hpotk Require Import Base.Result Base.Str Base.Ord Base.Emit TermId.Model Graph.Model Corr.Graph Sim.Model Resnik.Model.
Import ListNotations.
Open Scope string_scope.
Open Scope list_scope.

Definition zitem : Type := (string * string * Z)%type.
Definition zitem_ltb (x y : zitem) : bool :=
  let '(a, b, _) := x in let '(c, d, _) := y in sltb a c || (seqb a c && sltb b d).
Fixpoint zins (x : zitem) (l : list zitem) : list zitem :=
  match l with [] => [x] | y :: r => if zitem_ltb y x then y :: zins x r else x :: l end.
Definition zsort (l : list zitem) : list zitem := fold_right zins [] l.
Definition zitem_eqb (x y : zitem) : bool :=
  let '(a, b, v) := x in let '(c, d, w) := y in seqb a c && seqb b d && Z.eqb v w.

(* observed: Err (the precomputation raised) | Ok (reads of get_similarity(a, b) for the listed ordered pairs, len, sorted items) *)
Record rcase := mkRCase {
  rc_factory : factory;
  rc_edges : list (string * string);
  rc_ic : list (key * Z);
  rc_obs : res (list (string * string * Z) * nat * list zitem) }.

Definition check_rcase (c : rcase) : bool :=
  match parse_edges (rc_edges c) with
  | Err _ => false
  | Ok es =>
      match create (rc_factory c) es with
      | Err _ => false
      | Ok g =>
          match precalculate g (rc_ic c), rc_obs c with
          | Ok s, Ok (reads, n, its) =>
              forallb (fun '(a, b, v) => Z.eqb (get_similarity Z 0%Z s a b) v) reads &&
              Nat.eqb (clen Z s) n && list_eqb zitem_eqb (zsort (items Z s)) its
          | Err e, Err e' => exn_eqb e e'
          | _, _ => false
          end
      end
  end.

Definition rmodel_answer (c : rcase) : res (nat * list zitem) :=
  bind (parse_edges (rc_edges c)) (fun es => bind (create (rc_factory c) es) (fun g =>
    rmap (fun s => (clen Z s, zsort (items Z s))) (precalculate g (rc_ic c)))).
