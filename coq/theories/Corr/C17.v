(* Correspondence check for C17 (CSR matrix and builder).  Values of every dtype are rendered
   as Z by the harness (bool: 0/1, dyadic floats scaled).  Definitions only. *)
From Coq Require Import List Bool Arith ZArith.
From Hpotk Require Import Base.Result Base.Emit Csr.Model.
Import ListNotations.

Definition zcsr := csr Z.

(* Ok values must agree; an error must be an error (the property does not fix its class) *)
Definition res_sim {A} (eqb : A -> A -> bool) (x y : res A) : bool :=
  match x, y with
  | Ok a, Ok b => eqb a b
  | Err _, Err _ => true
  | _, _ => false
  end.

Fixpoint nins (x : nat) (l : list nat) : list nat :=
  match l with [] => [x] | y :: r => if x <=? y then x :: l else y :: nins x r end.
Definition nsort (l : list nat) : list nat := fold_right nins [] l.

Record reads := mkReads {
  rd_cells : list (Z * Z * res Z);            (* m[r, c] *)
  rd_rows  : list (Z * res (list Z));         (* m[r] *)
  rd_civ   : list (Z * Z * res (list nat)) }. (* sorted(m.col_indices_of_val(r, q)) *)

Definition check_reads (m : zcsr) (rd : reads) : bool :=
  forallb (fun '(r, c, o) => res_sim Z.eqb (getitem_cell 0%Z m r c) o) (rd_cells rd) &&
  forallb (fun '(r, o) => res_sim (list_eqb Z.eqb) (getitem_row 0%Z m r) o) (rd_rows rd) &&
  forallb (fun '(r, q, o) => res_sim (list_eqb Nat.eqb) (rmap nsort (col_indices_of_val Z.eqb 0%Z m r q)) o) (rd_civ rd).

Fixpoint outcomes (b : zcsr) (ops : list (assign Z)) : list bool * zcsr :=
  match ops with
  | [] => ([], b)
  | (r, c, v) :: t =>
      match setitem b r c v with
      | Ok b' => let '(o, e) := outcomes b' t in (true :: o, e)
      | Err _ => let '(o, e) := outcomes b t in (false :: o, e)
      end
  end.

Inductive case :=
| CBuild (R C : nat) (ops : list (assign Z)) (oks : list bool) (rd : reads)
| CGiven (row col : list nat) (data : list Z) (R C : nat) (rd : reads).

Definition check_case (c : case) : bool :=
  match c with
  | CBuild R C ops oks rd =>
      let '(o, b) := outcomes (builder_init Z R C) ops in
      list_eqb Bool.eqb o oks && check_reads b rd
  | CGiven row col data R C rd => check_reads (mkCsr row col data R C) rd
  end.
