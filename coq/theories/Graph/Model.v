(* Executable model of the ontology graphs:
     src/hpotk/graph/_factory.py       _phenol_find_root, get_array_of_unique_and_sorted_nodes,
                                       CsrIndexedGraphFactory, IncrementalCsrGraphFactory, CsrGraphFactory
     src/hpotk/graph/_csr_idx_graph.py StaticCsrArray, CsrIndexedOntologyGraph
     src/hpotk/graph/_csr_graph.py     BaseCsrOntologyGraph, BisectPoweredCsrOntologyGraph
     src/hpotk/graph/_api.py           OntologyGraph, IndexedOntologyGraph
   Nodes are TermId keys (prefix, id): by C04 equality, hashing and ordering of TermIds only look
   at the key.  Lazy iterators are modelled by the list they yield (laziness itself: Iter/, C12);
   an exception raised on construction or on consumption is `Err`.  Definitions only. *)
From Coq Require Import String Ascii List Bool Arith ZArith.
From Hpotk Require Import Base.Result Base.Str Base.Ord TermId.Model Csr.Model Graph.Worklist.
Import ListNotations.
Open Scope string_scope.
Open Scope list_scope.

Definition edge : Type := (key * key)%type.          (* (sub, obj):  sub is_a obj *)
Definition edge_eqb (a b : edge) : bool := key_eqb (fst a) (fst b) && key_eqb (snd a) (snd b).
Definition kmem (x : key) (l : list key) : bool := existsb (key_eqb x) l.
Definition owl_thing : key := ("owl", "Thing").
Definition key0 : key := ("", "").

(* repeated edges are dropped when a factory takes the edge list (first occurrence kept) *)
Fixpoint dedup_edges (es : list edge) : list edge :=
  match es with
  | [] => []
  | e :: r => e :: filter (fun f => negb (edge_eqb e f)) (dedup_edges r)
  end.

(* ---------------- _phenol_find_root ---------------- *)
(* objects that are never a subject; a Python set - its iteration order is irrelevant because
   everything downstream depends on the edge SET only (C02), the model lists it sorted *)
Definition candidates (es : list edge) : list key :=
  sort_unique key_ltb (filter (fun o => negb (kmem o (map fst es))) (map snd es)).

Definition find_root (es : list edge) : res (key * list edge) :=
  match candidates es with
  | [] => Err ValueError
  | [c] => Ok (c, es)
  | cs => Ok (owl_thing, es ++ map (fun c => (c, owl_thing)) cs)
  end.

(* get_array_of_unique_and_sorted_nodes: np.unique over all edge endpoints *)
Definition nodes_of (es : list edge) : list key :=
  sort_unique key_ltb (flat_map (fun e => [fst e; snd e]) es).

(* _index_of_using_binary_search *)
Definition idx_of (nodes : list key) (x : key) : option nat := index_of key_ltb nodes x.

(* ---------------- grouping of edges by incident node ---------------- *)
(* data[i].append(x) on a defaultdict(list) over node indices *)
Fixpoint app_row {A} (i : nat) (x : A) (rows : list (list A)) : list (list A) :=
  match rows, i with
  | [], _ => []
  | r :: t, 0 => (r ++ [x]) :: t
  | r :: t, S k => r :: app_row k x t
  end.

Definition app_row_opt {A} (i : option nat) (x : A) (rows : list (list A)) : list (list A) :=
  match i with Some j => app_row j x rows | None => rows end.

(* CsrIndexedGraphFactory._find_adjacent_edges / _partition_edges, with the last-subject cache *)
Definition adj_state : Type := (list (list edge) * option key * option nat)%type.
Definition adj_step (nodes : list key) (st : adj_state) (e : edge) : adj_state :=
  let '(rows, last_sub, last_idx) := st in
  let sub := fst e in
  let hit := match last_sub with Some s => key_eqb sub s | None => false end in
  let sub_idx := if hit then last_idx else idx_of nodes sub in
  let obj_idx := idx_of nodes (snd e) in
  (app_row_opt obj_idx e (app_row_opt sub_idx e rows), Some sub, sub_idx).

Definition find_adjacent (nodes : list key) (es : list edge) : list (list edge) :=
  let '(rows, _, _) := fold_left (adj_step nodes) es (repeat [] (length nodes), None, None) in rows.

(* ---------------- StaticCsrArray ---------------- *)
Record csrarr := mkArr { a_indptr : list nat; a_data : list nat }.

Fixpoint indptr_from (acc : nat) (rows : list (list nat)) : list nat :=
  match rows with
  | [] => [acc]
  | r :: t => acc :: indptr_from (acc + length r) t
  end.

Definition arr_of_rows (rows : list (list nat)) : csrarr := mkArr (indptr_from 0 rows) (concat rows).

(* StaticCsrArray.outgoing_nodes: rows outside 0 .. len(indptr)-2 raise ValueError *)
Definition outgoing (a : csrarr) (row : Z) : res (list nat) :=
  if ((row <? 0) || (Z.of_nat (length (a_indptr a)) - 1 <=? row))%Z then Err ValueError
  else let r := Z.to_nat row in
       Ok (slice (a_data a) (nth r (a_indptr a) 0) (nth (S r) (a_indptr a) 0)).

(* ---------------- CsrIndexedGraphFactory ---------------- *)
(* the inner loop of _build_csr_data for one row: (parents, children) index lists *)
Definition row_step (nodes : list key) (source : key) (acc : list nat * list nat) (e : edge)
  : list nat * list nat :=
  let '(ps, cs) := acc in
  let is_child := key_eqb source (snd e) in
  let target := if is_child then fst e else snd e in
  match idx_of nodes target with
  | Some i => if is_child then (ps, cs ++ [i]) else (ps ++ [i], cs)
  | None => (ps, cs)
  end.

Definition row_targets (nodes : list key) (source : key) (adj : list edge) : list nat * list nat :=
  fold_left (row_step nodes source) adj ([], []).

Record igraph := mkIGraph { ig_nodes : list key; ig_root : nat; ig_par : csrarr; ig_chi : csrarr }.

(* _find_root_idx: linear search *)
Fixpoint kpos (x : key) (l : list key) : option nat :=
  match l with
  | [] => None
  | y :: r => if key_eqb x y then Some 0 else option_map S (kpos x r)
  end.

Definition idx_factory (edge_list : list edge) : res igraph :=
  bind (find_root (dedup_edges edge_list)) (fun '(root, es) =>
    let nodes := nodes_of es in
    match kpos root nodes with
    | None => Err ValueError
    | Some ri =>
        let adj := find_adjacent nodes es in
        let rows := map (fun '(src, a) => row_targets nodes src a) (combine nodes adj) in
        Ok (mkIGraph nodes ri (arr_of_rows (map fst rows)) (arr_of_rows (map snd rows)))
    end).

(* ---------------- IncrementalCsrGraphFactory / CsrGraphFactory ---------------- *)
Definition CHILD_CODE : Z := 1.      (* row is the child of col:   row is_a col *)
Definition PARENT_CODE : Z := (-1).  (* row is the parent of col:  col is_a row *)

(* _preprocess_edges *)
Fixpoint preprocess (source : key) (es : list edge) : res (list (key * Z)) :=
  match es with
  | [] => Ok []
  | (sub, obj) :: t =>
      if negb (key_eqb source sub) && key_eqb source obj then
        bind (preprocess source t) (fun r => Ok ((sub, PARENT_CODE) :: r))
      else if negb (key_eqb source obj) && key_eqb source sub then
        bind (preprocess source t) (fun r => Ok ((obj, CHILD_CODE) :: r))
      else Err ValueError
  end.

(* sorted(..., key=lambda e: e[0]) - stable insertion sort by TermId *)
Fixpoint tins (x : key * Z) (l : list (key * Z)) : list (key * Z) :=
  match l with
  | [] => [x]
  | y :: r => if key_ltb (fst x) (fst y) then x :: l else y :: tins x r
  end.
Definition tsort (l : list (key * Z)) : list (key * Z) := fold_right tins [] l.

Definition row_entries (nodes : list key) (l : list (key * Z)) : list (nat * Z) :=
  flat_map (fun '(t, code) => match idx_of nodes t with Some i => [(i, code)] | None => [] end) l.

(* make_row_col_data *)
Definition make_rows (nodes : list key) (es : list edge) : res (list (list (nat * Z))) :=
  rsequence (map (fun '(node, rel) => rmap (fun l => row_entries nodes (tsort l)) (preprocess node rel))
                 (combine nodes (find_adjacent nodes es))).

Definition csr_of_rows (rows : list (list (nat * Z))) (n : nat) : csr Z :=
  mkCsr (indptr_from 0 (map (map fst) rows)) (concat (map (map fst) rows)) (concat (map (map snd) rows)) n n.

Record mgraph := mkMGraph { mg_nodes : list key; mg_root : key; mg_adj : csr Z }.

Definition inc_factory (edge_list : list edge) : res mgraph :=
  bind (find_root (dedup_edges edge_list)) (fun '(root, es) =>
    let nodes := nodes_of es in
    bind (make_rows nodes es) (fun rows => Ok (mkMGraph nodes root (csr_of_rows rows (length nodes))))).

(* CsrGraphFactory._build_adjacency_matrix: two builder assignments per edge *)
Definition bld_ops (nodes : list key) (es : list edge) : list (assign Z) :=
  flat_map (fun e => match kpos (fst e) nodes, kpos (snd e) nodes with
                     | Some s, Some d => [(Z.of_nat s, Z.of_nat d, CHILD_CODE); (Z.of_nat d, Z.of_nat s, PARENT_CODE)]
                     | _, _ => []
                     end) es.

Definition bld_factory (edge_list : list edge) : res mgraph :=
  bind (find_root (dedup_edges edge_list)) (fun '(root, es) =>
    let nodes := nodes_of es in
    Ok (mkMGraph nodes root (run (length nodes) (length nodes) (bld_ops nodes es)))).

(* ---------------- argument normalisation (OntologyGraph._map_to_term_id) ---------------- *)
Inductive arg :=
| AStr (s : string)      (* a CURIE str *)
| ATid (k : key)         (* a TermId *)
| AIdent (k : key)       (* an Identified object carrying the TermId *)
| AOther.                (* anything else *)

Definition map_to_term_id (a : arg) : res key :=
  match a with
  | AStr s => rmap tkey (from_curie s)
  | ATid k | AIdent k => Ok k
  | AOther => Err ValueError
  end.

(* ---------------- CsrIndexedOntologyGraph + IndexedOntologyGraph ---------------- *)
Section Indexed.
Variable g : igraph.
Let n := length (ig_nodes g).

Definition ig_node_to_idx (k : key) : option nat := kpos k (ig_nodes g).      (* dict lookup *)
Definition ig_idx_to_node (i : Z) : res key :=
  if in_range i n then Ok (nth (Z.to_nat i) (ig_nodes g) key0) else Err ValueError.
Definition ig_children_idx (i : Z) : res (list nat) := outgoing (ig_chi g) i.
Definition ig_parents_idx (i : Z) : res (list nat) := outgoing (ig_par g) i.

Definition succ_of (a : csrarr) (i : nat) : list nat :=
  match outgoing a (Z.of_nat i) with Ok l => l | Err _ => [] end.

(* _traverse_graph: stack *)
Definition ig_traverse (a : csrarr) (src : Z) : res (list nat) :=
  bind (outgoing a src) (fun init =>
    match traverse_from n (succ_of a) pop_last init with
    | Some l => Ok l
    | None => Err OtherError      (* out of fuel: proved unreachable *)
    end).
Definition ig_descendant_idx (i : Z) : res (list nat) := ig_traverse (ig_chi g) i.
Definition ig_ancestor_idx (i : Z) : res (list nat) := ig_traverse (ig_par g) i.

Definition ig_map_to_term_idx (a : arg) : res (option nat) := rmap ig_node_to_idx (map_to_term_id a).

(* _map_with_seq_func / _map_with_iter_func *)
Definition ig_map_with (a : arg) (incl : bool) (f : Z -> res (list nat)) : res (list key) :=
  bind (ig_map_to_term_idx a) (fun oi =>
    match oi with
    | None => Err ValueError
    | Some i =>
        bind (f (Z.of_nat i)) (fun l =>
        bind (rsequence (map (fun j => ig_idx_to_node (Z.of_nat j)) l)) (fun ks =>
        if incl then bind (ig_idx_to_node (Z.of_nat i)) (fun k => Ok (k :: ks)) else Ok ks))
    end).

Definition ig_children a incl := ig_map_with a incl ig_children_idx.
Definition ig_parents a incl := ig_map_with a incl ig_parents_idx.
Definition ig_descendants a incl := ig_map_with a incl ig_descendant_idx.
Definition ig_ancestors a incl := ig_map_with a incl ig_ancestor_idx.

Definition ig_is_leaf (a : arg) : res bool :=
  bind (ig_map_to_term_idx a) (fun oi =>
    match oi with
    | None => Err ValueError
    | Some i => rmap (fun l => match l with [] => true | _ => false end) (ig_children_idx (Z.of_nat i))
    end).

Definition zmem (x : Z) (l : list nat) : bool := existsb (fun j => Z.eqb x (Z.of_nat j)) l.

Definition ig_is_parent_of_idx (sub obj : Z) : res bool := rmap (zmem sub) (ig_parents_idx obj).
Definition ig_is_ancestor_of_idx (sub obj : Z) : res bool := rmap (zmem sub) (ig_ancestor_idx obj).
Definition ig_is_child_of_idx (sub obj : Z) : res bool := rmap (zmem obj) (ig_parents_idx sub).
Definition ig_is_descendant_of_idx (sub obj : Z) : res bool := rmap (zmem obj) (ig_ancestor_idx sub).

(* the node-level predicates: obj is resolved first (unknown -> ValueError), then sub (unknown -> False);
   `walk` says whose row is read and which index is searched for *)
Definition ig_pred (walk : nat -> nat -> res bool) (sub obj : arg) : res bool :=
  bind (ig_map_to_term_idx obj) (fun oo =>
    match oo with
    | None => Err ValueError
    | Some oi =>
        bind (ig_map_to_term_idx sub) (fun os =>
          match os with
          | None => Ok false
          | Some si => walk si oi
          end)
    end).

Definition ig_is_parent_of := ig_pred (fun si oi => ig_is_parent_of_idx (Z.of_nat si) (Z.of_nat oi)).
Definition ig_is_ancestor_of := ig_pred (fun si oi => ig_is_ancestor_of_idx (Z.of_nat si) (Z.of_nat oi)).
Definition ig_is_child_of := ig_pred (fun si oi => ig_is_child_of_idx (Z.of_nat si) (Z.of_nat oi)).
Definition ig_is_descendant_of := ig_pred (fun si oi => ig_is_descendant_of_idx (Z.of_nat si) (Z.of_nat oi)).

Definition ig_contains (k : key) : bool := match ig_node_to_idx k with Some _ => true | None => false end.
Definition ig_iter : list key := ig_nodes g.
Definition ig_root_node : res key := ig_idx_to_node (Z.of_nat (ig_root g)).
End Indexed.

(* ---------------- BisectPoweredCsrOntologyGraph ---------------- *)
Section MatrixGraph.
Variable g : mgraph.
Let n := length (mg_nodes g).

Definition mg_idx_for_node (k : key) : option nat := idx_of (mg_nodes g) k.      (* bisect *)
Definition mg_node_for_idx (i : nat) : key := nth i (mg_nodes g) key0.

(* _get_cols_with_relationship *)
Definition mg_cols (code : Z) (i : nat) : list nat :=
  match col_indices_of_val Z.eqb 0%Z (mg_adj g) (Z.of_nat i) code with Ok l => l | Err _ => [] end.

(* _get_node_indices_with_relationship, source already a TermId *)
Definition mg_rel_k (k : key) (code : Z) (incl : bool) : res (list nat) :=
  match mg_idx_for_node k with
  | None => Err ValueError
  | Some i => Ok ((if incl then [i] else []) ++ mg_cols code i)
  end.

(* _traverse_graph: deque *)
Definition mg_traverse_k (k : key) (code : Z) (incl : bool) : res (list nat) :=
  bind (mg_rel_k k code incl) (fun init =>
    match traverse_from n (mg_cols code) pop_first init with
    | Some l => Ok l
    | None => Err OtherError      (* out of fuel: proved unreachable *)
    end).

Definition mg_children_k k incl := rmap (map mg_node_for_idx) (mg_rel_k k PARENT_CODE incl).
Definition mg_parents_k k incl := rmap (map mg_node_for_idx) (mg_rel_k k CHILD_CODE incl).
Definition mg_descendants_k k incl := rmap (map mg_node_for_idx) (mg_traverse_k k PARENT_CODE incl).
Definition mg_ancestors_k k incl := rmap (map mg_node_for_idx) (mg_traverse_k k CHILD_CODE incl).

Definition mg_children a incl := bind (map_to_term_id a) (fun k => mg_children_k k incl).
Definition mg_parents a incl := bind (map_to_term_id a) (fun k => mg_parents_k k incl).
Definition mg_descendants a incl := bind (map_to_term_id a) (fun k => mg_descendants_k k incl).
Definition mg_ancestors a incl := bind (map_to_term_id a) (fun k => mg_ancestors_k k incl).

Definition mg_is_leaf (a : arg) : res bool :=
  bind (map_to_term_id a) (fun k =>
    rmap (fun l => match l with [] => true | _ => false end) (mg_rel_k k PARENT_CODE false)).

(* OntologyGraph._run_query: sub is normalised first, then obj; any(sub == t for t in func(obj)) *)
Definition mg_run_query (f : key -> bool -> res (list key)) (sub obj : arg) : res bool :=
  bind (map_to_term_id sub) (fun ks =>
  bind (map_to_term_id obj) (fun ko =>
  rmap (kmem ks) (f ko false))).

Definition mg_is_parent_of := mg_run_query mg_parents_k.
Definition mg_is_ancestor_of := mg_run_query mg_ancestors_k.
Definition mg_is_child_of := mg_run_query mg_children_k.
Definition mg_is_descendant_of := mg_run_query mg_descendants_k.

Definition mg_contains (k : key) : bool := match mg_idx_for_node k with Some _ => true | None => false end.
Definition mg_iter : list key := mg_nodes g.
End MatrixGraph.

(* ---------------- a uniform handle on "a graph built by factory F" ---------------- *)
Inductive factory := FIdx | FInc | FBld.
Inductive graph := GI (g : igraph) | GM (g : mgraph).

Definition create (f : factory) (es : list edge) : res graph :=
  match f with
  | FIdx => rmap GI (idx_factory es)
  | FInc => rmap GM (inc_factory es)
  | FBld => rmap GM (bld_factory es)
  end.

Inductive query := QParents | QChildren | QAncestors | QDescendants.

Definition g_query (g : graph) (q : query) (a : arg) (incl : bool) : res (list key) :=
  match g, q with
  | GI g, QParents => ig_parents g a incl
  | GI g, QChildren => ig_children g a incl
  | GI g, QAncestors => ig_ancestors g a incl
  | GI g, QDescendants => ig_descendants g a incl
  | GM g, QParents => mg_parents g a incl
  | GM g, QChildren => mg_children g a incl
  | GM g, QAncestors => mg_ancestors g a incl
  | GM g, QDescendants => mg_descendants g a incl
  end.

Definition g_pred (g : graph) (q : query) (sub obj : arg) : res bool :=   (* is_<q singular>_of *)
  match g, q with
  | GI g, QParents => ig_is_parent_of g sub obj
  | GI g, QChildren => ig_is_child_of g sub obj
  | GI g, QAncestors => ig_is_ancestor_of g sub obj
  | GI g, QDescendants => ig_is_descendant_of g sub obj
  | GM g, QParents => mg_is_parent_of g sub obj
  | GM g, QChildren => mg_is_child_of g sub obj
  | GM g, QAncestors => mg_is_ancestor_of g sub obj
  | GM g, QDescendants => mg_is_descendant_of g sub obj
  end.

Definition g_is_leaf (g : graph) (a : arg) : res bool :=
  match g with GI g => ig_is_leaf g a | GM g => mg_is_leaf g a end.
Definition g_nodes (g : graph) : list key :=
  match g with GI g => ig_iter g | GM g => mg_iter g end.
Definition g_root (g : graph) : res key :=
  match g with GI g => ig_root_node g | GM g => Ok (mg_root g) end.
Definition g_contains (g : graph) (k : key) : bool :=
  match g with GI g => ig_contains g k | GM g => mg_contains g k end.
