(* The node API and the index API of the indexed graph (CsrIndexedOntologyGraph +
   IndexedOntologyGraph) answer what the rows say. *)
From Coq Require Import String List Bool Arith ZArith Lia Sorted Permutation Relations Relation_Operators Operators_Properties.
From Hpotk Require Import Base.Result Base.Str Base.Ord TermId.Model TermId.Proofs Csr.Model
  Graph.Worklist Graph.Model Graph.Spec.
Import ListNotations.
Open Scope list_scope.

(* ================= auxiliary lemmas (general) ================= *)
Lemma kpos_some_nth x l : forall i, kpos x l = Some i -> nth_error l i = Some x.
Proof.
  induction l as [|a l IH]; cbn [kpos]; intros i H; [discriminate|].
  destruct (key_eqb x a) eqn:Ex.
  - apply key_eqb_eq in Ex. subst a. injection H as <-. reflexivity.
  - destruct (kpos x l) as [k|] eqn:K; cbn [option_map] in H; [|discriminate].
    injection H as <-. cbn [nth_error]. apply IH. reflexivity.
Qed.

Lemma nth_kpos x l : NoDup l -> forall i, nth_error l i = Some x -> kpos x l = Some i.
Proof.
  induction l as [|a l IH]; intros ND i H.
  - destruct i; discriminate.
  - inversion ND as [|? ? Hn Hd]; subst. destruct i as [|i]; cbn [nth_error] in H; cbn [kpos].
    + injection H as ->. rewrite (proj2 (key_eqb_eq x x) eq_refl). reflexivity.
    + destruct (key_eqb x a) eqn:Ex.
      * apply key_eqb_eq in Ex. subst a. exfalso. apply Hn. eapply nth_error_In. exact H.
      * rewrite (IH Hd i H). reflexivity.
Qed.

Lemma kpos_none x l : kpos x l = None <-> ~ In x l.
Proof.
  induction l as [|a l IH]; cbn [kpos In].
  - split; [intros _ [] | reflexivity].
  - destruct (key_eqb x a) eqn:Ex.
    + apply key_eqb_eq in Ex. subst a. split; [discriminate|]. intro H. exfalso. apply H. left. reflexivity.
    + assert (Hne : a <> x).
      { intro H. subst a. rewrite (proj2 (key_eqb_eq x x) eq_refl) in Ex. discriminate. }
      destruct (kpos x l) as [k|]; cbn [option_map].
      * split; [discriminate|]. intro H. exfalso. destruct IH as [_ IH2].
        assert (Hni : ~ In x l) by (intro Hi; apply H; right; exact Hi).
        specialize (IH2 Hni). discriminate.
      * split; [|reflexivity]. intros _ [H|H]; [exact (Hne H)|]. destruct IH as [IH1 _]. exact (IH1 eq_refl H).
Qed.

Lemma in_range_iff i m : in_range i m = true <-> (0 <= i < Z.of_nat m)%Z.
Proof. unfold in_range. rewrite andb_true_iff, Z.leb_le, Z.ltb_lt. reflexivity. Qed.

Lemma outgoing_ok a m i : length (a_indptr a) = S m -> i < m -> outgoing a (Z.of_nat i) = Ok (succ_of a i).
Proof.
  intros HL Hi. unfold succ_of, outgoing. rewrite HL.
  destruct ((Z.of_nat i <? 0)%Z || (Z.of_nat (S m) - 1 <=? Z.of_nat i)%Z) eqn:C; [|reflexivity].
  exfalso. apply orb_true_iff in C. destruct C as [C|C]; [apply Z.ltb_lt in C | apply Z.leb_le in C]; lia.
Qed.

Lemma outgoing_err a m z : length (a_indptr a) = S m -> ~ (0 <= z < Z.of_nat m)%Z -> outgoing a z = Err ValueError.
Proof.
  intros HL Hz. unfold outgoing. rewrite HL.
  destruct ((z <? 0)%Z || (Z.of_nat (S m) - 1 <=? z)%Z) eqn:C; [reflexivity|].
  exfalso. apply orb_false_iff in C. destruct C as [C1 C2].
  apply Z.ltb_ge in C1. apply Z.leb_gt in C2. lia.
Qed.

Lemma succ_of_out a m i : length (a_indptr a) = S m -> ~ i < m -> succ_of a i = [].
Proof.
  intros HL Hi. unfold succ_of. rewrite (outgoing_err a m); [reflexivity | exact HL | lia].
Qed.

Lemma clos_trans_flip {A} (R : relation A) x y :
  clos_trans A (fun a b => R b a) x y -> clos_trans A R y x.
Proof.
  induction 1 as [x y H | x y z _ IH1 _ IH2].
  - apply t_step. exact H.
  - eapply t_trans; eassumption.
Qed.

Lemma rsequence_map_ok {A B} (f : A -> res B) (h : A -> B) (l : list A) :
  (forall a, In a l -> f a = Ok (h a)) -> rsequence (map f l) = Ok (map h l).
Proof.
  induction l as [|a l IH]; intro H; cbn [map rsequence]; [reflexivity|].
  rewrite (H a (or_introl eq_refl)). cbn [bind]. rewrite IH; [reflexivity|].
  intros b Hb. apply H. right. exact Hb.
Qed.

Lemma zmem_iff s l : zmem s l = true <-> exists j, In j l /\ s = Z.of_nat j.
Proof.
  unfold zmem. rewrite existsb_exists. split; intros (j & Hj & H); exists j; (split; [exact Hj|]).
  - apply Z.eqb_eq. exact H.
  - apply Z.eqb_eq. exact H.
Qed.

(* ---------- reachability over indices vs. transitive closure over keys ---------- *)
Section ReachKeys.
Variable nodes : list key.
Variable R : key -> key -> Prop.
Variable succ : nat -> list nat.
Hypothesis Rin : forall x y, R x y -> In x nodes /\ In y nodes.
Hypothesis Hsucc : forall i, i < length nodes ->
  forall j, In j (succ i) <-> (j < length nodes /\ R (nth i nodes key0) (nth j nodes key0)).

Lemma ct_in x y : clos_trans key R x y -> In x nodes /\ In y nodes.
Proof.
  induction 1 as [x y H | x y z _ IH1 _ IH2]; [apply Rin; exact H|].
  split; [apply IH1 | apply IH2].
Qed.

Lemma reach_ct i j : i < length nodes -> reach succ i j ->
  j < length nodes /\ clos_trans key R (nth i nodes key0) (nth j nodes key0).
Proof.
  intros Hi H. revert Hi. unfold reach in H.
  induction H as [i j Hs | i k j Hs _ IH]; intro Hi.
  - apply (Hsucc i Hi) in Hs. destruct Hs as [Hj HR]. split; [exact Hj | apply t_step; exact HR].
  - apply (Hsucc i Hi) in Hs. destruct Hs as [Hk HR]. destruct (IH Hk) as [Hj HC].
    split; [exact Hj|]. eapply t_trans; [apply t_step; exact HR | exact HC].
Qed.

Lemma ct_reach x y : clos_trans key R x y ->
  forall i j, i < length nodes -> j < length nodes -> nth i nodes key0 = x -> nth j nodes key0 = y ->
  reach succ i j.
Proof.
  induction 1 as [x y H | x y z H1 IH1 H2 IH2]; intros i j Hi Hj Ei Ej.
  - apply t1n_step. apply (Hsucc i Hi). split; [exact Hj|]. rewrite Ei, Ej. exact H.
  - destruct (ct_in _ _ H1) as [_ Hy]. destruct (In_nth _ _ key0 Hy) as (k & Hk & Ek).
    apply clos_trans_t1n. eapply t_trans; apply clos_t1n_trans.
    + exact (IH1 i k Hi Hk Ei Ek).
    + exact (IH2 k j Hk Hj Ek Ej).
Qed.

Lemma reach_iff i j : i < length nodes ->
  reach succ i j <-> (j < length nodes /\ clos_trans key R (nth i nodes key0) (nth j nodes key0)).
Proof.
  intro Hi. split; [apply reach_ct; exact Hi|]. intros [Hj HC].
  eapply ct_reach; [exact HC | exact Hi | exact Hj | reflexivity | reflexivity].
Qed.
End ReachKeys.

Section ApiI.
Variable E : list edge.
Variable root : key.
Variable g : igraph.
Hypothesis HG : IGraphOK E root g.
Hypothesis HA : acyclic E.
Let n := length (ig_nodes g).
Let node (i : nat) : key := nth i (ig_nodes g) key0.

Definition idxq (q : query) (i : Z) : res (list nat) :=
  match q with
  | QParents => ig_parents_idx g i
  | QChildren => ig_children_idx g i
  | QAncestors => ig_ancestor_idx g i
  | QDescendants => ig_descendant_idx g i
  end.


(* ---------- basic facts ---------- *)
Lemma HR : RowsOK E (ig_nodes g) (succ_of (ig_par g)) (succ_of (ig_chi g)).
Proof. exact (io_rows _ _ _ HG). Qed.

Lemma nodes_nodup : NoDup (ig_nodes g).
Proof. apply key_sorted_nodup. exact (ro_sorted _ _ _ _ HR). Qed.

Lemma nodes_mentions x : In x (ig_nodes g) <-> mentions E x.
Proof. exact (ro_nodes _ _ _ _ HR x). Qed.

Lemma node_nth_error i : i < n -> nth_error (ig_nodes g) i = Some (node i).
Proof. intro H. unfold node. apply nth_error_nth'. exact H. Qed.

Lemma node_inj i j : i < n -> j < n -> node i = node j -> i = j.
Proof. exact (proj1 (NoDup_nth (ig_nodes g) key0) nodes_nodup i j). Qed.

Lemma mentions_node x : mentions E x -> exists i, i < n /\ node i = x.
Proof. intro H. apply nodes_mentions in H. apply In_nth. exact H. Qed.

Lemma node_mentions i : i < n -> mentions E (node i).
Proof. intro H. apply nodes_mentions. unfold node. apply nth_In. exact H. Qed.

Lemma kpos_lt x i : ig_node_to_idx g x = Some i -> i < n /\ node i = x.
Proof.
  intro H. apply kpos_some_nth in H. split.
  - apply nth_error_Some. rewrite H. discriminate.
  - unfold node. apply nth_error_nth. exact H.
Qed.

Lemma idx_to_node_ok i : i < n -> ig_idx_to_node g (Z.of_nat i) = Ok (node i).
Proof.
  intro H. unfold ig_idx_to_node.
  assert (Hr : in_range (Z.of_nat i) (length (ig_nodes g)) = true) by (apply in_range_iff; unfold n in H; lia).
  rewrite Hr, Nat2Z.id. reflexivity.
Qed.

(* ---------- node <-> index bijection ---------- *)
Theorem ig_node_to_idx_spec x i : ig_node_to_idx g x = Some i <-> nth_error (ig_nodes g) i = Some x.
Proof.
  split; [apply kpos_some_nth | apply nth_kpos; exact nodes_nodup].
Qed.

Theorem ig_node_to_idx_none x : ig_node_to_idx g x = None <-> ~ mentions E x.
Proof.
  unfold ig_node_to_idx. rewrite kpos_none, nodes_mentions. reflexivity.
Qed.

Theorem ig_idx_to_node_spec (i : Z) :
  ((0 <= i < Z.of_nat n)%Z -> ig_idx_to_node g i = Ok (node (Z.to_nat i)) /\ mentions E (node (Z.to_nat i))
                              /\ ig_node_to_idx g (node (Z.to_nat i)) = Some (Z.to_nat i)) /\
  (~ (0 <= i < Z.of_nat n)%Z -> ig_idx_to_node g i = Err ValueError).
Proof.
  split; intro H.
  - assert (Hi : Z.to_nat i < n) by lia.
    split; [|split].
    + rewrite <- (idx_to_node_ok _ Hi). rewrite Z2Nat.id by lia. reflexivity.
    + apply node_mentions. exact Hi.
    + apply ig_node_to_idx_spec. apply node_nth_error. exact Hi.
  - unfold ig_idx_to_node. destruct (in_range i (length (ig_nodes g))) eqn:C; [|reflexivity].
    apply in_range_iff in C. exfalso. apply H. exact C.
Qed.

Theorem ig_root_spec : ig_root_node g = Ok root /\ ig_node_to_idx g root = Some (ig_root g).
Proof.
  pose proof (io_root _ _ _ HG) as Hr.
  assert (Hlt : ig_root g < n) by (apply nth_error_Some; rewrite Hr; discriminate).
  split.
  - unfold ig_root_node. rewrite (idx_to_node_ok _ Hlt). f_equal. unfold node. apply nth_error_nth. exact Hr.
  - apply ig_node_to_idx_spec. exact Hr.
Qed.

Theorem ig_nodes_spec : NoDup (ig_iter g) /\ forall x, In x (ig_iter g) <-> mentions E x.
Proof.
  split; [exact nodes_nodup | exact nodes_mentions].
Qed.

Theorem ig_contains_spec x : ig_contains g x = true <-> mentions E x.
Proof.
  unfold ig_contains. destruct (ig_node_to_idx g x) as [i|] eqn:K.
  - split; [intros _|reflexivity]. apply kpos_lt in K. destruct K as [Hi <-]. apply node_mentions. exact Hi.
  - split; [discriminate|]. intro H. apply ig_node_to_idx_none in K. contradiction.
Qed.


(* ---------- rows and traversals ---------- *)
Lemma edge_mentions x y : In (x, y) E -> mentions E x /\ mentions E y.
Proof. intro H. split; [exists y; left; exact H | exists x; right; exact H]. Qed.

Lemma traverse_spec a (R : key -> key -> Prop) i :
  length (a_indptr a) = S n ->
  (forall x y, R x y -> mentions E x /\ mentions E y) ->
  (forall k, k < n -> NoDup (succ_of a k) /\
     forall j, In j (succ_of a k) <-> (j < n /\ R (node k) (node j))) ->
  i < n ->
  exists l, ig_traverse g a (Z.of_nat i) = Ok l /\ NoDup l /\
    forall j, In j l <-> (j < n /\ clos_trans key R (node i) (node j)).
Proof.
  intros HL HRm Hrow Hi.
  assert (Hb : forall k j, In j (succ_of a k) -> j < n).
  { intros k j H. destruct (lt_dec k n) as [Hk|Hk].
    - apply (proj2 (Hrow k Hk)) in H. tauto.
    - rewrite (succ_of_out a n k HL Hk) in H. destruct H. }
  unfold ig_traverse. rewrite (outgoing_ok a n i HL Hi). cbn [bind].
  destruct (traverse_from_correct n (succ_of a) Hb pop_last pop_last_perm pop_last_some (succ_of a i)
              (proj1 (Hrow i Hi)) (Hb i)) as (l & H1 & H2 & H3).
  fold n. rewrite H1. exists l. split; [reflexivity|]. split; [exact H2|].
  intro j. rewrite H3, from_succ.
  apply (reach_iff (ig_nodes g) R (succ_of a)).
  - intros x y Hxy. destruct (HRm x y Hxy) as [Hx Hy]. split; apply nodes_mentions; assumption.
  - intros k Hk. exact (proj2 (Hrow k Hk)).
  - exact Hi.
Qed.

Lemma traverse_err a z : length (a_indptr a) = S n -> ~ (0 <= z < Z.of_nat n)%Z ->
  ig_traverse g a z = Err ValueError.
Proof.
  intros HL Hz. unfold ig_traverse. rewrite (outgoing_err a n z HL Hz). reflexivity.
Qed.

(* ---------- index API ---------- *)
(* in range: each index once, exactly the related nodes; out of range (negative included): ValueError *)
Theorem idxq_spec q (i : Z) :
  ((0 <= i < Z.of_nat n)%Z ->
     exists l, idxq q i = Ok l /\ NoDup l /\
       forall j, In j l <-> (j < n /\ relE E q (node (Z.to_nat i)) (node j))) /\
  (~ (0 <= i < Z.of_nat n)%Z -> idxq q i = Err ValueError).
Proof.
  pose proof (io_plen _ _ _ HG) as HPL. pose proof (io_clen _ _ _ HG) as HCL. fold n in HPL, HCL.
  split; intro H.
  - assert (Hi : Z.to_nat i < n) by lia.
    assert (Ei : i = Z.of_nat (Z.to_nat i)) by (rewrite Z2Nat.id; lia).
    set (i0 := Z.to_nat i) in *. rewrite Ei. clearbody i0. clear Ei H.
    destruct q; cbn [idxq relE].
    + unfold ig_parents_idx. rewrite (outgoing_ok _ n i0 HPL Hi).
      exists (succ_of (ig_par g) i0). split; [reflexivity|]. exact (ro_par _ _ _ _ HR i0 Hi).
    + unfold ig_children_idx. rewrite (outgoing_ok _ n i0 HCL Hi).
      exists (succ_of (ig_chi g) i0). split; [reflexivity|]. exact (ro_chi _ _ _ _ HR i0 Hi).
    + unfold ig_ancestor_idx.
      apply (traverse_spec (ig_par g) (fun a b => In (a, b) E) i0 HPL).
      * intros x y. apply edge_mentions.
      * intros k Hk. exact (ro_par _ _ _ _ HR k Hk).
      * exact Hi.
    + unfold ig_descendant_idx.
      destruct (traverse_spec (ig_chi g) (fun a b => In (b, a) E) i0 HCL) as (l & H1 & H2 & H3).
      * intros x y Hxy. apply edge_mentions in Hxy. tauto.
      * intros k Hk. exact (ro_chi _ _ _ _ HR k Hk).
      * exact Hi.
      * exists l. split; [exact H1|]. split; [exact H2|]. intro j. rewrite H3.
        split; intros [Hj HC]; (split; [exact Hj|]).
        -- apply clos_trans_flip in HC. exact HC.
        -- apply (clos_trans_flip (fun a b => In (b, a) E)). exact HC.
  - destruct q; cbn [idxq].
    + unfold ig_parents_idx. exact (outgoing_err _ n i HPL H).
    + unfold ig_children_idx. exact (outgoing_err _ n i HCL H).
    + unfold ig_ancestor_idx. exact (traverse_err _ i HPL H).
    + unfold ig_descendant_idx. exact (traverse_err _ i HCL H).
Qed.

(* is_*_of_idx: the index whose row is read (obj for parent/ancestor, sub for child/descendant) must be
   in range, otherwise ValueError; the other index never yields True unless it denotes a related node *)
Lemma zmem_q q (r t : Z) :
  ((0 <= r < Z.of_nat n)%Z ->
     exists b, rmap (zmem t) (idxq q r) = Ok b /\
       (b = true <-> ((0 <= t < Z.of_nat n)%Z /\ relE E q (node (Z.to_nat r)) (node (Z.to_nat t))))) /\
  (~ (0 <= r < Z.of_nat n)%Z -> rmap (zmem t) (idxq q r) = Err ValueError).
Proof.
  destruct (idxq_spec q r) as [H1 H2]. split; intro H.
  - destruct (H1 H) as (l & Hl & _ & Hin). rewrite Hl. cbn [rmap]. exists (zmem t l). split; [reflexivity|].
    rewrite zmem_iff. split.
    + intros (j & Hj & ->). apply Hin in Hj. destruct Hj as [Hj HRel]. rewrite Nat2Z.id.
      split; [lia | exact HRel].
    + intros [Ht HRel]. exists (Z.to_nat t). split; [apply Hin; split; [lia | exact HRel] | rewrite Z2Nat.id; lia].
  - rewrite (H2 H). reflexivity.
Qed.

Theorem idx_pred_spec (s o : Z) :
  ((0 <= o < Z.of_nat n)%Z ->
     (exists b, ig_is_parent_of_idx g s o = Ok b /\
        (b = true <-> ((0 <= s < Z.of_nat n)%Z /\ relE E QParents (node (Z.to_nat o)) (node (Z.to_nat s))))) /\
     (exists b, ig_is_ancestor_of_idx g s o = Ok b /\
        (b = true <-> ((0 <= s < Z.of_nat n)%Z /\ relE E QAncestors (node (Z.to_nat o)) (node (Z.to_nat s)))))) /\
  (~ (0 <= o < Z.of_nat n)%Z ->
     ig_is_parent_of_idx g s o = Err ValueError /\ ig_is_ancestor_of_idx g s o = Err ValueError) /\
  ((0 <= s < Z.of_nat n)%Z ->
     (exists b, ig_is_child_of_idx g s o = Ok b /\
        (b = true <-> ((0 <= o < Z.of_nat n)%Z /\ relE E QParents (node (Z.to_nat s)) (node (Z.to_nat o))))) /\
     (exists b, ig_is_descendant_of_idx g s o = Ok b /\
        (b = true <-> ((0 <= o < Z.of_nat n)%Z /\ relE E QAncestors (node (Z.to_nat s)) (node (Z.to_nat o)))))) /\
  (~ (0 <= s < Z.of_nat n)%Z ->
     ig_is_child_of_idx g s o = Err ValueError /\ ig_is_descendant_of_idx g s o = Err ValueError).
Proof.
  split; [|split; [|split]]; intro H.
  - split; [exact (proj1 (zmem_q QParents o s) H) | exact (proj1 (zmem_q QAncestors o s) H)].
  - split; [exact (proj2 (zmem_q QParents o s) H) | exact (proj2 (zmem_q QAncestors o s) H)].
  - split; [exact (proj1 (zmem_q QParents s o) H) | exact (proj1 (zmem_q QAncestors s o) H)].
  - split; [exact (proj2 (zmem_q QParents s o) H) | exact (proj2 (zmem_q QAncestors s o) H)].
Qed.

(* ---------- node API ---------- *)
(* the node API is the index API mapped through idx_to_node *)
Lemma g_query_unfold q a incl : g_query (GI g) q a incl = ig_map_with g a incl (idxq q).
Proof. destruct q; reflexivity. Qed.

Lemma g_query_known q a x i incl : map_to_term_id a = Ok x -> ig_node_to_idx g x = Some i ->
  g_query (GI g) q a incl =
  rmap (fun l => (if incl then [x] else []) ++ map node l) (idxq q (Z.of_nat i)).
Proof.
  intros Ha Hk. destruct (kpos_lt _ _ Hk) as [Hi Hx].
  rewrite g_query_unfold. unfold ig_map_with, ig_map_to_term_idx. rewrite Ha. cbn [rmap bind]. rewrite Hk.
  destruct (proj1 (idxq_spec q (Z.of_nat i))) as (l & Hl & _ & Hin); [lia|].
  rewrite Hl. cbn [bind rmap].
  rewrite (rsequence_map_ok _ node l).
  2:{ intros j Hj. apply idx_to_node_ok. apply Hin in Hj. tauto. }
  cbn [bind]. destruct incl; [|reflexivity].
  rewrite (idx_to_node_ok i Hi). cbn [bind]. rewrite Hx. reflexivity.
Qed.

Theorem ig_query_mirror q x i incl : ig_node_to_idx g x = Some i ->
  g_query (GI g) q (ATid x) incl =
  rmap (fun l => (if incl then [x] else []) ++ map node l) (idxq q (Z.of_nat i)).
Proof.
  intro H. apply g_query_known; [reflexivity | exact H].
Qed.

Lemma denotes_ok a x : denotes a x -> map_to_term_id a = Ok x.
Proof.
  intro H. inversion H as [s t Hc | k | k]; subst; cbn [map_to_term_id]; [|reflexivity|reflexivity].
  rewrite Hc. reflexivity.
Qed.

Lemma malformed_err a : malformed a -> map_to_term_id a = Err ValueError.
Proof.
  intros [->|(s & -> & H)]; cbn [map_to_term_id]; [reflexivity|]. rewrite H. reflexivity.
Qed.

Lemma arg_cases a : malformed a \/ exists k, map_to_term_id a = Ok k.
Proof.
  destruct a as [s|k|k|].
  - destruct (from_curie_err s) as [H|(t & H)].
    + left. right. exists s. split; [reflexivity | exact H].
    + right. exists (tkey t). cbn [map_to_term_id]. rewrite H. reflexivity.
  - right. exists k. reflexivity.
  - right. exists k. reflexivity.
  - left. left. reflexivity.
Qed.

Lemma relE_mentions q x y : relE E q x y -> mentions E x /\ mentions E y.
Proof.
  assert (HC : forall u v, clos_trans key (fun a b => In (a, b) E) u v -> mentions E u /\ mentions E v).
  { intros u v H. apply (ct_in (ig_nodes g)) in H.
    - destruct H as [Hu Hv]. split; apply nodes_mentions; assumption.
    - intros a b Hab. apply edge_mentions in Hab. destruct Hab as [Ha Hb].
      split; apply nodes_mentions; assumption. }
  destruct q; cbn [relE]; intro H.
  - apply edge_mentions. exact H.
  - apply edge_mentions in H. tauto.
  - apply HC. exact H.
  - apply HC in H. tauto.
Qed.

Lemma relE_irrefl q x : ~ relE E q x x.
Proof.
  destruct q; cbn [relE]; intro H; apply (HA x).
  - apply t_step. exact H.
  - apply t_step. exact H.
  - exact H.
  - exact H.
Qed.

Lemma NoDup_map_node l : NoDup l -> (forall j, In j l -> j < n) -> NoDup (map node l).
Proof.
  induction l as [|a l IH]; intros Hnd Hb; cbn [map]; [constructor|].
  inversion Hnd as [|? ? Hn Hd]; subst. constructor.
  - intro Hi. apply in_map_iff in Hi. destruct Hi as (j & Ej & Hj).
    assert (j = a).
    { apply node_inj; [apply Hb; right; exact Hj | apply Hb; left; reflexivity | exact Ej]. }
    subst j. exact (Hn Hj).
  - apply IH; [exact Hd|]. intros j Hj. apply Hb. right. exact Hj.
Qed.

Theorem ig_query_spec q a x incl : denotes a x ->
  (mentions E x ->
     exists l, g_query (GI g) q a incl = Ok l /\ NoDup l /\
       forall y, In y l <-> (relE E q x y \/ (incl = true /\ y = x))) /\
  (~ mentions E x -> g_query (GI g) q a incl = Err ValueError).
Proof.
  intro Hd. apply denotes_ok in Hd. split; intro Hm.
  - destruct (ig_node_to_idx g x) as [i|] eqn:K; [|apply ig_node_to_idx_none in K; contradiction].
    destruct (kpos_lt x i K) as [Hi Hx].
    rewrite (g_query_known q a x i incl Hd K).
    destruct (proj1 (idxq_spec q (Z.of_nat i))) as (l & Hl & Hnd & Hin); [lia|].
    rewrite Nat2Z.id, Hx in Hin. rewrite Hl. cbn [rmap]. eexists. split; [reflexivity|].
    assert (Hmap : forall y, In y (map node l) <-> relE E q x y).
    { intro y. rewrite in_map_iff. split.
      - intros (j & <- & Hj). apply Hin in Hj. tauto.
      - intro HRel. destruct (relE_mentions _ _ _ HRel) as [_ Hy].
        destruct (mentions_node y Hy) as (j & Hj & <-). exists j. split; [reflexivity|].
        apply Hin. split; assumption. }
    assert (Hndm : NoDup (map node l)).
    { apply NoDup_map_node; [exact Hnd|]. intros j Hj. apply Hin in Hj. tauto. }
    split.
    + destruct incl; cbn [app]; [|exact Hndm]. constructor; [|exact Hndm].
      intro Hx'. apply Hmap in Hx'. exact (relE_irrefl _ _ Hx').
    + intro y. destruct incl; cbn [app In]; rewrite Hmap.
      * split; [intros [->|H]; [right; auto | left; exact H] | intros [H|[_ ->]]; [right; exact H | left; reflexivity]].
      * split; [intro H; left; exact H | intros [H|[H _]]; [exact H | discriminate]].
  - rewrite g_query_unfold. unfold ig_map_with, ig_map_to_term_idx. rewrite Hd. cbn [rmap bind].
    apply ig_node_to_idx_none in Hm. rewrite Hm. reflexivity.
Qed.

Theorem ig_query_malformed q a incl : malformed a -> g_query (GI g) q a incl = Err ValueError.
Proof.
  intro H. rewrite g_query_unfold. unfold ig_map_with, ig_map_to_term_idx.
  rewrite (malformed_err _ H). reflexivity.
Qed.

Theorem ig_leaf_spec a x : denotes a x ->
  (mentions E x -> exists b, g_is_leaf (GI g) a = Ok b /\ (b = true <-> forall y, ~ In (y, x) E)) /\
  (~ mentions E x -> g_is_leaf (GI g) a = Err ValueError).
Proof.
  intro Hd. apply denotes_ok in Hd.
  change (g_is_leaf (GI g) a) with (ig_is_leaf g a). unfold ig_is_leaf, ig_map_to_term_idx.
  rewrite Hd. cbn [rmap bind]. split; intro Hm.
  - destruct (ig_node_to_idx g x) as [i|] eqn:K; [|apply ig_node_to_idx_none in K; contradiction].
    destruct (kpos_lt x i K) as [Hi Hx].
    destruct (proj1 (idxq_spec QChildren (Z.of_nat i))) as (l & Hl & _ & Hin); [lia|].
    rewrite Nat2Z.id, Hx in Hin. cbn [idxq relE] in Hl, Hin. rewrite Hl. cbn [rmap].
    eexists. split; [reflexivity|]. destruct l as [|j l].
    + split; [|reflexivity]. intros _ y Hy.
      destruct (edge_mentions _ _ Hy) as [Hmy _]. destruct (mentions_node y Hmy) as (j & Hj & <-).
      apply (proj2 (Hin j)). split; assumption.
    + split; [discriminate|]. intro H. exfalso.
      destruct (proj1 (Hin j) (or_introl eq_refl)) as [_ He]. exact (H _ He).
  - apply ig_node_to_idx_none in Hm. rewrite Hm. reflexivity.
Qed.

Theorem ig_leaf_malformed a : malformed a -> g_is_leaf (GI g) a = Err ValueError.
Proof.
  intro H. change (g_is_leaf (GI g) a) with (ig_is_leaf g a). unfold ig_is_leaf, ig_map_to_term_idx.
  rewrite (malformed_err _ H). reflexivity.
Qed.

(* is_parent_of(sub, obj) etc.: true exactly when sub is in the corresponding traversal of obj;
   unknown obj -> ValueError; unknown sub -> False; a malformed argument -> ValueError *)
Definition walkq (q : query) (si oi : nat) : res bool :=
  match q with
  | QParents => rmap (zmem (Z.of_nat si)) (idxq QParents (Z.of_nat oi))
  | QChildren => rmap (zmem (Z.of_nat oi)) (idxq QParents (Z.of_nat si))
  | QAncestors => rmap (zmem (Z.of_nat si)) (idxq QAncestors (Z.of_nat oi))
  | QDescendants => rmap (zmem (Z.of_nat oi)) (idxq QAncestors (Z.of_nat si))
  end.

Lemma g_pred_unfold q sa oa : g_pred (GI g) q sa oa = ig_pred g (walkq q) sa oa.
Proof. destruct q; reflexivity. Qed.

Theorem ig_pred_spec q sa oa s o : denotes sa s -> denotes oa o ->
  (mentions E o -> mentions E s ->
     exists b, g_pred (GI g) q sa oa = Ok b /\ (b = true <-> relE E q o s)) /\
  (mentions E o -> ~ mentions E s -> g_pred (GI g) q sa oa = Ok false) /\
  (~ mentions E o -> g_pred (GI g) q sa oa = Err ValueError).
Proof.
  intros Hs Ho. apply denotes_ok in Hs. apply denotes_ok in Ho.
  rewrite g_pred_unfold. unfold ig_pred, ig_map_to_term_idx. rewrite Ho, Hs. cbn [rmap bind].
  split; [|split].
  - intros Hmo Hms.
    destruct (ig_node_to_idx g o) as [oi|] eqn:Ko; [|apply ig_node_to_idx_none in Ko; contradiction].
    destruct (ig_node_to_idx g s) as [si|] eqn:Ks; [|apply ig_node_to_idx_none in Ks; contradiction].
    destruct (kpos_lt o oi Ko) as [Hoi Hxo]. destruct (kpos_lt s si Ks) as [Hsi Hxs].
    unfold walkq. destruct q.
    + destruct (proj1 (zmem_q QParents (Z.of_nat oi) (Z.of_nat si))) as (b & Hb & Hiff); [lia|].
      exists b. split; [exact Hb|]. rewrite Hiff, !Nat2Z.id, Hxo, Hxs. cbn [relE].
      split; [tauto | intro H; split; [lia | exact H]].
    + destruct (proj1 (zmem_q QParents (Z.of_nat si) (Z.of_nat oi))) as (b & Hb & Hiff); [lia|].
      exists b. split; [exact Hb|]. rewrite Hiff, !Nat2Z.id, Hxo, Hxs. cbn [relE].
      split; [tauto | intro H; split; [lia | exact H]].
    + destruct (proj1 (zmem_q QAncestors (Z.of_nat oi) (Z.of_nat si))) as (b & Hb & Hiff); [lia|].
      exists b. split; [exact Hb|]. rewrite Hiff, !Nat2Z.id, Hxo, Hxs. cbn [relE].
      split; [tauto | intro H; split; [lia | exact H]].
    + destruct (proj1 (zmem_q QAncestors (Z.of_nat si) (Z.of_nat oi))) as (b & Hb & Hiff); [lia|].
      exists b. split; [exact Hb|]. rewrite Hiff, !Nat2Z.id, Hxo, Hxs. cbn [relE].
      split; [tauto | intro H; split; [lia | exact H]].
  - intros Hmo Hns.
    destruct (ig_node_to_idx g o) as [oi|] eqn:Ko; [|apply ig_node_to_idx_none in Ko; contradiction].
    apply ig_node_to_idx_none in Hns. rewrite Hns. reflexivity.
  - intro Hno. apply ig_node_to_idx_none in Hno. rewrite Hno. reflexivity.
Qed.

Theorem ig_pred_malformed q sa oa : malformed sa \/ malformed oa ->
  g_pred (GI g) q sa oa = Err ValueError.
Proof.
  intro H. rewrite g_pred_unfold. unfold ig_pred, ig_map_to_term_idx.
  destruct (arg_cases oa) as [Mo|(k & Hk)].
  - rewrite (malformed_err _ Mo). reflexivity.
  - rewrite Hk. cbn [rmap bind]. destruct (ig_node_to_idx g k) as [oi|]; [|reflexivity].
    assert (Ms : malformed sa).
    { destruct H as [H|H]; [exact H|]. apply malformed_err in H. rewrite H in Hk. discriminate. }
    rewrite (malformed_err _ Ms). reflexivity.
Qed.

End ApiI.

Print Assumptions ig_node_to_idx_spec.
Print Assumptions ig_node_to_idx_none.
Print Assumptions ig_idx_to_node_spec.
Print Assumptions ig_root_spec.
Print Assumptions ig_nodes_spec.
Print Assumptions ig_contains_spec.
Print Assumptions idxq_spec.
Print Assumptions idx_pred_spec.
Print Assumptions ig_query_mirror.
Print Assumptions ig_query_spec.
Print Assumptions ig_query_malformed.
Print Assumptions ig_leaf_spec.
Print Assumptions ig_leaf_malformed.
Print Assumptions ig_pred_spec.
Print Assumptions ig_pred_malformed.
