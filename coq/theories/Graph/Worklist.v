(* The seen-set worklist traversal shared by CsrIndexedOntologyGraph._traverse_graph (list used
   as a stack) and BaseCsrOntologyGraph._traverse_graph (deque used as a queue), proved once for
   ANY pop policy: the emitted list is duplicate free and is exactly the set of nodes reachable
   from the initial items. *)
From Coq Require Import List Arith Lia Permutation Relations Relation_Operators Operators_Properties.
Import ListNotations.

Lemma NoDup_app_iff {A} (l1 l2 : list A) :
  NoDup (l1 ++ l2) <-> NoDup l1 /\ NoDup l2 /\ (forall x, In x l1 -> ~ In x l2).
Proof.
  induction l1 as [|a l1 IH]; cbn.
  - split.
    + intros H. split; [constructor|]. split; [exact H|]. intros x [].
    + intros (_ & H & _). exact H.
  - split.
    + intros H. inversion H as [|? ? Hn Hd]; subst. apply IH in Hd. destruct Hd as (H1 & H2 & H3).
      split; [|split].
      * constructor; [|exact H1]. intro Hi. apply Hn. apply in_or_app. left. exact Hi.
      * exact H2.
      * intros x [Hx|Hx].
        -- subst x. intro Hi. apply Hn. apply in_or_app. right. exact Hi.
        -- apply H3. exact Hx.
    + intros (H1 & H2 & H3). inversion H1 as [|? ? Hn Hd]; subst. constructor.
      * intro Hi. apply in_app_or in Hi. destruct Hi as [Hi|Hi].
        -- apply Hn. exact Hi.
        -- apply (H3 a); [left; reflexivity | exact Hi].
      * apply IH. split; [exact Hd|]. split; [exact H2|]. intros x Hx. apply H3. right. exact Hx.
Qed.

Section Worklist.
Variable n : nat.
Variable succ : nat -> list nat.
Hypothesis succ_bound : forall i j, In j (succ i) -> j < n.
Variable pop : list nat -> option (nat * list nat).
Hypothesis pop_nil : pop [] = None.
Hypothesis pop_perm : forall l x r, pop l = Some (x, r) -> Permutation l (x :: r).
Hypothesis pop_some : forall l, l <> [] -> pop l <> None.

Definition step (i j : nat) : Prop := In j (succ i).
Definition reach (src y : nat) : Prop := clos_trans_1n nat step src y.

(* `for idx in supplier(current): if idx not in seen: seen.add(idx); buffer.append(idx)` *)
Fixpoint push (cands seen buf : list nat) : list nat * list nat :=
  match cands with
  | [] => (seen, buf)
  | c :: cs => if in_dec Nat.eq_dec c seen then push cs seen buf
               else push cs (c :: seen) (buf ++ [c])
  end.

Fixpoint loop (fuel : nat) (seen buf out : list nat) : option (list nat) :=
  match fuel with
  | 0 => None
  | S f => match pop buf with
           | None => Some (rev out)
           | Some (cur, rest) =>
               let '(seen', buf') := push (succ cur) seen rest in
               loop f seen' buf' (cur :: out)
           end
  end.

(* the initial loop pushes its items WITHOUT consulting seen, as both implementations do:
   init = succ(src), or src :: succ(src) when the matrix graph includes the source *)
Definition traverse_from (init : list nat) : option (list nat) := loop (S n) init init [].
Definition traverse (src : nat) : option (list nat) := traverse_from (succ src).

(* ---------- push ---------- *)
Lemma push_spec cands : forall seen buf seen' buf',
  push cands seen buf = (seen', buf') ->
  exists new, buf' = buf ++ new /\
              (forall x, In x seen' <-> In x new \/ In x seen) /\
              NoDup new /\ (forall x, In x new -> In x cands /\ ~ In x seen) /\
              (forall x, In x cands -> In x seen').
Proof.
  induction cands as [|c cs IH]; intros seen buf seen' buf' H; cbn in H.
  - inversion H; subst. exists []. rewrite app_nil_r.
    split; [reflexivity|]. split; [intro x; cbn; tauto|]. split; [constructor|].
    split; intros x [].
  - destruct (in_dec Nat.eq_dec c seen) as [Hin|Hnin].
    + destruct (IH _ _ _ _ H) as (new & Hb & Hs & Hnd & Hnew & Hc).
      exists new. split; [exact Hb|]. split; [exact Hs|]. split; [exact Hnd|]. split.
      * intros x Hx. destruct (Hnew x Hx) as [H1 H2]. split; [right; exact H1 | exact H2].
      * intros x [Hx|Hx]; [subst x; apply Hs; right; exact Hin | apply Hc; exact Hx].
    + destruct (IH _ _ _ _ H) as (new & Hb & Hs & Hnd & Hnew & Hc).
      exists (c :: new). split; [|split; [|split; [|split]]].
      * rewrite Hb, <- app_assoc. reflexivity.
      * intro x. rewrite Hs. cbn. tauto.
      * constructor; [|exact Hnd]. intro Hx. destruct (Hnew c Hx) as [_ Hn]. apply Hn. left; reflexivity.
      * intros x [Hx|Hx].
        -- subst x. split; [left; reflexivity | exact Hnin].
        -- destruct (Hnew x Hx) as [H1 H2]. split; [right; exact H1 | intro Hi; apply H2; right; exact Hi].
      * intros x [Hx|Hx]; [subst x | apply Hc; exact Hx].
        apply Hs. right. left. reflexivity.
Qed.

(* ---------- invariant ---------- *)
(* R init x: x is an initial item or reachable from one in >= 1 step *)
Definition from (init : list nat) (x : nat) : Prop :=
  In x init \/ exists s, In s init /\ reach s x.

Record Inv (init seen buf out : list nat) : Prop := {
  inv_nodup : NoDup (out ++ buf);
  inv_seen  : forall x, In x seen <-> In x (out ++ buf);
  inv_reach : forall x, In x seen -> from init x;
  inv_closed: forall x y, In x out -> step x y -> In y seen;
  inv_src   : forall y, In y init -> In y seen;
  inv_bound : forall x, In x seen -> x < n }.

Lemma reach_step src x y : reach src x -> step x y -> reach src y.
Proof.
  intros H S. apply clos_trans_t1n. eapply t_trans.
  - apply clos_t1n_trans; exact H.
  - apply t_step; exact S.
Qed.

Lemma from_step init x y : from init x -> step x y -> from init y.
Proof.
  intros [Hx|(s & Hs & Hr)] St; right.
  - exists x. split; [exact Hx | apply t1n_step; exact St].
  - exists s. split; [exact Hs | eapply reach_step; eassumption].
Qed.

Lemma inv_pop init seen buf out cur rest seen' buf' :
  Inv init seen buf out -> pop buf = Some (cur, rest) ->
  push (succ cur) seen rest = (seen', buf') ->
  Inv init seen' buf' (cur :: out).
Proof.
  intros I Hp Hpush.
  destruct (push_spec _ _ _ _ _ Hpush) as (new & Hb & Hs & Hnd & Hnew & Hc).
  pose proof (pop_perm _ _ _ Hp) as Pp.
  assert (Pall : Permutation ((cur :: out) ++ buf') ((out ++ buf) ++ new)).
  { rewrite Hb. rewrite app_assoc.
    change ((cur :: out) ++ rest) with (cur :: out ++ rest).
    apply Permutation_app_tail. rewrite Pp. apply Permutation_middle. }
  constructor.
  - eapply Permutation_NoDup; [symmetry; exact Pall|].
    apply NoDup_app_iff. split; [apply (inv_nodup _ _ _ _ I)|split; [exact Hnd|]].
    intros x Hx Hn. destruct (Hnew x Hn) as [_ Hns]. apply Hns. apply (inv_seen _ _ _ _ I). exact Hx.
  - intro x. rewrite Hs. split.
    + intros [Hx|Hx]; eapply Permutation_in; try (symmetry; exact Pall); apply in_or_app;
        [right; exact Hx | left; apply (inv_seen _ _ _ _ I); exact Hx].
    + intro Hx. apply (Permutation_in _ Pall) in Hx. apply in_app_or in Hx.
      destruct Hx as [Hx|Hx]; [right; apply (inv_seen _ _ _ _ I); exact Hx | left; exact Hx].
  - intros x Hx. apply Hs in Hx. destruct Hx as [Hx|Hx]; [|apply (inv_reach _ _ _ _ I); exact Hx].
    destruct (Hnew x Hx) as [Hsx _]. eapply from_step; [|exact Hsx].
    apply (inv_reach _ _ _ _ I). apply (inv_seen _ _ _ _ I). apply in_or_app; right.
    eapply Permutation_in; [symmetry; exact Pp | left; reflexivity].
  - intros x y [<-|Hx] Hst; [apply Hc; exact Hst|].
    apply Hs. right. eapply (inv_closed _ _ _ _ I); eauto.
  - intros y Hy. apply Hs. right. apply (inv_src _ _ _ _ I); exact Hy.
  - intros x Hx. apply Hs in Hx. destruct Hx as [Hx|Hx]; [|apply (inv_bound _ _ _ _ I); exact Hx].
    destruct (Hnew x Hx) as [Hsx _]. eapply succ_bound; exact Hsx.
Qed.

Lemma inv_init init : NoDup init -> (forall x, In x init -> x < n) -> Inv init init init [].
Proof.
  intros Hnd Hb. constructor; cbn; auto.
  - tauto.
  - intros x Hx. left. exact Hx.
  - intros x y [].
Qed.

(* closed + contains init  ==> contains everything reachable from init *)
Lemma closed_from init (S : nat -> Prop) :
  (forall y, In y init -> S y) -> (forall x y, S x -> step x y -> S y) ->
  forall y, from init y -> S y.
Proof.
  intros H0 Hc y [Hy|(s & Hs & Hr)]; [apply H0; exact Hy|].
  apply clos_t1n_trans in Hr. apply clos_trans_tn1 in Hr.
  induction Hr as [y Hst | y z Hst Hr IH]; [eapply Hc; [apply H0; exact Hs | exact Hst] | eapply Hc; [exact IH | exact Hst]].
Qed.

Lemma length_bound l : NoDup l -> (forall x, In x l -> x < n) -> length l <= n.
Proof.
  intros Hnd Hb. rewrite <- (seq_length n 0). apply NoDup_incl_length; [exact Hnd|].
  intros x Hx. apply in_seq. specialize (Hb x Hx). lia.
Qed.

Lemma loop_correct init : forall fuel seen buf out,
  Inv init seen buf out -> n + 1 <= fuel + length out ->
  exists res, loop fuel seen buf out = Some res /\ NoDup res /\ (forall y, In y res <-> from init y).
Proof.
  induction fuel as [|f IH]; intros seen buf out I Hf.
  - exfalso. assert (length (out ++ buf) <= n).
    { apply length_bound; [apply (inv_nodup _ _ _ _ I)|]. intros x Hx. apply (inv_bound _ _ _ _ I). apply (inv_seen _ _ _ _ I). exact Hx. }
    rewrite app_length in H. lia.
  - cbn [loop]. destruct (pop buf) as [[cur rest]|] eqn:Hp.
    + destruct (push (succ cur) seen rest) as [seen' buf'] eqn:Hpush.
      apply IH; [eapply inv_pop; eauto|].
      assert (length (out ++ buf) <= n).
      { apply length_bound; [apply (inv_nodup _ _ _ _ I)|]. intros x Hx. apply (inv_bound _ _ _ _ I). apply (inv_seen _ _ _ _ I). exact Hx. }
      cbn [length]. lia.
    + assert (buf = []) as ->.
      { destruct buf as [|b bs]; [reflexivity|]. exfalso. eapply pop_some; [|exact Hp]. discriminate. }
      exists (rev out). split; [reflexivity|].
      assert (Hseen : forall x, In x seen <-> In x out).
      { intro x. rewrite (inv_seen _ _ _ _ I x), app_nil_r. tauto. }
      split.
      * apply NoDup_rev. pose proof (inv_nodup _ _ _ _ I) as H. rewrite app_nil_r in H. exact H.
      * intro y. rewrite <- in_rev. split.
        -- intro Hy. apply (inv_reach _ _ _ _ I). apply Hseen. exact Hy.
        -- intro Hr. apply Hseen. revert y Hr. apply closed_from; [apply (inv_src _ _ _ _ I)|].
           intros x y Hx Hst. eapply (inv_closed _ _ _ _ I); [|exact Hst]. apply Hseen. exact Hx.
Qed.

Theorem traverse_from_correct init :
  NoDup init -> (forall x, In x init -> x < n) ->
  exists res, traverse_from init = Some res /\ NoDup res /\ (forall y, In y res <-> from init y).
Proof.
  intros Hnd Hb. unfold traverse_from. eapply loop_correct; [apply inv_init; assumption|].
  cbn. lia.
Qed.

Lemma from_succ src y : from (succ src) y <-> reach src y.
Proof.
  split.
  - intros [Hy|(s & Hs & Hr)]; [apply t1n_step; exact Hy | eapply Relation_Operators.t1n_trans; [exact Hs | exact Hr]].
  - intro Hr. inversion Hr as [? Hst | z ? Hst Hr']; subst.
    + left. exact Hst.
    + right. exists z. split; assumption.
Qed.

Lemma from_src_succ src y : from (src :: succ src) y <-> (y = src \/ reach src y).
Proof.
  split.
  - intros [[Hy|Hy]|(s & [Hs|Hs] & Hr)].
    + left. symmetry. exact Hy.
    + right. apply t1n_step. exact Hy.
    + subst s. right. exact Hr.
    + right. eapply Relation_Operators.t1n_trans; [exact Hs | exact Hr].
  - intros [->|Hr]; [left; left; reflexivity|].
    right. exists src. split; [left; reflexivity | exact Hr].
Qed.

Theorem traverse_correct src :
  NoDup (succ src) ->
  exists res, traverse src = Some res /\ NoDup res /\ (forall y, In y res <-> reach src y).
Proof.
  intro Hnd. destruct (traverse_from_correct (succ src) Hnd) as (res & H1 & H2 & H3).
  - intros x Hx. eapply succ_bound; exact Hx.
  - exists res. split; [exact H1|]. split; [exact H2|]. intro y. rewrite H3. apply from_succ.
Qed.
End Worklist.

(* the two pop policies: buffer.pop() of a list used as a stack, buffer.popleft() of a deque *)
Definition pop_first (l : list nat) := match l with [] => None | x :: r => Some (x, r) end.
Definition pop_last (l : list nat) := match rev l with [] => None | x :: r => Some (x, rev r) end.

Lemma pop_first_perm l x r : pop_first l = Some (x, r) -> Permutation l (x :: r).
Proof. destruct l; [discriminate|]. intros [= <- <-]. reflexivity. Qed.
Lemma pop_first_some l : l <> [] -> pop_first l <> None.
Proof. destruct l; [congruence | discriminate]. Qed.

Lemma pop_last_perm l x r : pop_last l = Some (x, r) -> Permutation l (x :: r).
Proof.
  unfold pop_last. destruct (rev l) as [|y ys] eqn:E; [discriminate|]. intros [= <- <-].
  rewrite (Permutation_rev l), E. constructor. apply Permutation_rev.
Qed.
Lemma pop_last_some l : l <> [] -> pop_last l <> None.
Proof.
  unfold pop_last. intro H. destruct (rev l) as [|y ys] eqn:E; [|discriminate].
  exfalso. apply H. rewrite <- (rev_involutive l), E. reflexivity.
Qed.

