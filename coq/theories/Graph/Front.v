(* Root finding, de-duplication and node extraction deliver what Graph/Spec.v asks for. *)
From Coq Require Import String List Bool Arith Lia Relations Relation_Operators Operators_Properties Sorted.
From Hpotk Require Import Base.Result Base.Str Base.Ord TermId.Model TermId.Proofs Graph.Model Graph.Spec Graph.Acyclic.
Import ListNotations.
Open Scope list_scope.

(* ---------- auxiliary facts ---------- *)
Lemma edge_eqb_eq (a b : edge) : edge_eqb a b = true <-> a = b.
Proof.
  destruct a as [a1 a2], b as [b1 b2]. unfold edge_eqb; cbn [fst snd].
  rewrite andb_true_iff, !key_eqb_eq. split.
  - intros [H1 H2]. subst. reflexivity.
  - intro H. inversion H. auto.
Qed.

Lemma kmem_in x l : kmem x l = true <-> In x l.
Proof.
  unfold kmem. rewrite existsb_exists. split.
  - intros [y [Hy He]]. apply key_eqb_eq in He. subst y. exact Hy.
  - intro H. exists x. split; [exact H | apply key_eqb_eq; reflexivity].
Qed.

Lemma in_map_fst (es : list edge) x : In x (map fst es) <-> exists y, In (x, y) es.
Proof.
  rewrite in_map_iff. split.
  - intros [[a b] [Hf Hi]]. cbn in Hf. subst a. exists b. exact Hi.
  - intros [y Hy]. exists (x, y). split; [reflexivity | exact Hy].
Qed.

Lemma in_map_snd (es : list edge) x : In x (map snd es) <-> exists y, In (y, x) es.
Proof.
  rewrite in_map_iff. split.
  - intros [[a b] [Hf Hi]]. cbn in Hf. subst b. exists a. exact Hi.
  - intros [y Hy]. exists (y, x). split; [reflexivity | exact Hy].
Qed.

Lemma ct_mono (R S : key -> key -> Prop) : (forall a b, R a b -> S a b) ->
  forall x y, clos_trans key R x y -> clos_trans key S x y.
Proof.
  intros HRS x y H. induction H as [x y H | x y z _ IH1 _ IH2].
  - apply t_step. apply HRS. exact H.
  - eapply t_trans; eassumption.
Qed.

Lemma NoDup_app_intro {A} (l1 l2 : list A) :
  NoDup l1 -> NoDup l2 -> (forall x, In x l1 -> ~ In x l2) -> NoDup (l1 ++ l2).
Proof.
  induction l1 as [|a l1 IH]; intros H1 H2 Hd; cbn; [exact H2|].
  inversion H1 as [|? ? Hn Hr]; subst. constructor.
  - rewrite in_app_iff. intros [Hi|Hi]; [exact (Hn Hi)|]. apply (Hd a); [left; reflexivity | exact Hi].
  - apply IH; [exact Hr | exact H2|]. intros x Hx. apply Hd. right. exact Hx.
Qed.

Lemma NoDup_map_inj {A B} (f : A -> B) (l : list A) :
  (forall a b, f a = f b -> a = b) -> NoDup l -> NoDup (map f l).
Proof.
  intros Hinj H. induction H as [|a l Hn Hr IH]; cbn; constructor; [|exact IH].
  rewrite in_map_iff. intros [b [Hb Hi]]. apply Hinj in Hb. subst b. exact (Hn Hi).
Qed.

(* ---------- the spec notions only depend on the edge SET ---------- *)
Section Ext.
Variables es1 es2 : list edge.
Hypothesis Hext : forall e, In e es1 <-> In e es2.

Lemma parentless_ext x : parentless es1 x <-> parentless es2 x.
Proof.
  unfold parentless. split; intros [[s Hs] Hn]; (split; [exists s; apply Hext; exact Hs|]);
    intros [o Ho]; apply Hn; exists o; apply Hext; exact Ho.
Qed.

Lemma mentions_ext x : mentions es1 x <-> mentions es2 x.
Proof.
  unfold mentions. split; intros [y [H|H]]; exists y; [left|right|left|right]; apply Hext; exact H.
Qed.

Lemma multi_root_ext : multi_root es1 <-> multi_root es2.
Proof.
  unfold multi_root. split; intros (a & b & Hab & Ha & Hb); exists a, b;
    (split; [exact Hab|]); split; apply parentless_ext; assumption.
Qed.

Lemma ct_ext x y : clos_trans key (fun a b => In (a, b) es1) x y <-> clos_trans key (fun a b => In (a, b) es2) x y.
Proof.
  split; apply ct_mono; intros a b H; apply Hext; exact H.
Qed.

Lemma acyclic_ext : acyclic es1 <-> acyclic es2.
Proof.
  unfold acyclic. split; intros H x Hc; apply (H x); apply ct_ext; exact Hc.
Qed.

Lemma is_a_ext x y : is_a es1 x y <-> is_a es2 x y.
Proof.
  unfold is_a. rewrite Hext, multi_root_ext, parentless_ext. reflexivity.
Qed.
End Ext.

(* ---------- de-duplication ---------- *)
Lemma dedup_edges_in es e : In e (dedup_edges es) <-> In e es.
Proof.
  induction es as [|e0 r IH]; cbn [dedup_edges]; [tauto|].
  cbn [In]. rewrite filter_In, IH. split.
  - intros [H|[H _]]; [left|right]; exact H.
  - intros [H|H]; [left; exact H|].
    destruct (edge_eqb e0 e) eqn:E.
    + left. apply edge_eqb_eq. exact E.
    + right. split; [exact H | reflexivity].
Qed.

Lemma dedup_edges_nodup es : NoDup (dedup_edges es).
Proof.
  induction es as [|e0 r IH]; cbn [dedup_edges]; constructor.
  - rewrite filter_In. intros [_ H].
    assert (edge_eqb e0 e0 = true) as X by (apply edge_eqb_eq; reflexivity).
    rewrite X in H. discriminate.
  - apply NoDup_filter. exact IH.
Qed.

(* candidates = the parentless terms, sorted, each once *)
Lemma candidates_spec es : SSorted key_ltb (candidates es) /\ forall x, In x (candidates es) <-> parentless es x.
Proof.
  unfold candidates. split; [apply key_sort_sorted|].
  intro x. rewrite key_sort_in, filter_In, in_map_snd, negb_true_iff. unfold parentless.
  rewrite <- in_map_fst, <- kmem_in. destruct (kmem x (map fst es)); intuition congruence.
Qed.

(* nodes_of = the mentioned terms, strictly sorted *)
Lemma nodes_of_spec E : SSorted key_ltb (nodes_of E) /\ forall x, In x (nodes_of E) <-> mentions E x.
Proof.
  unfold nodes_of. split; [apply key_sort_sorted|].
  intro x. rewrite key_sort_in, in_flat_map. unfold mentions. split.
  - intros [[a b] [Hi Hx]]. cbn in Hx. destruct Hx as [Hx|[Hx|[]]]; subst x.
    + exists b. left. exact Hi.
    + exists a. right. exact Hi.
  - intros [y [H|H]]; [exists (x, y) | exists (y, x)]; (split; [exact H|]); cbn; auto.
Qed.

(* ---------- how many candidates: none, one, or several ---------- *)
Lemma cand_cases es :
  (candidates es = [] /\ forall p, ~ parentless es p) \/
  (exists c, candidates es = [c] /\ forall b, parentless es b <-> b = c) \/
  (exists a b r, candidates es = a :: b :: r /\ multi_root es).
Proof.
  destruct (candidates_spec es) as [Hs Hin]. apply key_sorted_nodup in Hs.
  destruct (candidates es) as [|a [|b r]].
  - left. split; [reflexivity|]. intros p Hp. apply Hin in Hp. exact Hp.
  - right. left. exists a. split; [reflexivity|]. intro b. rewrite <- Hin. cbn. intuition.
  - right. right. exists a, b, r. split; [reflexivity|]. exists a, b.
    split; [|split; apply Hin; cbn; auto].
    intro Hab. subst b. inversion Hs as [|? ? Hn _]; subst. apply Hn. left. reflexivity.
Qed.

Lemma unique_not_multi es c : (forall b, parentless es b <-> b = c) -> ~ multi_root es.
Proof.
  intros Hu (a & b & Hab & Ha & Hb). apply Hu in Ha, Hb. congruence.
Qed.

Lemma mentions_nonempty es x : mentions es x -> es <> [].
Proof. intros [y [H|H]] ->; exact H. Qed.

Lemma parentless_mentions es x : parentless es x -> mentions es x.
Proof. intros [[s Hs] _]. exists s. right. exact Hs. Qed.

Lemma is_a_owl_none es : ~ mentions es owl_thing -> forall y, ~ is_a es owl_thing y.
Proof.
  intros Hm y [H|(_ & Hp & _)]; apply Hm.
  - exists y. left. exact H.
  - apply parentless_mentions. exact Hp.
Qed.

(* a path in the effective graph is a path in the input or ends in the synthetic root *)
Lemma ancestor_split es : ~ mentions es owl_thing -> forall x y, ancestor es x y ->
  clos_trans key (E_rel es) x y \/ y = owl_thing.
Proof.
  intros Hm x y H. unfold ancestor in H. apply clos_trans_tn1 in H.
  induction H as [y H | y z Hyz _ IH].
  - destruct H as [H|(_ & _ & H)]; [left; apply t_step; exact H | right; exact H].
  - destruct IH as [IH|IH].
    + destruct Hyz as [Hyz|(_ & _ & Hyz)]; [left | right; exact Hyz].
      eapply t_trans; [exact IH | apply t_step; exact Hyz].
    + subst y. exfalso. exact (is_a_owl_none es Hm z Hyz).
Qed.

Lemma eff_acyclic es E : acyclic es -> ~ mentions es owl_thing -> Eff es E -> acyclic E.
Proof.
  intros Hac Hm He x Hc.
  assert (ancestor es x x) as Ha.
  { unfold ancestor. revert Hc. apply ct_mono. intros a b H. apply He. exact H. }
  destruct (ancestor_split es Hm x x Ha) as [H|H].
  - exact (Hac x H).
  - subst x. unfold ancestor in Ha. apply clos_trans_t1n in Ha.
    inversion Ha as [y H|y z H _]; subst; exact (is_a_owl_none es Hm _ H).
Qed.

(* the synthetic root owl:Thing must not be an input term *)
Theorem front_ok es : es <> [] -> acyclic es -> ~ mentions es owl_thing ->
  exists root E, find_root (dedup_edges es) = Ok (root, E) /\ FrontOK es E root.
Proof.
  intros Hne Hac Hm.
  pose proof (dedup_edges_in es) as Hd.
  assert (Hd' : forall e, In e es <-> In e (dedup_edges es)) by (intro e; symmetry; apply Hd).
  destruct (acyclic_has_parentless es Hne Hac) as [p0 Hp0].
  unfold find_root.
  destruct (cand_cases (dedup_edges es)) as [[_ Hno]|[(c & Hc & Hu)|(a & b & r & Hc & Hmr)]].
  - exfalso. apply (Hno p0). apply (parentless_ext _ _ Hd). exact Hp0.
  - rewrite Hc. exists c, (dedup_edges es). split; [reflexivity|].
    assert (Hu' : forall b, parentless es b <-> b = c).
    { intro b. rewrite <- Hu. apply parentless_ext. exact Hd'. }
    pose proof (unique_not_multi es c Hu') as Hnm.
    assert (Heff : Eff es (dedup_edges es)).
    { intros x y. rewrite Hd. unfold is_a. tauto. }
    constructor.
    + apply dedup_edges_nodup.
    + exact Heff.
    + eapply eff_acyclic; eassumption.
    + apply (mentions_ext _ _ Hd'). apply parentless_mentions. apply Hu'. reflexivity.
    + intros a Ha. apply Ha. apply Hu'. reflexivity.
    + intro H. exfalso. exact (Hnm H).
  - rewrite Hc. rewrite <- Hc.
    set (cs := candidates (dedup_edges es)).
    exists owl_thing, (dedup_edges es ++ map (fun c => (c, owl_thing)) cs). split; [reflexivity|].
    assert (Hmr' : multi_root es) by (apply (multi_root_ext _ _ Hd'); exact Hmr).
    assert (Hcs : forall x, In x cs <-> parentless es x).
    { intro x. unfold cs. rewrite (proj2 (candidates_spec _)). apply parentless_ext. exact Hd. }
    assert (Heff : Eff es (dedup_edges es ++ map (fun c => (c, owl_thing)) cs)).
    { intros x y. rewrite in_app_iff, Hd, in_map_iff. unfold is_a. split.
      - intros [H|[c [Hc1 Hc2]]]; [left; exact H|]. inversion Hc1; subst. right.
        split; [exact Hmr'|]. split; [apply Hcs; exact Hc2 | reflexivity].
      - intros [H|(_ & Hp & Hy)]; [left; exact H|]. right. exists x. subst y.
        split; [reflexivity | apply Hcs; exact Hp]. }
    constructor.
    + apply NoDup_app_intro.
      * apply dedup_edges_nodup.
      * apply NoDup_map_inj; [intros x y H; inversion H; reflexivity|].
        apply key_sorted_nodup. apply candidates_spec.
      * intros [x y] Hx Hy. apply in_map_iff in Hy. destruct Hy as [c [Hc1 _]].
        inversion Hc1; subst. apply Hm. exists x. right. apply Hd. exact Hx.
    + exact Heff.
    + eapply eff_acyclic; eassumption.
    + exists p0. right. apply Heff. right. split; [exact Hmr'|]. split; [exact Hp0 | reflexivity].
    + intros a0 Ha0. exfalso. exact (unique_not_multi es a0 Ha0 Hmr').
    + intros _. reflexivity.
Qed.

(* an empty or rootless (cyclic) input is rejected with ValueError, never answered *)
Theorem front_err es : (forall p, ~ parentless es p) -> find_root (dedup_edges es) = Err ValueError.
Proof.
  intro Hno. unfold find_root.
  destruct (candidates_spec (dedup_edges es)) as [_ Hin].
  destruct (candidates (dedup_edges es)) as [|a l]; [reflexivity|].
  exfalso. apply (Hno a). apply (parentless_ext _ _ (dedup_edges_in es)). apply Hin. left. reflexivity.
Qed.

(* find_root never fails in any other way *)
Theorem front_total es : (exists p, parentless es p) -> exists root E, find_root (dedup_edges es) = Ok (root, E).
Proof.
  intros [p Hp]. unfold find_root.
  destruct (candidates_spec (dedup_edges es)) as [_ Hin].
  destruct (candidates (dedup_edges es)) as [|a [|b l]].
  - exfalso. apply (Hin p). apply (parentless_ext _ _ (dedup_edges_in es)). exact Hp.
  - eexists _, _. reflexivity.
  - eexists _, _. reflexivity.
Qed.

(* the effective edge set depends only on the input edge SET *)
Theorem eff_edge_set es1 es2 : (forall e, In e es1 <-> In e es2) ->
  forall x y, is_a es1 x y <-> is_a es2 x y.
Proof.
  intros H x y. apply is_a_ext. exact H.
Qed.

Lemma eff_mentions es E : Eff es E -> forall x, mentions E x <-> node_of es x.
Proof.
  intros He x. unfold node_of. split.
  - intros [y [H|H]]; apply He in H.
    + left. destruct H as [H|(_ & Hp & _)]; [exists y; left; exact H | apply parentless_mentions; exact Hp].
    + destruct H as [H|(Hmr & _ & Hx)]; [left; exists y; right; exact H | right; split; assumption].
  - intros [[y [H|H]]|[Hmr Hx]].
    + exists y. left. apply He. left. exact H.
    + exists y. right. apply He. left. exact H.
    + subst x. destruct Hmr as (a & b & Hab & Ha & Hb). exists a. right. apply He. right.
      split; [exists a, b; auto|]. split; [exact Ha | reflexivity].
Qed.

(* which root FrontOK prescribes *)
Lemma front_root_cases es E root : acyclic es -> FrontOK es E root ->
  ((forall b, parentless es b <-> b = root) /\ ~ multi_root es) \/ (multi_root es /\ root = owl_thing).
Proof.
  intros Hac Hf.
  destruct (cand_cases es) as [[_ Hno]|[(c & _ & Hu)|(a & b & r & _ & Hmr)]].
  - exfalso. pose proof (fo_root_node _ _ _ Hf) as Hr.
    apply (eff_mentions es E (fo_eff _ _ _ Hf)) in Hr. destruct Hr as [Hr|[Hmr _]].
    + apply mentions_nonempty in Hr. destruct (acyclic_has_parentless es Hr Hac) as [p Hp].
      exact (Hno p Hp).
    + destruct Hmr as (a & _ & _ & Ha & _). exact (Hno a Ha).
  - left. rewrite (fo_root_single _ _ _ Hf c Hu). split; [exact Hu | eapply unique_not_multi; exact Hu].
  - right. split; [exact Hmr | exact (fo_root_multi _ _ _ Hf Hmr)].
Qed.

(* ---- spec-level facts about the root (C02) ---- *)
Theorem root_no_parents es E root : acyclic es -> ~ mentions es owl_thing -> FrontOK es E root ->
  forall y, ~ is_a es root y.
Proof.
  intros Hac Hm Hf y.
  destruct (front_root_cases es E root Hac Hf) as [[Hu Hnm]|[Hmr Hr]].
  - intros [H|(Hmr & _)]; [|exact (Hnm Hmr)].
    assert (parentless es root) as [_ Hp] by (apply Hu; reflexivity).
    apply Hp. exists y. exact H.
  - subst root. apply is_a_owl_none. exact Hm.
Qed.

Theorem root_reaches_all es E root : acyclic es -> ~ mentions es owl_thing -> FrontOK es E root ->
  forall x, node_of es x -> x <> root -> ancestor es x root.
Proof.
  intros Hac Hm Hf x Hx Hne.
  assert (Hemb : forall a b, clos_trans key (E_rel es) a b -> ancestor es a b).
  { unfold ancestor. apply ct_mono. intros a b H. left. exact H. }
  destruct (front_root_cases es E root Hac Hf) as [[Hu Hnm]|[Hmr Hr]].
  - destruct Hx as [Hx|[Hmr _]]; [|exfalso; exact (Hnm Hmr)].
    destruct (reaches_parentless es Hac x Hx) as [Hp|(p & Hp & Hc)].
    + exfalso. apply Hne. apply Hu. exact Hp.
    + apply Hu in Hp. subst p. apply Hemb. exact Hc.
  - subst root. destruct Hx as [Hx|[_ Hx]]; [|exfalso; exact (Hne Hx)].
    destruct (reaches_parentless es Hac x Hx) as [Hp|(p & Hp & Hc)].
    + apply t_step. right. auto.
    + eapply t_trans; [apply Hemb; exact Hc|]. apply t_step. right. auto.
Qed.

(* the children of a synthetic root are exactly the parentless terms *)
Theorem synthetic_root_children es : multi_root es -> ~ mentions es owl_thing ->
  forall x, is_a es x owl_thing <-> parentless es x.
Proof.
  intros Hmr Hm x. split.
  - intros [H|(_ & Hp & _)]; [|exact Hp]. exfalso. apply Hm. exists x. right. exact H.
  - intro Hp. right. auto.
Qed.

Print Assumptions front_ok.
Print Assumptions front_err.
Print Assumptions front_total.
Print Assumptions root_no_parents.
Print Assumptions root_reaches_all.
Print Assumptions synthetic_root_children.
Print Assumptions eff_edge_set.
Print Assumptions eff_mentions.
Print Assumptions candidates_spec.
Print Assumptions nodes_of_spec.
