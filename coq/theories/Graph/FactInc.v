(* IncrementalCsrGraphFactory builds a signed adjacency matrix that presents the right rows. *)
From Coq Require Import String List Bool Arith ZArith Lia Sorted Permutation Relations Relation_Operators.
From Hpotk Require Import Base.Result Base.Str Base.Ord TermId.Model TermId.Proofs Csr.Model Csr.Proofs
  Graph.Worklist Graph.Model Graph.Spec.
Import ListNotations.
Open Scope list_scope.

(* ---------- keys ---------- *)
Lemma key_eqb_refl k : key_eqb k k = true.
Proof. apply key_eqb_eq. reflexivity. Qed.

Lemma key_eqb_neq a b : key_eqb a b = false <-> a <> b.
Proof.
  split.
  - intros H E. apply key_eqb_eq in E. congruence.
  - intro H. destruct (key_eqb a b) eqn:E; [|reflexivity]. apply key_eqb_eq in E. contradiction.
Qed.

Lemma key_eqb_sym a b : key_eqb a b = key_eqb b a.
Proof.
  destruct (key_eqb a b) eqn:E1, (key_eqb b a) eqn:E2; try reflexivity.
  - apply key_eqb_eq in E1. subst b. rewrite key_eqb_refl in E2. discriminate.
  - apply key_eqb_eq in E2. subst b. rewrite key_eqb_refl in E1. discriminate.
Qed.

(* ---------- generic list facts ---------- *)
Lemma rsequence_map_ok {A B} (f : A -> res B) (g : A -> B) l :
  (forall x, In x l -> f x = Ok (g x)) -> rsequence (map f l) = Ok (map g l).
Proof.
  induction l as [|a l IH]; intro H; [reflexivity|].
  cbn [map rsequence]. rewrite (H a) by (left; reflexivity).
  rewrite IH by (intros x Hx; apply H; right; exact Hx). reflexivity.
Qed.

Lemma combine_map_r {A B} (F : A -> B) l : combine l (map F l) = map (fun k => (k, F k)) l.
Proof. induction l as [|a l IH]; cbn; [reflexivity|]. rewrite IH. reflexivity. Qed.

Lemma NoDup_map_inj_in {A B} (f : A -> B) l :
  NoDup l -> (forall x y, In x l -> In y l -> f x = f y -> x = y) -> NoDup (map f l).
Proof.
  induction 1 as [|a l Hna Hnd IH]; intro Hinj; cbn [map]; constructor.
  - intro Hin. apply in_map_iff in Hin. destruct Hin as [b [Hb Hbl]].
    assert (b = a) by (apply Hinj; [right; exact Hbl | left; reflexivity | exact Hb]).
    subst b. contradiction.
  - apply IH. intros x y Hx Hy. apply Hinj; right; assumption.
Qed.

(* ---------- grouping of the edges by incident node ---------- *)
Lemma app_row_length {A} j (x : A) rows : length (app_row j x rows) = length rows.
Proof.
  revert j. induction rows as [|r t IH]; intros [|j]; cbn [app_row length]; try reflexivity.
  rewrite IH. reflexivity.
Qed.

Lemma app_row_nth {A} j (x : A) rows i : i < length rows ->
  nth i (app_row j x rows) [] = if (i =? j)%nat then nth i rows [] ++ [x] else nth i rows [].
Proof.
  revert j i. induction rows as [|r t IH]; intros j i Hi; cbn [length] in Hi; [lia|].
  destruct j as [|j], i as [|i]; cbn [app_row nth Nat.eqb]; try reflexivity.
  apply IH. lia.
Qed.

Definition oeq (o : option nat) (i : nat) : bool :=
  match o with Some j => (i =? j)%nat | None => false end.

Lemma app_row_opt_length {A} o (x : A) rows : length (app_row_opt o x rows) = length rows.
Proof. destruct o as [j|]; cbn [app_row_opt]; [apply app_row_length | reflexivity]. Qed.

Lemma app_row_opt_nth {A} o (x : A) rows i : i < length rows ->
  nth i (app_row_opt o x rows) [] = nth i rows [] ++ (if oeq o i then [x] else []).
Proof.
  intro Hi. destruct o as [j|]; cbn [app_row_opt oeq].
  - rewrite app_row_nth by exact Hi. destruct (i =? j)%nat; [reflexivity | rewrite app_nil_r; reflexivity].
  - rewrite app_nil_r. reflexivity.
Qed.

(* the step without the last-subject cache *)
Definition adj_step' (nodes : list key) (rows : list (list edge)) (e : edge) : list (list edge) :=
  app_row_opt (idx_of nodes (snd e)) e (app_row_opt (idx_of nodes (fst e)) e rows).

Lemma adj_step_cache nodes rows ls li e :
  (forall s, ls = Some s -> li = idx_of nodes s) ->
  adj_step nodes (rows, ls, li) e = (adj_step' nodes rows e, Some (fst e), idx_of nodes (fst e)).
Proof.
  intro Hc. unfold adj_step, adj_step'. destruct ls as [s|].
  - destruct (key_eqb (fst e) s) eqn:Ek; [|reflexivity].
    apply key_eqb_eq in Ek. rewrite (Hc s eq_refl), Ek. reflexivity.
  - reflexivity.
Qed.

Lemma fold_adj_cache nodes es : forall rows ls li,
  (forall s, ls = Some s -> li = idx_of nodes s) ->
  fst (fst (fold_left (adj_step nodes) es (rows, ls, li))) = fold_left (adj_step' nodes) es rows.
Proof.
  induction es as [|e es IH]; intros rows ls li Hc; [reflexivity|].
  cbn [fold_left]. rewrite (adj_step_cache nodes rows ls li e Hc).
  apply IH. intros s Hs. inversion Hs; subst s. reflexivity.
Qed.

Lemma find_adjacent_fold nodes es :
  find_adjacent nodes es = fold_left (adj_step' nodes) es (repeat [] (length nodes)).
Proof.
  unfold find_adjacent.
  rewrite <- (fold_adj_cache nodes es (repeat [] (length nodes)) None None) by (intros s Hs; discriminate Hs).
  destruct (fold_left (adj_step nodes) es (repeat [] (length nodes), None, None)) as [[rows ls] li].
  reflexivity.
Qed.

Definition contrib (nodes : list key) (i : nat) (e : edge) : list edge :=
  (if oeq (idx_of nodes (fst e)) i then [e] else []) ++ (if oeq (idx_of nodes (snd e)) i then [e] else []).

Lemma adj_step'_length nodes rows e : length (adj_step' nodes rows e) = length rows.
Proof. unfold adj_step'. rewrite !app_row_opt_length. reflexivity. Qed.

Lemma fold_adj'_length nodes es : forall rows,
  length (fold_left (adj_step' nodes) es rows) = length rows.
Proof.
  induction es as [|e es IH]; intro rows; cbn [fold_left]; [reflexivity|].
  rewrite IH. apply adj_step'_length.
Qed.

Lemma fold_adj'_nth nodes es i : forall rows, i < length rows ->
  nth i (fold_left (adj_step' nodes) es rows) [] = nth i rows [] ++ flat_map (contrib nodes i) es.
Proof.
  induction es as [|e es IH]; intros rows Hi; cbn [fold_left flat_map].
  - rewrite app_nil_r. reflexivity.
  - rewrite IH by (rewrite adj_step'_length; exact Hi).
    unfold adj_step'. rewrite app_row_opt_nth by (rewrite app_row_opt_length; exact Hi).
    rewrite app_row_opt_nth by exact Hi.
    unfold contrib. rewrite <- !app_assoc. reflexivity.
Qed.

Lemma oeq_idx nodes i k x : SSorted key_ltb nodes -> nth_error nodes i = Some k ->
  oeq (idx_of nodes x) i = key_eqb x k.
Proof.
  intros Hs Hk. unfold idx_of. destruct (index_of key_ltb nodes x) as [j|] eqn:Ej; cbn [oeq].
  - destruct (Nat.eqb_spec i j) as [Hij|Hne].
    + subst j. apply (key_index_of_spec _ _ Hs) in Ej. symmetry. apply key_eqb_eq. congruence.
    + symmetry. apply key_eqb_neq. intro Hx. subst x. apply Hne.
      apply (key_index_of_spec _ _ Hs) in Hk. congruence.
  - symmetry. apply key_eqb_neq. intro Hx. subst x.
    apply (key_index_of_none _ _ Hs) in Ej. apply Ej. eapply nth_error_In. exact Hk.
Qed.

(* edges incident to k *)
Definition inc (k : key) (e : edge) : bool := key_eqb (fst e) k || key_eqb (snd e) k.
Definition adjrow (es : list edge) (k : key) : list edge := filter (inc k) es.

Lemma contrib_filter nodes i k es : SSorted key_ltb nodes -> nth_error nodes i = Some k ->
  (forall e, In e es -> fst e <> snd e) ->
  flat_map (contrib nodes i) es = filter (inc k) es.
Proof.
  intros Hs Hk. induction es as [|e es IH]; intro Hl; [reflexivity|].
  cbn [flat_map filter]. rewrite IH by (intros e' He'; apply Hl; right; exact He').
  unfold contrib, inc. rewrite !(oeq_idx nodes i k) by assumption.
  destruct (key_eqb (fst e) k) eqn:E1, (key_eqb (snd e) k) eqn:E2; cbn [orb app]; try reflexivity.
  exfalso. apply key_eqb_eq in E1, E2. apply (Hl e); [left; reflexivity | congruence].
Qed.

Lemma find_adjacent_eq nodes es : SSorted key_ltb nodes -> (forall e, In e es -> fst e <> snd e) ->
  find_adjacent nodes es = map (adjrow es) nodes.
Proof.
  intros Hs Hl. rewrite find_adjacent_fold.
  apply (nth_ext _ _ [] (adjrow es key0)).
  - rewrite fold_adj'_length, repeat_length, map_length. reflexivity.
  - intros i Hi. rewrite fold_adj'_length, repeat_length in Hi.
    rewrite fold_adj'_nth by (rewrite repeat_length; exact Hi).
    rewrite nth_repeat, map_nth. cbn [app]. unfold adjrow.
    apply contrib_filter; [exact Hs | | exact Hl].
    apply nth_error_nth'. exact Hi.
Qed.

(* ---------- per-row preprocessing, sorting, index lookup ---------- *)
Definition tgt (k : key) (e : edge) : key * Z :=
  if key_eqb k (snd e) then (fst e, PARENT_CODE) else (snd e, CHILD_CODE).

Lemma preprocess_ok k l : (forall e, In e l -> fst e <> snd e /\ inc k e = true) ->
  preprocess k l = Ok (map (tgt k) l).
Proof.
  induction l as [|[sub obj] t IH]; intro H; [reflexivity|].
  cbn [preprocess map]. rewrite IH by (intros e' He'; apply H; right; exact He').
  destruct (H (sub, obj) (or_introl eq_refl)) as [Hne Hinc]. unfold inc, tgt in *. cbn [fst snd] in *.
  rewrite (key_eqb_sym k sub), (key_eqb_sym k obj).
  destruct (key_eqb sub k) eqn:E1, (key_eqb obj k) eqn:E2; cbn [negb andb orb bind] in *;
    try reflexivity; try discriminate Hinc.
  apply key_eqb_eq in E1, E2. congruence.
Qed.

Lemma tins_perm x l : Permutation (tins x l) (x :: l).
Proof.
  induction l as [|y r IH]; cbn [tins]; [reflexivity|].
  destruct (key_ltb (fst x) (fst y)); [reflexivity|].
  apply perm_trans with (y :: x :: r); [constructor; exact IH | apply perm_swap].
Qed.

Lemma tsort_perm l : Permutation (tsort l) l.
Proof.
  induction l as [|x l IH]; cbn [tsort fold_right]; [constructor|].
  apply perm_trans with (x :: fold_right tins [] l); [apply tins_perm | constructor; exact IH].
Qed.

Lemma row_entries_cons nodes t c l :
  row_entries nodes ((t, c) :: l) =
  (match idx_of nodes t with Some i => [(i, c)] | None => [] end) ++ row_entries nodes l.
Proof. reflexivity. Qed.

Lemma row_entries_in nodes l j c :
  In (j, c) (row_entries nodes l) <-> exists t, In (t, c) l /\ idx_of nodes t = Some j.
Proof.
  unfold row_entries. rewrite in_flat_map. split.
  - intros [[t c'] [Hin H]]. destruct (idx_of nodes t) as [i|] eqn:E; [|contradiction].
    destruct H as [H|[]]. inversion H; subst. exists t. split; [exact Hin | exact E].
  - intros [t [Hin E]]. exists (t, c). split; [exact Hin|]. rewrite E. left. reflexivity.
Qed.

Lemma row_entries_nodup nodes l : SSorted key_ltb nodes ->
  NoDup (map fst l) -> NoDup (map fst (row_entries nodes l)).
Proof.
  intro Hs. induction l as [|[t c] l IH]; intro Hnd; [constructor|].
  cbn [map fst] in Hnd. inversion Hnd as [|? ? Hnot Hnd']; subst.
  rewrite row_entries_cons.
  destruct (idx_of nodes t) as [i|] eqn:E; cbn [app map fst]; [|apply IH; exact Hnd'].
  constructor; [|apply IH; exact Hnd'].
  intro Hin. apply in_map_iff in Hin. destruct Hin as [[j c'] [Hj Hin]]. cbn [fst] in Hj. subst j.
  apply row_entries_in in Hin. destruct Hin as [t' [Hin' E']].
  assert (t' = t).
  { unfold idx_of in E, E'. apply (key_index_of_spec _ _ Hs) in E. apply (key_index_of_spec _ _ Hs) in E'.
    congruence. }
  subst t'. apply Hnot. apply in_map_iff. exists (t, c'). split; [reflexivity | exact Hin'].
Qed.

Definition rowk (nodes : list key) (es : list edge) (k : key) : list (nat * Z) :=
  row_entries nodes (tsort (map (tgt k) (adjrow es k))).

Lemma make_rows_eq nodes es : SSorted key_ltb nodes -> (forall e, In e es -> fst e <> snd e) ->
  make_rows nodes es = Ok (map (rowk nodes es) nodes).
Proof.
  intros Hs Hl. unfold make_rows. rewrite find_adjacent_eq by assumption.
  rewrite combine_map_r, map_map. apply rsequence_map_ok.
  intros k _. cbv beta iota. rewrite preprocess_ok; [reflexivity|].
  intros e He. unfold adjrow in He. apply filter_In in He. destruct He as [He Hi].
  split; [apply Hl; exact He | exact Hi].
Qed.

(* what a preprocessed row contains *)
Lemma tgt_in k es t c : (forall x y, In (x, y) es -> ~ In (y, x) es) ->
  In (t, c) (map (tgt k) (adjrow es k)) <->
  (c = PARENT_CODE /\ In (t, k) es) \/ (c = CHILD_CODE /\ In (k, t) es).
Proof.
  intro Hasym. rewrite in_map_iff. unfold adjrow. split.
  - intros [[s o] [Ht Hin]]. apply filter_In in Hin. destruct Hin as [Hin Hinc].
    unfold tgt, inc in *. cbn [fst snd] in *.
    destruct (key_eqb k o) eqn:Eo.
    + apply key_eqb_eq in Eo. subst o. inversion Ht; subst. left. split; [reflexivity | exact Hin].
    + rewrite (key_eqb_sym o k), Eo, orb_false_r in Hinc. apply key_eqb_eq in Hinc. subst s.
      inversion Ht; subst. right. split; [reflexivity | exact Hin].
  - intros [[Hc Hin]|[Hc Hin]]; subst c.
    + exists (t, k). unfold tgt, inc. cbn [fst snd]. rewrite key_eqb_refl. split; [reflexivity|].
      apply filter_In. split; [exact Hin|]. cbn [fst snd]. rewrite key_eqb_refl. apply orb_true_r.
    + exists (k, t). unfold tgt, inc. cbn [fst snd].
      assert (Hkt : key_eqb k t = false).
      { apply key_eqb_neq. intro Hx. subst t. exact (Hasym k k Hin Hin). }
      rewrite Hkt. split; [reflexivity|].
      apply filter_In. split; [exact Hin|]. cbn [fst snd]. rewrite key_eqb_refl. reflexivity.
Qed.

Lemma tgt_nodup k es : NoDup es -> (forall x y, In (x, y) es -> ~ In (y, x) es) ->
  NoDup (map fst (map (tgt k) (adjrow es k))).
Proof.
  intros Hnd Hasym. rewrite map_map. apply NoDup_map_inj_in.
  - unfold adjrow. apply NoDup_filter. exact Hnd.
  - intros [s1 o1] [s2 o2] H1 H2. unfold adjrow in H1, H2.
    apply filter_In in H1, H2. destruct H1 as [H1 I1], H2 as [H2 I2].
    unfold tgt, inc in *. cbn [fst snd] in *.
    rewrite (key_eqb_sym o1 k) in I1. rewrite (key_eqb_sym o2 k) in I2.
    destruct (key_eqb k o1) eqn:E1, (key_eqb k o2) eqn:E2; cbn [fst snd]; intro Heq.
    + apply key_eqb_eq in E1, E2. congruence.
    + rewrite orb_false_r in I2. apply key_eqb_eq in E1, I2. subst o1 s2 s1.
      exfalso. exact (Hasym _ _ H1 H2).
    + rewrite orb_false_r in I1. apply key_eqb_eq in E2, I1. subst o2 s1 s2.
      exfalso. exact (Hasym _ _ H1 H2).
    + rewrite orb_false_r in I1, I2. apply key_eqb_eq in I1, I2. congruence.
Qed.

(* ---------- flattening rows into (indptr, cols, vals) ---------- *)
Definition off {A} (L : list (list A)) (i : nat) : nat := length (concat (firstn i L)).

Lemma off_0 {A} (L : list (list A)) : off L 0 = 0.
Proof. reflexivity. Qed.

Lemma off_nil {A} i : off (@nil (list A)) i = 0.
Proof. unfold off. rewrite firstn_nil. reflexivity. Qed.

Lemma off_cons {A} (a : list A) L i : off (a :: L) (S i) = length a + off L i.
Proof. unfold off. rewrite firstn_cons. cbn [concat]. apply app_length. Qed.

Lemma off_mono {A} (L : list (list A)) : forall i j, i <= j -> off L i <= off L j.
Proof.
  induction L as [|a L IH]; intros i j Hij.
  - rewrite !off_nil. lia.
  - destruct i as [|i]; [rewrite off_0; lia|]. destruct j as [|j]; [lia|].
    rewrite !off_cons. specialize (IH i j). lia.
Qed.

Lemma off_all {A} (L : list (list A)) : off L (length L) = length (concat L).
Proof. unfold off. rewrite firstn_all. reflexivity. Qed.

Lemma off_map {A B} (f : A -> B) (L : list (list A)) : forall i, off (map (map f) L) i = off L i.
Proof.
  induction L as [|a L IH]; intro i; cbn [map].
  - rewrite !off_nil. reflexivity.
  - destruct i as [|i]; [reflexivity|]. rewrite !off_cons, map_length, IH. reflexivity.
Qed.

Lemma inc_indptr_length L : forall acc, length (indptr_from acc L) = S (length L).
Proof.
  induction L as [|a L IH]; intro acc; cbn [indptr_from length]; [reflexivity|].
  rewrite IH. reflexivity.
Qed.

Lemma inc_indptr_nth L : forall acc i, i <= length L -> nth i (indptr_from acc L) 0 = acc + off L i.
Proof.
  induction L as [|a L IH]; intros acc i Hi; cbn [length] in Hi.
  - assert (i = 0) by lia. subst i. cbn [indptr_from nth]. rewrite off_0. lia.
  - destruct i as [|i]; cbn [indptr_from nth]; [rewrite off_0; lia|].
    rewrite IH by lia. rewrite off_cons. lia.
Qed.

Lemma slice_concat {A} (L : list (list A)) : forall i, i < length L ->
  slice (concat L) (off L i) (off L (S i)) = nth i L [].
Proof.
  induction L as [|a L IH]; intros i Hi; cbn [length] in Hi; [lia|].
  destruct i as [|i].
  - rewrite off_cons, !off_0. unfold slice. cbn [concat nth skipn].
    rewrite Nat.add_0_r, Nat.sub_0_r, firstn_app, Nat.sub_diag, firstn_all. cbn [firstn].
    apply app_nil_r.
  - rewrite !off_cons. cbn [concat nth]. unfold slice.
    replace (length a + off L (S i) - (length a + off L i)) with (off L (S i) - off L i) by lia.
    rewrite skipn_app, skipn_all2 by lia. cbn [app].
    replace (length a + off L i - length a) with (off L i) by lia.
    apply IH. lia.
Qed.

Lemma csr_row_cols rows n i : i < length rows ->
  row_cols (csr_of_rows rows n) i = map fst (nth i rows []).
Proof.
  intro Hi. unfold row_cols, row_start, row_end, csr_of_rows. cbn [indptr cols].
  rewrite !inc_indptr_nth by (rewrite map_length; lia). rewrite !Nat.add_0_l.
  rewrite slice_concat by (rewrite map_length; exact Hi).
  exact (map_nth (map fst) rows [] i).
Qed.

Lemma csr_row_vals rows n i : i < length rows ->
  row_vals (csr_of_rows rows n) i = map snd (nth i rows []).
Proof.
  intro Hi. unfold row_vals, row_start, row_end, csr_of_rows. cbn [indptr vals].
  rewrite !inc_indptr_nth by (rewrite map_length; lia). rewrite !Nat.add_0_l.
  rewrite !(off_map (@fst nat Z)). rewrite <- !(off_map (@snd nat Z) rows).
  rewrite slice_concat by (rewrite map_length; exact Hi).
  exact (map_nth (map snd) rows [] i).
Qed.

Lemma concat_map_length {A B C} (f : A -> B) (g : A -> C) (L : list (list A)) :
  length (concat (map (map f) L)) = length (concat (map (map g) L)).
Proof.
  induction L as [|a L IH]; cbn [map concat]; [reflexivity|].
  rewrite !app_length, !map_length, IH. reflexivity.
Qed.

Lemma csr_of_rows_wf rows n : length rows = n ->
  (forall i, i < n -> NoDup (map fst (nth i rows []))) ->
  (forall i c, i < n -> In c (map fst (nth i rows [])) -> c < n) ->
  WF Z (csr_of_rows rows n).
Proof.
  intros Hlen Hnd Hrg.
  assert (Hl : length (map (map (@fst nat Z)) rows) = n) by (rewrite map_length; exact Hlen).
  constructor.
  - unfold csr_of_rows. cbn [indptr nrows]. rewrite inc_indptr_length, Hl. reflexivity.
  - unfold csr_of_rows. cbn [indptr]. rewrite inc_indptr_nth by lia. rewrite off_0. reflexivity.
  - unfold csr_of_rows. cbn [indptr nrows]. intros i j Hij Hj.
    rewrite !inc_indptr_nth by lia. rewrite !Nat.add_0_l. apply off_mono. exact Hij.
  - unfold csr_of_rows. cbn [indptr nrows cols]. rewrite inc_indptr_nth by lia.
    rewrite Nat.add_0_l, <- Hl. apply off_all.
  - unfold csr_of_rows. cbn [vals cols]. apply concat_map_length.
  - intros r c Hr Hc. cbn [csr_of_rows nrows] in Hr. unfold csr_of_rows in Hr. cbn [nrows] in Hr.
    rewrite csr_row_cols in Hc by lia. cbn [csr_of_rows ncols]. unfold csr_of_rows. cbn [ncols].
    eapply Hrg; eassumption.
  - intros r Hr. unfold csr_of_rows in Hr. cbn [nrows] in Hr.
    rewrite csr_row_cols by lia. apply Hnd. exact Hr.
Qed.

Lemma csr_of_rows_nz rows n :
  (forall i j c, i < length rows -> In (j, c) (nth i rows []) -> c <> 0%Z) ->
  NZ Z 0%Z (csr_of_rows rows n).
Proof.
  intros H v Hv. unfold csr_of_rows in Hv. cbn [vals] in Hv.
  apply in_concat in Hv. destruct Hv as [l [Hl Hvl]].
  apply in_map_iff in Hl. destruct Hl as [r [Hr Hrin]]. subst l.
  apply in_map_iff in Hvl. destruct Hvl as [[j c] [Hc Hjc]]. cbn [snd] in Hc. subst c.
  destruct (In_nth _ _ [] Hrin) as [i [Hi Hnth]]. subst r.
  eapply H; eassumption.
Qed.

Lemma csr_den_in rows n i j c : WF Z (csr_of_rows rows n) -> length rows = n -> i < n ->
  In (j, c) (nth i rows []) -> den Z 0%Z (csr_of_rows rows n) i j = c.
Proof.
  intros Hwf Hlen Hi Hin. destruct (In_nth_error _ _ Hin) as [p Hp].
  apply (den_stored Z 0%Z _ i j p c Hwf).
  - unfold csr_of_rows. cbn [nrows]. exact Hi.
  - rewrite csr_row_cols by lia. apply (map_nth_error fst _ _ Hp).
  - rewrite csr_row_vals by lia. apply (map_nth_error snd _ _ Hp).
Qed.

Lemma csr_den_notin rows n i j : i < length rows ->
  ~ In j (map fst (nth i rows [])) -> den Z 0%Z (csr_of_rows rows n) i j = 0%Z.
Proof.
  intros Hi Hn. apply den_absent. rewrite csr_row_cols by exact Hi. exact Hn.
Qed.

(* the columns carrying a non-zero code are exactly the stored entries with that code *)
Lemma mg_cols_rows nodes root rows code i :
  let n := length nodes in
  length rows = n -> WF Z (csr_of_rows rows n) -> NZ Z 0%Z (csr_of_rows rows n) ->
  i < n -> code <> 0%Z ->
  NoDup (mg_cols (mkMGraph nodes root (csr_of_rows rows n)) code i) /\
  forall j, In j (mg_cols (mkMGraph nodes root (csr_of_rows rows n)) code i) <->
            In (j, code) (nth i rows []).
Proof.
  intros n Hlen Hwf Hnz Hi Hcode. unfold mg_cols. cbn [mg_adj].
  destruct (col_indices_spec Z Z.eqb 0%Z Z.eqb_eq (csr_of_rows rows n) (Z.of_nat i) code Hwf Hnz)
    as [l [Hl [Hnd Hin]]].
  { unfold csr_of_rows. cbn [nrows]. lia. }
  rewrite Hl. split; [exact Hnd|]. intro j. rewrite Hin, Nat2Z.id. split.
  - intros [Hj Hd].
    destruct (in_dec Nat.eq_dec j (map fst (nth i rows []))) as [Hjin|Hjn].
    + apply in_map_iff in Hjin. destruct Hjin as [[j' c] [Hj' Hjc]]. cbn [fst] in Hj'. subst j'.
      rewrite (csr_den_in rows n i j c Hwf Hlen Hi Hjc) in Hd. subst c. exact Hjc.
    + rewrite csr_den_notin in Hd by (try lia; exact Hjn). congruence.
  - intro Hjc. split.
    + apply (wf_range Z _ Hwf i j).
      * unfold csr_of_rows. cbn [nrows]. exact Hi.
      * rewrite csr_row_cols by lia. apply in_map_iff. exists (j, code). split; [reflexivity | exact Hjc].
    + apply csr_den_in; assumption.
Qed.

(* ---------- the rows of the factory ---------- *)
Lemma nodes_of_mentions E x : In x (nodes_of E) <-> mentions E x.
Proof.
  unfold nodes_of, mentions. rewrite key_sort_in, in_flat_map. split.
  - intros [[s o] [He Hx]]. cbn [fst snd In] in Hx. destruct Hx as [Hx|[Hx|[]]]; subst x.
    + exists o. left. exact He.
    + exists s. right. exact He.
  - intros [y [He|He]].
    + exists (x, y). split; [exact He | left; reflexivity].
    + exists (y, x). split; [exact He | right; left; reflexivity].
Qed.

Lemma rowk_in E i j c :
  NoDup E -> (forall x y, In (x, y) E -> ~ In (y, x) E) ->
  let nodes := nodes_of E in
  i < length nodes ->
  In (j, c) (rowk nodes E (nth i nodes key0)) <->
  (j < length nodes /\
   ((c = PARENT_CODE /\ In (nth j nodes key0, nth i nodes key0) E) \/
    (c = CHILD_CODE /\ In (nth i nodes key0, nth j nodes key0) E))).
Proof.
  intros Hnd Hasym nodes Hi.
  assert (Hs : SSorted key_ltb nodes) by apply key_sort_sorted.
  unfold rowk. rewrite row_entries_in. split.
  - intros [t [Hin Hidx]].
    apply (Permutation_in _ (tsort_perm _)) in Hin. apply (tgt_in _ _ _ _ Hasym) in Hin.
    unfold idx_of in Hidx. pose proof (key_index_of_lt _ _ _ Hs Hidx) as Hj.
    apply (key_index_of_spec _ _ Hs) in Hidx.
    rewrite (nth_error_nth' nodes key0 Hj) in Hidx. inversion Hidx as [Ht].
    split; [exact Hj|]. rewrite Ht. exact Hin.
  - intros [Hj Hin]. exists (nth j nodes key0). split.
    + apply (Permutation_in _ (Permutation_sym (tsort_perm _))). apply (tgt_in _ _ _ _ Hasym). exact Hin.
    + unfold idx_of. apply (key_index_of_spec _ _ Hs). apply nth_error_nth'. exact Hj.
Qed.

Lemma rowk_nodup E k : NoDup E -> (forall x y, In (x, y) E -> ~ In (y, x) E) ->
  NoDup (map fst (rowk (nodes_of E) E k)).
Proof.
  intros Hnd Hasym. unfold rowk. apply row_entries_nodup; [apply key_sort_sorted|].
  apply (Permutation_NoDup (Permutation_sym (Permutation_map fst (tsort_perm _)))).
  apply tgt_nodup; assumption.
Qed.

(* for ANY duplicate-free edge list without 2-cycles: partitioning (with the last-source cache),
   per-row preprocessing, sorting by TermId and index lookup never raise and give a valid CSR matrix
   whose +1 / -1 columns are the parents / children *)
Theorem inc_rows_ok E :
  NoDup E -> (forall x y, In (x, y) E -> ~ In (y, x) E) ->
  let nodes := nodes_of E in
  exists rows, make_rows nodes E = Ok rows /\
    forall root, MGraphOK E root (mkMGraph nodes root (csr_of_rows rows (length nodes))).
Proof.
  intros Hnd Hasym nodes.
  assert (Hs : SSorted key_ltb nodes) by apply key_sort_sorted.
  assert (Hloop : forall e, In e E -> fst e <> snd e).
  { intros [x y] He Heq. cbn [fst snd] in Heq. subst y. exact (Hasym x x He He). }
  exists (map (rowk nodes E) nodes). split; [apply make_rows_eq; assumption|].
  intro root.
  set (rows := map (rowk nodes E) nodes). set (n := length nodes).
  assert (Hlen : length rows = n) by (unfold rows; apply map_length).
  assert (Hrow : forall i, i < n -> nth i rows [] = rowk nodes E (nth i nodes key0)).
  { intros i Hi. unfold rows. rewrite (nth_indep _ [] (rowk nodes E key0)) by (rewrite map_length; exact Hi).
    apply map_nth. }
  assert (Hin : forall i j c, i < n -> In (j, c) (nth i rows []) <->
            (j < n /\ ((c = PARENT_CODE /\ In (nth j nodes key0, nth i nodes key0) E) \/
                       (c = CHILD_CODE /\ In (nth i nodes key0, nth j nodes key0) E)))).
  { intros i j c Hi. rewrite (Hrow i Hi). apply (rowk_in E i j c Hnd Hasym Hi). }
  assert (Hwf : WF Z (csr_of_rows rows n)).
  { apply csr_of_rows_wf; [exact Hlen | |].
    - intros i Hi. rewrite (Hrow i Hi). apply rowk_nodup; assumption.
    - intros i c Hi Hc. apply in_map_iff in Hc. destruct Hc as [[j v] [Hj Hjv]]. cbn [fst] in Hj. subst j.
      apply (Hin i c v Hi) in Hjv. tauto. }
  assert (Hnz : NZ Z 0%Z (csr_of_rows rows n)).
  { apply csr_of_rows_nz. intros i j c Hi Hjc. rewrite Hlen in Hi. apply (Hin i j c Hi) in Hjc.
    unfold PARENT_CODE, CHILD_CODE in Hjc. destruct Hjc as [_ [[Hc _]|[Hc _]]]; subst c; discriminate. }
  subst n. constructor; [|reflexivity]. cbn [mg_nodes]. constructor.
  - exact Hs.
  - apply nodes_of_mentions.
  - intros i Hi.
    destruct (mg_cols_rows nodes root rows CHILD_CODE i Hlen Hwf Hnz Hi) as [Hnd' Hiff];
      [unfold CHILD_CODE; discriminate|].
    split; [exact Hnd'|]. intro j. rewrite Hiff, (Hin i j CHILD_CODE Hi).
    unfold CHILD_CODE, PARENT_CODE. split.
    + intros [Hj [[Hc _]|[_ He]]]; [discriminate Hc | split; assumption].
    + intros [Hj He]. split; [exact Hj | right; split; [reflexivity | exact He]].
  - intros i Hi.
    destruct (mg_cols_rows nodes root rows PARENT_CODE i Hlen Hwf Hnz Hi) as [Hnd' Hiff];
      [unfold PARENT_CODE; discriminate|].
    split; [exact Hnd'|]. intro j. rewrite Hiff, (Hin i j PARENT_CODE Hi).
    unfold CHILD_CODE, PARENT_CODE. split.
    + intros [Hj [[_ He]|[Hc _]]]; [split; assumption | discriminate Hc].
    + intros [Hj He]. split; [exact Hj | left; split; [reflexivity | exact He]].
Qed.

Theorem inc_factory_ok es E root :
  find_root (dedup_edges es) = Ok (root, E) -> FrontOK es E root ->
  exists g, inc_factory es = Ok g /\ MGraphOK E root g.
Proof.
  intros Hroot Hfo.
  assert (Hasym : forall x y, In (x, y) E -> ~ In (y, x) E).
  { intros x y Hxy Hyx. apply (fo_acyclic es E root Hfo x).
    apply t_trans with y; apply t_step; assumption. }
  destruct (inc_rows_ok E (fo_nodup es E root Hfo) Hasym) as [rows [Hrows Hok]].
  unfold inc_factory. rewrite Hroot. cbn [bind]. rewrite Hrows. cbn [bind].
  eexists. split; [reflexivity | apply Hok].
Qed.

Print Assumptions inc_rows_ok.
Print Assumptions inc_factory_ok.
