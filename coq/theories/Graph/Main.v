(* Assembly: for every shipped factory, a graph built from a well-formed edge list answers every
   API call as the declarative specification of Graph/Spec.v says (in terms of the INPUT edges). *)
From Coq Require Import String List Bool Arith ZArith Lia Sorted Permutation Relations Relation_Operators Operators_Properties.
From Hpotk Require Import Base.Result Base.Str Base.Ord TermId.Model TermId.Proofs Csr.Model
  Graph.Worklist Graph.Model Graph.Spec Graph.Acyclic Graph.Front Graph.FactIdx Graph.FactInc Graph.FactBld
  Graph.ApiI Graph.ApiM.
Import ListNotations.
Open Scope list_scope.

(* what the properties assume of an input edge list *)
Definition WfInput (es : list edge) : Prop := es <> [] /\ acyclic es /\ ~ mentions es owl_thing.

Lemma clos_trans_ext {A} (R S : A -> A -> Prop) :
  (forall a b, R a b <-> S a b) -> forall x y, clos_trans A R x y <-> clos_trans A S x y.
Proof.
  intro H. assert (forall (P Q : A -> A -> Prop), (forall a b, P a b -> Q a b) -> forall x y, clos_trans A P x y -> clos_trans A Q x y) as M.
  { intros P Q HPQ x y Hc. induction Hc as [x y Hs | x y z _ IH1 _ IH2]; [apply t_step; apply HPQ; exact Hs | eapply t_trans; eassumption]. }
  intros x y. split; apply M; intros a b; apply H.
Qed.

Lemma relE_rel es E : Eff es E -> forall q x y, relE E q x y <-> rel es q x y.
Proof.
  intros He q x y. destruct q; cbn [relE rel].
  - apply He.
  - apply He.
  - unfold ancestor. apply clos_trans_ext. intros a b. apply He.
  - unfold ancestor. apply clos_trans_ext. intros a b. apply He.
Qed.

(* every factory succeeds on a well-formed input and delivers a graph with the right rows *)
Theorem create_ok f es : WfInput es ->
  exists root E g, FrontOK es E root /\ create f es = Ok g /\ GraphOK E root g.
Proof.
  intros (Hne & Hac & Hno). destruct (front_ok es Hne Hac Hno) as (root & E & Hfr & HF).
  exists root, E. destruct f; cbn [create].
  - destruct (idx_factory_ok es E root Hfr HF) as (g & Hg & Hok). exists (GI g). rewrite Hg. cbn. auto.
  - destruct (inc_factory_ok es E root Hfr HF) as (g & Hg & Hok). exists (GM g). rewrite Hg. cbn. auto.
  - destruct (bld_factory_ok es E root Hfr HF) as (g & Hg & Hok). exists (GM g). rewrite Hg. cbn. auto.
Qed.

(* an input without any parentless term (empty, or every term has a parent: cyclic) is rejected *)
Theorem create_rejects f es : (forall p, ~ parentless es p) -> create f es = Err ValueError.
Proof.
  intro H. pose proof (front_err es H) as Hf. destruct f; cbn [create]; unfold idx_factory, inc_factory, bld_factory; rewrite Hf; reflexivity.
Qed.

(* ---------- the API of a graph with the right rows, uniformly over both graph classes ---------- *)
Section Api.
Variable E : list edge.
Variable root : key.
Variable g : graph.
Hypothesis HG : GraphOK E root g.
Hypothesis HA : acyclic E.

Theorem g_query_spec q a x incl : denotes a x ->
  (mentions E x ->
     exists l, g_query g q a incl = Ok l /\ NoDup l /\
       forall y, In y l <-> (relE E q x y \/ (incl = true /\ y = x))) /\
  (~ mentions E x -> g_query g q a incl = Err ValueError).
Proof.
  destruct g as [ig|mg]; cbn [GraphOK] in HG.
  - apply (ig_query_spec E root ig HG HA).
  - apply (mg_query_spec E root mg HG HA).
Qed.

Theorem g_query_malformed q a incl : malformed a -> g_query g q a incl = Err ValueError.
Proof.
  destruct g as [ig|mg]; [apply ig_query_malformed | apply mg_query_malformed].
Qed.

Theorem g_pred_spec q sa oa s o : denotes sa s -> denotes oa o ->
  (mentions E o -> mentions E s ->
     exists b, g_pred g q sa oa = Ok b /\ (b = true <-> relE E q o s)) /\
  (mentions E o -> ~ mentions E s -> g_pred g q sa oa = Ok false) /\
  (~ mentions E o -> g_pred g q sa oa = Err ValueError).
Proof.
  destruct g as [ig|mg]; cbn [GraphOK] in HG.
  - apply (ig_pred_spec E root ig HG).
  - apply (mg_pred_spec E root mg HG HA).
Qed.

Theorem g_pred_malformed q sa oa : malformed sa \/ malformed oa -> g_pred g q sa oa = Err ValueError.
Proof.
  destruct g as [ig|mg]; [apply ig_pred_malformed | apply mg_pred_malformed].
Qed.

Theorem g_leaf_spec a x : denotes a x ->
  (mentions E x -> exists b, g_is_leaf g a = Ok b /\ (b = true <-> forall y, ~ In (y, x) E)) /\
  (~ mentions E x -> g_is_leaf g a = Err ValueError).
Proof.
  destruct g as [ig|mg]; cbn [GraphOK] in HG.
  - apply (ig_leaf_spec E root ig HG).
  - apply (mg_leaf_spec E root mg HG).
Qed.

Theorem g_leaf_malformed a : malformed a -> g_is_leaf g a = Err ValueError.
Proof.
  destruct g as [ig|mg]; [apply ig_leaf_malformed | apply mg_leaf_malformed].
Qed.

Theorem g_nodes_spec : NoDup (g_nodes g) /\ forall x, In x (g_nodes g) <-> mentions E x.
Proof.
  destruct g as [ig|mg]; cbn [GraphOK g_nodes] in *.
  - apply (ig_nodes_spec E root ig HG).
  - apply (mg_nodes_spec E root mg HG).
Qed.

Theorem g_root_spec : g_root g = Ok root.
Proof.
  destruct g as [ig|mg]; cbn [GraphOK] in HG.
  - cbn [g_root]. apply (ig_root_spec E root ig HG).
  - apply (mg_root_spec E root mg HG).
Qed.

Theorem g_contains_spec x : g_contains g x = true <-> mentions E x.
Proof.
  destruct g as [ig|mg]; cbn [GraphOK g_contains] in *.
  - apply (ig_contains_spec E root ig HG).
  - apply (mg_contains_spec E root mg HG).
Qed.
End Api.

(* the three argument forms are interchangeable in every method: they are normalised to the same
   term id before anything else happens *)
Lemma denotes_map a x : denotes a x -> map_to_term_id a = Ok x.
Proof. intro H. destruct H as [s t Hs|k|k]; cbn; [rewrite Hs; reflexivity | reflexivity | reflexivity]. Qed.

Theorem arg_forms_query g q a x incl : denotes a x -> g_query g q a incl = g_query g q (ATid x) incl.
Proof.
  intro H. pose proof (denotes_map a x H) as Hm.
  destruct g as [ig|mg]; destruct q; cbn [g_query];
    unfold ig_parents, ig_children, ig_ancestors, ig_descendants, ig_map_with, ig_map_to_term_idx,
           mg_parents, mg_children, mg_ancestors, mg_descendants; rewrite Hm; reflexivity.
Qed.

Theorem arg_forms_leaf g a x : denotes a x -> g_is_leaf g a = g_is_leaf g (ATid x).
Proof.
  intro H. pose proof (denotes_map a x H) as Hm.
  destruct g as [ig|mg]; cbn [g_is_leaf]; unfold ig_is_leaf, ig_map_to_term_idx, mg_is_leaf; rewrite Hm; reflexivity.
Qed.

Theorem arg_forms_pred g q sa oa s o : denotes sa s -> denotes oa o ->
  g_pred g q sa oa = g_pred g q (ATid s) (ATid o).
Proof.
  intros Hs Ho. pose proof (denotes_map sa s Hs) as Ms. pose proof (denotes_map oa o Ho) as Mo.
  destruct g as [ig|mg]; destruct q; cbn [g_pred];
    unfold ig_is_parent_of, ig_is_child_of, ig_is_ancestor_of, ig_is_descendant_of, ig_pred, ig_map_to_term_idx,
           mg_is_parent_of, mg_is_child_of, mg_is_ancestor_of, mg_is_descendant_of, mg_run_query;
    rewrite Ms, Mo; reflexivity.
Qed.
