(* CsrGraphFactory (via CsrMatrixBuilder) builds a signed adjacency matrix that presents the right rows. *)
From Coq Require Import String List Bool Arith ZArith Lia Sorted Permutation Relations.
From Hpotk Require Import Base.Result Base.Str Base.Ord TermId.Model TermId.Proofs Csr.Model Csr.Proofs
  Graph.Worklist Graph.Model Graph.Spec.
Import ListNotations.
Open Scope list_scope.

(* ---------- the dict lookup ---------- *)
Lemma kpos_nth nodes x : forall i, kpos x nodes = Some i -> nth_error nodes i = Some x.
Proof.
  induction nodes as [|y r IH]; intros i H; cbn [kpos] in H; [discriminate|].
  destruct (key_eqb x y) eqn:E.
  - apply key_eqb_eq in E. subst y. injection H as <-. reflexivity.
  - destruct (kpos x r) as [k|] eqn:K; cbn [option_map] in H; [|discriminate].
    injection H as <-. cbn [nth_error]. apply IH. reflexivity.
Qed.

Lemma kpos_lt nodes x i : kpos x nodes = Some i -> i < length nodes.
Proof. intro H. apply kpos_nth in H. apply nth_error_Some. congruence. Qed.

Lemma kpos_in nodes x : In x nodes -> exists i, kpos x nodes = Some i.
Proof.
  induction nodes as [|y r IH]; intro H; [destruct H|].
  cbn [kpos]. destruct (key_eqb x y) eqn:E; [exists 0; reflexivity|].
  destruct H as [H|H].
  - subst y. assert (key_eqb x x = true) as X by (apply key_eqb_eq; reflexivity). congruence.
  - destruct (IH H) as [k Hk]. rewrite Hk. exists (S k). reflexivity.
Qed.

(* dict lookup {node: i} over a duplicate-free node array = position *)
Lemma kpos_spec nodes x : NoDup nodes -> forall i, kpos x nodes = Some i <-> nth_error nodes i = Some x.
Proof.
  intros Hnd i. split; [apply kpos_nth|].
  revert i. induction Hnd as [|y r Hy Hr IH]; intros i H.
  - destruct i; discriminate.
  - cbn [kpos]. destruct (key_eqb x y) eqn:E.
    + apply key_eqb_eq in E. subst y. destruct i as [|k]; [reflexivity|].
      cbn [nth_error] in H. exfalso. apply Hy. eapply nth_error_In. exact H.
    + destruct i as [|k].
      * cbn [nth_error] in H. injection H as ->.
        assert (key_eqb x x = true) as X by (apply key_eqb_eq; reflexivity). congruence.
      * cbn [nth_error] in H. rewrite (IH k H). reflexivity.
Qed.

Lemma kpos_none nodes x : kpos x nodes = None <-> ~ In x nodes.
Proof.
  split.
  - intros H Hi. destruct (kpos_in nodes x Hi) as [i Hi']. congruence.
  - intro H. destruct (kpos x nodes) as [i|] eqn:E; [|reflexivity].
    exfalso. apply H. eapply nth_error_In. apply kpos_nth. exact E.
Qed.

(* position s of x coincides with i exactly when x is the i-th node *)
Lemma kpos_eq_iff nodes x s i : NoDup nodes -> kpos x nodes = Some s -> i < length nodes ->
  (s = i <-> x = nth i nodes key0).
Proof.
  intros Hnd Hs Hi. split.
  - intros <-. apply kpos_nth in Hs. symmetry. apply nth_error_nth. exact Hs.
  - intros ->. pose proof (nth_error_nth' nodes key0 Hi) as H.
    apply (kpos_spec nodes _ Hnd) in H. congruence.
Qed.

Lemma check_bounds_ok s t R C : s < R -> t < C ->
  check_bounds (Z.of_nat s) (Z.of_nat t) R C = Ok (s, t).
Proof.
  intros Hs Ht. unfold check_bounds, in_range.
  assert ((0 <=? Z.of_nat s)%Z = true) as -> by (apply Z.leb_le; lia).
  assert ((Z.of_nat s <? Z.of_nat R)%Z = true) as -> by (apply Z.ltb_lt; lia).
  assert ((0 <=? Z.of_nat t)%Z = true) as -> by (apply Z.leb_le; lia).
  assert ((Z.of_nat t <? Z.of_nat C)%Z = true) as -> by (apply Z.ltb_lt; lia).
  cbn [andb]. rewrite !Nat2Z.id. reflexivity.
Qed.

(* ---------- the dense matrix denoted by the builder assignments ---------- *)
Lemma dense_of_snoc2 {V} (zero : V) R C ops a b :
  dense_of zero R C (ops ++ [a; b]) = dense_step R C (dense_step R C (dense_of zero R C ops) a) b.
Proof. unfold dense_of. rewrite fold_left_app. reflexivity. Qed.

Lemma bld_ops_snoc nodes E x y s t : kpos x nodes = Some s -> kpos y nodes = Some t ->
  bld_ops nodes (E ++ [(x, y)]) =
  bld_ops nodes E ++ [(Z.of_nat s, Z.of_nat t, CHILD_CODE); (Z.of_nat t, Z.of_nat s, PARENT_CODE)].
Proof.
  intros Hs Ht. unfold bld_ops. rewrite flat_map_app. cbn [flat_map fst snd].
  rewrite Hs, Ht, app_nil_r. reflexivity.
Qed.

Section Dense.
Variable nodes : list key.
Hypothesis Hnd : NoDup nodes.
Let n := length nodes.
Let nd (i : nat) : key := nth i nodes key0.

Lemma bld_dense E :
  (forall x y, In (x, y) E -> In x nodes /\ In y nodes) ->
  (forall x y, In (x, y) E -> ~ In (y, x) E) ->
  forall i j, i < n -> j < n ->
  (dense_of 0%Z n n (bld_ops nodes E) i j = CHILD_CODE <-> In (nd i, nd j) E) /\
  (dense_of 0%Z n n (bld_ops nodes E) i j = PARENT_CODE <-> In (nd j, nd i) E).
Proof.
  induction E as [|[x y] E' IH] using rev_ind; intros Hin Hasym i j Hi Hj.
  - cbn. unfold dense_zero, CHILD_CODE, PARENT_CODE. split; split; intro H; first [discriminate H | destruct H].
  - assert (Hin' : forall a b, In (a, b) E' -> In a nodes /\ In b nodes).
    { intros a b H. apply Hin. apply in_or_app. left. exact H. }
    assert (Hasym' : forall a b, In (a, b) E' -> ~ In (b, a) E').
    { intros a b H H'. apply (Hasym a b); apply in_or_app; left; assumption. }
    specialize (IH Hin' Hasym' i j Hi Hj).
    assert (Hxy : In (x, y) (E' ++ [(x, y)])) by (apply in_or_app; right; left; reflexivity).
    destruct (Hin x y Hxy) as [Hx Hy].
    destruct (kpos_in nodes x Hx) as [s Hs]. destruct (kpos_in nodes y Hy) as [t Ht].
    pose proof (kpos_lt _ _ _ Hs) as Hsn. pose proof (kpos_lt _ _ _ Ht) as Htn. fold n in Hsn, Htn.
    pose proof (kpos_eq_iff nodes x s i Hnd Hs Hi) as Hsi.
    pose proof (kpos_eq_iff nodes x s j Hnd Hs Hj) as Hsj.
    pose proof (kpos_eq_iff nodes y t i Hnd Ht Hi) as Hti.
    pose proof (kpos_eq_iff nodes y t j Hnd Ht Hj) as Htj.
    fold (nd i) in Hsi, Hti. fold (nd j) in Hsj, Htj.
    rewrite (bld_ops_snoc nodes E' x y s t Hs Ht), dense_of_snoc2.
    remember (dense_of 0%Z n n (bld_ops nodes E')) as d eqn:Hd in *.
    clear Hd.
    cbn [dense_step]. rewrite (check_bounds_ok s t n n Hsn Htn), (check_bounds_ok t s n n Htn Hsn).
    unfold dense_upd.
    (* the two In-tests on the last edge *)
    assert (Hl1 : In (nd i, nd j) (E' ++ [(x, y)]) <-> In (nd i, nd j) E' \/ (s = i /\ t = j)).
    { rewrite in_app_iff. cbn [In]. rewrite Hsi, Htj. split.
      - intros [H|[H|[]]]; [left; exact H|]. injection H as -> ->. right. split; reflexivity.
      - intros [H|[-> ->]]; [left; exact H|]. right. left. reflexivity. }
    assert (Hl2 : In (nd j, nd i) (E' ++ [(x, y)]) <-> In (nd j, nd i) E' \/ (s = j /\ t = i)).
    { rewrite in_app_iff. cbn [In]. rewrite Hsj, Hti. split.
      - intros [H|[H|[]]]; [left; exact H|]. injection H as -> ->. right. split; reflexivity.
      - intros [H|[-> ->]]; [left; exact H|]. right. left. reflexivity. }
    assert (Hexcl : In (nd i, nd j) (E' ++ [(x, y)]) -> In (nd j, nd i) (E' ++ [(x, y)]) -> False).
    { intros H1 H2. exact (Hasym _ _ H1 H2). }
    destruct IH as [IH1 IH2].
    destruct (Nat.eqb_spec i t) as [Eit|Eit]; destruct (Nat.eqb_spec j s) as [Ejs|Ejs]; cbn [andb].
    1:{ (* the cell written last: -1 *)
      assert (H2 : In (nd j, nd i) (E' ++ [(x, y)])) by (apply Hl2; right; split; congruence).
      unfold CHILD_CODE, PARENT_CODE. split; split; intro H; try discriminate; try reflexivity; try exact H2.
      exfalso. exact (Hexcl H H2). }
    all: destruct (Nat.eqb_spec i s) as [Eis|Eis]; destruct (Nat.eqb_spec j t) as [Ejt|Ejt]; cbn [andb].
    (* cells not written by the last edge keep their value *)
    all: try (rewrite Hl1, Hl2, IH1, IH2; split; split; intro H; try (left; exact H);
              destruct H as [H|[H1 H2]]; try exact H; exfalso; congruence).
    (* the cell written first: +1 *)
    all: assert (H1 : In (nd i, nd j) (E' ++ [(x, y)])) by (apply Hl1; right; split; congruence).
    all: unfold CHILD_CODE, PARENT_CODE; split; split; intro H; try discriminate; try reflexivity; try exact H1.
    all: exfalso; exact (Hexcl H1 H).
Qed.
End Dense.

(* every value the factory assigns is one of the two non-zero codes *)
Lemma bld_ops_nz nodes E r c v : In (r, c, v) (bld_ops nodes E) -> v <> 0%Z.
Proof.
  unfold bld_ops. intro H. apply in_flat_map in H. destruct H as [e [_ H]].
  destruct (kpos (fst e) nodes) as [s|]; [|destruct H].
  destruct (kpos (snd e) nodes) as [t|]; [|destruct H].
  destruct H as [H|[H|[]]]; injection H as _ _ <-; discriminate.
Qed.

Lemma nodes_of_in E x : In x (nodes_of E) <-> mentions E x.
Proof.
  unfold nodes_of, mentions. rewrite key_sort_in, in_flat_map. split.
  - intros [[a b] [He Hx]]. cbn [fst snd In] in Hx. destruct Hx as [<-|[<-|[]]].
    + exists b. left. exact He.
    + exists a. right. exact He.
  - intros [y [H|H]].
    + exists (x, y). split; [exact H|]. left. reflexivity.
    + exists (y, x). split; [exact H|]. right. left. reflexivity.
Qed.

(* _get_cols_with_relationship on the built matrix reads the dense matrix of the assignments *)
Lemma bld_cols_spec nodes root ops code i :
  (forall r c v, In (r, c, v) ops -> v <> 0%Z) ->
  let n := length nodes in
  let g := mkMGraph nodes root (run n n ops) in
  i < n ->
  NoDup (mg_cols g code i) /\
  forall j, In j (mg_cols g code i) <-> (j < n /\ dense_of 0%Z n n ops i j = code).
Proof.
  intros Hnz n g Hi.
  destruct (builder_refines_dense Z 0%Z n n ops) as ([Hwf _] & Hr & Hc & Hden & Hz).
  specialize (Hz Hnz).
  assert (Hrng : (0 <= Z.of_nat i < Z.of_nat (nrows (run n n ops)))%Z) by (rewrite Hr; lia).
  destruct (col_indices_spec Z Z.eqb 0%Z Z.eqb_eq (run n n ops) (Z.of_nat i) code Hwf Hz Hrng)
    as (l & Hl & Hnd & Hin).
  unfold mg_cols, g. cbn [mg_adj]. rewrite Hl. split; [exact Hnd|].
  intro j. rewrite Hin, Hc, Nat2Z.id. split.
  - intros [Hj H]. split; [exact Hj|]. rewrite <- (Hden i j Hi Hj). exact H.
  - intros [Hj H]. split; [exact Hj|]. rewrite (Hden i j Hi Hj). exact H.
Qed.

(* for ANY edge list without 2-cycles (duplicates would be harmless here: the builder overwrites):
   two assignments per edge leave +1 exactly at (sub, obj) and -1 exactly at (obj, sub) *)
Theorem bld_rows_ok E :
  (forall x y, In (x, y) E -> ~ In (y, x) E) ->
  let nodes := nodes_of E in
  forall root, MGraphOK E root (mkMGraph nodes root (run (length nodes) (length nodes) (bld_ops nodes E))).
Proof.
  intros Hasym nodes root.
  assert (Hs : SSorted key_ltb nodes) by apply key_sort_sorted.
  pose proof (key_sorted_nodup nodes Hs) as Hnd.
  assert (Hin : forall x y, In (x, y) E -> In x nodes /\ In y nodes).
  { intros x y H. split; apply nodes_of_in; [exists y; left | exists x; right]; exact H. }
  constructor; [|reflexivity]. cbn [mg_nodes]. constructor.
  - exact Hs.
  - apply nodes_of_in.
  - intros i Hi.
    destruct (bld_cols_spec nodes root (bld_ops nodes E) CHILD_CODE i (bld_ops_nz nodes E) Hi) as [H1 H2].
    split; [exact H1|]. intro j. rewrite H2. split.
    + intros [Hj H]. split; [exact Hj|]. apply (bld_dense nodes Hnd E Hin Hasym i j Hi Hj). exact H.
    + intros [Hj H]. split; [exact Hj|]. apply (bld_dense nodes Hnd E Hin Hasym i j Hi Hj). exact H.
  - intros i Hi.
    destruct (bld_cols_spec nodes root (bld_ops nodes E) PARENT_CODE i (bld_ops_nz nodes E) Hi) as [H1 H2].
    split; [exact H1|]. intro j. rewrite H2. split.
    + intros [Hj H]. split; [exact Hj|]. apply (bld_dense nodes Hnd E Hin Hasym i j Hi Hj). exact H.
    + intros [Hj H]. split; [exact Hj|]. apply (bld_dense nodes Hnd E Hin Hasym i j Hi Hj). exact H.
Qed.

Theorem bld_factory_ok es E root :
  find_root (dedup_edges es) = Ok (root, E) -> FrontOK es E root ->
  exists g, bld_factory es = Ok g /\ MGraphOK E root g.
Proof.
  intros Hfr Hok. unfold bld_factory. rewrite Hfr. cbn [bind].
  eexists. split; [reflexivity|]. apply bld_rows_ok.
  intros x y H1 H2. apply (fo_acyclic es E root Hok x).
  eapply t_trans; apply t_step; [exact H1 | exact H2].
Qed.

Print Assumptions kpos_spec.
Print Assumptions bld_rows_ok.
Print Assumptions bld_factory_ok.
