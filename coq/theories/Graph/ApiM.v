(* The node API of the matrix graph (BaseCsrOntologyGraph + BisectPoweredCsrOntologyGraph, with the
   generic predicates of OntologyGraph) answers what the rows say. *)
From Coq Require Import String List Bool Arith ZArith Lia Sorted Permutation Relations Relation_Operators Operators_Properties.
From Hpotk Require Import Base.Result Base.Str Base.Ord TermId.Model TermId.Proofs Csr.Model
  Graph.Worklist Graph.Model Graph.Spec.
Import ListNotations.
Open Scope list_scope.

(* ---------- the queue traversal only ever looks at successor rows of indices below n ---------- *)
Section Agree.
Variable n : nat.
Variables s1 s2 : nat -> list nat.
Hypothesis Hag : forall i, i < n -> s1 i = s2 i.
Hypothesis Hbd : forall i j, i < n -> In j (s1 i) -> j < n.

Lemma loop_agree : forall fuel seen buf out,
  (forall x, In x buf -> x < n) ->
  loop s1 pop_first fuel seen buf out = loop s2 pop_first fuel seen buf out.
Proof.
  induction fuel as [|f IH]; intros seen buf out Hb; [reflexivity|].
  cbn [loop]. destruct buf as [|cur rest]; cbn [pop_first]; [reflexivity|].
  assert (Hc : cur < n) by (apply Hb; left; reflexivity).
  rewrite <- (Hag cur Hc).
  destruct (push (s1 cur) seen rest) as [seen' buf'] eqn:Hp.
  apply IH. destruct (push_spec _ _ _ _ _ Hp) as (new & Hb' & _ & _ & Hnew & _).
  subst buf'. intros x Hx. apply in_app_or in Hx. destruct Hx as [Hx|Hx].
  - apply Hb. right. exact Hx.
  - destruct (Hnew x Hx) as [Hx' _]. eapply Hbd; eassumption.
Qed.

Lemma traverse_from_agree init : (forall x, In x init -> x < n) ->
  traverse_from n s1 pop_first init = traverse_from n s2 pop_first init.
Proof. intro Hb. unfold traverse_from. apply loop_agree. exact Hb. Qed.
End Agree.

Lemma clos_trans_flip {A} (P : A -> A -> Prop) x y :
  clos_trans A (fun a b => P b a) x y -> clos_trans A P y x.
Proof.
  intro H. induction H as [x y H | x y z _ IH1 _ IH2]; [apply t_step; exact H | eapply t_trans; eassumption].
Qed.

(* ---------- argument normalisation ---------- *)
Lemma denotes_map a x : denotes a x -> map_to_term_id a = Ok x.
Proof.
  intro H. destruct H as [s t Hs | k | k]; cbn [map_to_term_id]; [|reflexivity|reflexivity].
  rewrite Hs. reflexivity.
Qed.

Lemma malformed_map a : malformed a -> map_to_term_id a = Err ValueError.
Proof.
  intros [->|(s & -> & Hs)]; cbn [map_to_term_id]; [reflexivity|]. rewrite Hs. reflexivity.
Qed.

Lemma arg_cases a : malformed a \/ exists k, denotes a k.
Proof.
  destruct a as [s|k|k|].
  - destruct (from_curie_err s) as [He|(t & Ht)].
    + left. right. exists s. split; [reflexivity | exact He].
    + right. exists (tkey t). constructor. exact Ht.
  - right. exists k. constructor.
  - right. exists k. constructor.
  - left. left. reflexivity.
Qed.

Lemma kmem_In x l : kmem x l = true <-> In x l.
Proof.
  unfold kmem. rewrite existsb_exists. split.
  - intros (y & Hy & He). apply key_eqb_eq in He. subst y. exact Hy.
  - intro H. exists x. split; [exact H | apply key_eqb_eq; reflexivity].
Qed.

Section ApiM.
Variable E : list edge.
Variable root : key.
Variable g : mgraph.
Hypothesis HG : MGraphOK E root g.
Hypothesis HA : acyclic E.

Local Notation N := (length (mg_nodes g)).
Local Notation nd := (fun i : nat => nth i (mg_nodes g) key0).

(* binary search over the sorted node array finds exactly the nodes *)
Theorem mg_idx_for_node_spec x i : mg_idx_for_node g x = Some i <-> nth_error (mg_nodes g) i = Some x.
Proof.
  unfold mg_idx_for_node, idx_of. apply key_index_of_spec.
  apply (ro_sorted _ _ _ _ (mo_rows _ _ _ HG)).
Qed.

Theorem mg_idx_for_node_none x : mg_idx_for_node g x = None <-> ~ mentions E x.
Proof.
  unfold mg_idx_for_node, idx_of.
  rewrite key_index_of_none by apply (ro_sorted _ _ _ _ (mo_rows _ _ _ HG)).
  rewrite (ro_nodes _ _ _ _ (mo_rows _ _ _ HG)). tauto.
Qed.

Theorem mg_root_spec : g_root (GM g) = Ok root.
Proof. cbn [g_root]. rewrite (mo_root _ _ _ HG). reflexivity. Qed.

Lemma nodes_nodup : NoDup (mg_nodes g).
Proof. apply key_sorted_nodup. apply (ro_sorted _ _ _ _ (mo_rows _ _ _ HG)). Qed.

Theorem mg_nodes_spec : NoDup (mg_iter g) /\ forall x, In x (mg_iter g) <-> mentions E x.
Proof.
  unfold mg_iter. split; [exact nodes_nodup|]. apply (ro_nodes _ _ _ _ (mo_rows _ _ _ HG)).
Qed.

Theorem mg_contains_spec x : mg_contains g x = true <-> mentions E x.
Proof.
  unfold mg_contains. destruct (mg_idx_for_node g x) as [i|] eqn:Hi.
  - apply mg_idx_for_node_spec in Hi. apply nth_error_In in Hi.
    apply (ro_nodes _ _ _ _ (mo_rows _ _ _ HG)) in Hi. tauto.
  - apply mg_idx_for_node_none in Hi. split; [discriminate | contradiction].
Qed.

(* ---------- nodes and indices ---------- *)
Lemma node_inj i j : i < N -> j < N -> nd i = nd j -> i = j.
Proof. intros Hi Hj He. exact (proj1 (NoDup_nth (mg_nodes g) key0) nodes_nodup i j Hi Hj He). Qed.

Lemma mentions_idx x : mentions E x -> exists i, i < N /\ nd i = x.
Proof.
  intro Hm. apply (ro_nodes _ _ _ _ (mo_rows _ _ _ HG)) in Hm. apply In_nth. exact Hm.
Qed.

Lemma idx_mentions i : i < N -> mentions E (nd i).
Proof.
  intro Hi. apply (ro_nodes _ _ _ _ (mo_rows _ _ _ HG)). apply nth_In. exact Hi.
Qed.

Lemma idx_some x i : nth_error (mg_nodes g) i = Some x -> i < N /\ nd i = x.
Proof.
  intro H. split.
  - apply nth_error_Some. rewrite H. discriminate.
  - apply nth_error_nth. exact H.
Qed.

Lemma nodup_map_nd l : (forall y, In y l -> y < N) -> NoDup l -> NoDup (map nd l).
Proof.
  induction l as [|a l IH]; intros Hb Hnd; cbn [map]; [constructor|].
  inversion Hnd as [|? ? Hna Hnd']; subst. constructor.
  - intro Hin. apply in_map_iff in Hin. destruct Hin as (b & Hb1 & Hb2).
    assert (Hba : b = a).
    { apply node_inj; [apply Hb; right; exact Hb2 | apply Hb; left; reflexivity | exact Hb1]. }
    subst b. contradiction.
  - apply IH; [|exact Hnd']. intros y Hy. apply Hb. right. exact Hy.
Qed.

(* ---------- both directions at once ---------- *)
Definition code_of (up : bool) : Z := if up then CHILD_CODE else PARENT_CODE.
Definition R (up : bool) (a b : key) : Prop := if up then In (a, b) E else In (b, a) E.

Lemma cols_ok up i : i < N ->
  NoDup (mg_cols g (code_of up) i) /\
  forall j, In j (mg_cols g (code_of up) i) <-> (j < N /\ R up (nd i) (nd j)).
Proof.
  intro Hi. destruct up; cbn [code_of R].
  - apply (ro_par _ _ _ _ (mo_rows _ _ _ HG)). exact Hi.
  - apply (ro_chi _ _ _ _ (mo_rows _ _ _ HG)). exact Hi.
Qed.

Lemma R_mentions up a b : R up a b -> mentions E a /\ mentions E b.
Proof.
  destruct up; cbn [R]; intro H; split.
  - exists b. left. exact H.
  - exists a. right. exact H.
  - exists b. right. exact H.
  - exists a. left. exact H.
Qed.

Lemma R_irrefl up a : ~ R up a a.
Proof.
  intro H. apply (HA a). apply t_step. destruct up; exact H.
Qed.

Lemma R_clos_mentions up a b : clos_trans key (R up) a b -> mentions E a /\ mentions E b.
Proof.
  intro H. induction H as [a b H | a b c _ IH1 _ IH2].
  - eapply R_mentions; exact H.
  - split; [apply IH1 | apply IH2].
Qed.

Lemma R_clos up x y :
  clos_trans key (R up) x y <->
  (if up then clos_trans key (fun a b => In (a, b) E) x y else clos_trans key (fun a b => In (a, b) E) y x).
Proof.
  destruct up.
  - change (R true) with (fun a b => In (a, b) E). tauto.
  - change (R false) with (fun a b : key => In (b, a) E). split.
    + apply clos_trans_flip.
    + apply (clos_trans_flip (fun a b : key => In (b, a) E)).
Qed.

(* the guarded successor function *)
Definition sg (up : bool) (i : nat) : list nat := if Nat.ltb i N then mg_cols g (code_of up) i else [].

Lemma sg_lt up i : i < N -> sg up i = mg_cols g (code_of up) i.
Proof. intro Hi. unfold sg. apply Nat.ltb_lt in Hi. rewrite Hi. reflexivity. Qed.

Lemma sg_step up i j : In j (sg up i) <-> (i < N /\ j < N /\ R up (nd i) (nd j)).
Proof.
  unfold sg. destruct (Nat.ltb_spec i N) as [Hi|Hi].
  - rewrite (proj2 (cols_ok up i Hi) j). tauto.
  - cbn [In]. split; [tauto | intros (Hc & _); lia].
Qed.

Lemma sg_bound up i j : In j (sg up i) -> j < N.
Proof. intro H. apply sg_step in H. tauto. Qed.

Lemma reach_sound up i j : reach (sg up) i j -> i < N /\ j < N /\ clos_trans key (R up) (nd i) (nd j).
Proof.
  unfold reach. intro H. induction H as [i j Hs | i z j Hs Hr IH].
  - apply sg_step in Hs. destruct Hs as (Hi & Hj & Hrr).
    split; [exact Hi|]. split; [exact Hj|]. apply t_step. exact Hrr.
  - apply sg_step in Hs. destruct Hs as (Hi & Hz & Hrr). destruct IH as (_ & Hj & Hc).
    split; [exact Hi|]. split; [exact Hj|]. eapply t_trans; [apply t_step; exact Hrr | exact Hc].
Qed.

Lemma reach_complete up a b : clos_trans key (R up) a b ->
  forall i, i < N -> nd i = a -> exists j, j < N /\ nd j = b /\ reach (sg up) i j.
Proof.
  intro H. apply clos_trans_t1n in H. induction H as [a b Hs | a z b Hs Hr IH]; intros i Hi Hia.
  - destruct (R_mentions _ _ _ Hs) as [_ Hb]. destruct (mentions_idx _ Hb) as (j & Hj & Hjb).
    exists j. split; [exact Hj|]. split; [exact Hjb|]. apply t1n_step. apply sg_step.
    split; [exact Hi|]. split; [exact Hj|]. rewrite Hia, Hjb. exact Hs.
  - destruct (R_mentions _ _ _ Hs) as [_ Hz]. destruct (mentions_idx _ Hz) as (k & Hk & Hkz).
    destruct (IH k Hk Hkz) as (j & Hj & Hjb & Hrj).
    exists j. split; [exact Hj|]. split; [exact Hjb|].
    eapply Relation_Operators.t1n_trans; [|exact Hrj]. apply sg_step.
    split; [exact Hi|]. split; [exact Hk|]. rewrite Hia, Hkz. exact Hs.
Qed.

Lemma init_ok up (incl : bool) i : i < N ->
  NoDup ((if incl then [i] else []) ++ mg_cols g (code_of up) i) /\
  forall y, In y ((if incl then [i] else []) ++ mg_cols g (code_of up) i) <->
            ((incl = true /\ y = i) \/ (y < N /\ R up (nd i) (nd y))).
Proof.
  intro Hi. destruct (cols_ok up i Hi) as [Hnd Hin]. destruct incl; cbn [app].
  - split.
    + constructor; [|exact Hnd]. intro Hc. apply Hin in Hc. destruct Hc as [_ Hc].
      exact (R_irrefl _ _ Hc).
    + intro y. cbn [In]. rewrite Hin. split.
      * intros [Hy|Hy]; [left; split; [reflexivity | symmetry; exact Hy] | right; exact Hy].
      * intros [[_ Hy]|Hy]; [left; symmetry; exact Hy | right; exact Hy].
  - split; [exact Hnd|]. intro y. rewrite Hin. split; [tauto|].
    intros [[Hc _]|Hy]; [discriminate | exact Hy].
Qed.

Lemma trav_idx up (incl : bool) i : i < N ->
  exists l, traverse_from N (mg_cols g (code_of up)) pop_first
              ((if incl then [i] else []) ++ mg_cols g (code_of up) i) = Some l /\
            NoDup l /\
            forall y, In y l <-> ((incl = true /\ y = i) \/ (y < N /\ clos_trans key (R up) (nd i) (nd y))).
Proof.
  intro Hi. destruct (init_ok up incl i Hi) as [Hnd Hin].
  assert (Hbd : forall x, In x ((if incl then [i] else []) ++ mg_cols g (code_of up) i) -> x < N).
  { intros x Hx. apply Hin in Hx. destruct Hx as [[_ ->]|[Hx _]]; assumption. }
  rewrite <- (traverse_from_agree N (sg up) (mg_cols g (code_of up))
               (fun k Hk => sg_lt up k Hk) (fun k j _ H => sg_bound up k j H) _ Hbd).
  destruct (traverse_from_correct N (sg up) (sg_bound up) pop_first pop_first_perm pop_first_some _ Hnd Hbd)
    as (l & Hl & Hndl & Hinl).
  exists l. split; [exact Hl|]. split; [exact Hndl|]. intro y. rewrite Hinl.
  rewrite <- (sg_lt up i Hi).
  assert (Hreach : reach (sg up) i y <-> (y < N /\ clos_trans key (R up) (nd i) (nd y))).
  { split.
    - intro Hr. apply reach_sound in Hr. tauto.
    - intros [Hy Hc]. destruct (reach_complete up _ _ Hc i Hi eq_refl) as (j & Hj & Hjy & Hr).
      assert (j = y) by (apply node_inj; assumption). subst j. exact Hr. }
  destruct incl; cbn [app].
  - rewrite from_src_succ, Hreach. split.
    + intros [Hy|Hy]; [left; split; [reflexivity | exact Hy] | right; exact Hy].
    + intros [[_ Hy]|Hy]; [left; exact Hy | right; exact Hy].
  - rewrite from_succ, Hreach. split; [tauto|]. intros [[Hc _]|Hy]; [discriminate | exact Hy].
Qed.

(* ---------- the TermId-level workers ---------- *)
Lemma rel_k_spec up incl x i : nth_error (mg_nodes g) i = Some x ->
  exists l, rmap (map (mg_node_for_idx g)) (mg_rel_k g x (code_of up) incl) = Ok l /\ NoDup l /\
            forall y, In y l <-> (R up x y \/ (incl = true /\ y = x)).
Proof.
  intro Hx. pose proof (proj2 (mg_idx_for_node_spec x i) Hx) as Hidx.
  destruct (idx_some _ _ Hx) as [Hi Hnx].
  destruct (init_ok up incl i Hi) as [Hnd Hin].
  unfold mg_rel_k. rewrite Hidx. cbn [rmap]. eexists. split; [reflexivity|].
  change (mg_node_for_idx g) with nd. split.
  - apply nodup_map_nd; [|exact Hnd]. intros y Hy. apply Hin in Hy.
    destruct Hy as [[_ ->]|[Hy _]]; assumption.
  - intro y. rewrite in_map_iff. split.
    + intros (j & Hj & Hjin). apply Hin in Hjin. destruct Hjin as [[Hincl ->]|[Hjn Hr]].
      * right. split; [exact Hincl|]. rewrite <- Hj. exact Hnx.
      * left. rewrite <- Hj, <- Hnx. exact Hr.
    + intros [Hr|[Hincl ->]].
      * destruct (R_mentions _ _ _ Hr) as [_ Hy]. destruct (mentions_idx _ Hy) as (j & Hj & Hjy).
        exists j. split; [exact Hjy|]. apply Hin. right. split; [exact Hj|]. rewrite Hnx, Hjy. exact Hr.
      * exists i. split; [exact Hnx|]. apply Hin. left. split; [exact Hincl | reflexivity].
Qed.

Lemma trav_k_spec up incl x i : nth_error (mg_nodes g) i = Some x ->
  exists l, rmap (map (mg_node_for_idx g)) (mg_traverse_k g x (code_of up) incl) = Ok l /\ NoDup l /\
            forall y, In y l <-> (clos_trans key (R up) x y \/ (incl = true /\ y = x)).
Proof.
  intro Hx. pose proof (proj2 (mg_idx_for_node_spec x i) Hx) as Hidx.
  destruct (idx_some _ _ Hx) as [Hi Hnx].
  destruct (trav_idx up incl i Hi) as (l & Hl & Hnd & Hin).
  unfold mg_traverse_k, mg_rel_k. rewrite Hidx. cbn [bind]. rewrite Hl. cbn [rmap].
  eexists. split; [reflexivity|].
  change (mg_node_for_idx g) with nd. split.
  - apply nodup_map_nd; [|exact Hnd]. intros y Hy. apply Hin in Hy.
    destruct Hy as [[_ ->]|[Hy _]]; assumption.
  - intro y. rewrite in_map_iff. split.
    + intros (j & Hj & Hjin). apply Hin in Hjin. destruct Hjin as [[Hincl ->]|[Hjn Hr]].
      * right. split; [exact Hincl|]. rewrite <- Hj. exact Hnx.
      * left. rewrite <- Hj, <- Hnx. exact Hr.
    + intros [Hr|[Hincl ->]].
      * destruct (R_clos_mentions _ _ _ Hr) as [_ Hy]. destruct (mentions_idx _ Hy) as (j & Hj & Hjy).
        exists j. split; [exact Hjy|]. apply Hin. right. split; [exact Hj|]. rewrite Hnx, Hjy. exact Hr.
      * exists i. split; [exact Hnx|]. apply Hin. left. split; [exact Hincl | reflexivity].
Qed.

Definition mg_q_k (q : query) (k : key) (incl : bool) : res (list key) :=
  match q with
  | QParents => mg_parents_k g k incl
  | QChildren => mg_children_k g k incl
  | QAncestors => mg_ancestors_k g k incl
  | QDescendants => mg_descendants_k g k incl
  end.

Lemma g_query_k q a incl : g_query (GM g) q a incl = bind (map_to_term_id a) (fun k => mg_q_k q k incl).
Proof. destruct q; reflexivity. Qed.

Lemma g_pred_k q sa oa : g_pred (GM g) q sa oa = mg_run_query (mg_q_k q) sa oa.
Proof. destruct q; reflexivity. Qed.

Lemma relE_mentions q x y : relE E q x y -> mentions E x /\ mentions E y.
Proof.
  destruct q; cbn [relE]; intro H.
  - apply (R_mentions true). exact H.
  - apply (R_mentions false). exact H.
  - apply (R_clos_mentions true). exact H.
  - apply (R_clos_mentions false). apply (R_clos false). exact H.
Qed.

Lemma q_k_spec q x incl :
  (mentions E x ->
     exists l, mg_q_k q x incl = Ok l /\ NoDup l /\
       forall y, In y l <-> (relE E q x y \/ (incl = true /\ y = x))) /\
  (~ mentions E x -> mg_q_k q x incl = Err ValueError).
Proof.
  split.
  - intro Hm. destruct (mentions_idx _ Hm) as (i & Hi & Hix).
    assert (Hx : nth_error (mg_nodes g) i = Some x).
    { rewrite <- Hix. apply nth_error_nth'. exact Hi. }
    destruct q; cbn [mg_q_k relE].
    + exact (rel_k_spec true incl x i Hx).
    + exact (rel_k_spec false incl x i Hx).
    + destruct (trav_k_spec true incl x i Hx) as (l & Hl & Hnd & Hin).
      exists l. split; [exact Hl|]. split; [exact Hnd|]. intro y. rewrite Hin, (R_clos true). tauto.
    + destruct (trav_k_spec false incl x i Hx) as (l & Hl & Hnd & Hin).
      exists l. split; [exact Hl|]. split; [exact Hnd|]. intro y. rewrite Hin, (R_clos false). tauto.
  - intro Hm. apply mg_idx_for_node_none in Hm.
    destruct q; cbn [mg_q_k];
      unfold mg_parents_k, mg_children_k, mg_ancestors_k, mg_descendants_k, mg_traverse_k, mg_rel_k;
      rewrite Hm; reflexivity.
Qed.

Theorem mg_query_spec q a x incl : denotes a x ->
  (mentions E x ->
     exists l, g_query (GM g) q a incl = Ok l /\ NoDup l /\
       forall y, In y l <-> (relE E q x y \/ (incl = true /\ y = x))) /\
  (~ mentions E x -> g_query (GM g) q a incl = Err ValueError).
Proof.
  intro Hd. rewrite g_query_k, (denotes_map _ _ Hd). cbn [bind]. apply q_k_spec.
Qed.

Theorem mg_query_malformed q a incl : malformed a -> g_query (GM g) q a incl = Err ValueError.
Proof.
  intro Hm. rewrite g_query_k, (malformed_map _ Hm). reflexivity.
Qed.

Theorem mg_leaf_spec a x : denotes a x ->
  (mentions E x -> exists b, g_is_leaf (GM g) a = Ok b /\ (b = true <-> forall y, ~ In (y, x) E)) /\
  (~ mentions E x -> g_is_leaf (GM g) a = Err ValueError).
Proof.
  intro Hd. cbn [g_is_leaf]. unfold mg_is_leaf. rewrite (denotes_map _ _ Hd). cbn [bind]. split.
  - intro Hm. destruct (mentions_idx _ Hm) as (i & Hi & Hix).
    assert (Hx : nth_error (mg_nodes g) i = Some x).
    { rewrite <- Hix. apply nth_error_nth'. exact Hi. }
    apply mg_idx_for_node_spec in Hx. unfold mg_rel_k. rewrite Hx. cbn [rmap app].
    destruct (cols_ok false i Hi) as [_ Hin]. cbn [code_of R] in Hin.
    eexists. split; [reflexivity|].
    destruct (mg_cols g PARENT_CODE i) as [|j r].
    + split; [|reflexivity]. intros _ y Hy.
      assert (Hmy : mentions E y) by (exists x; left; exact Hy).
      destruct (mentions_idx _ Hmy) as (j & Hj & Hjy).
      apply (proj2 (Hin j)). split; [exact Hj|]. rewrite Hjy, Hix. exact Hy.
    + split; [discriminate|]. intro Hall. exfalso.
      destruct (proj1 (Hin j) (or_introl eq_refl)) as [_ He]. rewrite Hix in He.
      exact (Hall _ He).
  - intro Hm. apply mg_idx_for_node_none in Hm. unfold mg_rel_k. rewrite Hm. reflexivity.
Qed.

Theorem mg_leaf_malformed a : malformed a -> g_is_leaf (GM g) a = Err ValueError.
Proof.
  intro Hm. cbn [g_is_leaf]. unfold mg_is_leaf. rewrite (malformed_map _ Hm). reflexivity.
Qed.

(* is_parent_of(sub, obj) etc.: true exactly when sub is in the corresponding traversal of obj;
   unknown obj -> ValueError; unknown sub -> False; a malformed argument -> ValueError *)
Theorem mg_pred_spec q sa oa s o : denotes sa s -> denotes oa o ->
  (mentions E o -> mentions E s ->
     exists b, g_pred (GM g) q sa oa = Ok b /\ (b = true <-> relE E q o s)) /\
  (mentions E o -> ~ mentions E s -> g_pred (GM g) q sa oa = Ok false) /\
  (~ mentions E o -> g_pred (GM g) q sa oa = Err ValueError).
Proof.
  intros Hs Ho. rewrite g_pred_k. unfold mg_run_query.
  rewrite (denotes_map _ _ Hs), (denotes_map _ _ Ho). cbn [bind].
  destruct (q_k_spec q o false) as [Hyes Hno].
  split; [|split].
  - intros Hmo _. destruct (Hyes Hmo) as (l & Hl & _ & Hin). rewrite Hl. cbn [rmap].
    eexists. split; [reflexivity|]. rewrite kmem_In, Hin. split; [|tauto].
    intros [H|[H _]]; [exact H | discriminate].
  - intros Hmo Hms. destruct (Hyes Hmo) as (l & Hl & _ & Hin). rewrite Hl. cbn [rmap].
    f_equal. destruct (kmem s l) eqn:Hk; [|reflexivity]. exfalso.
    apply kmem_In in Hk. apply Hin in Hk. destruct Hk as [Hk|[Hk _]]; [|discriminate].
    apply relE_mentions in Hk. apply Hms. tauto.
  - intro Hmo. rewrite (Hno Hmo). reflexivity.
Qed.

Theorem mg_pred_malformed q sa oa : malformed sa \/ malformed oa ->
  g_pred (GM g) q sa oa = Err ValueError.
Proof.
  intro H. rewrite g_pred_k. unfold mg_run_query.
  destruct (arg_cases sa) as [Hs|(k & Hk)].
  - rewrite (malformed_map _ Hs). reflexivity.
  - rewrite (denotes_map _ _ Hk). cbn [bind]. destruct H as [Hs|Ho].
    + pose proof (denotes_map _ _ Hk) as Hc.
      rewrite (malformed_map _ Hs) in Hc. discriminate.
    + rewrite (malformed_map _ Ho). reflexivity.
Qed.

End ApiM.

Print Assumptions mg_idx_for_node_spec.
Print Assumptions mg_idx_for_node_none.
Print Assumptions mg_root_spec.
Print Assumptions mg_nodes_spec.
Print Assumptions mg_contains_spec.
Print Assumptions mg_query_spec.
Print Assumptions mg_query_malformed.
Print Assumptions mg_leaf_spec.
Print Assumptions mg_leaf_malformed.
Print Assumptions mg_pred_spec.
Print Assumptions mg_pred_malformed.
