(* Finite acyclic relations: every upward walk ends in a term without parents. *)
From Coq Require Import String List Bool Arith Lia Relations Relation_Operators Operators_Properties.
From Hpotk Require Import Base.Result Base.Str Base.Ord TermId.Model TermId.Proofs Graph.Model Graph.Spec.
Import ListNotations.
Open Scope list_scope.

Definition E_rel (es : list edge) : key -> key -> Prop := fun a b => In (a, b) es.

Lemma key_eq_dec (a b : key) : {a = b} + {a <> b}.
Proof.
  destruct (key_eqb a b) eqn:Hab.
  - left. apply key_eqb_eq. exact Hab.
  - right. intro Heq. apply key_eqb_eq in Heq. rewrite Heq in Hab. discriminate Hab.
Qed.

(* "x is the subject of some edge" is decidable *)
Lemma out_edge_dec (es : list edge) (x : key) :
  (exists o, In (x, o) es) \/ ~ (exists o, In (x, o) es).
Proof.
  induction es as [|[s o] r IH].
  - right. intros [o Ho]. exact Ho.
  - destruct (key_eq_dec s x) as [Hsx|Hsx].
    + left. exists o. left. rewrite Hsx. reflexivity.
    + destruct IH as [[o' Ho']|Hno].
      * left. exists o'. right. exact Ho'.
      * right. intros [o' [Heq|Hin]].
        -- inversion Heq as [[H1 H2]]. apply Hsx. exact H1.
        -- apply Hno. exists o'. exact Hin.
Qed.

(* the end point of a non-empty walk is the object of an edge *)
Lemma clos_trans_last_edge (es : list edge) (x p : key) :
  clos_trans key (E_rel es) x p -> exists y, In (y, p) es.
Proof.
  intros H. induction H as [a b Hab | a b c H1 IH1 H2 IH2].
  - exists a. exact Hab.
  - exact IH2.
Qed.

(* fuel-indexed walk: vis is the duplicate-free list of the nodes already walked through *)
Lemma upward_fuel (es : list edge) : acyclic es ->
  forall n x vis,
    NoDup vis ->
    (forall v, In v vis -> In v (map fst es) /\ clos_trans key (E_rel es) v x) ->
    length es < length vis + n ->
    (~ exists o, In (x, o) es) \/
    exists p, clos_trans key (E_rel es) x p /\ ~ exists o, In (p, o) es.
Proof.
  intros Hac n. induction n as [|n IH]; intros x vis Hnd Hvis Hlen.
  - exfalso.
    assert (Hle : length vis <= length (map fst es)).
    { apply NoDup_incl_length. exact Hnd. intros v Hv. apply (Hvis v Hv). }
    rewrite map_length in Hle. change (key * key)%type with edge in Hle. lia.
  - destruct (out_edge_dec es x) as [[o Ho]|Hno].
    + right.
      assert (Hx : ~ In x vis).
      { intro Hin. apply (Hac x). apply (Hvis x Hin). }
      assert (Hxo : clos_trans key (E_rel es) x o).
      { apply t_step. exact Ho. }
      destruct (IH o (x :: vis)) as [Hnone | [p [Hop Hp]]].
      * constructor. exact Hx. exact Hnd.
      * intros v [Hv|Hv].
        -- subst v. split.
           ++ change x with (fst (x, o)). apply in_map. exact Ho.
           ++ exact Hxo.
        -- split.
           ++ apply (Hvis v Hv).
           ++ apply t_trans with x. apply (Hvis v Hv). exact Hxo.
      * cbn [length]. lia.
      * exists o. split. exact Hxo. exact Hnone.
      * exists p. split. apply t_trans with o. exact Hxo. exact Hop. exact Hp.
    + left. exact Hno.
Qed.

(* in a finite acyclic edge list, from every mentioned term one reaches (in >= 0 steps) a term
   that is not the subject of any edge *)
Theorem upward_terminates es : acyclic es -> forall x, mentions es x ->
  (~ exists o, In (x, o) es) \/
  exists p, clos_trans key (E_rel es) x p /\ ~ exists o, In (p, o) es.
Proof.
  intros Hac x _.
  apply (upward_fuel es Hac (S (length es)) x []).
  - constructor.
  - intros v Hv. destruct Hv.
  - cbn [length]. lia.
Qed.

(* a non-empty acyclic edge list has a parentless term *)
Corollary acyclic_has_parentless es : es <> [] -> acyclic es -> exists p, parentless es p.
Proof.
  intros Hne Hac. destruct es as [|[s o] r].
  - exfalso. apply Hne. reflexivity.
  - assert (Hso : In (s, o) ((s, o) :: r)) by (left; reflexivity).
    assert (Hm : mentions ((s, o) :: r) o).
    { exists s. right. exact Hso. }
    destruct (upward_terminates _ Hac o Hm) as [Hno | [p [Hop Hp]]].
    + exists o. split. exists s. exact Hso. exact Hno.
    + exists p. split. apply (clos_trans_last_edge _ o p Hop). exact Hp.
Qed.

(* every mentioned term is parentless or has a parentless strict ancestor *)
Corollary reaches_parentless es : acyclic es -> forall x, mentions es x ->
  parentless es x \/ exists p, parentless es p /\ clos_trans key (E_rel es) x p.
Proof.
  intros Hac x Hm.
  destruct (upward_terminates es Hac x Hm) as [Hno | [p [Hxp Hp]]].
  - left. destruct Hm as [y [Hxy|Hyx]].
    + exfalso. apply Hno. exists y. exact Hxy.
    + split. exists y. exact Hyx. exact Hno.
  - right. exists p. split.
    + split. apply (clos_trans_last_edge es x p Hxp). exact Hp.
    + exact Hxp.
Qed.

Print Assumptions upward_terminates.
Print Assumptions acyclic_has_parentless.
Print Assumptions reaches_parentless.
