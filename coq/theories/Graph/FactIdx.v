(* CsrIndexedGraphFactory builds CSR arrays that present the right rows. *)
From Coq Require Import String List Bool Arith ZArith Lia Sorted Permutation.
From Coq Require Import Relations Relation_Operators.
From Hpotk Require Import Base.Result Base.Str Base.Ord TermId.Model TermId.Proofs Csr.Model
  Graph.Worklist Graph.Model Graph.Spec.
Import ListNotations.
Open Scope list_scope.

(* ---------------- CSR flattening ---------------- *)
Lemma indptr_from_length_aux rows : forall acc, length (indptr_from acc rows) = S (length rows).
Proof.
  induction rows as [|r t IH]; intro acc; cbn [indptr_from length]; [reflexivity|].
  rewrite IH. reflexivity.
Qed.

Lemma indptr_from_nth rows : forall acc i, i <= length rows ->
  nth i (indptr_from acc rows) 0 = acc + length (concat (firstn i rows)).
Proof.
  induction rows as [|r t IH]; intros acc i Hi.
  - cbn [length] in Hi. assert (i = 0) as -> by lia. cbn. lia.
  - destruct i as [|i].
    + cbn. lia.
    + cbn [indptr_from nth firstn concat]. cbn [length] in Hi.
      rewrite IH by lia. rewrite app_length. lia.
Qed.

Lemma firstn_S_nth {A} (d : A) (l : list A) : forall i, i < length l ->
  firstn (S i) l = firstn i l ++ [nth i l d].
Proof.
  induction l as [|a l IH]; intros i Hi; [cbn in Hi; lia|].
  destruct i as [|i]; [reflexivity|].
  cbn [length] in Hi. cbn [firstn nth app]. f_equal.
  change (firstn (S i) l = firstn i l ++ [nth i l d]). apply IH. lia.
Qed.

Lemma slice_concat_row (rows : list (list nat)) : forall i, i < length rows ->
  slice (concat rows) (length (concat (firstn i rows)))
        (length (concat (firstn i rows)) + length (nth i rows [])) = nth i rows [].
Proof.
  unfold slice. induction rows as [|r t IH]; intros i Hi; [cbn in Hi; lia|].
  destruct i as [|i].
  - cbn [firstn concat length nth skipn].
    replace (0 + length r - 0) with (length r) by lia.
    rewrite firstn_app, Nat.sub_diag, firstn_all. cbn [firstn]. apply app_nil_r.
  - cbn [firstn concat nth]. cbn [length] in Hi. rewrite app_length.
    set (L := length (concat (firstn i t))) in *.
    rewrite skipn_app. rewrite skipn_all2 by lia. cbn [app].
    replace (length r + L - length r) with L by lia.
    replace (length r + L + length (nth i t []) - (length r + L))
      with (L + length (nth i t []) - L) by lia.
    apply IH. lia.
Qed.

(* flattened CSR rows are read back by row slicing *)
Lemma outgoing_arr_of_rows rows i : i < length rows ->
  outgoing (arr_of_rows rows) (Z.of_nat i) = Ok (nth i rows []).
Proof.
  intro Hi. unfold outgoing, arr_of_rows. cbn [a_indptr a_data].
  rewrite indptr_from_length_aux.
  assert (((Z.of_nat i <? 0) || (Z.of_nat (S (length rows)) - 1 <=? Z.of_nat i))%Z = false) as ->.
  { apply orb_false_iff. split; [apply Z.ltb_ge | apply Z.leb_gt]; lia. }
  rewrite Nat2Z.id. rewrite !indptr_from_nth by lia.
  rewrite (firstn_S_nth [] rows i Hi). rewrite concat_app. cbn [concat].
  rewrite app_nil_r, app_length. cbn [Nat.add].
  rewrite slice_concat_row by exact Hi. reflexivity.
Qed.

Lemma indptr_from_length acc rows : length (indptr_from acc rows) = S (length rows).
Proof. apply indptr_from_length_aux. Qed.

Lemma succ_of_arr_of_rows rows i : i < length rows -> succ_of (arr_of_rows rows) i = nth i rows [].
Proof. intro Hi. unfold succ_of. rewrite outgoing_arr_of_rows by exact Hi. reflexivity. Qed.

(* ---------------- generic list facts ---------------- *)
Lemma NoDup_app_intro {A} (l1 l2 : list A) :
  NoDup l1 -> NoDup l2 -> (forall x, In x l1 -> ~ In x l2) -> NoDup (l1 ++ l2).
Proof.
  induction l1 as [|a l1 IH]; intros H1 H2 Hd; [exact H2|].
  cbn [app]. inversion H1 as [|? ? Ha Hl1]; subst. constructor.
  - intro Hi. apply in_app_or in Hi. destruct Hi as [Hi|Hi]; [exact (Ha Hi)|].
    exact (Hd a (or_introl eq_refl) Hi).
  - apply IH; [exact Hl1 | exact H2|]. intros x Hx. apply Hd. right. exact Hx.
Qed.

Lemma NoDup_flat_map {A B} (f : A -> list B) (l : list A) :
  NoDup l -> (forall a, In a l -> NoDup (f a)) ->
  (forall a b x, In a l -> In b l -> In x (f a) -> In x (f b) -> a = b) ->
  NoDup (flat_map f l).
Proof.
  induction l as [|a l IH]; intros Hl Hf Hd; [constructor|].
  cbn [flat_map]. inversion Hl as [|? ? Ha Hl']; subst. apply NoDup_app_intro.
  - apply Hf. left. reflexivity.
  - apply IH; [exact Hl'| |].
    + intros b Hb. apply Hf. right. exact Hb.
    + intros b c x Hb Hc. apply Hd; right; assumption.
  - intros x Hx Hi. apply in_flat_map in Hi. destruct Hi as (b & Hb & Hxb).
    assert (a = b) as E by (apply (Hd a b x); [left; reflexivity | right; exact Hb | exact Hx | exact Hxb]).
    subst b. exact (Ha Hb).
Qed.

Lemma flat_map_flat_map {A B C} (f : A -> list B) (g : B -> list C) (l : list A) :
  flat_map g (flat_map f l) = flat_map (fun a => flat_map g (f a)) l.
Proof.
  induction l as [|a l IH]; [reflexivity|]. cbn [flat_map]. rewrite flat_map_app, IH. reflexivity.
Qed.

Definition olist (o : option nat) : list nat := match o with Some i => [i] | None => [] end.

Lemma olist_in o j : In j (olist o) <-> o = Some j.
Proof.
  destruct o as [i|]; cbn; split.
  - intros [->|[]]. reflexivity.
  - intros [= ->]. left. reflexivity.
  - intros [].
  - discriminate.
Qed.

Lemma olist_nodup o : NoDup (olist o).
Proof. destruct o; cbn; repeat constructor. intros []. Qed.

(* ---------------- app_row ---------------- *)
Lemma app_row_length {A} (x : A) rows : forall i, length (app_row i x rows) = length rows.
Proof.
  induction rows as [|r t IH]; intro i; [destruct i; reflexivity|].
  destruct i as [|i]; cbn [app_row length]; [reflexivity|]. rewrite IH. reflexivity.
Qed.

Lemma app_row_nth_same {A} (x : A) rows : forall i, i < length rows ->
  nth i (app_row i x rows) [] = nth i rows [] ++ [x].
Proof.
  induction rows as [|r t IH]; intros i Hi; [cbn in Hi; lia|].
  destruct i as [|i]; cbn [app_row nth]; [reflexivity|]. cbn [length] in Hi. apply IH. lia.
Qed.

Lemma app_row_nth_other {A} (x : A) rows : forall i k, k <> i ->
  nth k (app_row i x rows) [] = nth k rows [].
Proof.
  induction rows as [|r t IH]; intros i k Hk; [destruct i; reflexivity|].
  destruct i as [|i]; cbn [app_row].
  - destruct k as [|k]; [lia|]. reflexivity.
  - destruct k as [|k]; [reflexivity|]. cbn [nth]. apply IH. lia.
Qed.

(* ---------------- grouping the edges ---------------- *)
Section Nodes.
Variable nodes : list key.
Hypothesis Hs : SSorted key_ltb nodes.

Lemma idx_nth i x : i < length nodes -> (idx_of nodes x = Some i <-> x = nth i nodes key0).
Proof.
  intro Hi. unfold idx_of. rewrite (key_index_of_spec nodes x Hs i).
  rewrite (nth_error_nth' nodes key0 Hi). split; [intros [= ->]; reflexivity | intros ->; reflexivity].
Qed.

Lemma idx_some_lt x i : idx_of nodes x = Some i -> i < length nodes.
Proof. apply key_index_of_lt. exact Hs. Qed.

Lemma key_eqb_false_iff a b : key_eqb a b = false <-> a <> b.
Proof.
  split.
  - intros H E. apply key_eqb_eq in E. congruence.
  - intro H. destruct (key_eqb a b) eqn:E; [|reflexivity]. apply key_eqb_eq in E. contradiction.
Qed.

Lemma key_eqb_refl a : key_eqb a a = true.
Proof. apply key_eqb_eq. reflexivity. Qed.

Lemma app_row_opt_length (o : option nat) (e : edge) rows :
  length (app_row_opt o e rows) = length rows.
Proof. destruct o; cbn [app_row_opt]; [apply app_row_length | reflexivity]. Qed.

Lemma app_row_opt_nth (y : key) (e : edge) rows k :
  length rows = length nodes -> k < length nodes ->
  nth k (app_row_opt (idx_of nodes y) e rows) [] =
  nth k rows [] ++ (if key_eqb y (nth k nodes key0) then [e] else []).
Proof.
  intros Hl Hk. destruct (idx_of nodes y) as [j|] eqn:Ej; cbn [app_row_opt].
  - pose proof (idx_some_lt _ _ Ej) as Hj.
    destruct (Nat.eq_dec k j) as [->|Hne].
    + rewrite app_row_nth_same by lia. apply (idx_nth j y Hj) in Ej. subst y.
      rewrite key_eqb_refl. reflexivity.
    + rewrite app_row_nth_other by exact Hne.
      assert (key_eqb y (nth k nodes key0) = false) as ->; [|symmetry; apply app_nil_r].
      apply key_eqb_false_iff. intro E. apply (idx_nth k y Hk) in E. congruence.
  - assert (key_eqb y (nth k nodes key0) = false) as ->; [|symmetry; apply app_nil_r].
    apply key_eqb_false_iff. intro E. apply (idx_nth k y Hk) in E. congruence.
Qed.

(* the step without the cache *)
Definition adj_step' (rows : list (list edge)) (e : edge) : list (list edge) :=
  app_row_opt (idx_of nodes (snd e)) e (app_row_opt (idx_of nodes (fst e)) e rows).

Lemma adj_step_cache rows ls li e :
  (forall s, ls = Some s -> li = idx_of nodes s) ->
  adj_step nodes (rows, ls, li) e = (adj_step' rows e, Some (fst e), idx_of nodes (fst e)).
Proof.
  intro H. unfold adj_step, adj_step'. destruct ls as [s|]; [|reflexivity].
  destruct (key_eqb (fst e) s) eqn:E; [|reflexivity].
  apply key_eqb_eq in E. subst s. rewrite (H _ eq_refl). reflexivity.
Qed.

Lemma fold_adj_cache es : forall rows ls li,
  (forall s, ls = Some s -> li = idx_of nodes s) ->
  fst (fst (fold_left (adj_step nodes) es (rows, ls, li))) = fold_left adj_step' es rows.
Proof.
  induction es as [|e es IH]; intros rows ls li H; [reflexivity|].
  cbn [fold_left]. rewrite (adj_step_cache rows ls li e H). apply IH.
  intros s [= <-]. reflexivity.
Qed.

Lemma find_adjacent_eq es :
  find_adjacent nodes es = fold_left adj_step' es (repeat [] (length nodes)).
Proof.
  unfold find_adjacent.
  pose proof (fold_adj_cache es (repeat [] (length nodes)) None None) as H.
  destruct (fold_left (adj_step nodes) es (repeat [] (length nodes), None, None)) as [[r a] b].
  cbn [fst] in H. apply H. intros s Hs'. discriminate Hs'.
Qed.

Definition contrib (x : key) (e : edge) : list edge :=
  (if key_eqb (fst e) x then [e] else []) ++ (if key_eqb (snd e) x then [e] else []).

Lemma adj_step'_length rows e : length (adj_step' rows e) = length rows.
Proof. unfold adj_step'. rewrite !app_row_opt_length. reflexivity. Qed.

Lemma adj_step'_nth rows e k : length rows = length nodes -> k < length nodes ->
  nth k (adj_step' rows e) [] = nth k rows [] ++ contrib (nth k nodes key0) e.
Proof.
  intros Hl Hk. unfold adj_step', contrib.
  rewrite app_row_opt_nth; [|rewrite app_row_opt_length; exact Hl | exact Hk].
  rewrite app_row_opt_nth by assumption. rewrite <- app_assoc. reflexivity.
Qed.

Lemma fold_adj'_length es : forall rows, length (fold_left adj_step' es rows) = length rows.
Proof.
  induction es as [|e es IH]; intro rows; [reflexivity|].
  cbn [fold_left]. rewrite IH. apply adj_step'_length.
Qed.

Lemma fold_adj'_nth es : forall rows k, length rows = length nodes -> k < length nodes ->
  nth k (fold_left adj_step' es rows) [] = nth k rows [] ++ flat_map (contrib (nth k nodes key0)) es.
Proof.
  induction es as [|e es IH]; intros rows k Hl Hk.
  - cbn [fold_left flat_map]. symmetry. apply app_nil_r.
  - cbn [fold_left flat_map]. rewrite IH; [|rewrite adj_step'_length; exact Hl | exact Hk].
    rewrite adj_step'_nth by assumption. rewrite <- app_assoc. reflexivity.
Qed.

Lemma find_adjacent_length es : length (find_adjacent nodes es) = length nodes.
Proof. rewrite find_adjacent_eq, fold_adj'_length. apply repeat_length. Qed.

Lemma find_adjacent_nth es k : k < length nodes ->
  nth k (find_adjacent nodes es) [] = flat_map (contrib (nth k nodes key0)) es.
Proof.
  intro Hk. rewrite find_adjacent_eq. rewrite fold_adj'_nth; [|apply repeat_length | exact Hk].
  rewrite nth_repeat. reflexivity.
Qed.

(* ---------------- the targets of one row ---------------- *)
Definition par1 (src : key) (e : edge) : list nat :=
  if key_eqb src (snd e) then [] else olist (idx_of nodes (snd e)).
Definition chi1 (src : key) (e : edge) : list nat :=
  if key_eqb src (snd e) then olist (idx_of nodes (fst e)) else [].

Lemma row_step_eq src ps cs e :
  row_step nodes src (ps, cs) e = (ps ++ par1 src e, cs ++ chi1 src e).
Proof.
  unfold row_step, par1, chi1. destruct (key_eqb src (snd e)).
  - destruct (idx_of nodes (fst e)); cbn [olist]; rewrite ?app_nil_r; reflexivity.
  - destruct (idx_of nodes (snd e)); cbn [olist]; rewrite ?app_nil_r; reflexivity.
Qed.

Lemma row_fold src l : forall ps cs,
  fold_left (row_step nodes src) l (ps, cs) =
  (ps ++ flat_map (par1 src) l, cs ++ flat_map (chi1 src) l).
Proof.
  induction l as [|e l IH]; intros ps cs.
  - cbn [fold_left flat_map]. rewrite !app_nil_r. reflexivity.
  - cbn [fold_left flat_map]. rewrite row_step_eq, IH, <- !app_assoc. reflexivity.
Qed.

Lemma row_targets_eq src l :
  row_targets nodes src l = (flat_map (par1 src) l, flat_map (chi1 src) l).
Proof. unfold row_targets. rewrite row_fold. reflexivity. Qed.

Lemma par1_contrib x e : fst e <> snd e ->
  flat_map (par1 x) (contrib x e) = if key_eqb (fst e) x then olist (idx_of nodes (snd e)) else [].
Proof.
  intro Hne. unfold contrib. destruct (key_eqb (fst e) x) eqn:E1.
  - apply key_eqb_eq in E1. subst x.
    assert (key_eqb (snd e) (fst e) = false) as E2
      by (apply key_eqb_false_iff; intro E; apply Hne; symmetry; exact E).
    rewrite E2. cbn [app flat_map]. unfold par1.
    assert (key_eqb (fst e) (snd e) = false) as -> by (apply key_eqb_false_iff; exact Hne).
    apply app_nil_r.
  - destruct (key_eqb (snd e) x) eqn:E2; [|reflexivity].
    apply key_eqb_eq in E2. subst x. cbn [app flat_map]. unfold par1.
    rewrite key_eqb_refl. reflexivity.
Qed.

Lemma chi1_contrib x e : fst e <> snd e ->
  flat_map (chi1 x) (contrib x e) = if key_eqb (snd e) x then olist (idx_of nodes (fst e)) else [].
Proof.
  intro Hne. unfold contrib. destruct (key_eqb (fst e) x) eqn:E1.
  - apply key_eqb_eq in E1. subst x.
    assert (key_eqb (snd e) (fst e) = false) as E2
      by (apply key_eqb_false_iff; intro E; apply Hne; symmetry; exact E).
    rewrite E2. cbn [app flat_map]. unfold chi1.
    assert (key_eqb (fst e) (snd e) = false) as -> by (apply key_eqb_false_iff; exact Hne).
    reflexivity.
  - destruct (key_eqb (snd e) x) eqn:E2; [|reflexivity].
    apply key_eqb_eq in E2. subst x. cbn [app flat_map]. unfold chi1.
    rewrite key_eqb_refl. apply app_nil_r.
Qed.

Variable E : list edge.
Hypothesis Hnd : NoDup E.
Hypothesis Hloop : forall e, In e E -> fst e <> snd e.

Definition parrow (k : nat) : list nat :=
  flat_map (par1 (nth k nodes key0)) (flat_map (contrib (nth k nodes key0)) E).
Definition chirow (k : nat) : list nat :=
  flat_map (chi1 (nth k nodes key0)) (flat_map (contrib (nth k nodes key0)) E).

Lemma parrow_in k j : k < length nodes ->
  (In j (parrow k) <-> (j < length nodes /\ In (nth k nodes key0, nth j nodes key0) E)).
Proof.
  intro Hk. unfold parrow. rewrite flat_map_flat_map, in_flat_map. split.
  - intros (e & He & Hj). rewrite (par1_contrib _ e (Hloop e He)) in Hj.
    destruct (key_eqb (fst e) (nth k nodes key0)) eqn:E1; [|destruct Hj].
    apply key_eqb_eq in E1. apply olist_in in Hj.
    pose proof (idx_some_lt _ _ Hj) as Hlt. split; [exact Hlt|].
    apply (idx_nth j _ Hlt) in Hj. rewrite <- E1, <- Hj. rewrite <- surjective_pairing. exact He.
  - intros (Hj & He). exists (nth k nodes key0, nth j nodes key0). split; [exact He|].
    rewrite (par1_contrib _ _ (Hloop _ He)). cbn [fst snd]. rewrite key_eqb_refl.
    apply olist_in. apply (idx_nth j _ Hj). reflexivity.
Qed.

Lemma chirow_in k j : k < length nodes ->
  (In j (chirow k) <-> (j < length nodes /\ In (nth j nodes key0, nth k nodes key0) E)).
Proof.
  intro Hk. unfold chirow. rewrite flat_map_flat_map, in_flat_map. split.
  - intros (e & He & Hj). rewrite (chi1_contrib _ e (Hloop e He)) in Hj.
    destruct (key_eqb (snd e) (nth k nodes key0)) eqn:E1; [|destruct Hj].
    apply key_eqb_eq in E1. apply olist_in in Hj.
    pose proof (idx_some_lt _ _ Hj) as Hlt. split; [exact Hlt|].
    apply (idx_nth j _ Hlt) in Hj. rewrite <- E1, <- Hj. rewrite <- surjective_pairing. exact He.
  - intros (Hj & He). exists (nth j nodes key0, nth k nodes key0). split; [exact He|].
    rewrite (chi1_contrib _ _ (Hloop _ He)). cbn [fst snd]. rewrite key_eqb_refl.
    apply olist_in. apply (idx_nth j _ Hj). reflexivity.
Qed.

Lemma idx_inj x y j : idx_of nodes x = Some j -> idx_of nodes y = Some j -> x = y.
Proof.
  unfold idx_of. intros Hx Hy.
  apply (key_index_of_spec nodes x Hs j) in Hx. apply (key_index_of_spec nodes y Hs j) in Hy. congruence.
Qed.

Lemma parrow_nodup k : NoDup (parrow k).
Proof.
  unfold parrow. rewrite flat_map_flat_map. apply NoDup_flat_map; [exact Hnd| |].
  - intros e He. rewrite (par1_contrib _ e (Hloop e He)).
    destruct (key_eqb (fst e) (nth k nodes key0)); [apply olist_nodup | constructor].
  - intros a b x Ha Hb Hxa Hxb.
    rewrite (par1_contrib _ a (Hloop a Ha)) in Hxa. rewrite (par1_contrib _ b (Hloop b Hb)) in Hxb.
    destruct (key_eqb (fst a) (nth k nodes key0)) eqn:Ea; [|destruct Hxa].
    destruct (key_eqb (fst b) (nth k nodes key0)) eqn:Eb; [|destruct Hxb].
    apply key_eqb_eq in Ea, Eb. apply olist_in in Hxa, Hxb.
    pose proof (idx_inj _ _ _ Hxa Hxb) as Hsnd.
    rewrite (surjective_pairing a), (surjective_pairing b). congruence.
Qed.

Lemma chirow_nodup k : NoDup (chirow k).
Proof.
  unfold chirow. rewrite flat_map_flat_map. apply NoDup_flat_map; [exact Hnd| |].
  - intros e He. rewrite (chi1_contrib _ e (Hloop e He)).
    destruct (key_eqb (snd e) (nth k nodes key0)); [apply olist_nodup | constructor].
  - intros a b x Ha Hb Hxa Hxb.
    rewrite (chi1_contrib _ a (Hloop a Ha)) in Hxa. rewrite (chi1_contrib _ b (Hloop b Hb)) in Hxb.
    destruct (key_eqb (snd a) (nth k nodes key0)) eqn:Ea; [|destruct Hxa].
    destruct (key_eqb (snd b) (nth k nodes key0)) eqn:Eb; [|destruct Hxb].
    apply key_eqb_eq in Ea, Eb. apply olist_in in Hxa, Hxb.
    pose proof (idx_inj _ _ _ Hxa Hxb) as Hfst.
    rewrite (surjective_pairing a), (surjective_pairing b). congruence.
Qed.

(* the per-node rows computed by the factory *)
Definition frows : list (list nat * list nat) :=
  map (fun '(src, a) => row_targets nodes src a) (combine nodes (find_adjacent nodes E)).

Lemma frows_length : length frows = length nodes.
Proof.
  unfold frows. rewrite map_length, combine_length, find_adjacent_length. apply Nat.min_id.
Qed.

Lemma frows_nth k : k < length nodes -> nth k frows ([], []) = (parrow k, chirow k).
Proof.
  intro Hk. unfold frows.
  set (F := fun '(src, a) => row_targets nodes src a).
  assert (Hlen : k < length (map F (combine nodes (find_adjacent nodes E)))).
  { rewrite map_length, combine_length, find_adjacent_length, Nat.min_id. exact Hk. }
  rewrite (nth_indep _ ([], []) (F (key0, [])) Hlen). rewrite map_nth.
  rewrite combine_nth by (symmetry; apply find_adjacent_length).
  unfold F. rewrite find_adjacent_nth by exact Hk. apply row_targets_eq.
Qed.

Lemma frows_fst_nth k : k < length nodes -> nth k (map fst frows) [] = parrow k.
Proof.
  intro Hk. change (@nil nat) with (fst (@nil nat, @nil nat)). rewrite map_nth.
  rewrite frows_nth by exact Hk. reflexivity.
Qed.

Lemma frows_snd_nth k : k < length nodes -> nth k (map snd frows) [] = chirow k.
Proof.
  intro Hk. change (@nil nat) with (snd (@nil nat, @nil nat)). rewrite map_nth.
  rewrite frows_nth by exact Hk. reflexivity.
Qed.
End Nodes.

Lemma nodes_of_mentions E x : In x (nodes_of E) <-> mentions E x.
Proof.
  unfold nodes_of, mentions. rewrite key_sort_in, in_flat_map. split.
  - intros ([a b] & He & Hx). cbn [fst snd In] in Hx. destruct Hx as [<-|[<-|[]]].
    + exists b. left. exact He.
    + exists a. right. exact He.
  - intros (y & [He|He]).
    + exists (x, y). split; [exact He|]. cbn. auto.
    + exists (y, x). split; [exact He|]. cbn. auto.
Qed.

(* for ANY duplicate-free edge list without 2-cycles (in particular without self loops): grouping
   with the last-subject cache + binary search + per-row target lookup yields the right rows,
   whatever the order of the edges *)
Theorem idx_rows_ok E :
  NoDup E -> (forall x y, In (x, y) E -> ~ In (y, x) E) ->
  let nodes := nodes_of E in
  let adj := find_adjacent nodes E in
  let rows := map (fun '(src, a) => row_targets nodes src a) (combine nodes adj) in
  let par := arr_of_rows (map fst rows) in
  let chi := arr_of_rows (map snd rows) in
  RowsOK E nodes (succ_of par) (succ_of chi) /\
  length (a_indptr par) = S (length nodes) /\ length (a_indptr chi) = S (length nodes).
Proof.
  intros Hnd Hasym nodes adj rows par chi.
  assert (Hs : SSorted key_ltb nodes) by apply key_sort_sorted.
  assert (Hloop : forall e, In e E -> fst e <> snd e).
  { intros [a b] He Hab. cbn [fst snd] in Hab. subst b. exact (Hasym a a He He). }
  change rows with (frows nodes E) in par, chi.
  pose proof (frows_length nodes E) as Hlr.
  assert (Hp : forall i, i < length nodes -> succ_of par i = parrow nodes E i).
  { intros i Hi. unfold par. rewrite succ_of_arr_of_rows by (rewrite map_length, Hlr; exact Hi).
    apply frows_fst_nth; assumption. }
  assert (Hc : forall i, i < length nodes -> succ_of chi i = chirow nodes E i).
  { intros i Hi. unfold chi. rewrite succ_of_arr_of_rows by (rewrite map_length, Hlr; exact Hi).
    apply frows_snd_nth; assumption. }
  split; [constructor|split].
  - exact Hs.
  - intro x. apply nodes_of_mentions.
  - intros i Hi. rewrite (Hp i Hi). split.
    + apply parrow_nodup; assumption.
    + intro j. apply parrow_in; assumption.
  - intros i Hi. rewrite (Hc i Hi). split.
    + apply chirow_nodup; assumption.
    + intro j. apply chirow_in; assumption.
  - unfold par, arr_of_rows. cbn [a_indptr]. rewrite indptr_from_length, map_length, Hlr. reflexivity.
  - unfold chi, arr_of_rows. cbn [a_indptr]. rewrite indptr_from_length, map_length, Hlr. reflexivity.
Qed.

(* ---------------- the linear search for the root ---------------- *)
Lemma kpos_some x l : forall i, kpos x l = Some i -> nth_error l i = Some x.
Proof.
  induction l as [|y r IH]; intros i H; [discriminate H|].
  cbn [kpos] in H. destruct (key_eqb x y) eqn:Exy.
  - apply key_eqb_eq in Exy. subst y. injection H as <-. reflexivity.
  - destruct (kpos x r) as [j|]; [|discriminate H]. cbn [option_map] in H. injection H as <-.
    cbn [nth_error]. apply IH. reflexivity.
Qed.

Lemma kpos_none x l : kpos x l = None -> ~ In x l.
Proof.
  induction l as [|y r IH]; intros H Hi; [destruct Hi|].
  cbn [kpos] in H. destruct (key_eqb x y) eqn:Exy; [discriminate H|].
  destruct (kpos x r) as [j|] eqn:Ek; [discriminate H|].
  destruct Hi as [->|Hi]; [|exact (IH eq_refl Hi)].
  assert (key_eqb x x = true) as T by (apply key_eqb_eq; reflexivity). congruence.
Qed.

Theorem idx_factory_ok es E root :
  find_root (dedup_edges es) = Ok (root, E) -> FrontOK es E root ->
  exists g, idx_factory es = Ok g /\ IGraphOK E root g.
Proof.
  intros Hfr Hf. destruct Hf as [Hnd Heff Hacy Hroot Hs1 Hs2].
  assert (Hasym : forall x y, In (x, y) E -> ~ In (y, x) E).
  { intros x y Hxy Hyx. apply (Hacy x). apply t_trans with y; apply t_step; assumption. }
  unfold idx_factory. rewrite Hfr. cbn [bind].
  destruct (kpos root (nodes_of E)) as [ri|] eqn:Ek.
  - eexists. split; [reflexivity|].
    destruct (idx_rows_ok E Hnd Hasym) as (Hrows & Hpl & Hcl).
    constructor; cbn [ig_nodes ig_root ig_par ig_chi].
    + exact Hrows.
    + exact Hpl.
    + exact Hcl.
    + apply kpos_some. exact Ek.
  - exfalso. apply kpos_none in Ek. apply Ek. apply nodes_of_mentions. exact Hroot.
Qed.

Print Assumptions idx_rows_ok.
Print Assumptions idx_factory_ok.
