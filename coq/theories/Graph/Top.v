(* End-to-end statements: from the INPUT edge list of a factory to the answers of the graph it
   builds, for every shipped factory.  These are the lemmas the property files C01, C02, C03, C14
   (and C18, C09, C10, C11, C13 through the graph spec) close with `exact`. *)
From Coq Require Import String List Bool Arith ZArith Lia Sorted Permutation Relations Relation_Operators Operators_Properties.
From Hpotk Require Import Base.Result Base.Str Base.Ord TermId.Model TermId.Proofs Csr.Model
  Graph.Worklist Graph.Model Graph.Spec Graph.Acyclic Graph.Front Graph.FactIdx Graph.FactInc Graph.FactBld
  Graph.ApiI Graph.ApiM Graph.Main.
Import ListNotations.
Open Scope list_scope.

(* ---------- a built graph has the right rows ---------- *)
Theorem create_total f es : WfInput es -> exists g, create f es = Ok g.
Proof.
  intro H. destruct (create_ok f es H) as (root & E & g & _ & Hc & _). exists g. exact Hc.
Qed.

Lemma built_ok f es g : WfInput es -> create f es = Ok g ->
  exists root E, FrontOK es E root /\ GraphOK E root g.
Proof.
  intros H Hc. destruct (create_ok f es H) as (root & E & g' & Hf & Hc' & Hok).
  rewrite Hc in Hc'. inversion Hc'; subst g'. exists root, E. split; assumption.
Qed.

Lemma relE_irrefl E q x : acyclic E -> ~ relE E q x x.
Proof.
  intros HA H. apply (HA x). destruct q; cbn [relE] in H; [apply t_step; exact H | apply t_step; exact H | exact H | exact H].
Qed.

Lemma rel_irrefl es q x : acyclic es -> ~ mentions es owl_thing -> ~ rel es q x x.
Proof.
  intros Hac Hm H.
  assert (Hanc : ancestor es x x).
  { destruct q; cbn [rel] in H; [apply t_step; exact H | apply t_step; exact H | exact H | exact H]. }
  destruct (ancestor_split es Hm x x Hanc) as [Hc|Hx].
  - exact (Hac x Hc).
  - subst x. unfold ancestor in Hanc. apply clos_trans_t1n in Hanc.
    inversion Hanc as [y Hy|y z Hy _]; subst; exact (is_a_owl_none es Hm _ Hy).
Qed.

Section Built.
Variable f : factory.
Variable es : list edge.
Variable g : graph.
Hypothesis HW : WfInput es.
Hypothesis HC : create f es = Ok g.

(* ===================== C01 ===================== *)
(* every query: each node once, exactly the related nodes (+ the source iff asked); a term that
   is not a node of the graph raises ValueError *)
Theorem query_spec q a x incl : denotes a x ->
  (node_of es x ->
     exists l, g_query g q a incl = Ok l /\ NoDup l /\
       forall y, In y l <-> (rel es q x y \/ (incl = true /\ y = x))) /\
  (~ node_of es x -> g_query g q a incl = Err ValueError).
Proof.
  intro Hd. destruct (built_ok f es g HW HC) as (root & E & Hf & Hok).
  pose proof (fo_eff _ _ _ Hf) as He. pose proof (fo_acyclic _ _ _ Hf) as Ha.
  destruct (g_query_spec E root g Hok Ha q a x incl Hd) as [H1 H2]. split.
  - intro Hn. apply (eff_mentions es E He) in Hn. destruct (H1 Hn) as (l & Hl & Hnd & Hin).
    exists l. split; [exact Hl|]. split; [exact Hnd|]. intro y. rewrite Hin, (relE_rel es E He). reflexivity.
  - intro Hn. apply H2. intro Hm. apply Hn. apply (eff_mentions es E He). exact Hm.
Qed.

Lemma node_of_dec x : node_of es x \/ ~ node_of es x.
Proof.
  destruct (built_ok f es g HW HC) as (root & E & Hf & Hok).
  pose proof (fo_eff _ _ _ Hf) as He. pose proof (fo_acyclic _ _ _ Hf) as Ha.
  pose proof (g_contains_spec E root g Hok x) as Hc.
  destruct (g_contains g x).
  - left. apply (eff_mentions es E He). apply Hc. reflexivity.
  - right. intro Hn. apply (eff_mentions es E He) in Hn. apply Hc in Hn. discriminate.
Qed.


Theorem malformed_query q a incl : malformed a -> g_query g q a incl = Err ValueError.
Proof. destruct (built_ok f es g HW HC) as (root & E & Hf & Hok). exact (g_query_malformed E root g Hok q a incl). Qed.
Theorem malformed_pred q sa oa : malformed sa \/ malformed oa -> g_pred g q sa oa = Err ValueError.
Proof. destruct (built_ok f es g HW HC) as (root & E & Hf & Hok). exact (g_pred_malformed E root g Hok q sa oa). Qed.
Theorem malformed_leaf a : malformed a -> g_is_leaf g a = Err ValueError.
Proof. destruct (built_ok f es g HW HC) as (root & E & Hf & Hok). exact (g_leaf_malformed E root g Hok a). Qed.

(* asking to include the source adds the source itself exactly once and nothing else *)
Theorem include_source_spec q a x l0 l1 : denotes a x ->
  g_query g q a false = Ok l0 -> g_query g q a true = Ok l1 ->
  ~ In x l0 /\ Permutation l1 (x :: l0).
Proof.
  intros Hd H0 H1. destruct HW as (_ & Hac & Hm).
  destruct (node_of_dec x) as [Hn|Hn].
  2:{ rewrite (proj2 (query_spec q a x false Hd) Hn) in H0. discriminate. }
  destruct (proj1 (query_spec q a x false Hd) Hn) as (l & Hl & Hnd & Hin). rewrite H0 in Hl. inversion Hl; subst l.
  destruct (proj1 (query_spec q a x true Hd) Hn) as (l & Hl' & Hnd' & Hin'). rewrite H1 in Hl'. inversion Hl'; subst l.
  assert (Hx : ~ In x l0).
  { intro Hi. apply Hin in Hi. destruct Hi as [Hi|[Hi _]]; [exact (rel_irrefl es q x Hac Hm Hi) | discriminate]. }
  split; [exact Hx|].
  apply NoDup_Permutation; [exact Hnd' | constructor; assumption|].
  intro y. rewrite Hin'. cbn [In]. rewrite Hin. split.
  - intros [H|[_ H]]; [right; left; exact H | left; symmetry; exact H].
  - intros [H|[H|[H _]]]; [right; split; [reflexivity | symmetry; exact H] | left; exact H | discriminate].
Qed.

(* ===================== C02 ===================== *)
Theorem nodes_spec : NoDup (g_nodes g) /\ SSorted key_ltb (g_nodes g) /\ forall x, In x (g_nodes g) <-> node_of es x.
Proof.
  destruct (built_ok f es g HW HC) as (root & E & Hf & Hok).
  pose proof (fo_eff _ _ _ Hf) as He. pose proof (fo_acyclic _ _ _ Hf) as Ha.
  destruct (g_nodes_spec E root g Hok) as [Hnd Hin]. split; [exact Hnd|]. split.
  - destruct g as [ig|mg]; cbn [GraphOK g_nodes] in *.
    + exact (ro_sorted _ _ _ _ (io_rows _ _ _ Hok)).
    + exact (ro_sorted _ _ _ _ (mo_rows _ _ _ Hok)).
  - intro x. rewrite Hin. apply (eff_mentions es E He).
Qed.

(* the root: the single parentless term, or owl:Thing exactly when there are several *)
Theorem root_spec : exists root, g_root g = Ok root /\ node_of es root /\
  (((forall b, parentless es b <-> b = root) /\ ~ multi_root es) \/ (multi_root es /\ root = owl_thing)) /\
  (forall y, ~ is_a es root y) /\
  (forall x, node_of es x -> x <> root -> ancestor es x root) /\
  (multi_root es -> forall x, is_a es x root <-> parentless es x).
Proof.
  destruct (built_ok f es g HW HC) as (root & E & Hf & Hok).
  pose proof (fo_eff _ _ _ Hf) as He. pose proof (fo_acyclic _ _ _ Hf) as Ha.
  destruct HW as (_ & Hac & Hm).
  exists root. split; [exact (g_root_spec E root g Hok)|].
  split; [apply (eff_mentions es E He); exact (fo_root_node _ _ _ Hf)|].
  split; [exact (front_root_cases es E root Hac Hf)|].
  split; [exact (root_no_parents es E root Hac Hm Hf)|].
  split; [exact (root_reaches_all es E root Hac Hm Hf)|].
  intros Hmr x. rewrite (fo_root_multi _ _ _ Hf Hmr). exact (synthetic_root_children es Hmr Hm x).
Qed.

(* the same facts read off the graph's own answers *)
Theorem root_queries root : g_root g = Ok root ->
  g_query g QParents (ATid root) false = Ok [] /\
  (exists l, g_query g QDescendants (ATid root) false = Ok l /\ NoDup l /\
     forall x, In x l <-> (node_of es x /\ x <> root)) /\
  (multi_root es -> exists l, g_query g QChildren (ATid root) false = Ok l /\ NoDup l /\
     forall x, In x l <-> parentless es x).
Proof.
  intro Hr. destruct root_spec as (root' & Hr' & Hn & _ & Hnp & Hall & Hch).
  rewrite Hr in Hr'. inversion Hr'; subst root'. clear Hr'.
  destruct HW as (_ & Hac & Hm).
  split; [|split].
  - destruct (proj1 (query_spec QParents (ATid root) root false (den_tid root)) Hn) as (l & Hl & _ & Hin).
    rewrite Hl. f_equal. destruct l as [|y l]; [reflexivity|]. exfalso.
    assert (In y (y :: l)) as Hy by (left; reflexivity). apply Hin in Hy. cbn [rel] in Hy.
    destruct Hy as [Hy|[Hy _]]; [exact (Hnp y Hy) | discriminate].
  - destruct (proj1 (query_spec QDescendants (ATid root) root false (den_tid root)) Hn) as (l & Hl & Hnd & Hin).
    exists l. split; [exact Hl|]. split; [exact Hnd|]. intro x. rewrite Hin. cbn [rel]. split.
    + intros [H|[H _]]; [|discriminate]. split.
      * destruct (node_of_dec x) as [Hx|Hx]; [exact Hx|]. exfalso.
        (* x reaches root, hence x has an outgoing is_a edge, hence is a node *)
        unfold ancestor in H. apply clos_trans_t1n in H.
        apply Hx. inversion H as [y Hy|y z Hy _]; subst.
        -- destruct Hy as [Hy|(_ & Hp & _)]; [left; exists root; left; exact Hy | left; apply parentless_mentions; exact Hp].
        -- destruct Hy as [Hy|(_ & Hp & _)]; [left; exists y; left; exact Hy | left; apply parentless_mentions; exact Hp].
      * intro Hx. subst x. exact (rel_irrefl es QAncestors root Hac Hm H).
    + intros [Hx Hne]. left. exact (Hall x Hx Hne).
  - intro Hmr. destruct (proj1 (query_spec QChildren (ATid root) root false (den_tid root)) Hn) as (l & Hl & Hnd & Hin).
    exists l. split; [exact Hl|]. split; [exact Hnd|]. intro x. rewrite Hin. cbn [rel]. rewrite <- (Hch Hmr x).
    split; [intros [H|[H _]]; [exact H | discriminate] | intro H; left; exact H].
Qed.

(* predicates and the leaf test, in terms of the input edges *)
Theorem pred_spec q sa oa s o : denotes sa s -> denotes oa o ->
  (node_of es o -> node_of es s -> exists b, g_pred g q sa oa = Ok b /\ (b = true <-> rel es q o s)) /\
  (node_of es o -> ~ node_of es s -> g_pred g q sa oa = Ok false) /\
  (~ node_of es o -> g_pred g q sa oa = Err ValueError).
Proof.
  intros Hs Ho. destruct (built_ok f es g HW HC) as (root & E & Hf & Hok).
  pose proof (fo_eff _ _ _ Hf) as He. pose proof (fo_acyclic _ _ _ Hf) as Ha.
  destruct (g_pred_spec E root g Hok Ha q sa oa s o Hs Ho) as (H1 & H2 & H3).
  pose proof (eff_mentions es E He) as Hm.
  split; [|split].
  - intros Hno Hns. apply Hm in Hno. apply Hm in Hns. destruct (H1 Hno Hns) as (b & Hb & Hiff).
    exists b. split; [exact Hb|]. rewrite Hiff. apply (relE_rel es E He).
  - intros Hno Hns. apply H2; [apply Hm; exact Hno | intro H; apply Hns; apply Hm; exact H].
  - intro Hno. apply H3. intro H. apply Hno. apply Hm. exact H.
Qed.

Theorem leaf_spec a x : denotes a x ->
  (node_of es x -> exists b, g_is_leaf g a = Ok b /\ (b = true <-> forall y, ~ is_a es y x)) /\
  (~ node_of es x -> g_is_leaf g a = Err ValueError).
Proof.
  intro Hd. destruct (built_ok f es g HW HC) as (root & E & Hf & Hok).
  pose proof (fo_eff _ _ _ Hf) as He.
  destruct (g_leaf_spec E root g Hok a x Hd) as [H1 H2].
  pose proof (eff_mentions es E He) as Hm. split.
  - intro Hn. apply Hm in Hn. destruct (H1 Hn) as (b & Hb & Hiff). exists b. split; [exact Hb|].
    rewrite Hiff. split; intros H y Hy; apply (H y); apply He; exact Hy.
  - intro Hn. apply H2. intro H. apply Hn. apply Hm. exact H.
Qed.

Theorem contains_spec x : g_contains g x = true <-> node_of es x.
Proof.
  destruct (built_ok f es g HW HC) as (root & E & Hf & Hok).
  rewrite (g_contains_spec E root g Hok x). apply (eff_mentions es E (fo_eff _ _ _ Hf)).
Qed.

(* ===================== C03: predicates = membership in the traversal ===================== *)
Theorem pred_is_membership q sa oa s b l : denotes sa s ->
  g_pred g q sa oa = Ok b -> g_query g q oa false = Ok l -> (b = true <-> In s l).
Proof.
  intros Hs Hb Hl.
  assert (exists o, denotes oa o) as [o Ho].
  { destruct (ApiM.arg_cases oa) as [M|H]; [|exact H].
    rewrite (malformed_query q oa false M) in Hl. discriminate. }
  destruct (pred_spec q sa oa s o Hs Ho) as (H1 & H2 & H3).
  destruct (node_of_dec o) as [Hno|Hno]; [|rewrite (H3 Hno) in Hb; discriminate].
  destruct (proj1 (query_spec q oa o false Ho) Hno) as (l' & Hl' & _ & Hin). rewrite Hl in Hl'. inversion Hl'; subst l'.
  destruct (node_of_dec s) as [Hns|Hns].
  - destruct (H1 Hno Hns) as (b' & Hb' & Hiff). rewrite Hb in Hb'. inversion Hb'; subst b'.
    rewrite Hiff, Hin. split; [intro H; left; exact H | intros [H|[H _]]; [exact H | discriminate]].
  - rewrite (H2 Hno Hns) in Hb. inversion Hb; subst b. split; [discriminate|]. intro Hi. exfalso.
    apply Hin in Hi. destruct Hi as [Hi|[Hi _]]; [|discriminate]. apply Hns.
    destruct (built_ok f es g HW HC) as (root & E & Hf & Hok).
    pose proof (fo_eff _ _ _ Hf) as He. apply (eff_mentions es E He).
    apply (relE_rel es E He) in Hi.
    exact (proj2 (ApiM.relE_mentions E q o s Hi)).
Qed.

Theorem leaf_is_no_children a b l :
  g_is_leaf g a = Ok b -> g_query g QChildren a false = Ok l -> (b = true <-> l = []).
Proof.
  intros Hb Hl.
  assert (exists x, denotes a x) as [x Hd].
  { destruct (ApiM.arg_cases a) as [M|H]; [|exact H].
    rewrite (malformed_query QChildren a false M) in Hl. discriminate. }
  destruct (leaf_spec a x Hd) as [H1 H2].
  destruct (node_of_dec x) as [Hn|Hn]; [|rewrite (H2 Hn) in Hb; discriminate].
  destruct (H1 Hn) as (b' & Hb' & Hiff). rewrite Hb in Hb'. inversion Hb'; subst b'.
  destruct (proj1 (query_spec QChildren a x false Hd) Hn) as (l' & Hl' & _ & Hin). rewrite Hl in Hl'. inversion Hl'; subst l'.
  rewrite Hiff. cbn [rel] in Hin. split.
  - intro H. destruct l as [|y l]; [reflexivity|]. exfalso. apply (H y).
    assert (In y (y :: l)) as Hy by (left; reflexivity). apply Hin in Hy. destruct Hy as [Hy|[Hy _]]; [exact Hy | discriminate].
  - intros -> y Hy. apply (proj2 (Hin y)). left. exact Hy.
Qed.

(* parent/child and ancestor/descendant are converse relations *)
Theorem converse sa oa s o : denotes sa s -> denotes oa o -> node_of es s -> node_of es o ->
  g_pred g QParents sa oa = g_pred g QChildren oa sa /\
  g_pred g QAncestors sa oa = g_pred g QDescendants oa sa.
Proof.
  intros Hs Ho Hns Hno.
  assert (X : forall q q', (forall a b, rel es q a b <-> rel es q' b a) -> g_pred g q sa oa = g_pred g q' oa sa).
  { intros q q' Hqq.
    destruct (proj1 (pred_spec q sa oa s o Hs Ho) Hno Hns) as (b1 & Hb1 & I1).
    destruct (proj1 (pred_spec q' oa sa o s Ho Hs) Hns Hno) as (b2 & Hb2 & I2).
    rewrite Hb1, Hb2. f_equal. rewrite Hqq in I1. rewrite <- I2 in I1.
    destruct b1, b2; try reflexivity; [symmetry; apply I1; reflexivity | apply I1; reflexivity]. }
  split; apply X; intros a b; cbn [rel]; reflexivity.
Qed.
End Built.

(* ===================== C02 / C03: only the edge SET matters, and all factories agree ============ *)
Definition res_perm {A} (r1 r2 : res (list A)) : Prop :=
  match r1, r2 with
  | Ok l1, Ok l2 => Permutation l1 l2
  | Err e1, Err e2 => e1 = e2
  | _, _ => False
  end.

Lemma wf_ext es1 es2 : (forall e, In e es1 <-> In e es2) -> WfInput es1 -> WfInput es2.
Proof.
  intros H (Hne & Hac & Hm). split; [|split].
  - intro Hnil. subst es2. destruct es1 as [|e r]; [apply Hne; reflexivity|]. apply (H e). left. reflexivity.
  - apply (acyclic_ext _ _ H). exact Hac.
  - intro Hm2. apply Hm. apply (mentions_ext _ _ H). exact Hm2.
Qed.

Lemma node_of_ext es1 es2 : (forall e, In e es1 <-> In e es2) -> forall x, node_of es1 x <-> node_of es2 x.
Proof.
  intros H x. unfold node_of. rewrite (mentions_ext _ _ H x), (multi_root_ext _ _ H). reflexivity.
Qed.

Lemma rel_ext es1 es2 : (forall e, In e es1 <-> In e es2) -> forall q x y, rel es1 q x y <-> rel es2 q x y.
Proof.
  intros H q x y. destruct q; cbn [rel]; try apply (is_a_ext _ _ H).
  - unfold ancestor. apply clos_trans_ext. intros a b. apply (is_a_ext _ _ H).
  - unfold ancestor. apply clos_trans_ext. intros a b. apply (is_a_ext _ _ H).
Qed.

(* two graphs built - by any two factories - from edge lists with the same edge SET (any order,
   any repeats) have the same node list, the same root, and answer every call alike *)
Theorem same_edge_set_same_answers f1 f2 es1 es2 g1 g2 :
  (forall e, In e es1 <-> In e es2) -> WfInput es1 -> create f1 es1 = Ok g1 -> create f2 es2 = Ok g2 ->
  g_nodes g1 = g_nodes g2 /\ g_root g1 = g_root g2 /\
  (forall k, g_contains g1 k = g_contains g2 k) /\
  (forall q a incl, res_perm (g_query g1 q a incl) (g_query g2 q a incl)) /\
  (forall q sa oa, g_pred g1 q sa oa = g_pred g2 q sa oa) /\
  (forall a, g_is_leaf g1 a = g_is_leaf g2 a).
Proof.
  intros H W1 C1 C2. pose proof (wf_ext es1 es2 H W1) as W2.
  assert (Hbool : forall b1 b2 : bool, (b1 = true <-> b2 = true) -> b1 = b2).
  { intros [|] [|] I; try reflexivity; [symmetry; apply I; reflexivity | apply I; reflexivity]. }
  split; [|split; [|split; [|split; [|split]]]].
  - destruct (nodes_spec f1 es1 g1 W1 C1) as (_ & S1 & I1). destruct (nodes_spec f2 es2 g2 W2 C2) as (_ & S2 & I2).
    apply (SSorted_unique key key_ltb key_ltb_irrefl key_ltb_trans); [exact S1 | exact S2|].
    intro x. rewrite I1, I2. apply node_of_ext. exact H.
  - destruct (root_spec f1 es1 g1 W1 C1) as (r1 & R1 & _ & K1 & _). destruct (root_spec f2 es2 g2 W2 C2) as (r2 & R2 & _ & K2 & _).
    rewrite R1, R2. f_equal.
    destruct K1 as [[U1 N1]|[M1 ->]]; destruct K2 as [[U2 N2]|[M2 ->]].
    + apply U2. apply (parentless_ext _ _ H). apply U1. reflexivity.
    + exfalso. apply N1. apply (multi_root_ext _ _ H). exact M2.
    + exfalso. apply N2. apply (multi_root_ext _ _ H). exact M1.
    + reflexivity.
  - intro k. apply Hbool. rewrite (contains_spec f1 es1 g1 W1 C1), (contains_spec f2 es2 g2 W2 C2). apply node_of_ext. exact H.
  - intros q a incl. destruct (ApiM.arg_cases a) as [M|[x Hd]].
    + rewrite (malformed_query f1 es1 g1 W1 C1 q a incl M), (malformed_query f2 es2 g2 W2 C2 q a incl M). reflexivity.
    + destruct (query_spec f1 es1 g1 W1 C1 q a x incl Hd) as [A1 B1]. destruct (query_spec f2 es2 g2 W2 C2 q a x incl Hd) as [A2 B2].
      destruct (node_of_dec f1 es1 g1 W1 C1 x) as [Hn|Hn].
      * destruct (A1 Hn) as (l1 & L1 & D1 & I1). destruct (A2 (proj1 (node_of_ext _ _ H x) Hn)) as (l2 & L2 & D2 & I2).
        rewrite L1, L2. cbn [res_perm]. apply NoDup_Permutation; [exact D1 | exact D2|].
        intro y. rewrite I1, I2, (rel_ext _ _ H). reflexivity.
      * rewrite (B1 Hn), (B2 (fun K => Hn (proj2 (node_of_ext _ _ H x) K))). reflexivity.
  - intros q sa oa. destruct (ApiM.arg_cases sa) as [Ms|[s Hs]].
    { rewrite (malformed_pred f1 es1 g1 W1 C1 q sa oa (or_introl Ms)), (malformed_pred f2 es2 g2 W2 C2 q sa oa (or_introl Ms)). reflexivity. }
    destruct (ApiM.arg_cases oa) as [Mo|[o Ho]].
    { rewrite (malformed_pred f1 es1 g1 W1 C1 q sa oa (or_intror Mo)), (malformed_pred f2 es2 g2 W2 C2 q sa oa (or_intror Mo)). reflexivity. }
    destruct (pred_spec f1 es1 g1 W1 C1 q sa oa s o Hs Ho) as (A1 & B1 & D1).
    destruct (pred_spec f2 es2 g2 W2 C2 q sa oa s o Hs Ho) as (A2 & B2 & D2).
    pose proof (node_of_ext _ _ H) as NE.
    destruct (node_of_dec f1 es1 g1 W1 C1 o) as [Hno|Hno].
    + destruct (node_of_dec f1 es1 g1 W1 C1 s) as [Hns|Hns].
      * destruct (A1 Hno Hns) as (b1 & E1 & I1). destruct (A2 (proj1 (NE o) Hno) (proj1 (NE s) Hns)) as (b2 & E2 & I2).
        rewrite E1, E2. f_equal. apply Hbool. rewrite I1, I2. apply rel_ext. exact H.
      * rewrite (B1 Hno Hns), (B2 (proj1 (NE o) Hno) (fun K => Hns (proj2 (NE s) K))). reflexivity.
    + rewrite (D1 Hno), (D2 (fun K => Hno (proj2 (NE o) K))). reflexivity.
  - intro a. destruct (ApiM.arg_cases a) as [M|[x Hd]].
    + rewrite (malformed_leaf f1 es1 g1 W1 C1 a M), (malformed_leaf f2 es2 g2 W2 C2 a M). reflexivity.
    + destruct (leaf_spec f1 es1 g1 W1 C1 a x Hd) as [A1 B1]. destruct (leaf_spec f2 es2 g2 W2 C2 a x Hd) as [A2 B2].
      pose proof (node_of_ext _ _ H) as NE.
      destruct (node_of_dec f1 es1 g1 W1 C1 x) as [Hn|Hn].
      * destruct (A1 Hn) as (b1 & E1 & I1). destruct (A2 (proj1 (NE x) Hn)) as (b2 & E2 & I2).
        rewrite E1, E2. f_equal. apply Hbool. rewrite I1, I2.
        split; intros K y Hy; apply (K y); apply (is_a_ext _ _ H); exact Hy.
      * rewrite (B1 Hn), (B2 (fun K => Hn (proj2 (NE x) K))). reflexivity.
Qed.

Print Assumptions create_total.
Print Assumptions query_spec.
Print Assumptions include_source_spec.
Print Assumptions nodes_spec.
Print Assumptions root_spec.
Print Assumptions root_queries.
Print Assumptions pred_spec.
Print Assumptions pred_is_membership.
Print Assumptions leaf_is_no_children.
Print Assumptions converse.
Print Assumptions same_edge_set_same_answers.

(* ===================== the index API of the indexed graph (C03, C14) ===================== *)
Section BuiltIdx.
Variable es : list edge.
Variable ig : igraph.
Hypothesis HW : WfInput es.
Hypothesis HC : idx_factory es = Ok ig.
Let n := length (ig_nodes ig).
Let node (i : nat) : key := nth i (ig_nodes ig) key0.

Lemma idx_built : exists root E, FrontOK es E root /\ IGraphOK E root ig.
Proof.
  assert (C : create FIdx es = Ok (GI ig)) by (cbn [create]; rewrite HC; reflexivity).
  destruct (built_ok FIdx es (GI ig) HW C) as (root & E & Hf & Hok). exists root, E. split; assumption.
Qed.

(* node <-> index is a bijection between the nodes and 0..n-1; every other integer (negative ones
   included) raises ValueError; an unknown node maps to no index *)
Theorem idx_bijection :
  (forall x i, ig_node_to_idx ig x = Some i <-> (i < n /\ ig_idx_to_node ig (Z.of_nat i) = Ok x)) /\
  (forall x, ig_node_to_idx ig x = None <-> ~ node_of es x) /\
  (forall z, (0 <= z < Z.of_nat n)%Z -> exists x, ig_idx_to_node ig z = Ok x /\ node_of es x /\ ig_node_to_idx ig x = Some (Z.to_nat z)) /\
  (forall z, ~ (0 <= z < Z.of_nat n)%Z -> ig_idx_to_node ig z = Err ValueError) /\
  (exists root, ig_root_node ig = Ok root /\ g_root (GI ig) = Ok root /\ ig_node_to_idx ig root = Some (ig_root ig)).
Proof.
  destruct idx_built as (root & E & Hf & Hok). pose proof (fo_eff _ _ _ Hf) as He.
  split; [|split; [|split; [|split]]].
  - intros x i. rewrite (ig_node_to_idx_spec E root ig Hok x i). split.
    + intro Hn. assert (Hi : i < n) by (apply nth_error_Some; rewrite Hn; discriminate). split; [exact Hi|].
      destruct (proj1 (ig_idx_to_node_spec E root ig Hok (Z.of_nat i))) as (Hx & _); [fold n; lia|].
      rewrite Hx, Nat2Z.id. f_equal. apply nth_error_nth. exact Hn.
    + intros [Hi Hx]. destruct (proj1 (ig_idx_to_node_spec E root ig Hok (Z.of_nat i))) as (Hx' & _ & Hk); [fold n; lia|].
      rewrite Hx in Hx'. inversion Hx'; subst x. rewrite Nat2Z.id in *. apply (ig_node_to_idx_spec E root ig Hok). exact Hk.
  - intro x. rewrite (ig_node_to_idx_none E root ig Hok x), (eff_mentions es E He). reflexivity.
  - intros z Hz. destruct (proj1 (ig_idx_to_node_spec E root ig Hok z) Hz) as (Hx & Hm & Hk).
    eexists. split; [exact Hx|]. split; [apply (eff_mentions es E He); exact Hm | exact Hk].
  - intros z Hz. exact (proj2 (ig_idx_to_node_spec E root ig Hok z) Hz).
  - exists root. destruct (ig_root_spec E root ig Hok) as [H1 H2]. split; [exact H1|]. split; [exact H1 | exact H2].
Qed.

Definition idx_query (q : query) (i : Z) : res (list nat) :=
  match q with
  | QParents => ig_parents_idx ig i
  | QChildren => ig_children_idx ig i
  | QAncestors => ig_ancestor_idx ig i
  | QDescendants => ig_descendant_idx ig i
  end.

Definition idx_pred (q : query) (s o : Z) : res bool :=
  match q with
  | QParents => ig_is_parent_of_idx ig s o
  | QChildren => ig_is_child_of_idx ig s o
  | QAncestors => ig_is_ancestor_of_idx ig s o
  | QDescendants => ig_is_descendant_of_idx ig s o
  end.

(* get_*_idx: in range, each index once and exactly the indices of the related nodes; out of range
   (negative included) ValueError *)
Theorem idx_query_spec q (i : Z) :
  ((0 <= i < Z.of_nat n)%Z ->
     exists l, idx_query q i = Ok l /\ NoDup l /\
       forall j, In j l <-> (j < n /\ rel es q (node (Z.to_nat i)) (node j))) /\
  (~ (0 <= i < Z.of_nat n)%Z -> idx_query q i = Err ValueError).
Proof.
  destruct idx_built as (root & E & Hf & Hok). pose proof (fo_eff _ _ _ Hf) as He. pose proof (fo_acyclic _ _ _ Hf) as Ha.
  destruct (idxq_spec E root ig Hok q i) as [H1 H2].
  assert (EQ : idx_query q i = idxq ig q i) by (destruct q; reflexivity). rewrite EQ.
  split; [|exact H2]. intro Hi. destruct (H1 Hi) as (l & Hl & Hnd & Hin). exists l. split; [exact Hl|]. split; [exact Hnd|].
  intro j. rewrite Hin. fold n. fold (node (Z.to_nat i)). fold (node j). rewrite (relE_rel es E He). reflexivity.
Qed.

(* the node API is the index API mapped through idx_to_node *)
Theorem idx_query_mirror q x i incl : ig_node_to_idx ig x = Some i ->
  g_query (GI ig) q (ATid x) incl = rmap (fun l => (if incl then [x] else []) ++ map node l) (idx_query q (Z.of_nat i)).
Proof.
  destruct idx_built as (root & E & Hf & Hok). intro H.
  assert (EQ : idx_query q (Z.of_nat i) = idxq ig q (Z.of_nat i)) by (destruct q; reflexivity). rewrite EQ.
  exact (ig_query_mirror E root ig Hok q x i incl H).
Qed.

(* is_*_of_idx on two valid indices is the node-level predicate on the two nodes *)
Theorem idx_pred_mirror q s o x y : ig_node_to_idx ig x = Some s -> ig_node_to_idx ig y = Some o ->
  idx_pred q (Z.of_nat s) (Z.of_nat o) = g_pred (GI ig) q (ATid x) (ATid y).
Proof.
  intros Hs Ho. destruct q; cbn [g_pred idx_pred];
    unfold ig_is_parent_of, ig_is_child_of, ig_is_ancestor_of, ig_is_descendant_of, ig_pred, ig_map_to_term_idx;
    cbn [map_to_term_id rmap bind]; rewrite Ho; cbn [bind]; rewrite Hs; reflexivity.
Qed.

(* is_*_of_idx: the index whose row is read must be valid, else ValueError; the other index is
   never answered True unless it is the index of a related node *)
Theorem idx_pred_spec_es (s o : Z) :
  let walked q := match q with QParents | QAncestors => o | _ => s end in
  let other q := match q with QParents | QAncestors => s | _ => o end in
  let up q := match q with QParents | QChildren => QParents | _ => QAncestors end in
  forall q,
  ((0 <= walked q < Z.of_nat n)%Z ->
     exists b, idx_pred q s o = Ok b /\
       (b = true <-> ((0 <= other q < Z.of_nat n)%Z /\ rel es (up q) (node (Z.to_nat (walked q))) (node (Z.to_nat (other q)))))) /\
  (~ (0 <= walked q < Z.of_nat n)%Z -> idx_pred q s o = Err ValueError).
Proof.
  destruct idx_built as (root & E & Hf & Hok). pose proof (fo_eff _ _ _ Hf) as He. pose proof (fo_acyclic _ _ _ Hf) as Ha.
  destruct (idx_pred_spec E root ig Hok s o) as (A & B & C & D). fold n in A, B, C, D. fold node in A, C.
  intros walked other up q. destruct q; cbn [idx_pred walked other up]; (split; [intro H|intro H]).
  - destruct (proj1 (A H)) as (b & Hb & I). exists b. split; [exact Hb|]. rewrite I, (relE_rel es E He). reflexivity.
  - exact (proj1 (B H)).
  - destruct (proj1 (C H)) as (b & Hb & I). exists b. split; [exact Hb|]. rewrite I, (relE_rel es E He). reflexivity.
  - exact (proj1 (D H)).
  - destruct (proj2 (A H)) as (b & Hb & I). exists b. split; [exact Hb|]. rewrite I, (relE_rel es E He). reflexivity.
  - exact (proj2 (B H)).
  - destruct (proj2 (C H)) as (b & Hb & I). exists b. split; [exact Hb|]. rewrite I, (relE_rel es E He). reflexivity.
  - exact (proj2 (D H)).
Qed.
End BuiltIdx.

Print Assumptions idx_bijection.
Print Assumptions idx_query_spec.
Print Assumptions idx_query_mirror.
Print Assumptions idx_pred_mirror.
Print Assumptions idx_pred_spec_es.

(* a convenient sufficient condition for acyclicity (used by the non-vacuity examples) *)
Lemma acyclic_by_rank es (rank : key -> nat) :
  (forall x y, In (x, y) es -> rank x < rank y) -> acyclic es.
Proof.
  intros H x Hc.
  assert (forall a b, clos_trans key (fun a b => In (a, b) es) a b -> rank a < rank b) as M.
  { intros a b Hab. induction Hab as [a b Hs|a b c _ IH1 _ IH2]; [apply H; exact Hs | lia]. }
  specialize (M x x Hc). lia.
Qed.

Lemma wf_by_rank es (rank : key -> nat) :
  es <> [] -> (forall x y, In (x, y) es -> rank x < rank y) ->
  forallb (fun e => negb (key_eqb (fst e) owl_thing) && negb (key_eqb (snd e) owl_thing)) es = true -> WfInput es.
Proof.
  intros Hne Hr Hm. split; [exact Hne|]. split; [exact (acyclic_by_rank es rank Hr)|].
  intros [y [Hy|Hy]]; rewrite forallb_forall in Hm; specialize (Hm _ Hy); cbn [fst snd] in Hm;
    apply andb_prop in Hm; destruct Hm as [H1 H2].
  - assert (K : key_eqb owl_thing owl_thing = true) by (apply key_eqb_eq; reflexivity). rewrite K in H1. discriminate.
  - assert (K : key_eqb owl_thing owl_thing = true) by (apply key_eqb_eq; reflexivity). rewrite K in H2. discriminate.
Qed.
