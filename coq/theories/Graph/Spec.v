(* Declarative specification of what a graph built from an is_a edge list must answer, and the
   interface ("the rows are right") between the factory proofs and the API proofs. *)
From Coq Require Import String List Bool Arith ZArith Relations Relation_Operators.
From Hpotk Require Import Base.Result Base.Str Base.Ord TermId.Model Csr.Model Graph.Worklist Graph.Model.
Import ListNotations.
Open Scope list_scope.

(* ---------- the input ---------- *)
Definition mentions (es : list edge) (x : key) : Prop := exists y, In (x, y) es \/ In (y, x) es.
Definition parentless (es : list edge) (x : key) : Prop := (exists s, In (s, x) es) /\ ~ (exists o, In (x, o) es).
Definition multi_root (es : list edge) : Prop := exists a b, a <> b /\ parentless es a /\ parentless es b.
Definition acyclic (es : list edge) : Prop := forall x, ~ clos_trans key (fun a b => In (a, b) es) x x.

(* ---------- what the graph must contain ---------- *)
(* x is_a y in the graph: an input edge, or the synthetic edge from a parentless term to owl:Thing
   that exists exactly when there are two or more parentless terms *)
Definition is_a (es : list edge) (x y : key) : Prop :=
  In (x, y) es \/ (multi_root es /\ parentless es x /\ y = owl_thing).
Definition ancestor (es : list edge) : key -> key -> Prop := clos_trans key (is_a es).
Definition node_of (es : list edge) (x : key) : Prop := mentions es x \/ (multi_root es /\ x = owl_thing).

(* the answer a query must give, as a set *)
Definition rel (es : list edge) (q : query) (x y : key) : Prop :=
  match q with
  | QParents => is_a es x y
  | QChildren => is_a es y x
  | QAncestors => ancestor es x y
  | QDescendants => ancestor es y x
  end.

(* ---------- interface between factory proofs and API proofs ---------- *)
(* E is the effective edge list the factories work on (after de-duplication and root finding) *)
Definition Eff (es E : list edge) : Prop := forall x y, In (x, y) E <-> is_a es x y.

(* "the rows are right": nodes are the sorted endpoints of E; row i of par (chi) lists, each once,
   the indices of the objects (subjects) of the edges whose subject (object) is node i *)
Record RowsOK (E : list edge) (nodes : list key) (par chi : nat -> list nat) : Prop := {
  ro_sorted : SSorted key_ltb nodes;
  ro_nodes : forall x, In x nodes <-> mentions E x;
  ro_par : forall i, i < length nodes ->
             NoDup (par i) /\
             forall j, In j (par i) <-> (j < length nodes /\ In (nth i nodes key0, nth j nodes key0) E);
  ro_chi : forall i, i < length nodes ->
             NoDup (chi i) /\
             forall j, In j (chi i) <-> (j < length nodes /\ In (nth j nodes key0, nth i nodes key0) E) }.

(* an indexed graph whose CSR arrays present the right rows *)
Record IGraphOK (E : list edge) (root : key) (g : igraph) : Prop := {
  io_rows : RowsOK E (ig_nodes g) (succ_of (ig_par g)) (succ_of (ig_chi g));
  io_plen : length (a_indptr (ig_par g)) = S (length (ig_nodes g));
  io_clen : length (a_indptr (ig_chi g)) = S (length (ig_nodes g));
  io_root : nth_error (ig_nodes g) (ig_root g) = Some root }.

(* a matrix graph whose signed adjacency matrix presents the right rows *)
Record MGraphOK (E : list edge) (root : key) (g : mgraph) : Prop := {
  mo_rows : RowsOK E (mg_nodes g) (mg_cols g CHILD_CODE) (mg_cols g PARENT_CODE);
  mo_root : mg_root g = root }.

Definition GraphOK (E : list edge) (root : key) (g : graph) : Prop :=
  match g with GI ig => IGraphOK E root ig | GM mg => MGraphOK E root mg end.

(* what root finding must deliver *)
Record FrontOK (es E : list edge) (root : key) : Prop := {
  fo_nodup : NoDup E;
  fo_eff : Eff es E;
  fo_acyclic : acyclic E;
  fo_root_node : mentions E root;
  fo_root_single : forall a, (forall b, parentless es b <-> b = a) -> root = a;
  fo_root_multi : multi_root es -> root = owl_thing }.

(* the answer a query must give, in terms of the effective edge list *)
Definition relE (E : list edge) (q : query) (x y : key) : Prop :=
  match q with
  | QParents => In (x, y) E
  | QChildren => In (y, x) E
  | QAncestors => clos_trans key (fun a b => In (a, b) E) x y
  | QDescendants => clos_trans key (fun a b => In (a, b) E) y x
  end.

(* a well-formed argument denoting the term id k, in any of the three accepted forms *)
Inductive denotes : arg -> key -> Prop :=
| den_str s t : from_curie s = Ok t -> denotes (AStr s) (tkey t)
| den_tid k : denotes (ATid k) k
| den_ident k : denotes (AIdent k) k.

(* a malformed argument: neither str, TermId nor Identified, or a str that is not a CURIE *)
Definition malformed (a : arg) : Prop :=
  a = AOther \/ exists s, a = AStr s /\ from_curie s = Err ValueError.
