(* The CSV FILE written by SimilarityContainer.to_csv and read by SimilarityContainer.from_csv, as text:
     to_csv:   '#' description LF, '#' metadata LF, then csv.DictWriter rows (header row, one row per stored pair),
               each terminated by CR LF;
     from_csv: the handle delivers the text in universal-newline mode (Io.Model.universal: no CR is ever seen);
               leading physical lines starting with '#' are the header (store_header), the rest goes through
               csv.DictReader: the first record gives the field names, empty records are skipped, every other
               record is looked up by field name (KeyError for a missing column, TypeError for a missing value,
               ValueError when float() rejects the text).
   csv.reader consumes characters across physical lines while a quoted field is open, so the body is read as ONE
   character stream: `read_row` (Sim.Csv) gives the fields of its first record, `rest` what follows that record.
   The float <-> text conversion (repr / float()) is an oracle: values are carried as their text, `valid_float`
   says which texts float() accepts.  The theorem: what to_csv writes, from_csv reads back - rows, order, metadata
   line - for any keys without line breaks (commas, quotes, hash signs, blanks allowed).  Definitions and proofs. *)
From Coq Require Import String Ascii List Bool Arith Lia.
From Hpotk Require Import Base.Result Base.Str Io.Model Io.Proofs Sim.Model Sim.Proofs Sim.Csv.
Import ListNotations.
Open Scope list_scope.

Definition hash : ascii := "#"%char.
Definition lfs : string := String nl EmptyString.

(* ---- writing ---- *)
Definition row3 (r : string * string * string) : list string := let '(a, b, v) := r in [a; b; v].
Definition header_row : list string := ["term_a"; "term_b"; "ic_mica"]%string.
Fixpoint concat_s (l : list string) : string := match l with [] => EmptyString | x :: r => (x ++ concat_s r)%string end.

Definition to_csv_text (description meta_str : string) (rows : list (string * string * string)) : string :=
  (String hash (description ++ lfs) ++ String hash (meta_str ++ lfs) ++ write_row header_row ++ concat_s (map (fun r => write_row (row3 r)) rows))%string.

(* ---- reading ---- *)
(* the text after the first record: everything behind the first line break that is not inside a quoted field *)
Fixpoint rest (s : string) (st : rstate) : string :=
  match s with
  | EmptyString => EmptyString
  | String c r =>
      match st with
      | StartField =>
          if Ascii.eqb c dquote then rest r InQuoted
          else if Ascii.eqb c comma then rest r StartField
          else if Ascii.eqb c nl || Ascii.eqb c cr then r
          else rest r InField
      | InField =>
          if Ascii.eqb c comma then rest r StartField
          else if Ascii.eqb c nl || Ascii.eqb c cr then r
          else rest r InField
      | InQuoted => if Ascii.eqb c dquote then rest r QuoteInQuoted else rest r InQuoted
      | QuoteInQuoted =>
          if Ascii.eqb c dquote then rest r InQuoted
          else if Ascii.eqb c comma then rest r StartField
          else if Ascii.eqb c nl || Ascii.eqb c cr then r
          else rest r InField
      end
  end.

(* all records of a body; fuel = its length (every record consumes at least one character) *)
Fixpoint records (fuel : nat) (s : string) : list (list string) :=
  match fuel with
  | 0 => []
  | S f => match s with
           | EmptyString => []
           | _ => read_row s :: records f (rest s StartField)
           end
  end.

(* the leading physical lines that start with '#' (each with its line feed), and the body *)
Fixpoint take_line (s : string) : string * string :=          (* up to and including the first LF *)
  match s with
  | EmptyString => (EmptyString, EmptyString)
  | String c r => if Ascii.eqb c nl then (String c EmptyString, r) else let '(l, t) := take_line r in (String c l, t)
  end.
Fixpoint split_header (fuel : nat) (s : string) : list string * string :=
  match fuel with
  | 0 => ([], s)
  | S f => match s with
           | String c _ => if Ascii.eqb c hash
                           then let '(l, t) := take_line s in let '(h, b) := split_header f t in (l :: h, b)
                           else ([], s)
           | EmptyString => ([], s)
           end
  end.

(* index of a column *)
Fixpoint col (name : string) (fields : list string) (i : nat) : option nat :=
  match fields with [] => None | f :: r => if seqb f name then Some i else col name r (S i) end.
(* dict(zip(fieldnames, row)) with restval None: the LAST column of that name wins; here names are looked up once *)
Fixpoint col_last (name : string) (fields : list string) (i : nat) (found : option nat) : option nat :=
  match fields with [] => found | f :: r => col_last name r (S i) (if seqb f name then Some i else found) end.

Section Reader.
Variable valid_float : string -> bool.      (* does float() accept the text *)

(* record[name]: KeyError when there is no such column; None (-> TypeError in float(), or a None key) when the row is short *)
Definition cell (names row : list string) (name : string) : res (option string) :=
  match col_last name names 0 None with
  | None => Err KeyError
  | Some i => Ok (nth_error row i)
  end.

Definition parse_record (names row : list string) : res (option string * option string * string) :=
  bind (cell names row "term_a") (fun a =>
  bind (cell names row "term_b") (fun b =>
  bind (cell names row "ic_mica") (fun v =>
  match v with
  | None => Err TypeError
  | Some t => if valid_float t then Ok (a, b, t) else Err ValueError
  end))).

Fixpoint parse_records (names : list string) (rs : list (list string)) : res (list (option string * option string * string)) :=
  match rs with
  | [] => Ok []
  | [] :: r => parse_records names r                         (* DictReader skips empty records *)
  | row :: r => bind (parse_record names row) (fun x => bind (parse_records names r) (fun l => Ok (x :: l)))
  end.

(* from_csv on the delivered text: (header lines, parsed records) *)
Definition from_csv_text (text : string) : res (list string * list (option string * option string * string)) :=
  let '(h, body) := split_header (String.length text) text in
  match records (String.length body) body with
  | [] => Ok (h, [])                                        (* no field names, no records *)
  | names :: rs => bind (parse_records names rs) (fun l => Ok (h, l))
  end.
End Reader.

(* _parse_meta: the second header line without its first and last character *)
Definition meta_line (h : list string) : option string :=
  match h with
  | _ :: l :: _ => if Nat.ltb (String.length l) 2 then None else Some (unframe l)
  | _ => None
  end.

(* ================= proofs ================= *)
Definition crlf : string := String cr (String nl EmptyString).
Definition row_body (l : list string) : string :=
  match l with [EmptyString] => String dquote (String dquote EmptyString) | _ => write_fields l end.
Lemma write_row_body l : write_row l = (row_body l ++ crlf)%string.
Proof. reflexivity. Qed.

Lemma sapp_assoc2 (a b c : string) : ((a ++ b) ++ c)%string = (a ++ (b ++ c))%string.
Proof. induction a as [|x a IH]; cbn [append]; [reflexivity | rewrite IH; reflexivity]. Qed.

(* ---- no carriage return in what the writer produces from CR-free fields ---- *)
Lemma has_cr_app a b : has_cr (a ++ b) = has_cr a || has_cr b.
Proof. induction a as [|c a IH]; cbn [append has_cr]; [reflexivity | rewrite IH, orb_assoc; reflexivity]. Qed.
Lemma no_break_has_cr s : no_break s = true -> has_cr s = false.
Proof.
  unfold no_break. intro H. apply andb_prop in H. destruct H as [_ H]. apply negb_true_iff in H.
  induction s as [|c s IH]; [reflexivity|]. cbn [smem] in H. apply orb_false_iff in H. destruct H as [H1 H2].
  cbn [has_cr]. change crc with cr. rewrite H1, (IH H2). reflexivity.
Qed.
Lemma no_break_no_nl s : no_break s = true -> smem nl s = false.
Proof. unfold no_break. intro H. apply andb_prop in H. destruct H as [H _]. apply negb_true_iff in H. exact H. Qed.

Lemma has_cr_double_quotes s : has_cr (double_quotes s) = has_cr s.
Proof.
  induction s as [|c s IH]; [reflexivity|]. cbn [double_quotes]. destruct (Ascii.eqb c dquote) eqn:E.
  - apply Ascii.eqb_eq in E. subst c. cbn [has_cr]. rewrite IH. reflexivity.
  - cbn [has_cr]. rewrite IH. reflexivity.
Qed.
Lemma has_cr_write_field s : has_cr (write_field s) = has_cr s.
Proof.
  unfold write_field. destruct (needs_quote s); [|reflexivity]. cbn [has_cr]. rewrite has_cr_app, has_cr_double_quotes. cbn [has_cr].
  rewrite orb_false_r. reflexivity.
Qed.
Lemma has_cr_write_fields l : forallb no_break l = true -> has_cr (write_fields l) = false.
Proof.
  induction l as [|x l IH]; intro H; [reflexivity|]. cbn [forallb] in H. apply andb_prop in H. destruct H as [Hx Hl].
  destruct l as [|y l]; cbn [write_fields]; [rewrite has_cr_write_field; exact (no_break_has_cr x Hx)|].
  rewrite has_cr_app, has_cr_write_field, (no_break_has_cr x Hx). cbn [has_cr orb]. exact (IH Hl).
Qed.
Lemma has_cr_row_body l : forallb no_break l = true -> has_cr (row_body l) = false.
Proof. intro H. unfold row_body. destruct l as [|[|c x] [|y l]]; exact (has_cr_write_fields _ H). Qed.

(* ---- universal-newline translation of the written text ---- *)
Lemma universal_app_crlf s t : has_cr s = false -> universal (s ++ String cr (String nl t)) = (s ++ String nl (universal t))%string.
Proof.
  induction s as [|c s IH]; intro H.
  - cbn [append universal]. change crc with cr. change lf with nl. rewrite !Ascii.eqb_refl. reflexivity.
  - cbn [has_cr] in H. apply orb_false_iff in H. destruct H as [Hc Hs]. cbn [append universal]. rewrite Hc, (IH Hs). reflexivity.
Qed.
Lemma universal_app_lf s t : has_cr s = false -> universal (s ++ String nl t) = (s ++ String nl (universal t))%string.
Proof.
  induction s as [|c s IH]; intro H.
  - cbn [append universal]. assert (E : Ascii.eqb nl crc = false) by reflexivity. rewrite E. reflexivity.
  - cbn [has_cr] in H. apply orb_false_iff in H. destruct H as [Hc Hs]. cbn [append universal]. rewrite Hc, (IH Hs). reflexivity.
Qed.

(* the text the reader sees: every line ends with a line feed *)
Definition body_lf (rows : list (list string)) : string := concat_s (map (fun l => (row_body l ++ lfs)%string) rows).
Definition delivered (description meta_str : string) (rows : list (string * string * string)) : string :=
  (String hash (description ++ lfs) ++ String hash (meta_str ++ lfs) ++ body_lf (header_row :: map row3 rows))%string.

Lemma universal_rows rows : Forall (fun l => forallb no_break l = true) rows ->
  universal (concat_s (map write_row rows)) = body_lf rows.
Proof.
  induction rows as [|l rows IH]; intro H; [reflexivity|]. inversion H as [|? ? Hl Hr]; subst.
  cbn [map concat_s]. unfold body_lf. cbn [map concat_s]. rewrite write_row_body. unfold crlf, lfs.
  rewrite !sapp_assoc2. cbn [append]. rewrite (universal_app_crlf _ _ (has_cr_row_body l Hl)). rewrite (IH Hr). reflexivity.
Qed.

Definition row_ok (r : string * string * string) : bool := forallb no_break (row3 r).

Theorem universal_to_csv description meta_str rows :
  no_break description = true -> no_break meta_str = true -> forallb row_ok rows = true ->
  universal (to_csv_text description meta_str rows) = delivered description meta_str rows.
Proof.
  intros Hd Hm Hr. unfold to_csv_text, delivered.
  assert (R : Forall (fun l => forallb no_break l = true) (header_row :: map row3 rows)).
  { constructor; [reflexivity|]. apply Forall_forall. intros l Hl. apply in_map_iff in Hl. destruct Hl as (r & <- & Hin).
    rewrite forallb_forall in Hr. exact (Hr r Hin). }
  assert (E : (write_row header_row ++ concat_s (map (fun r => write_row (row3 r)) rows))%string = concat_s (map write_row (header_row :: map row3 rows))).
  { cbn [map concat_s]. rewrite map_map. reflexivity. }
  rewrite E. clear E.
  change (String hash (description ++ lfs) ++ String hash (meta_str ++ lfs) ++ concat_s (map write_row (header_row :: map row3 rows)))%string
    with (String hash (description ++ String nl (String hash (meta_str ++ lfs) ++ concat_s (map write_row (header_row :: map row3 rows)))))%string at 1 || idtac.
  assert (A : forall d rest, (String hash (d ++ lfs) ++ rest)%string = (String hash d ++ String nl rest)%string).
  { intros d rest. cbn [append]. unfold lfs. rewrite sapp_assoc2. reflexivity. }
  rewrite !A.
  assert (Hd' : has_cr (String hash description) = false) by (cbn [has_cr]; rewrite (no_break_has_cr _ Hd); reflexivity).
  assert (Hm' : has_cr (String hash meta_str) = false) by (cbn [has_cr]; rewrite (no_break_has_cr _ Hm); reflexivity).
  rewrite (universal_app_lf _ _ Hd'), (universal_app_lf _ _ Hm'), (universal_rows _ R). reflexivity.
Qed.

(* ---- reading one record followed by more text ---- *)
(* read_field of Sim.Csv covers a field followed by LF t *)
Lemma read_fields_lf : forall l, l <> [] -> forallb no_break l = true -> forall t acc,
  read (write_fields l ++ String nl t) StartField EmptyString acc = acc ++ l.
Proof.
  induction l as [|x l IH]; [contradiction|]. intros _ Hbl t acc. cbn [forallb] in Hbl. apply andb_prop in Hbl. destruct Hbl as [Hx Hl].
  destruct l as [|y l].
  - cbn [write_fields]. rewrite (read_field x _ acc Hx); [reflexivity | right; eexists; right; left; reflexivity].
  - change (write_fields (x :: y :: l)) with (write_field x ++ String comma (write_fields (y :: l)))%string.
    rewrite sapp_assoc2. cbn [append]. rewrite (read_field x _ acc Hx); [|right; eexists; right; right; reflexivity].
    rewrite Ascii.eqb_refl. rewrite (IH ltac:(discriminate) Hl). rewrite <- app_assoc. reflexivity.
Qed.

Lemma read_row_body l t : l <> [] -> forallb no_break l = true -> read_row (row_body l ++ String nl t) = l.
Proof.
  intros Hne Hb. destruct l as [|x l]; [contradiction|]. pose proof Hb as Hb'. cbn [forallb] in Hb. apply andb_prop in Hb. destruct Hb as [Hx Hl].
  destruct x as [|c x].
  - destruct l as [|y l]; [reflexivity|].
    unfold row_body, read_row.
    assert (E : (write_fields (EmptyString :: y :: l) ++ String nl t)%string = String comma (write_fields (y :: l) ++ String nl t)%string) by reflexivity.
    rewrite E. assert (C : Ascii.eqb comma nl || Ascii.eqb comma cr = false) by reflexivity. rewrite C, <- E.
    exact (read_fields_lf (EmptyString :: y :: l) ltac:(discriminate) Hb' t []).
  - unfold read_row.
    assert (E : row_body (String c x :: l) = write_fields (String c x :: l)) by (destruct l; reflexivity).
    rewrite E. destruct (write_field_head (String c x) Hx ltac:(discriminate)) as (c0 & r0 & Hw & Hc0).
    assert (Hhead : exists r1, (write_fields (String c x :: l) ++ String nl t)%string = String c0 r1).
    { destruct l as [|y l]; cbn [write_fields]; rewrite Hw; cbn [append]; eexists; reflexivity. }
    destruct Hhead as [r1 Hr1]. rewrite Hr1, Hc0, <- Hr1. exact (read_fields_lf (String c x :: l) ltac:(discriminate) Hb' t []).
Qed.

(* ... and `rest` skips exactly that record *)
Lemma rest_quoted_body f : forall tail, rest (double_quotes f ++ String dquote tail) InQuoted = rest tail QuoteInQuoted.
Proof.
  induction f as [|c f IH]; intro tail; cbn [double_quotes append].
  - cbn [rest]. rewrite Ascii.eqb_refl. reflexivity.
  - destruct (Ascii.eqb c dquote) eqn:E.
    + apply Ascii.eqb_eq in E. subst c. cbn [append rest]. rewrite !Ascii.eqb_refl. exact (IH tail).
    + cbn [append rest]. rewrite E. exact (IH tail).
Qed.
Lemma rest_plain_body f : needs_quote f = false -> forall tail, rest (f ++ tail) InField = rest tail InField.
Proof.
  induction f as [|c f IH]; intros H tail; cbn [append]; [reflexivity|].
  cbn [needs_quote] in H. apply orb_false_iff in H. destruct H as [Hc Hf]. unfold special in Hc.
  apply orb_false_iff in Hc. destruct Hc as [Hc Hcr]. apply orb_false_iff in Hc. destruct Hc as [Hc Hnl].
  apply orb_false_iff in Hc. destruct Hc as [Hcomma Hq].
  cbn [rest]. rewrite Hcomma, Hnl, Hcr. cbn [orb]. exact (IH Hf tail).
Qed.
Lemma rest_field f tail :
  (exists t, tail = String nl t \/ tail = String comma t) ->
  rest (write_field f ++ tail) StartField =
  match tail with
  | String c t => if Ascii.eqb c comma then rest t StartField else t
  | EmptyString => EmptyString
  end.
Proof.
  intros Htail. unfold write_field. destruct (needs_quote f) eqn:Q.
  - cbn [append rest]. rewrite Ascii.eqb_refl. rewrite sapp_assoc2. cbn [append]. rewrite rest_quoted_body.
    destruct Htail as (t & [->| ->]); cbn [rest]; reflexivity.
  - destruct f as [|c f].
    + cbn [append]. destruct Htail as (t & [->| ->]); cbn [rest]; reflexivity.
    + pose proof Q as Q'. cbn [needs_quote] in Q. apply orb_false_iff in Q. destruct Q as [Hc Hf]. unfold special in Hc.
      apply orb_false_iff in Hc. destruct Hc as [Hc Hcr]. apply orb_false_iff in Hc. destruct Hc as [Hc Hnl].
      apply orb_false_iff in Hc. destruct Hc as [Hcomma Hq].
      cbn [append rest]. rewrite Hq, Hcomma, Hnl, Hcr. cbn [orb]. rewrite (rest_plain_body f Hf).
      destruct Htail as (t & [->| ->]); cbn [rest]; reflexivity.
Qed.
Lemma rest_fields_lf : forall l, l <> [] -> forall t, rest (write_fields l ++ String nl t) StartField = t.
Proof.
  induction l as [|x l IH]; [contradiction|]. intros _ t. destruct l as [|y l].
  - cbn [write_fields]. rewrite rest_field; [reflexivity | eexists; left; reflexivity].
  - change (write_fields (x :: y :: l)) with (write_field x ++ String comma (write_fields (y :: l)))%string.
    rewrite sapp_assoc2. cbn [append]. rewrite rest_field; [|eexists; right; reflexivity]. rewrite Ascii.eqb_refl.
    exact (IH ltac:(discriminate) t).
Qed.
Lemma rest_row_body l t : l <> [] -> rest (row_body l ++ String nl t) StartField = t.
Proof.
  intro Hne. destruct l as [|x l]; [contradiction|]. destruct x as [|c x].
  - destruct l as [|y l]; [reflexivity|]. unfold row_body. apply rest_fields_lf. discriminate.
  - assert (E : row_body (String c x :: l) = write_fields (String c x :: l)) by (destruct l; reflexivity).
    rewrite E. apply rest_fields_lf. discriminate.
Qed.

(* ---- all records of the body ---- *)
Lemma slen_app2 (a b : string) : String.length (a ++ b) = String.length a + String.length b.
Proof. induction a as [|c a IH]; cbn [append String.length]; [reflexivity | rewrite IH; reflexivity]. Qed.

Lemma body_lf_cons l rows : body_lf (l :: rows) = (row_body l ++ String nl (body_lf rows))%string.
Proof. unfold body_lf. cbn [map concat_s]. unfold lfs. rewrite sapp_assoc2. reflexivity. Qed.

Lemma records_body rows : Forall (fun l => l <> [] /\ forallb no_break l = true) rows ->
  forall fuel, String.length (body_lf rows) <= fuel -> records fuel (body_lf rows) = rows.
Proof.
  induction rows as [|l rows IH]; intros H fuel Hf.
  - destruct fuel; reflexivity.
  - inversion H as [|? ? [Hne Hb] Hr]; subst. rewrite (body_lf_cons l rows) in Hf. rewrite (body_lf_cons l rows).
    rewrite slen_app2 in Hf. cbn [String.length] in Hf.
    destruct fuel as [|fuel]; [lia|].
    cbn [records]. destruct (row_body l ++ String nl (body_lf rows))%string as [|c0 s0] eqn:E.
    + exfalso. apply (f_equal String.length) in E. rewrite slen_app2 in E. cbn [String.length] in E. lia.
    + rewrite <- E. rewrite (read_row_body l _ Hne Hb), (rest_row_body l _ Hne). f_equal.
      apply IH; [exact Hr | lia].
Qed.

(* ---- the header lines ---- *)
Lemma take_line_app s t : smem nl s = false -> take_line (s ++ String nl t) = ((s ++ lfs)%string, t).
Proof.
  induction s as [|c s IH]; intro H.
  - cbn [append take_line]. rewrite Ascii.eqb_refl. reflexivity.
  - cbn [smem] in H. apply orb_false_iff in H. destruct H as [Hc Hs]. cbn [append take_line]. rewrite Hc, (IH Hs). reflexivity.
Qed.

Lemma split_header_delivered description meta_str body fuel :
  smem nl description = false -> smem nl meta_str = false ->
  (match body with String c _ => Ascii.eqb c hash = false | EmptyString => True end) -> 3 <= fuel ->
  split_header fuel (String hash (description ++ lfs) ++ String hash (meta_str ++ lfs) ++ body) =
  ([String hash (description ++ lfs); String hash (meta_str ++ lfs)], body).
Proof.
  intros Hd Hm Hb Hf. destruct fuel as [|[|[|fuel]]]; try lia.
  assert (A : forall d rest, (String hash (d ++ lfs) ++ rest)%string = (String hash d ++ String nl rest)%string).
  { intros d rest. cbn [append]. unfold lfs. rewrite sapp_assoc2. reflexivity. }
  rewrite !A.
  assert (T1 : forall d rest, smem nl d = false -> take_line (String hash (d ++ String nl rest)) = (String hash (d ++ lfs), rest)).
  { intros d rest H. change (String hash (d ++ String nl rest)) with (String hash d ++ String nl rest)%string.
    rewrite (take_line_app (String hash d) rest); [reflexivity|]. cbn [smem]. rewrite H. reflexivity. }
  cbn [split_header append]. rewrite Ascii.eqb_refl. rewrite (T1 description _ Hd). rewrite Ascii.eqb_refl. rewrite (T1 meta_str _ Hm).
  destruct body as [|c b]; [destruct fuel; reflexivity|]. rewrite Hb. reflexivity.
Qed.

(* ---- the records parse back into the rows ---- *)
Section RoundTrip.
Variable valid_float : string -> bool.

Lemma parse_records_rows rows : forallb (fun r => valid_float (snd r)) rows = true ->
  parse_records valid_float header_row (map row3 rows) = Ok (map (fun r => (Some (fst (fst r)), Some (snd (fst r)), snd r)) rows).
Proof.
  induction rows as [|[[a b] v] rows IH]; intro H; [reflexivity|]. cbn [forallb snd] in H. apply andb_prop in H. destruct H as [Hv Hr].
  cbn [map row3 parse_records]. unfold parse_record, cell. cbn. rewrite Hv. cbn [bind]. rewrite (IH Hr). reflexivity.
Qed.

(* THE FILE ROUND TRIP: what to_csv writes - description line, metadata line, column names, one row per stored
   pair - from_csv reads back, through the universal-newline text layer (C16), as exactly those two header lines
   and exactly those rows in that order: for ANY keys and value texts without line breaks (commas, quotes, hash
   signs, blanks, empty strings, non-ASCII bytes), any number of rows, provided float() accepts the value texts *)
Theorem csv_file_roundtrip description meta_str rows :
  no_break description = true -> no_break meta_str = true -> forallb row_ok rows = true ->
  forallb (fun r => valid_float (snd r)) rows = true ->
  from_csv_text valid_float (universal (to_csv_text description meta_str rows)) =
  Ok ([String hash (description ++ lfs); String hash (meta_str ++ lfs)],
      map (fun r => (Some (fst (fst r)), Some (snd (fst r)), snd r)) rows).
Proof.
  intros Hd Hm Hr Hv. rewrite (universal_to_csv _ _ _ Hd Hm Hr). unfold from_csv_text, delivered.
  set (body := body_lf (header_row :: map row3 rows)).
  assert (Hbody : match body with String c _ => Ascii.eqb c hash = false | EmptyString => True end) by (unfold body; rewrite body_lf_cons; reflexivity).
  assert (Hlen : 3 <= String.length (String hash (description ++ lfs) ++ String hash (meta_str ++ lfs) ++ body)).
  { cbn [append String.length]. rewrite !slen_app2. cbn [String.length lfs]. rewrite slen_app2. cbn [String.length]. lia. }
  rewrite (split_header_delivered description meta_str body _ (no_break_no_nl _ Hd) (no_break_no_nl _ Hm) Hbody Hlen).
  assert (R : Forall (fun l => l <> [] /\ forallb no_break l = true) (header_row :: map row3 rows)).
  { constructor; [split; [discriminate | reflexivity]|]. apply Forall_forall. intros l Hl. apply in_map_iff in Hl. destruct Hl as ([[a b] v] & <- & Hin).
    split; [discriminate|]. rewrite forallb_forall in Hr. exact (Hr _ Hin). }
  unfold body. rewrite (records_body _ R _ (le_n _)). rewrite (parse_records_rows rows Hv). reflexivity.
Qed.

(* ... and the metadata line is handed to the metadata codec without its '#' and its line feed *)
Theorem csv_file_meta_line description meta_str : meta_str <> EmptyString ->
  meta_line [String hash (description ++ lfs); String hash (meta_str ++ lfs)] = Some meta_str.
Proof.
  intro Hne. unfold meta_line. destruct meta_str as [|c m]; [contradiction|].
  assert (L : Nat.ltb (String.length (String hash (String c m ++ lfs))) 2 = false) by (cbn [String.length append]; apply Nat.ltb_ge; lia).
  rewrite L. f_equal. change (String hash (String c m ++ lfs)) with (frame (String c m)). unfold frame, unframe. apply sdroplast_snoc.
Qed.
End RoundTrip.

Print Assumptions csv_file_roundtrip.
