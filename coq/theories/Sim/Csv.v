(* The CSV row codec used by SimilarityContainer.to_csv / from_csv (csv.DictWriter / csv.DictReader
   with the default excel dialect: delimiter comma, quotechar double quote, doublequote, QUOTE_MINIMAL,
   lineterminator CR LF), as a string-level model of the writer and of the reader's state machine
   (START_FIELD / IN_FIELD / IN_QUOTED_FIELD / QUOTE_IN_QUOTED_FIELD of CPython's _csv.c), and the
   round-trip theorem for rows whose fields contain no line breaks.  The float <-> text conversion
   (repr / float()) stays an oracle. *)
From Coq Require Import String Ascii List Bool Arith Lia.
From Hpotk Require Import Base.Str Sim.Model.
Import ListNotations.
Open Scope list_scope.

Definition comma : ascii := ","%char.
Definition dquote : ascii := """"%char.

Definition special (c : ascii) : bool := Ascii.eqb c comma || Ascii.eqb c dquote || Ascii.eqb c nl || Ascii.eqb c cr.
Fixpoint needs_quote (s : string) : bool := match s with EmptyString => false | String c r => special c || needs_quote r end.

(* every double quote doubled *)
Fixpoint double_quotes (s : string) : string :=
  match s with
  | EmptyString => EmptyString
  | String c r => if Ascii.eqb c dquote then String dquote (String dquote (double_quotes r)) else String c (double_quotes r)
  end.

Definition write_field (s : string) : string :=
  if needs_quote s then String dquote (double_quotes s ++ String dquote EmptyString) else s.

Fixpoint write_fields (l : list string) : string :=
  match l with
  | [] => EmptyString
  | [x] => write_field x
  | x :: r => (write_field x ++ String comma (write_fields r))%string
  end.

(* writer.writerow(fields); a row consisting of one empty field is written as "" (otherwise it would be an empty line) *)
Definition write_row (l : list string) : string :=
  ((match l with [EmptyString] => String dquote (String dquote EmptyString) | _ => write_fields l end)
   ++ String cr (String nl EmptyString))%string.

(* ---- the reader ---- *)
Inductive rstate := StartField | InField | InQuoted | QuoteInQuoted.

Definition snoc (s : string) (c : ascii) : string := (s ++ String c EmptyString)%string.

Fixpoint read (s : string) (st : rstate) (cur : string) (acc : list string) : list string :=
  match s with
  | EmptyString => acc ++ [cur]                                   (* end of the line *)
  | String c r =>
      match st with
      | StartField =>
          if Ascii.eqb c dquote then read r InQuoted cur acc
          else if Ascii.eqb c comma then read r StartField EmptyString (acc ++ [cur])
          else if Ascii.eqb c nl || Ascii.eqb c cr then acc ++ [cur]
          else read r InField (snoc cur c) acc
      | InField =>
          if Ascii.eqb c comma then read r StartField EmptyString (acc ++ [cur])
          else if Ascii.eqb c nl || Ascii.eqb c cr then acc ++ [cur]
          else read r InField (snoc cur c) acc
      | InQuoted =>
          if Ascii.eqb c dquote then read r QuoteInQuoted cur acc
          else read r InQuoted (snoc cur c) acc
      | QuoteInQuoted =>
          if Ascii.eqb c dquote then read r InQuoted (snoc cur c) acc
          else if Ascii.eqb c comma then read r StartField EmptyString (acc ++ [cur])
          else if Ascii.eqb c nl || Ascii.eqb c cr then acc ++ [cur]
          else read r InField (snoc cur c) acc
      end
  end.

(* next(reader) on one physical line; an empty line gives an empty row *)
Definition read_row (line : string) : list string :=
  match line with
  | EmptyString => []
  | String c _ => if Ascii.eqb c nl || Ascii.eqb c cr then [] else read line StartField EmptyString []
  end.

(* ---- round trip ---- *)
Lemma sapp_nil (s : string) : (s ++ "")%string = s.
Proof. induction s as [|a s IH]; cbn [append]; [reflexivity | rewrite IH; reflexivity]. Qed.
Lemma sapp_assoc (a b c : string) : ((a ++ b) ++ c)%string = (a ++ (b ++ c))%string.
Proof. induction a as [|x a IH]; cbn [append]; [reflexivity | rewrite IH; reflexivity]. Qed.
Lemma snoc_app cur c f : (snoc cur c ++ f)%string = (cur ++ String c f)%string.
Proof. unfold snoc. rewrite sapp_assoc. reflexivity. Qed.

Definition no_break (s : string) : bool := negb (smem nl s) && negb (smem cr s).

(* reading the doubled body of a quoted field *)
Lemma read_quoted_body f : forall tail cur acc,
  read (double_quotes f ++ String dquote tail) InQuoted cur acc = read tail QuoteInQuoted (cur ++ f)%string acc.
Proof.
  induction f as [|c f IH]; intros tail cur acc; cbn [double_quotes append].
  - cbn [read]. rewrite Ascii.eqb_refl, sapp_nil. reflexivity.
  - destruct (Ascii.eqb c dquote) eqn:E.
    + apply Ascii.eqb_eq in E. subst c. cbn [append read]. rewrite !Ascii.eqb_refl. rewrite IH, snoc_app. reflexivity.
    + cbn [append read]. rewrite E, IH, snoc_app. reflexivity.
Qed.

(* reading an unquoted field: no character of it is special *)
Lemma read_plain_body f : needs_quote f = false -> forall tail cur acc,
  read (f ++ tail) InField cur acc = read tail InField (cur ++ f)%string acc.
Proof.
  induction f as [|c f IH]; intros H tail cur acc; cbn [append]; [rewrite sapp_nil; reflexivity|].
  cbn [needs_quote] in H. apply orb_false_iff in H. destruct H as [Hc Hf]. unfold special in Hc.
  apply orb_false_iff in Hc. destruct Hc as [Hc Hcr]. apply orb_false_iff in Hc. destruct Hc as [Hc Hnl].
  apply orb_false_iff in Hc. destruct Hc as [Hcomma Hq].
  cbn [read]. rewrite Hcomma, Hnl, Hcr. cbn [orb]. rewrite (IH Hf), snoc_app. reflexivity.
Qed.

(* one written field, followed by a separator or the line end, is read back as that field *)
Lemma read_field f tail acc : no_break f = true ->
  (tail = EmptyString \/ exists t, tail = String cr t \/ tail = String nl t \/ tail = String comma t) ->
  read (write_field f ++ tail) StartField EmptyString acc =
  match tail with
  | String c t => if Ascii.eqb c comma then read t StartField EmptyString (acc ++ [f]) else acc ++ [f]
  | EmptyString => acc ++ [f]
  end.
Proof.
  intros Hb Htail. unfold write_field. destruct (needs_quote f) eqn:Q.
  - cbn [append read]. rewrite Ascii.eqb_refl. rewrite sapp_assoc. cbn [append]. rewrite read_quoted_body. cbn [append].
    destruct Htail as [->|(t & [->|[->| ->]])]; cbn [read]; try reflexivity.
  - destruct f as [|c f].
    + cbn [append]. destruct Htail as [->|(t & [->|[->| ->]])]; cbn [read]; reflexivity.
    + pose proof Q as Q'. cbn [needs_quote] in Q. apply orb_false_iff in Q. destruct Q as [Hc Hf]. unfold special in Hc.
      apply orb_false_iff in Hc. destruct Hc as [Hc Hcr]. apply orb_false_iff in Hc. destruct Hc as [Hc Hnl].
      apply orb_false_iff in Hc. destruct Hc as [Hcomma Hq].
      cbn [append read]. rewrite Hq, Hcomma, Hnl, Hcr. cbn [orb]. rewrite (read_plain_body f Hf). cbn [snoc append].
      destruct Htail as [->|(t & [->|[->| ->]])]; cbn [read]; try reflexivity.
Qed.

(* THE ROUND TRIP: a non-empty row whose fields contain no line breaks is read back unchanged
   (commas, quotes, blanks, hash signs, non-ASCII bytes and empty fields included) *)
Lemma write_field_head f : no_break f = true -> f <> EmptyString ->
  exists c r, write_field f = String c r /\ Ascii.eqb c nl || Ascii.eqb c cr = false.
Proof.
  intros Hb Hne. unfold write_field. destruct (needs_quote f).
  - eexists; eexists. split; reflexivity.
  - destruct f as [|c f]; [contradiction|]. exists c, f. split; [reflexivity|].
    unfold no_break in Hb. cbn [smem] in Hb. apply andb_prop in Hb. destruct Hb as [H1 H2].
    apply negb_true_iff in H1, H2. apply orb_false_iff in H1, H2. destruct H1 as [H1 _], H2 as [H2 _].
    rewrite H1, H2. reflexivity.
Qed.

Theorem csv_row_roundtrip (fields : list string) : fields <> [] -> forallb no_break fields = true ->
  read_row (write_row fields) = fields.
Proof.
  intros Hne Hb.
  assert (G : forall l, l <> [] -> forallb no_break l = true -> forall acc,
                read (write_fields l ++ String cr (String nl EmptyString)) StartField EmptyString acc = acc ++ l).
  { induction l as [|x l IH]; [contradiction|]. intros _ Hbl acc. cbn [forallb] in Hbl. apply andb_prop in Hbl. destruct Hbl as [Hx Hl].
    destruct l as [|y l].
    - cbn [write_fields]. rewrite (read_field x _ acc Hx); [reflexivity | right; eexists; left; reflexivity].
    - change (write_fields (x :: y :: l)) with (write_field x ++ String comma (write_fields (y :: l)))%string.
      rewrite sapp_assoc. cbn [append]. rewrite (read_field x _ acc Hx); [|right; eexists; right; right; reflexivity].
      rewrite Ascii.eqb_refl. rewrite (IH ltac:(discriminate) Hl). rewrite <- app_assoc. reflexivity. }
  destruct fields as [|x l]; [contradiction|]. cbn [forallb] in Hb. pose proof Hb as Hb'. apply andb_prop in Hb. destruct Hb as [Hx Hl].
  destruct x as [|c x].
  - destruct l as [|y l]; [vm_compute; reflexivity|].
    (* an empty first field followed by more fields: the line starts with a comma *)
    unfold write_row, read_row.
    assert (E : (write_fields (EmptyString :: y :: l) ++ String cr (String nl EmptyString))%string
                = String comma (write_fields (y :: l) ++ String cr (String nl EmptyString))%string) by reflexivity.
    rewrite E. assert (C : Ascii.eqb comma nl || Ascii.eqb comma cr = false) by reflexivity. rewrite C, <- E.
    exact (G (EmptyString :: y :: l) ltac:(discriminate) Hb' []).
  - unfold write_row, read_row.
    assert (E : (match String c x :: l with [EmptyString] => String dquote (String dquote EmptyString) | _ => write_fields (String c x :: l) end)
                = write_fields (String c x :: l)) by (destruct l; reflexivity).
    try rewrite E. cbv iota. destruct (write_field_head (String c x) Hx ltac:(discriminate)) as (c0 & r0 & Hw & Hc0).
    assert (Hhead : exists r1, (write_fields (String c x :: l) ++ String cr (String nl EmptyString))%string = String c0 r1).
    { destruct l as [|y l]; cbn [write_fields]; rewrite Hw; cbn [append]; eexists; reflexivity. }
    destruct Hhead as [r1 Hr1]. rewrite Hr1, Hc0, <- Hr1. exact (G (String c x :: l) ltac:(discriminate) Hb' []).
Qed.

Print Assumptions csv_row_roundtrip.
