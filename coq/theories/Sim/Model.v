(* Executable model of
     src/hpotk/algorithm/similarity/_model.py   SimilarityContainer (set/get/items/len, header framing of to_csv/from_csv)
     src/hpotk/model/_base.py                   MetadataAware.metadata_to_str / metadata_from_str
   Keys are str (compared with <=, i.e. by code point = bytewise on UTF-8).  Values are generic: a
   type V with a zero and a sign test (`sim < 0.`).  The nested defaultdict is a nested association
   list with dict semantics.  Definitions only. *)
From Coq Require Import String Ascii List Bool Arith ZArith.
From Hpotk Require Import Base.Result Base.Str.
Import ListNotations.
Open Scope list_scope.

Section SDict.
Context {V : Type}.
Fixpoint sget (d : list (string * V)) (k : string) : option V :=
  match d with
  | [] => None
  | (k', v) :: r => if seqb k k' then Some v else sget r k
  end.
Fixpoint sput (k : string) (v : V) (d : list (string * V)) : list (string * V) :=
  match d with
  | [] => [(k, v)]
  | (k', v') :: r => if seqb k k' then (k', v) :: r else (k', v') :: sput k v r
  end.
End SDict.

Section Container.
Variable V : Type.
Variable zero : V.
Variable neg : V -> bool.          (* sim < 0. *)

Definition cont : Type := list (string * list (string * V)).

(* o, i = (a, b) if a <= b else (b, a) *)
Definition norm (a b : string) : string * string := if sleb a b then (a, b) else (b, a).

Definition get_similarity (s : cont) (a b : string) : V :=
  let '(o, i) := norm a b in
  match sget s o with
  | None | Some [] => zero
  | Some inner => match sget inner i with Some v => v | None => zero end
  end.

Definition set_similarity (s : cont) (a b : string) (v : V) : res cont :=
  if neg v then Err ValueError
  else let '(o, i) := norm a b in
       let inner := match sget s o with Some l => l | None => [] end in
       Ok (sput o (sput i v inner) s).

Definition items (s : cont) : list (string * string * V) :=
  flat_map (fun '(a, inner) => map (fun '(b, v) => (a, b, v)) inner) s.

Definition clen (s : cont) : nat := fold_right (fun '(_, inner) n => length inner + n) 0 s.

(* a history of set operations; a rejected one (negative value) raises and changes nothing *)
Definition op : Type := (string * string * V)%type.
Definition step (s : cont) (o : op) : cont :=
  let '(a, b, v) := o in match set_similarity s a b v with Ok s' => s' | Err _ => s end.
Definition run (ops : list op) : cont := fold_left step ops [].
End Container.

(* ---------------- metadata codec ---------------- *)
Fixpoint ssplit_aux (c : ascii) (s : string) (cur : string) : list string :=
  match s with
  | EmptyString => [cur]
  | String x r => if Ascii.eqb x c then cur :: ssplit_aux c r EmptyString
                  else ssplit_aux c r (cur ++ String x EmptyString)%string
  end.
(* str.split(c) *)
Definition ssplit (c : ascii) (s : string) : list string := ssplit_aux c s EmptyString.

Fixpoint sjoin (sep : string) (l : list string) : string :=
  match l with
  | [] => EmptyString
  | [x] => x
  | x :: r => (x ++ sep ++ sjoin sep r)%string
  end.

Definition semi : ascii := ";"%char.
Definition equals : ascii := "="%char.
Definition nl : ascii := "010"%char.
Definition cr : ascii := "013"%char.

(* characters that must not occur in metadata keys / values (after the fix: also line breaks) *)
Definition reserved (s : string) : bool := smem semi s || smem equals s || smem nl s || smem cr s.

Definition meta : Type := list (string * string).

Definition metadata_to_str (m : meta) : res string :=
  if existsb (fun '(k, v) => reserved k || reserved v) m then Err ValueError
  else Ok (sjoin ";"%string (map (fun '(k, v) => (k ++ "=" ++ v)%string) m)).

(* data = {}; for item in value.split(';'): k, v = item.split('='); data[k] = v *)
Fixpoint meta_from_items (l : list string) (acc : meta) : res meta :=
  match l with
  | [] => Ok acc
  | item :: r => match ssplit equals item with
                 | [k; v] => meta_from_items r (sput k v acc)
                 | _ => Err ValueError
                 end
  end.
Definition metadata_from_str (s : string) : res meta := meta_from_items (ssplit semi s) [].

(* to_csv writes '#' + metadata_to_str() + '\n'; _parse_meta strips the first and the last character *)
Definition frame (s : string) : string := String "#" (s ++ String nl EmptyString)%string.
Fixpoint sdroplast (s : string) : string :=
  match s with
  | EmptyString => EmptyString
  | String x EmptyString => EmptyString
  | String x r => String x (sdroplast r)
  end.
Definition unframe (s : string) : string :=
  match s with EmptyString => EmptyString | String _ r => sdroplast r end.
