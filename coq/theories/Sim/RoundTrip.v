(* The CSV round trip of a similarity container, end to end (model level):
     history of set operations -> container -> items -> to_csv text -> [universal-newline handle] -> from_csv text
     -> records -> float() -> set_similarity per record -> container'
   with the float <-> text conversion as an oracle pair (show = repr, parse = float) obeying parse (show v) = v. *)
From Coq Require Import String Ascii List Bool Arith Lia.
From Hpotk Require Import Base.Result Base.Str Io.Model Sim.Model Sim.Proofs Sim.Csv Sim.CsvFile Sim.Rebuild.
Import ListNotations.
Open Scope list_scope.

Section RoundTrip.
Variable V : Type.
Variable zero : V.
Variable neg : V -> bool.
Variable show : V -> string.           (* repr(float): what csv.writer writes *)
Variable parse : string -> V.          (* float(text) *)
Variable valid_float : string -> bool. (* float() accepts the text *)
Hypothesis parse_show : forall v, parse (show v) = v.
Hypothesis show_ok : forall v, valid_float (show v) = true /\ no_break (show v) = true.

Definition key_ok (ops : list (op V)) : Prop := forall a b v, In (a, b, v) ops -> no_break a = true /\ no_break b = true.

Definition rows_of (s : cont V) : list (string * string * string) := map (fun x => (fst (fst x), snd (fst x), show (snd x))) (items V s).

Lemma items_keys_from_ops ops a b v : In (a, b, v) (items V (run V neg ops)) ->
  exists a' b' v', In (a', b', v') ops /\ ((a = a' /\ b = b') \/ (a = b' /\ b = a')).
Proof.
  intro H. destruct (len_items_spec V zero neg ops) as (_ & _ & Hsp & _). apply Hsp in H.
  destruct (proj1 (items_iff_touched V neg ops (a, b)) (ex_intro _ v H)) as (a' & b' & v' & Hin & _ & N).
  exists a', b', v'. split; [exact Hin|]. unfold norm in N. destruct (sleb a' b'); inversion N; subst; auto.
Qed.

Theorem container_csv_roundtrip (ops : list (op V)) (description meta_str : string) :
  key_ok ops -> no_break description = true -> no_break meta_str = true ->
  let s := run V neg ops in
  exists recs,
    (* the reader returns the two header lines and one record per listed item, in listing order *)
    from_csv_text valid_float (universal (to_csv_text description meta_str (rows_of s))) =
      Ok ([String hash (description ++ lfs); String hash (meta_str ++ lfs)], map (fun r => (Some (fst (fst r)), Some (snd (fst r)), snd r)) recs) /\
    (* converting the value texts back gives exactly the listed items *)
    map (fun r => (fst (fst r), snd (fst r), parse (snd r))) recs = items V s /\
    (* and inserting them into an empty container reproduces the container *)
    let s' := run V neg (items V s) in
    (forall a b, get_similarity V zero s' a b = get_similarity V zero s a b) /\
    clen V s' = clen V s /\ (forall x, In x (items V s') <-> In x (items V s)).
Proof.
  intros Hk Hd Hm s. exists (rows_of s). split; [|split].
  - apply csv_file_roundtrip; [exact Hd | exact Hm | |].
    + apply forallb_forall. intros [[a b] t] Hin. unfold rows_of in Hin. apply in_map_iff in Hin. destruct Hin as ([[a0 b0] v] & E & Hin).
      cbn [fst snd] in E. inversion E; subst a0 b0 t. unfold row_ok. cbn [row3 forallb].
      destruct (items_keys_from_ops ops a b v Hin) as (a' & b' & v' & Hin' & Hc). destruct (Hk a' b' v' Hin') as [Ha Hb].
      rewrite (proj2 (show_ok v)). destruct Hc as [[-> ->]|[-> ->]]; rewrite Ha, Hb; reflexivity.
    + apply forallb_forall. intros [[a b] t] Hin. unfold rows_of in Hin. apply in_map_iff in Hin. destruct Hin as ([[a0 b0] v] & E & _).
      cbn [fst snd] in E. inversion E; subst. cbn [snd]. exact (proj1 (show_ok v)).
  - unfold rows_of. rewrite map_map. rewrite <- (map_id (items V s)) at 2. apply map_ext. intros [[a b] v]. cbn [fst snd]. rewrite parse_show. reflexivity.
  - destruct (rebuild_same V zero neg ops) as (_ & G & I). cbv zeta in G, I. fold s in G, I.
    split; [exact G|]. split; [exact (rebuild_same_length V zero neg ops) | exact I].
Qed.
End RoundTrip.

Print Assumptions container_csv_roundtrip.
