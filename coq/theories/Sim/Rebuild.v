(* Re-inserting the listed items of a similarity container - what from_csv does with the rows of the file -
   reproduces the container: same value for every pair in either order, same length, same listing.
   Together with the file-level codec (Sim.CsvFile.csv_file_roundtrip) and the float oracle law
   parse (show v) = v this is "writing to CSV and reading back yields the same similarities". *)
From Coq Require Import String Ascii List Bool Arith Lia Permutation.
From Hpotk Require Import Base.Result Base.Str Sim.Model Sim.Proofs.
Import ListNotations.
Open Scope list_scope.

Section Rebuild.
Variable V : Type.
Variable zero : V.
Variable neg : V -> bool.

Definition well_listed (l : list (string * string * V)) : Prop :=
  NoDup (map (item_key V) l) /\ forall a b v, In (a, b, v) l -> neg v = false /\ sleb a b = true.

(* the abstract map after inserting a well-listed sequence: a lookup in the listing *)
Lemma spec_fold_lookup (l : list (string * string * V)) : well_listed l -> forall (m : pair -> option V) (p : pair),
  fold_left (spec_step V neg) l m p =
  match find (fun x => pair_eqb (item_key V x) p) l with Some x => Some (snd x) | None => m p end.
Proof.
  induction l as [|[[a b] v] l IH]; intros [Hnd Hok] m p; cbn [fold_left find]; [reflexivity|].
  cbn [map] in Hnd. inversion Hnd as [|? ? Hn Hd]; subst.
  assert (W : well_listed l) by (split; [exact Hd | intros a' b' v' H; apply Hok; right; exact H]).
  destruct (Hok a b v (or_introl eq_refl)) as [Ng Hab].
  assert (N : norm a b = (a, b)) by (unfold norm; rewrite Hab; reflexivity).
  rewrite (IH W). unfold item_key at 2. cbn [fst snd].
  destruct (pair_eqb (a, b) p) eqn:K.
  - apply pair_eqb_eq in K. subst p.
    destruct (find (fun x => pair_eqb (item_key V x) (a, b)) l) as [x|] eqn:F.
    + exfalso. apply find_some in F. destruct F as [Hin E]. apply pair_eqb_eq in E. apply Hn. change (item_key V (a, b, v)) with (a, b). rewrite <- E. apply (in_map (item_key V)). exact Hin.
    + cbn [spec_step]. rewrite Ng, N. assert (R : pair_eqb (a, b) (a, b) = true) by (apply pair_eqb_eq; reflexivity). rewrite R. reflexivity.
  - destruct (find (fun x => pair_eqb (item_key V x) p) l) as [x|]; [reflexivity|].
    cbn [spec_step]. rewrite Ng, N.
    assert (R : pair_eqb p (a, b) = false).
    { destruct (pair_eqb p (a, b)) eqn:E; [|reflexivity]. apply pair_eqb_eq in E. subst p.
      assert (T : pair_eqb (a, b) (a, b) = true) by (apply pair_eqb_eq; reflexivity). rewrite T in K. discriminate. }
    rewrite R. reflexivity.
Qed.

(* whatever an accepted history stores is non-negative *)
Lemma spec_run_nonneg ops : forall p v, spec_run V neg ops p = Some v -> neg v = false.
Proof.
  unfold spec_run. assert (G : forall m, (forall p v, m p = Some v -> neg v = false) -> forall p v, fold_left (spec_step V neg) ops m p = Some v -> neg v = false).
  { induction ops as [|[[a b] w] ops IH]; intros m Hm p v; cbn [fold_left]; [apply Hm|].
    apply IH. intros q u. cbn [spec_step]. destruct (neg w) eqn:Ng; [apply Hm|].
    destruct (pair_eqb q (norm a b)); [intro E; inversion E; subst; exact Ng | apply Hm]. }
  apply G. intros p v H. discriminate.
Qed.

(* the listing of every reachable container is well listed *)
Lemma items_well_listed ops : well_listed (items V (run V neg ops)).
Proof.
  destruct (len_items_spec V zero neg ops) as (_ & Hnd & Hsp & Hord). split; [exact Hnd|].
  intros a b v H. split; [apply (spec_run_nonneg ops (a, b) v); apply Hsp; exact H | exact (proj1 (Hord a b v H))].
Qed.

(* THE REBUILD THEOREM: for every history, inserting the items of the resulting container into an empty one
   gives a container with the same value for every pair (hence the same answers in either key order), the same
   length and a listing with the same entries *)
Theorem rebuild_same ops :
  let s := run V neg ops in
  let s' := run V neg (items V s) in
  (forall p, stored V s' p = stored V s p) /\
  (forall a b, get_similarity V zero s' a b = get_similarity V zero s a b) /\
  (forall x, In x (items V s') <-> In x (items V s)).
Proof.
  intros s s'. pose proof (items_well_listed ops) as W. fold s in W.
  pose proof (wf_run V neg ops) as WF. fold s in WF.
  assert (S : forall p, stored V s' p = stored V s p).
  { intro p. unfold s'. rewrite (run_refines V neg). unfold spec_run. rewrite (spec_fold_lookup _ W).
    destruct (find (fun x => pair_eqb (item_key V x) p) (items V s)) as [[[a b] v]|] eqn:F.
    - apply find_some in F. destruct F as [Hin E]. apply pair_eqb_eq in E. unfold item_key in E. cbn [fst snd] in E. subst p.
      symmetry. apply (items_stored V s a b v WF). exact Hin.
    - destruct (stored V s p) as [v|] eqn:St; [|reflexivity]. exfalso. destruct p as [a b].
      apply (items_stored V s a b v WF) in St. apply (find_none _ _ F) in St. unfold item_key in St. cbn [fst snd] in St.
      assert (T : pair_eqb (a, b) (a, b) = true) by (apply pair_eqb_eq; reflexivity). rewrite T in St. discriminate. }
  split; [exact S|]. split.
  - intros a b. rewrite !(get_stored V zero). rewrite S. reflexivity.
  - intros [[a b] v]. pose proof (wf_run V neg (items V s)) as WF'. fold s' in WF'.
    rewrite (items_stored V s' a b v WF'), (items_stored V s a b v WF), S. reflexivity.
Qed.

(* ... and the same number of entries *)
Theorem rebuild_same_length ops : clen V (run V neg (items V (run V neg ops))) = clen V (run V neg ops).
Proof.
  destruct (rebuild_same ops) as (_ & _ & Hin). cbv zeta in Hin.
  rewrite !clen_items. apply Permutation_length. apply NoDup_Permutation.
  - assert (N := proj1 (items_well_listed (items V (run V neg ops)))). apply (NoDup_map_inv _ _ N).
  - assert (N := proj1 (items_well_listed ops)). apply (NoDup_map_inv _ _ N).
  - exact Hin.
Qed.
End Rebuild.

Print Assumptions rebuild_same.
