(* C15: the similarity container is a symmetric last-write-wins map; the metadata codec round-trips. *)
From Coq Require Import String Ascii List Bool Arith ZArith Lia Setoid.
From Hpotk Require Import Base.Result Base.Str Graph.Worklist Sim.Model.
Import ListNotations.
Open Scope list_scope.

Lemma seqb_refl a : seqb a a = true.
Proof. apply seqb_eq. reflexivity. Qed.
Lemma seqb_neq a b : seqb a b = false <-> a <> b.
Proof.
  split; [intros H E; subst b; rewrite seqb_refl in H; discriminate|].
  intro H. destruct (seqb a b) eqn:K; [apply seqb_eq in K; contradiction | reflexivity].
Qed.

(* ---------- <= on str is a total order ---------- *)
Lemma sleb_total a b : sleb a b = false -> sleb b a = true.
Proof.
  unfold sleb. destruct (scmp a b) eqn:C; try discriminate. intros _.
  apply scmp_gt_lt in C. rewrite C. reflexivity.
Qed.
Lemma sleb_antisym a b : sleb a b = true -> sleb b a = true -> a = b.
Proof.
  unfold sleb. destruct (scmp a b) eqn:C; try discriminate; intros _.
  - intros _. apply scmp_eq_iff. exact C.
  - assert (scmp b a = Gt) as G by (apply scmp_gt_lt; exact C). rewrite G. discriminate.
Qed.
Lemma sleb_refl a : sleb a a = true.
Proof. unfold sleb. rewrite scmp_refl. reflexivity. Qed.

(* ---------- string-keyed dict ---------- *)
Section SDictFacts.
Context {V : Type}.
Implicit Types (d : list (string * V)).

Lemma sget_sput d k v k' : sget (sput k v d) k' = if seqb k' k then Some v else sget d k'.
Proof.
  induction d as [|[k0 v0] d IH]; cbn [sput sget]; [reflexivity|].
  destruct (seqb k k0) eqn:K; cbn [sget].
  - apply seqb_eq in K. subst k0. destruct (seqb k' k); reflexivity.
  - destruct (seqb k' k0) eqn:K0; [|exact IH].
    apply seqb_eq in K0. subst k0. destruct (seqb k' k) eqn:K1; [|reflexivity].
    apply seqb_eq in K1. subst k'. rewrite seqb_refl in K. discriminate.
Qed.

Lemma sput_keys d k v k' : In k' (map fst (sput k v d)) <-> (k' = k \/ In k' (map fst d)).
Proof.
  induction d as [|[k0 v0] d IH]; cbn [sput map fst In].
  - split; intros [H|[]]; left; symmetry; exact H.
  - destruct (seqb k k0) eqn:K; cbn [map fst In].
    + apply seqb_eq in K. subst k0. split; [intros [H|H]; auto | intros [H|[H|H]]; auto].
    + rewrite IH. split; [intros [H|[H|H]]; auto | intros [H|[H|H]]; auto].
Qed.

Lemma sput_nodup d k v : NoDup (map fst d) -> NoDup (map fst (sput k v d)).
Proof.
  induction d as [|[k0 v0] d IH]; cbn [sput map fst]; intro H.
  - constructor; [intros [] | constructor].
  - inversion H as [|? ? Hn Hd]; subst. destruct (seqb k k0) eqn:K; cbn [map fst].
    + constructor; assumption.
    + constructor; [|apply IH; exact Hd]. rewrite sput_keys. intros [E|E]; [|exact (Hn E)].
      subst k0. rewrite seqb_refl in K. discriminate.
Qed.

Lemma sget_in d k v : NoDup (map fst d) -> (sget d k = Some v <-> In (k, v) d).
Proof.
  induction d as [|[k0 v0] d IH]; cbn [sget map fst In]; intro H; [split; [discriminate | intros []]|].
  inversion H as [|? ? Hn Hd]; subst. destruct (seqb k k0) eqn:K.
  - apply seqb_eq in K. subst k0. split.
    + intro E. inversion E; subst. left. reflexivity.
    + intros [E|E]; [inversion E; reflexivity|]. exfalso. apply Hn. apply in_map_iff. exists (k, v). split; [reflexivity | exact E].
  - rewrite (IH Hd). split; [intro E; right; exact E|]. intros [E|E]; [|exact E].
    inversion E; subst. rewrite seqb_refl in K. discriminate.
Qed.

Lemma sget_none d k : sget d k = None <-> ~ In k (map fst d).
Proof.
  induction d as [|[k0 v0] d IH]; cbn [sget map fst In]; [tauto|].
  destruct (seqb k k0) eqn:K.
  - apply seqb_eq in K. subst k0. split; [discriminate | intro H; exfalso; apply H; left; reflexivity].
  - apply seqb_neq in K. rewrite IH. split; [intros H [E|E]; [apply K; symmetry; exact E | exact (H E)] | intros H E; apply H; right; exact E].
Qed.

Lemma sput_fresh d k v : ~ In k (map fst d) -> sput k v d = d ++ [(k, v)].
Proof.
  induction d as [|[k0 v0] d IH]; cbn [sput map fst In app]; intro H; [reflexivity|].
  destruct (seqb k k0) eqn:K; [apply seqb_eq in K; subst k0; exfalso; apply H; left; reflexivity|].
  rewrite IH; [reflexivity | intro E; apply H; right; exact E].
Qed.
End SDictFacts.

(* ---------- the container ---------- *)
Section ContainerFacts.
Variable V : Type.
Variable zero : V.
Variable neg : V -> bool.
Notation cont := (cont V).
Notation op := (op V).
Implicit Types (s : cont).

Definition pair : Type := (string * string)%type.
Definition pair_eqb (p q : pair) : bool := seqb (fst p) (fst q) && seqb (snd p) (snd q).
Lemma pair_eqb_eq p q : pair_eqb p q = true <-> p = q.
Proof.
  destruct p as [a b], q as [c d]. unfold pair_eqb. cbn [fst snd]. rewrite andb_true_iff, !seqb_eq.
  split; [intros [-> ->]; reflexivity | intro E; inversion E; auto].
Qed.

(* the unordered pair {a,b} is represented by norm a b *)
Lemma norm_sym a b : norm a b = norm b a.
Proof.
  unfold norm. destruct (sleb a b) eqn:X; destruct (sleb b a) eqn:Y; try reflexivity.
  - rewrite (sleb_antisym a b X Y). reflexivity.
  - apply sleb_total in X. rewrite X in Y. discriminate.
Qed.
Lemma norm_ordered a b : sleb (fst (norm a b)) (snd (norm a b)) = true.
Proof. unfold norm. destruct (sleb a b) eqn:X; cbn [fst snd]; [exact X | apply sleb_total; exact X]. Qed.
Lemma norm_same_pair a b c d : norm a b = norm c d <-> ((a = c /\ b = d) \/ (a = d /\ b = c)).
Proof.
  split.
  - unfold norm. destruct (sleb a b), (sleb c d); intro E; inversion E; auto.
  - intros [[-> ->]|[-> ->]]; [reflexivity | apply norm_sym].
Qed.

(* the slot of an (already normalised) pair *)
Definition stored s (p : pair) : option V :=
  match sget s (fst p) with Some inner => sget inner (snd p) | None => None end.

Lemma get_stored s a b : get_similarity V zero s a b = match stored s (norm a b) with Some v => v | None => zero end.
Proof.
  unfold get_similarity, stored. destruct (norm a b) as [o i]. cbn [fst snd].
  destruct (sget s o) as [[|x l]|]; reflexivity.
Qed.

Lemma stored_set s a b v s' : set_similarity V neg s a b v = Ok s' ->
  neg v = false /\ forall p, stored s' p = if pair_eqb p (norm a b) then Some v else stored s p.
Proof.
  unfold set_similarity. destruct (neg v); [discriminate|]. destruct (norm a b) as [o i] eqn:N.
  intro E. inversion E; subst s'. clear E. split; [reflexivity|]. intros [o' i'].
  unfold stored, pair_eqb. cbn [fst snd]. rewrite sget_sput. destruct (seqb o' o) eqn:K; cbn [andb].
  - apply seqb_eq in K. subst o'. rewrite sget_sput. destruct (seqb i' i); [reflexivity|].
    destruct (sget s o); reflexivity.
  - reflexivity.
Qed.

Lemma set_neg s a b v : neg v = true -> set_similarity V neg s a b v = Err ValueError.
Proof. intro H. unfold set_similarity. rewrite H. reflexivity. Qed.
Lemma set_ok s a b v : neg v = false -> exists s', set_similarity V neg s a b v = Ok s'.
Proof. intro H. unfold set_similarity. rewrite H. destruct (norm a b). eexists. reflexivity. Qed.

(* ---- the abstract map: one value per unordered pair, last successful write wins, else nothing ---- *)
Definition spec_step (m : pair -> option V) (o : op) : pair -> option V :=
  let '(a, b, v) := o in
  if neg v then m else fun p => if pair_eqb p (norm a b) then Some v else m p.
Definition spec_run (ops : list op) : pair -> option V := fold_left spec_step ops (fun _ => None).

Lemma step_spec s m (o : op) : (forall p, stored s p = m p) -> forall p, stored (step V neg s o) p = spec_step m o p.
Proof.
  destruct o as [[a b] v]. intros H p. unfold step, spec_step. destruct (neg v) eqn:Ng.
  - rewrite (set_neg s a b v Ng). apply H.
  - destruct (set_ok s a b v Ng) as [s' Hs]. rewrite Hs. destruct (stored_set s a b v s' Hs) as [_ St].
    rewrite St, H. reflexivity.
Qed.

Lemma run_spec_gen ops : forall s m, (forall p, stored s p = m p) ->
  forall p, stored (fold_left (step V neg) ops s) p = fold_left spec_step ops m p.
Proof.
  induction ops as [|o ops IH]; intros s m H p; cbn [fold_left]; [apply H|].
  apply IH. apply step_spec. exact H.
Qed.

Theorem run_refines ops : forall p, stored (run V neg ops) p = spec_run ops p.
Proof. apply run_spec_gen. intro p. reflexivity. Qed.

(* what the property says: for any two keys in either order, the most recent value set for that
   unordered pair, 0 if there is none *)
Theorem get_after_history ops a b :
  get_similarity V zero (run V neg ops) a b = match spec_run ops (norm a b) with Some v => v | None => zero end /\
  get_similarity V zero (run V neg ops) a b = get_similarity V zero (run V neg ops) b a.
Proof.
  split; [rewrite get_stored, run_refines; reflexivity|].
  rewrite !get_stored, (norm_sym a b). reflexivity.
Qed.

(* a negative value is rejected without any effect; any other value is accepted *)
Theorem negative_rejected s a b v :
  (neg v = true -> set_similarity V neg s a b v = Err ValueError /\ step V neg s (a, b, v) = s) /\
  (neg v = false -> exists s', set_similarity V neg s a b v = Ok s' /\ step V neg s (a, b, v) = s').
Proof.
  split; intro H.
  - split; [apply set_neg; exact H|]. unfold step. rewrite (set_neg s a b v H). reflexivity.
  - destruct (set_ok s a b v H) as [s' Hs]. exists s'. split; [exact Hs|]. unfold step. rewrite Hs. reflexivity.
Qed.

(* ---- structure: items / len ---- *)
Definition WFc s : Prop :=
  NoDup (map fst s) /\ forall o inner, In (o, inner) s -> NoDup (map fst inner) /\ forall i v, In (i, v) inner -> sleb o i = true.

Lemma wf_nil : WFc [].
Proof. split; [constructor | intros o inner []]. Qed.

Lemma sput_in_outer {W} (d : list (string * W)) k w k' w' : NoDup (map fst d) ->
  In (k', w') (sput k w d) -> (k' = k /\ w' = w) \/ (k' <> k /\ In (k', w') d).
Proof.
  intros Hnd Hin. pose proof (sput_nodup d k w Hnd) as Hnd'.
  apply (sget_in _ _ _ Hnd') in Hin. rewrite sget_sput in Hin. destruct (seqb k' k) eqn:K.
  - apply seqb_eq in K. inversion Hin. left. auto.
  - right. split; [apply seqb_neq; exact K|]. apply (sget_in _ _ _ Hnd). exact Hin.
Qed.

Lemma wf_set s a b v s' : WFc s -> set_similarity V neg s a b v = Ok s' -> WFc s'.
Proof.
  intros [Hnd Hin]. unfold set_similarity. destruct (neg v); [discriminate|].
  pose proof (norm_ordered a b) as Hord. destruct (norm a b) as [o i]. cbn [fst snd] in Hord.
  intro E. inversion E; subst s'. clear E. split; [apply sput_nodup; exact Hnd|].
  intros o' inner' H'. apply (sput_in_outer s _ _ _ _ Hnd) in H'. destruct H' as [[-> ->]|[_ H']]; [|exact (Hin _ _ H')].
  assert (Hi : NoDup (map fst (match sget s o with Some l => l | None => [] end)) /\
               forall i0 v0, In (i0, v0) (match sget s o with Some l => l | None => [] end) -> sleb o i0 = true).
  { destruct (sget s o) as [l|] eqn:G; [apply (sget_in _ _ _ Hnd) in G; exact (Hin _ _ G) | split; [constructor | intros ? ? []]]. }
  destruct Hi as [Hi1 Hi2]. split; [apply sput_nodup; exact Hi1|].
  intros i0 v0 H0. apply (sput_in_outer _ _ _ _ _ Hi1) in H0. destruct H0 as [[-> _]|[_ H0]]; [exact Hord | exact (Hi2 _ _ H0)].
Qed.

Lemma wf_step s o : WFc s -> WFc (step V neg s o).
Proof.
  destruct o as [[a b] v]. intro H. unfold step. destruct (set_similarity V neg s a b v) as [s'|e] eqn:E; [|exact H].
  exact (wf_set s a b v s' H E).
Qed.

Lemma wf_run ops : WFc (run V neg ops).
Proof.
  unfold run. assert (G : forall s, WFc s -> WFc (fold_left (step V neg) ops s)).
  { induction ops as [|o ops IH]; intros s H; cbn [fold_left]; [exact H | apply IH; apply wf_step; exact H]. }
  apply G. exact wf_nil.
Qed.

Lemma items_in s a b v : In (a, b, v) (items V s) <-> exists inner, In (a, inner) s /\ In (b, v) inner.
Proof.
  unfold items. rewrite in_flat_map. split.
  - intros ([a' inner] & H1 & H2). apply in_map_iff in H2. destruct H2 as ([b' v'] & E & H2). inversion E; subst. exists inner. auto.
  - intros (inner & H1 & H2). exists (a, inner). split; [exact H1|]. apply in_map_iff. exists (b, v). auto.
Qed.

Lemma items_stored s a b v : WFc s -> (In (a, b, v) (items V s) <-> stored s (a, b) = Some v).
Proof.
  intros [Hnd Hin]. rewrite items_in. unfold stored. cbn [fst snd]. split.
  - intros (inner & H1 & H2). rewrite (proj2 (sget_in _ _ _ Hnd) H1). apply sget_in; [exact (proj1 (Hin _ _ H1)) | exact H2].
  - destruct (sget s a) as [inner|] eqn:G; [|discriminate]. intro H. apply (sget_in _ _ _ Hnd) in G.
    exists inner. split; [exact G|]. apply sget_in; [exact (proj1 (Hin _ _ G)) | exact H].
Qed.

Definition item_key (x : string * string * V) : pair := (fst (fst x), snd (fst x)).

Lemma items_keys_nodup s : WFc s -> NoDup (map item_key (items V s)).
Proof.
  intros [Hnd Hin]. induction s as [|[a inner] s IH]; cbn [items flat_map]; [constructor|].
  fold (items V s). rewrite map_app. cbn [map fst] in Hnd. inversion Hnd as [|? ? Hn Hd]; subst.
  apply NoDup_app_iff. split; [|split].
  - destruct (Hin a inner (or_introl eq_refl)) as [Hi _]. clear -Hi.
    induction inner as [|[b v] inner IH]; cbn [map]; [constructor|]. cbn [map fst] in Hi. inversion Hi as [|? ? Hn Hd]; subst.
    constructor; [|apply IH; exact Hd]. intro H. apply in_map_iff in H. destruct H as (x & E & H). apply in_map_iff in H.
    destruct H as ([b' v'] & <- & H). unfold item_key in E. cbn [fst snd] in E. inversion E; subst b'.
    apply Hn. apply in_map_iff. exists (b, v'). auto.
  - apply IH; [exact Hd | intros o i H; apply Hin; right; exact H].
  - intros p H1 H2. apply in_map_iff in H1. destruct H1 as (x & E & H1). apply in_map_iff in H1. destruct H1 as ([b v] & <- & _).
    unfold item_key in E. cbn [fst snd] in E. subst p. apply in_map_iff in H2. destruct H2 as ([[a' b'] v'] & E & H2).
    unfold item_key in E. cbn [fst snd] in E. inversion E; subst a' b'. apply items_in in H2. destruct H2 as (inner' & H2 & _).
    apply Hn. apply in_map_iff. exists (a, inner'). auto.
Qed.

Lemma clen_items s : clen V s = length (items V s).
Proof.
  induction s as [|[a inner] s IH]; cbn [clen fold_right items flat_map]; [reflexivity|].
  fold (items V s). fold (clen V s). rewrite app_length, map_length, IH. reflexivity.
Qed.

(* length and item listing cover every stored unordered pair exactly once, with its current value *)
Theorem len_items_spec ops :
  let s := run V neg ops in
  clen V s = length (items V s) /\
  NoDup (map item_key (items V s)) /\
  (forall a b v, In (a, b, v) (items V s) <-> spec_run ops (a, b) = Some v) /\
  (forall a b v, In (a, b, v) (items V s) -> sleb a b = true /\ get_similarity V zero s a b = v /\ get_similarity V zero s b a = v).
Proof.
  intro s. pose proof (wf_run ops) as W. fold s in W.
  split; [apply clen_items|]. split; [apply items_keys_nodup; exact W|]. split.
  - intros a b v. rewrite (items_stored s a b v W). unfold s. rewrite run_refines. reflexivity.
  - intros a b v H. assert (Hab : sleb a b = true).
    { apply items_in in H. destruct H as (inner & H1 & H2). exact (proj2 (proj2 W _ _ H1) _ _ H2). }
    split; [exact Hab|]. apply (items_stored s a b v W) in H.
    assert (N : norm a b = (a, b)) by (unfold norm; rewrite Hab; reflexivity).
    split; [rewrite get_stored, N, H; reflexivity | rewrite get_stored, (norm_sym b a), N, H; reflexivity].
Qed.

(* a pair is listed iff some accepted write touched it *)
Theorem items_iff_touched ops p :
  (exists v, spec_run ops p = Some v) <-> exists a b v, In (a, b, v) ops /\ neg v = false /\ norm a b = p.
Proof.
  unfold spec_run.
  assert (G : forall m, (exists v, fold_left spec_step ops m p = Some v) <->
                        ((exists v, m p = Some v) \/ exists a b v, In (a, b, v) ops /\ neg v = false /\ norm a b = p)).
  { induction ops as [|[[a b] v] ops IH]; intro m; cbn [fold_left].
    - split; [intro H; left; exact H | intros [H|(a & b & v & [] & _)]; exact H].
    - rewrite IH. cbn [spec_step]. destruct (neg v) eqn:Ng.
      + split; [intros [H|(a' & b' & v' & H1 & H2)]; [left; exact H | right; exists a', b', v'; split; [right; exact H1 | exact H2]]|].
        intros [H|(a' & b' & v' & [E|H1] & H2 & H3)]; [left; exact H | inversion E; subst; rewrite Ng in H2; discriminate | right; exists a', b', v'; auto].
      + split.
        * intros [[w H]|(a' & b' & v' & H1 & H2)]; [|right; exists a', b', v'; split; [right; exact H1 | exact H2]].
          destruct (pair_eqb p (norm a b)) eqn:K; [|left; exists w; exact H].
          apply pair_eqb_eq in K. right. exists a, b, v. split; [left; reflexivity | split; [exact Ng | symmetry; exact K]].
        * intros [[w H]|(a' & b' & v' & [E|H1] & H2 & H3)].
          -- left. destruct (pair_eqb p (norm a b)); [exists v; reflexivity | exists w; exact H].
          -- inversion E; subst. left. exists v'. assert (K : pair_eqb (norm a' b') (norm a' b') = true) by (apply pair_eqb_eq; reflexivity).
             rewrite K. reflexivity.
          -- right. exists a', b', v'. auto. }
  rewrite G. split; [intros [[v H]|H]; [discriminate | exact H] | intro H; right; exact H].
Qed.
End ContainerFacts.

(* ---------- metadata codec ---------- *)
Lemma sapp_nil_r (s : string) : (s ++ "")%string = s.
Proof. induction s as [|a s IH]; cbn [append]; [reflexivity | rewrite IH; reflexivity]. Qed.
Lemma sapp_assoc (a b c : string) : ((a ++ b) ++ c)%string = (a ++ (b ++ c))%string.
Proof. induction a as [|x a IH]; cbn [append]; [reflexivity | rewrite IH; reflexivity]. Qed.
Lemma ssplit_aux_nosep c s : smem c s = false -> forall cur, ssplit_aux c s cur = [(cur ++ s)%string].
Proof.
  induction s as [|x s IH]; cbn [ssplit_aux smem]; intros H cur.
  - rewrite sapp_nil_r. reflexivity.
  - apply orb_false_iff in H. destruct H as [E H]. rewrite E.
    rewrite (IH H). f_equal. rewrite sapp_assoc. reflexivity.
Qed.

Lemma ssplit_aux_sep c x r : smem c x = false -> forall cur,
  ssplit_aux c (x ++ String c r) cur = (cur ++ x)%string :: ssplit_aux c r EmptyString.
Proof.
  induction x as [|a x IH]; cbn [ssplit_aux smem append]; intros H cur.
  - rewrite Ascii.eqb_refl, sapp_nil_r. reflexivity.
  - apply orb_false_iff in H. destruct H as [E H]. rewrite E.
    rewrite (IH H). f_equal. rewrite sapp_assoc. reflexivity.
Qed.

Lemma ssplit_join c (l : list string) : l <> [] -> (forall x, In x l -> smem c x = false) ->
  ssplit c (sjoin (String c EmptyString) l) = l.
Proof.
  unfold ssplit. induction l as [|x l IH]; intros Hne Hall; [contradiction|].
  destruct l as [|y l].
  - cbn [sjoin]. rewrite (ssplit_aux_nosep c x (Hall x (or_introl eq_refl))). reflexivity.
  - change (sjoin (String c EmptyString) (x :: y :: l)) with (x ++ String c EmptyString ++ sjoin (String c EmptyString) (y :: l))%string.
    cbn [append]. rewrite (ssplit_aux_sep c x _ (Hall x (or_introl eq_refl))). cbn [append]. f_equal.
    apply IH; [discriminate | intros z Hz; apply Hall; right; exact Hz].
Qed.

Lemma smem_cons c a s : smem c (String a s) = Ascii.eqb a c || smem c s.
Proof. reflexivity. Qed.

Lemma ssplit_item k v : smem equals k = false -> smem equals v = false ->
  ssplit equals (k ++ "=" ++ v)%string = [k; v].
Proof.
  intros Hk Hv. unfold ssplit. change ("=" ++ v)%string with (String equals v).
  rewrite (ssplit_aux_sep equals k v Hk). cbn [append]. rewrite (ssplit_aux_nosep equals v Hv). reflexivity.
Qed.

Lemma sdroplast_snoc (s : string) c : sdroplast (s ++ String c EmptyString) = s.
Proof.
  induction s as [|a s IH]; [reflexivity|]. cbn [append].
  destruct s as [|b s]; [reflexivity|]. cbn [append] in *. cbn [sdroplast]. cbn [sdroplast] in IH. rewrite IH. reflexivity.
Qed.

Definition meta_ok (m : meta) : Prop :=
  m <> [] /\ NoDup (map fst m) /\ forall k v, In (k, v) m -> reserved k = false /\ reserved v = false.

Lemma reserved_parts s : reserved s = false -> smem semi s = false /\ smem equals s = false /\ smem nl s = false /\ smem cr s = false.
Proof. unfold reserved. rewrite !orb_false_iff. tauto. Qed.

Lemma from_items_map (m : meta) : (forall k v, In (k, v) m -> smem equals k = false /\ smem equals v = false) ->
  forall acc, meta_from_items (map (fun '(k, v) => (k ++ "=" ++ v)%string) m) acc = Ok (fold_left (fun a '(k, v) => sput k v a) m acc).
Proof.
  induction m as [|[k v] m IH]; intros H acc; cbn [map meta_from_items fold_left]; [reflexivity|].
  destruct (H k v (or_introl eq_refl)) as [Hk Hv]. rewrite (ssplit_item k v Hk Hv). apply IH.
  intros k' v' H'. apply H. right. exact H'.
Qed.

Lemma fold_sput_fresh (m : meta) : forall acc, NoDup (map fst (acc ++ m)) -> fold_left (fun a '(k, v) => sput k v a) m acc = acc ++ m.
Proof.
  induction m as [|[k v] m IH]; intros acc H; cbn [fold_left]; [rewrite app_nil_r; reflexivity|].
  rewrite sput_fresh.
  - rewrite IH; rewrite <- app_assoc; [reflexivity | exact H].
  - rewrite map_app in H. apply NoDup_app_iff in H. destruct H as (_ & _ & Hd). intro Hin. apply (Hd k Hin). left. reflexivity.
Qed.

Lemma smem_app c a b : smem c (a ++ b) = smem c a || smem c b.
Proof. apply Str.smem_app. Qed.

(* every non-empty key-unique metadata map free of the reserved characters survives the codec *)
Theorem meta_roundtrip (m : meta) : meta_ok m ->
  exists s, metadata_to_str m = Ok s /\ smem nl s = false /\ smem cr s = false /\
            unframe (frame s) = s /\ metadata_from_str (unframe (frame s)) = Ok m.
Proof.
  intros (Hne & Hnd & Hres). unfold metadata_to_str.
  assert (E : existsb (fun '(k, v) => reserved k || reserved v) m = false).
  { apply not_true_iff_false. intro H. apply existsb_exists in H. destruct H as ([k v] & Hin & H).
    destruct (Hres k v Hin) as [H1 H2]. rewrite H1, H2 in H. discriminate. }
  rewrite E. eexists. split; [reflexivity|].
  set (itemsl := map (fun '(k, v) => (k ++ "=" ++ v)%string) m).
  assert (Hitems : forall c, (c = semi \/ c = nl \/ c = cr) -> forall x, In x itemsl -> smem c x = false).
  { intros c Hc x Hx. apply in_map_iff in Hx. destruct Hx as ([k v] & <- & Hin).
    destruct (Hres k v Hin) as [H1 H2]. apply reserved_parts in H1. apply reserved_parts in H2.
    rewrite !smem_app. change (smem c "=") with (Ascii.eqb equals c || false).
    destruct Hc as [->|[->| ->]]; cbn [Ascii.eqb]; destruct H1 as (? & ? & ? & ?), H2 as (? & ? & ? & ?);
      repeat match goal with H : _ = false |- _ => rewrite H end; reflexivity. }
  assert (Hjoin : forall c, (c = nl \/ c = cr) -> smem c (sjoin ";" itemsl) = false).
  { intros c Hc. assert (Hsc : Ascii.eqb semi c = false) by (destruct Hc as [->| ->]; reflexivity).
    assert (Hall : forall x, In x itemsl -> smem c x = false) by (intros x Hx; apply Hitems; [tauto | exact Hx]).
    clear -Hall Hsc. induction itemsl as [|x l IH]; [reflexivity|]. destruct l as [|y l].
    - cbn [sjoin]. apply Hall. left. reflexivity.
    - change (sjoin ";" (x :: y :: l)) with (x ++ ";" ++ sjoin ";" (y :: l))%string. rewrite !smem_app.
      rewrite (Hall x (or_introl eq_refl)). change (smem c ";") with (Ascii.eqb semi c || false). rewrite Hsc.
      cbn [orb]. apply IH. intros z Hz. apply Hall. right. exact Hz. }
  split; [apply Hjoin; auto|]. split; [apply Hjoin; auto|].
  assert (U : forall s, unframe (frame s) = s).
  { intro s. unfold frame, unframe. apply sdroplast_snoc. }
  split; [apply U|]. rewrite U. unfold metadata_from_str.
  change ";"%string with (String semi EmptyString). rewrite ssplit_join.
  - unfold itemsl. rewrite from_items_map.
    + rewrite (fold_sput_fresh m [] Hnd). reflexivity.
    + intros k v Hin. destruct (Hres k v Hin) as [H1 H2]. apply reserved_parts in H1. apply reserved_parts in H2. tauto.
  - unfold itemsl. destruct m; [contradiction | discriminate].
  - intros x Hx. apply (Hitems semi); [auto | exact Hx].
Qed.

(* metadata containing a reserved character is rejected instead of being written corrupted *)
Theorem meta_reserved_rejected (m : meta) k v : In (k, v) m -> reserved k = true \/ reserved v = true ->
  metadata_to_str m = Err ValueError.
Proof.
  intros Hin H. unfold metadata_to_str.
  assert (E : existsb (fun '(k, v) => reserved k || reserved v) m = true).
  { apply existsb_exists. exists (k, v). split; [exact Hin|]. destruct H as [-> | ->]; [reflexivity | apply orb_true_r]. }
  rewrite E. reflexivity.
Qed.

Print Assumptions get_after_history.
Print Assumptions len_items_spec.
Print Assumptions items_iff_touched.
Print Assumptions meta_roundtrip.
