(* Sorting with de-duplication (np.unique), bisect_left (Python's loop) and index lookup
   over any type with a decidable strict total order.  Used with TermId keys. *)
From Coq Require Import List Bool Arith Lia Sorted Permutation.
Import ListNotations.

Section Ord.
Variable A : Type.
Variable ltb : A -> A -> bool.
Hypothesis ltb_irrefl : forall a, ltb a a = false.
Hypothesis ltb_trans : forall a b c, ltb a b = true -> ltb b c = true -> ltb a c = true.
Hypothesis ltb_total : forall a b, ltb a b = false -> ltb b a = false -> a = b.

Definition lt (a b : A) : Prop := ltb a b = true.

Definition oeqb (a b : A) : bool := negb (ltb a b) && negb (ltb b a).

Lemma oeqb_eq a b : oeqb a b = true <-> a = b.
Proof.
  unfold oeqb. rewrite andb_true_iff, !negb_true_iff. split.
  - intros [H1 H2]. apply ltb_total; assumption.
  - intros ->. rewrite ltb_irrefl. auto.
Qed.

Definition A_dec (a b : A) : {a = b} + {a <> b}.
Proof.
  destruct (oeqb a b) eqn:E; [left; apply oeqb_eq; exact E | right].
  intro H. apply oeqb_eq in H. congruence.
Defined.

Lemma ltb_asym a b : ltb a b = true -> ltb b a = false.
Proof.
  intro H. destruct (ltb b a) eqn:E; [|reflexivity].
  pose proof (ltb_trans _ _ _ H E) as T. rewrite ltb_irrefl in T. discriminate.
Qed.

(* ---------- insertion sort with de-duplication ---------- *)
Fixpoint ins (x : A) (l : list A) : list A :=
  match l with
  | [] => [x]
  | y :: r => if ltb x y then x :: l else if ltb y x then y :: ins x r else l
  end.

Definition sort_unique (l : list A) : list A := fold_right ins [] l.

Definition SSorted (l : list A) : Prop := StronglySorted lt l.

Lemma ins_in x l y : In y (ins x l) <-> y = x \/ In y l.
Proof.
  induction l as [|z r IH]; cbn.
  - intuition.
  - destruct (ltb x z) eqn:E1; cbn; [intuition|].
    destruct (ltb z x) eqn:E2; cbn.
    + rewrite IH. intuition.
    + assert (x = z) by (apply ltb_total; assumption). subst z. intuition.
Qed.

Lemma ins_sorted x l : SSorted l -> SSorted (ins x l).
Proof.
  unfold SSorted. induction l as [|z r IH]; cbn; intro H.
  - repeat constructor.
  - inversion H as [|? ? Hr Hz]; subst. destruct (ltb x z) eqn:E1.
    + constructor; [exact H|]. constructor; [exact E1|].
      rewrite Forall_forall in *. intros y Hy. eapply ltb_trans; [exact E1 | apply Hz; exact Hy].
    + destruct (ltb z x) eqn:E2; [|exact H].
      constructor; [apply IH; exact Hr|]. rewrite Forall_forall in *. intros y Hy.
      apply ins_in in Hy. destruct Hy as [->|Hy]; [exact E2 | apply Hz; exact Hy].
Qed.

Lemma sort_unique_sorted l : SSorted (sort_unique l).
Proof. induction l as [|x l IH]; cbn; [constructor | apply ins_sorted; exact IH]. Qed.

Lemma sort_unique_in l y : In y (sort_unique l) <-> In y l.
Proof. induction l as [|x l IH]; cbn; [tauto | rewrite ins_in, IH; intuition]. Qed.

Lemma SSorted_NoDup l : SSorted l -> NoDup l.
Proof.
  unfold SSorted. induction 1 as [|x l Hs IH Hx]; constructor; [|exact IH].
  intro Hi. rewrite Forall_forall in Hx. specialize (Hx x Hi). unfold lt in Hx.
  rewrite ltb_irrefl in Hx. discriminate.
Qed.

(* a strictly sorted list is determined by its element set *)
Lemma SSorted_unique l1 : forall l2,
  SSorted l1 -> SSorted l2 -> (forall x, In x l1 <-> In x l2) -> l1 = l2.
Proof.
  unfold SSorted. induction l1 as [|a l1 IH]; intros l2 H1 H2 Heq.
  - destruct l2 as [|b l2]; [reflexivity|]. exfalso. apply (Heq b). left; reflexivity.
  - destruct l2 as [|b l2]; [exfalso; apply (Heq a); left; reflexivity|].
    inversion H1 as [|? ? Hs1 Ha]; subst. inversion H2 as [|? ? Hs2 Hb]; subst.
    rewrite Forall_forall in Ha, Hb.
    assert (a = b).
    { assert (In a (b :: l2)) as Hab by (apply Heq; left; reflexivity).
      assert (In b (a :: l1)) as Hba by (apply Heq; left; reflexivity).
      destruct Hab as [->|Hab]; [reflexivity|]. destruct Hba as [->|Hba]; [reflexivity|].
      pose proof (Ha _ Hba) as X. pose proof (Hb _ Hab) as Y. unfold lt in *.
      rewrite (ltb_asym _ _ X) in Y. discriminate. }
    subst b. f_equal. apply IH; [exact Hs1 | exact Hs2|].
    intro x. split; intro Hx.
    + assert (In x (a :: l2)) as Hx' by (apply Heq; right; exact Hx).
      destruct Hx' as [->|Hx']; [|exact Hx']. pose proof (Ha _ Hx) as X. unfold lt in X.
      rewrite ltb_irrefl in X. discriminate.
    + assert (In x (a :: l1)) as Hx' by (apply Heq; right; exact Hx).
      destruct Hx' as [->|Hx']; [|exact Hx']. pose proof (Hb _ Hx) as X. unfold lt in X.
      rewrite ltb_irrefl in X. discriminate.
Qed.

(* the result depends only on the element set: permutations and repeats are irrelevant *)
Theorem sort_unique_canonical l1 l2 :
  (forall x, In x l1 <-> In x l2) -> sort_unique l1 = sort_unique l2.
Proof.
  intro H. apply SSorted_unique; try apply sort_unique_sorted.
  intro x. rewrite !sort_unique_in. apply H.
Qed.

Lemma SSorted_nth_lt l : SSorted l -> forall i j x y,
  nth_error l i = Some x -> nth_error l j = Some y -> i < j -> lt x y.
Proof.
  unfold SSorted. induction 1 as [|a l Hs IH Ha]; intros i j x y Hi Hj Hij.
  - destruct i; discriminate.
  - destruct j as [|j]; [lia|]. cbn in Hj. destruct i as [|i].
    + cbn in Hi. inversion Hi; subst x. rewrite Forall_forall in Ha. apply Ha.
      eapply nth_error_In; exact Hj.
    + cbn in Hi. eapply IH; eauto. lia.
Qed.

(* ---------- bisect.bisect_left, Python's loop, with fuel ---------- *)
Fixpoint bisect_loop (fuel : nat) (a : list A) (x : A) (lo hi : nat) : nat :=
  match fuel with
  | 0 => lo
  | S f =>
      if lo <? hi then
        let mid := (lo + hi) / 2 in
        match nth_error a mid with
        | Some y => if ltb y x then bisect_loop f a x (S mid) hi else bisect_loop f a x lo mid
        | None => lo
        end
      else lo
  end.

Definition bisect_left (a : list A) (x : A) : nat := bisect_loop (S (length a)) a x 0 (length a).

(* `_index_of_using_binary_search` / `_get_idx_for_node` *)
Definition index_of (a : list A) (x : A) : option nat :=
  let i := bisect_left a x in
  match nth_error a i with
  | Some y => if oeqb y x then Some i else None
  | None => None
  end.

Lemma bisect_loop_spec a x : SSorted a -> forall fuel lo hi,
  lo <= hi -> hi <= length a -> hi - lo < fuel ->
  (forall i y, i < lo -> nth_error a i = Some y -> ltb y x = true) ->
  (forall i y, hi <= i -> nth_error a i = Some y -> ltb y x = false) ->
  let r := bisect_loop fuel a x lo hi in
  lo <= r <= hi /\
  (forall i y, i < r -> nth_error a i = Some y -> ltb y x = true) /\
  (forall i y, r <= i -> nth_error a i = Some y -> ltb y x = false).
Proof.
  intro Hs. induction fuel as [|f IH]; intros lo hi Hle Hhi Hf Hlo Hhigh; [lia|].
  cbn [bisect_loop]. destruct (lo <? hi) eqn:E.
  - apply Nat.ltb_lt in E.
    assert (Hmid : lo <= (lo + hi) / 2 < hi).
    { split; [apply Nat.div_le_lower_bound; lia | apply Nat.div_lt_upper_bound; lia]. }
    set (mid := (lo + hi) / 2) in *.
    destruct (nth_error a mid) as [y|] eqn:En.
    2:{ apply nth_error_None in En. lia. }
    destruct (ltb y x) eqn:Ey.
    + specialize (IH (S mid) hi). cbv zeta in IH.
      destruct IH as (R1 & R2 & R3); try lia; try assumption.
      * intros i z Hi Hz. destruct (Nat.eq_dec i mid) as [->|Hne]; [congruence|].
        assert (i < mid) by lia.
        pose proof (SSorted_nth_lt a Hs i mid z y Hz En H) as L. unfold lt in L.
        eapply ltb_trans; eassumption.
      * cbv zeta. split; [lia|]. split; assumption.
    + specialize (IH lo mid). cbv zeta in IH.
      destruct IH as (R1 & R2 & R3); try lia; try assumption.
      * intros i z Hi Hz. destruct (Nat.eq_dec i mid) as [->|Hne]; [congruence|].
        assert (mid < i) by lia.
        pose proof (SSorted_nth_lt a Hs mid i y z En Hz H) as L. unfold lt in L.
        destruct (ltb z x) eqn:Ez; [|reflexivity].
        rewrite (ltb_trans _ _ _ L Ez) in Ey. discriminate.
      * cbv zeta. split; [lia|]. split; assumption.
  - apply Nat.ltb_ge in E. cbv zeta. split; [lia|]. split; [exact Hlo|].
    intros i y Hi. apply Hhigh. lia.
Qed.

Lemma bisect_left_spec a x : SSorted a ->
  let r := bisect_left a x in
  r <= length a /\
  (forall i y, i < r -> nth_error a i = Some y -> ltb y x = true) /\
  (forall i y, r <= i -> nth_error a i = Some y -> ltb y x = false).
Proof.
  intro Hs. unfold bisect_left.
  destruct (bisect_loop_spec a x Hs (S (length a)) 0 (length a)) as (R1 & R2 & R3); try lia.
  - intros i y Hi Hy. assert (nth_error a i = None) by (apply nth_error_None; lia). congruence.
  - cbv zeta. split; [lia|]. split; assumption.
Qed.

(* binary search finds x exactly when it is present, and returns its position *)
Theorem index_of_spec a x : SSorted a ->
  forall i, index_of a x = Some i <-> nth_error a i = Some x.
Proof.
  intros Hs i. destruct (bisect_left_spec a x Hs) as (R1 & R2 & R3). cbv zeta in *.
  unfold index_of. set (r := bisect_left a x) in *. split.
  - destruct (nth_error a r) as [y|] eqn:En; [|discriminate].
    destruct (oeqb y x) eqn:E; [|discriminate]. apply oeqb_eq in E. subst y.
    intros [= <-]. exact En.
  - intro Hi.
    assert (i = r).
    { destruct (Nat.lt_trichotomy i r) as [H|[H|H]]; [|exact H|].
      - pose proof (R2 _ _ H Hi) as X. rewrite ltb_irrefl in X. discriminate.
      - assert (Hr : r < length a).
        { assert (i < length a) by (apply nth_error_Some; congruence). lia. }
        destruct (nth_error a r) as [y|] eqn:En; [|apply nth_error_None in En; lia].
        pose proof (SSorted_nth_lt a Hs r i y x En Hi H) as L. unfold lt in L.
        pose proof (R3 r y (le_n _) En) as X. congruence. }
    subst i. rewrite Hi. assert (oeqb x x = true) as -> by (apply oeqb_eq; reflexivity). reflexivity.
Qed.

Corollary index_of_none a x : SSorted a -> (index_of a x = None <-> ~ In x a).
Proof.
  intro Hs. split.
  - intros Hn Hi. apply In_nth_error in Hi. destruct Hi as [i Hi].
    apply (index_of_spec a x Hs) in Hi. congruence.
  - intro Hn. destruct (index_of a x) as [i|] eqn:E; [|reflexivity].
    apply (index_of_spec a x Hs) in E. exfalso. apply Hn. eapply nth_error_In; exact E.
Qed.

Corollary index_of_lt a x i : SSorted a -> index_of a x = Some i -> i < length a.
Proof.
  intros Hs H. apply (index_of_spec a x Hs) in H. apply nth_error_Some. congruence.
Qed.
End Ord.

Arguments ins {A} ltb x l.
Arguments sort_unique {A} ltb l.
Arguments bisect_left {A} ltb a x.
Arguments bisect_loop {A} ltb fuel a x lo hi.
Arguments index_of {A} ltb a x.
Arguments oeqb {A} ltb a b.
Arguments SSorted {A} ltb l.
