(* Helpers used only by generated case files. *)
From Coq Require Import String Ascii List NArith.
Import ListNotations.

(* string from a list of byte codes (for non-printable / non-ASCII content) *)
Fixpoint sb (l : list nat) : string :=
  match l with
  | [] => EmptyString
  | c :: r => String (ascii_of_nat c) (sb r)
  end.

Fixpoint list_eqb {A} (eqb : A -> A -> bool) (a b : list A) : bool :=
  match a, b with
  | [], [] => true
  | x :: a', y :: b' => andb (eqb x y) (list_eqb eqb a' b')
  | _, _ => false
  end.

Definition opt_eqb {A} (eqb : A -> A -> bool) (a b : option A) : bool :=
  match a, b with
  | None, None => true
  | Some x, Some y => eqb x y
  | _, _ => false
  end.

Definition pair_eqb {A B} (ea : A -> A -> bool) (eb : B -> B -> bool) (a b : A * B) : bool :=
  andb (ea (fst a) (fst b)) (eb (snd a) (snd b)).
