(* Python `str` as Coq `string` holding the UTF-8 bytes.  Byte-wise lexicographic order of
   UTF-8 equals Python's code-point order; ':' and '_' are single bytes that never occur
   inside a multi-byte sequence. *)
From Coq Require Import String Ascii List Bool Arith Lia OrdersEx Orders.
Import ListNotations.
Open Scope string_scope.

(* ---------- order ---------- *)
Definition scmp (a b : string) : comparison := String_as_OT.compare a b.
Definition sltb (a b : string) : bool := match scmp a b with Lt => true | _ => false end.
Definition sleb (a b : string) : bool := match scmp a b with Gt => false | _ => true end.
Definition seqb (a b : string) : bool := String.eqb a b.

Lemma scmp_spec a b : CompareSpec (a = b) (String_as_OT.lt a b) (String_as_OT.lt b a) (scmp a b).
Proof. exact (String_as_OT.compare_spec a b). Qed.

Lemma slt_irrefl a : ~ String_as_OT.lt a a.
Proof. exact (StrictOrder_Irreflexive (R:=String_as_OT.lt) a). Qed.

Lemma slt_trans a b c : String_as_OT.lt a b -> String_as_OT.lt b c -> String_as_OT.lt a c.
Proof. exact (StrictOrder_Transitive (R:=String_as_OT.lt) a b c). Qed.

Lemma scmp_eq_iff a b : scmp a b = Eq <-> a = b.
Proof.
  destruct (scmp_spec a b) as [H|H|H]; split; intro E; try discriminate; auto;
    subst b; exfalso; exact (slt_irrefl _ H).
Qed.

Lemma scmp_refl a : scmp a a = Eq.
Proof. apply scmp_eq_iff. reflexivity. Qed.

Lemma scmp_lt_trans a b c : scmp a b = Lt -> scmp b c = Lt -> scmp a c = Lt.
Proof. unfold scmp. intros H1 H2. exact (slt_trans a b c H1 H2). Qed.

Lemma scmp_gt_lt a b : scmp a b = Gt <-> scmp b a = Lt.
Proof.
  destruct (scmp_spec a b) as [H|H|H]; destruct (scmp_spec b a) as [G|G|G];
    split; intro E; try discriminate; try reflexivity; exfalso;
    try (subst; eapply slt_irrefl; eassumption);
    try (eapply slt_irrefl; eapply slt_trans; eassumption).
Qed.

Lemma sltb_irrefl a : sltb a a = false.
Proof. unfold sltb. rewrite scmp_refl. reflexivity. Qed.

Lemma sltb_trans a b c : sltb a b = true -> sltb b c = true -> sltb a c = true.
Proof.
  unfold sltb. destruct (scmp a b) eqn:E1; try discriminate. destruct (scmp b c) eqn:E2; try discriminate.
  intros _ _. rewrite (scmp_lt_trans _ _ _ E1 E2). reflexivity.
Qed.

Lemma sltb_trichotomy a b :
  (sltb a b = true /\ a <> b /\ sltb b a = false) \/
  (sltb a b = false /\ a = b /\ sltb b a = false) \/
  (sltb a b = false /\ a <> b /\ sltb b a = true).
Proof.
  unfold sltb. destruct (scmp a b) eqn:E.
  - apply scmp_eq_iff in E. subst b. right. left. rewrite scmp_refl. auto.
  - left. split; [reflexivity|]. split.
    + intro H. subst b. rewrite scmp_refl in E. discriminate.
    + destruct (scmp b a) eqn:F; try reflexivity.
      pose proof (scmp_lt_trans _ _ _ E F) as T. rewrite scmp_refl in T. discriminate.
  - right. right. apply scmp_gt_lt in E. rewrite E. split; [reflexivity|]. split; [|reflexivity].
    intro H. subst b. rewrite scmp_refl in E. discriminate.
Qed.

Lemma seqb_eq a b : seqb a b = true <-> a = b.
Proof. apply String.eqb_eq. Qed.

(* ---------- slicing and searching ---------- *)
Fixpoint sindex (c : ascii) (s : string) : option nat :=
  match s with
  | EmptyString => None
  | String a r => if Ascii.eqb a c then Some 0 else option_map S (sindex c r)
  end.

Fixpoint sfirstn (n : nat) (s : string) : string :=
  match n, s with
  | 0, _ => EmptyString
  | S _, EmptyString => EmptyString
  | S k, String a r => String a (sfirstn k r)
  end.

Fixpoint sskipn (n : nat) (s : string) : string :=
  match n, s with
  | 0, _ => s
  | S _, EmptyString => EmptyString
  | S k, String _ r => sskipn k r
  end.

Fixpoint smem (c : ascii) (s : string) : bool :=
  match s with
  | EmptyString => false
  | String a r => Ascii.eqb a c || smem c r
  end.

Definition colon : ascii := ":"%char.
Definition underscore : ascii := "_"%char.

Lemma sindex_none_iff c s : sindex c s = None <-> smem c s = false.
Proof.
  induction s as [|a r IH]; cbn; [tauto|].
  destruct (Ascii.eqb a c); cbn; [split; discriminate|].
  destruct (sindex c r) as [j|]; cbn.
  - split; [discriminate|]. intro H. apply IH in H. discriminate.
  - split; [intros _; apply IH; reflexivity | reflexivity].
Qed.

Lemma sindex_some_mem c s i : sindex c s = Some i -> smem c s = true.
Proof.
  intro H. destruct (smem c s) eqn:E; [reflexivity|]. apply sindex_none_iff in E. congruence.
Qed.

(* the found index is the FIRST occurrence: s = p ++ c :: r with c not in p, |p| = i *)
Lemma sindex_split c s i :
  sindex c s = Some i ->
  s = sfirstn i s ++ String c (sskipn (S i) s) /\ smem c (sfirstn i s) = false /\ String.length (sfirstn i s) = i.
Proof.
  revert i. induction s as [|a r IH]; intros i H; [discriminate|].
  cbn [sindex] in H. destruct (Ascii.eqb a c) eqn:E.
  - inversion H; subst i. apply Ascii.eqb_eq in E. subst a. cbn. auto.
  - destruct (sindex c r) as [j|] eqn:F; cbn in H; [|discriminate]. inversion H; subst i.
    destruct (IH j eq_refl) as (H1 & H2 & H3).
    change (sfirstn (S j) (String a r)) with (String a (sfirstn j r)).
    change (sskipn (S (S j)) (String a r)) with (sskipn (S j) r).
    split; [|split].
    + change (String a r = String a (sfirstn j r ++ String c (sskipn (S j) r))). rewrite <- H1. reflexivity.
    + cbn [smem]. rewrite E, H2. reflexivity.
    + cbn [String.length]. rewrite H3. reflexivity.
Qed.

Lemma sindex_app_fresh c p r :
  smem c p = false -> sindex c (p ++ String c r) = Some (String.length p).
Proof.
  induction p as [|a p IH]; cbn; intro H.
  - rewrite Ascii.eqb_refl. reflexivity.
  - apply orb_false_iff in H. destruct H as [H1 H2]. rewrite H1. rewrite (IH H2). reflexivity.
Qed.

Lemma sfirstn_app_len p r : sfirstn (String.length p) (p ++ r) = p.
Proof. induction p as [|a p IH]; cbn; [destruct r; reflexivity | rewrite IH; reflexivity]. Qed.

Lemma sskipn_app_len p c r : sskipn (S (String.length p)) (p ++ String c r) = r.
Proof. induction p as [|a p IH]; cbn; [reflexivity | exact IH]. Qed.

Lemma smem_app c a b : smem c (a ++ b) = smem c a || smem c b.
Proof. induction a as [|x a IH]; cbn; [reflexivity | rewrite IH, orb_assoc; reflexivity]. Qed.
