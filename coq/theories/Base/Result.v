(* Results of Python calls: a value or the class of the exception raised. *)
From Coq Require Import List Bool.
Import ListNotations.

Inductive exn := ValueError | IndexError | KeyError | TypeError | OtherError.

Inductive res (A : Type) : Type :=
| Ok (a : A)
| Err (e : exn).
Arguments Ok {A} a.
Arguments Err {A} e.

Definition exn_eqb (a b : exn) : bool :=
  match a, b with
  | ValueError, ValueError | IndexError, IndexError | KeyError, KeyError
  | TypeError, TypeError | OtherError, OtherError => true
  | _, _ => false
  end.

Definition bind {A B} (r : res A) (f : A -> res B) : res B :=
  match r with Ok a => f a | Err e => Err e end.

Definition rmap {A B} (f : A -> B) (r : res A) : res B :=
  match r with Ok a => Ok (f a) | Err e => Err e end.

Definition res_eqb {A} (eqb : A -> A -> bool) (x y : res A) : bool :=
  match x, y with
  | Ok a, Ok b => eqb a b
  | Err e, Err f => exn_eqb e f
  | _, _ => false
  end.

Definition is_ok {A} (r : res A) : bool := match r with Ok _ => true | Err _ => false end.

(* sequence a list of results, first error wins *)
Fixpoint rsequence {A} (l : list (res A)) : res (list A) :=
  match l with
  | [] => Ok []
  | r :: rs => bind r (fun a => bind (rsequence rs) (fun t => Ok (a :: t)))
  end.

Lemma exn_eqb_eq a b : exn_eqb a b = true <-> a = b.
Proof. destruct a, b; cbn; split; intro H; try reflexivity; try discriminate. Qed.

(* index list of the cases for which a boolean check fails (used by generated case files) *)
Fixpoint failing_from {A} (chk : A -> bool) (i : nat) (l : list A) : list nat :=
  match l with
  | [] => []
  | c :: cs => if chk c then failing_from chk (S i) cs else i :: failing_from chk (S i) cs
  end.
Definition failing {A} (chk : A -> bool) (l : list A) : nat * list nat :=
  (length l, failing_from chk 0 l).
