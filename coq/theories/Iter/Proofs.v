(* C12: lazy iterators refine the eager traversal and do not interfere with one another. *)
From Coq Require Import List Bool Arith Lia Permutation.
From Hpotk Require Import Graph.Worklist Iter.Model.
Import ListNotations.
Open Scope list_scope.

Section Iter.
Variable succ : nat -> list nat.
Variable pop : list nat -> option (nat * list nat).

(* the loop of Graph/Worklist.v, run from a state, is the iterator drained from that state *)
Lemma loop_is_drain : forall fuel seen buf out res,
  loop succ pop fuel seen buf out = Some res -> res = rev out ++ drain succ pop fuel (Running seen buf).
Proof.
  induction fuel as [|f IH]; intros seen buf out res H; cbn [loop] in H; [discriminate|].
  cbn [drain next]. destruct (pop buf) as [[cur rest]|] eqn:P.
  - destruct (push (succ cur) seen rest) as [seen' buf'] eqn:Pu. rewrite (IH _ _ _ _ H). cbn [rev]. rewrite <- app_assoc. reflexivity.
  - inversion H. rewrite app_nil_r. reflexivity.
Qed.

(* draining a freshly created iterator yields exactly the list of the eager traversal (C01 speaks
   about that list), in the same order *)
Theorem lazy_refines_eager n init res : traverse_from n succ pop init = Some res ->
  drain succ pop (S n) (NotStarted init) = res.
Proof.
  unfold traverse_from. intro H. pose proof (loop_is_drain _ _ _ _ _ H) as E. cbn [rev app] in E. rewrite E.
  cbn [drain next]. reflexivity.
Qed.

(* a partially consumed iterator has yielded a prefix of that list *)
Fixpoint take_next (k : nat) (i : it) : list nat * it :=
  match k with
  | 0 => ([], i)
  | S j => match next succ pop i with
           | (Some x, i') => let '(l, i'') := take_next j i' in (x :: l, i'')
           | (None, i') => ([], i')
           end
  end.

Theorem partial_is_prefix : forall k fuel i, k <= fuel ->
  exists rest, drain succ pop fuel i = fst (take_next k i) ++ rest.
Proof.
  induction k as [|k IH]; intros fuel i Hk; [exists (drain succ pop fuel i); reflexivity|].
  destruct fuel as [|f]; [lia|]. cbn [drain take_next]. destruct (next succ pop i) as [[x|] i'] eqn:N.
  - destruct (IH f i' ltac:(lia)) as [rest Hr]. destruct (take_next k i') as [l i'']. cbn [fst] in *. exists rest. rewrite Hr. reflexivity.
  - exists []. reflexivity.
Qed.

(* ---- non-interference ---- *)
Lemma nth_set_nth_same k x l : k < length l -> nth_error (set_nth k x l) k = Some x.
Proof. revert k. induction l as [|a l IH]; intros [|k] H; cbn in *; try lia; [reflexivity | apply IH; lia]. Qed.
Lemma nth_set_nth_other k j x l : k <> j -> nth_error (set_nth k x l) j = nth_error l j.
Proof. revert k j. induction l as [|a l IH]; intros [|k] [|j] H; cbn; try reflexivity; try lia. apply IH. lia. Qed.
Lemma set_nth_length k x l : length (set_nth k x l) = length l.
Proof. revert k. induction l as [|a l IH]; intros [|k]; cbn; try reflexivity. rewrite IH. reflexivity. Qed.

(* what iterator k yields during a history *)
Definition outputs_of (k : nat) (log : list (nat * option nat)) : list (option nat) :=
  map snd (filter (fun e => Nat.eqb (fst e) k) log).

(* ... and what it yields when it is advanced the same number of times with nothing else going on *)
Fixpoint solo (i : it) (m : nat) : list (option nat) :=
  match m with 0 => [] | S j => let '(y, i') := next succ pop i in y :: solo i' j end.

Definition nexts_of (k : nat) (ops : list op) : nat := length (filter (fun o => match o with Next j => Nat.eqb j k | _ => false end) ops).

(* for EVERY history of opening and advancing iterators, every iterator that was open at the start
   yields exactly what it yields alone: other iterators - however many, in whatever interleaving -
   have no influence *)
Theorem non_interference : forall ops its k i, nth_error its k = Some i ->
  outputs_of k (snd (exec succ pop its ops)) = solo i (nexts_of k ops).
Proof.
  induction ops as [|o ops IH]; intros its k i Hk; cbn [exec]; [reflexivity|]. destruct o as [init|j].
  - rewrite (IH (its ++ [NotStarted init]) k i); [reflexivity|]. rewrite nth_error_app1; [exact Hk|]. apply nth_error_Some. rewrite Hk. discriminate.
  - unfold nexts_of. cbn [filter]. destruct (nth_error its j) as [ij|] eqn:Hj.
    + destruct (next succ pop ij) as [y ij'] eqn:N. destruct (exec succ pop (set_nth j ij' its) ops) as [its' log] eqn:E.
      cbn [snd]. unfold outputs_of. cbn [filter fst]. destruct (Nat.eqb j k) eqn:Ejk.
      * apply Nat.eqb_eq in Ejk. subst j. rewrite Hk in Hj. inversion Hj; subst ij. cbn [map snd length solo]. rewrite N. f_equal.
        fold (outputs_of k log). replace log with (snd (exec succ pop (set_nth k ij' its) ops)) by (rewrite E; reflexivity).
        apply IH. apply nth_set_nth_same. apply nth_error_Some. rewrite Hk. discriminate.
      * fold (outputs_of k log). replace log with (snd (exec succ pop (set_nth j ij' its) ops)) by (rewrite E; reflexivity).
        apply IH. rewrite nth_set_nth_other; [exact Hk|]. apply Nat.eqb_neq. exact Ejk.
    + destruct (Nat.eqb j k) eqn:Ejk; [apply Nat.eqb_eq in Ejk; subst j; rewrite Hk in Hj; discriminate|]. apply IH. exact Hk.
Qed.

(* an iterator opened during the history is not influenced by what happened before it was opened *)
Theorem opened_later_is_fresh ops its init :
  let k := length its in
  outputs_of k (snd (exec succ pop its (Open init :: ops))) = solo (NotStarted init) (nexts_of k ops).
Proof.
  intro k. cbn [exec]. assert (H : nth_error (its ++ [NotStarted init]) k = Some (NotStarted init)).
  { unfold k. rewrite nth_error_app2, Nat.sub_diag by lia. reflexivity. }
  exact (non_interference ops _ k _ H).
Qed.
End Iter.

Print Assumptions lazy_refines_eager.
Print Assumptions non_interference.

(* ---- the two graph classes: their traversal methods are these iterators, drained ---- *)
From Coq Require Import ZArith.
From Hpotk Require Import Base.Result Graph.Model.

(* indexed graph: get_ancestor_idx / get_descendant_idx = the stack iterator over the CSR rows *)
Theorem ig_traverse_is_drained_iterator (g : igraph) (a : csrarr) (src : Z) (l : list nat) :
  ig_traverse g a src = Ok l ->
  exists init, outgoing a src = Ok init /\
    drain (succ_of a) pop_last (S (length (ig_nodes g))) (NotStarted init) = l.
Proof.
  unfold ig_traverse. destruct (outgoing a src) as [init|e]; [|discriminate]. cbn [bind].
  destruct (traverse_from (length (ig_nodes g)) (succ_of a) pop_last init) as [res|] eqn:T; [|discriminate].
  intro H. inversion H; subst. exists init. split; [reflexivity|]. exact (lazy_refines_eager _ _ _ _ _ T).
Qed.

(* matrix graph: the deque iterator over the signed adjacency matrix *)
Theorem mg_traverse_is_drained_iterator (g : mgraph) (k : TermId.Model.key) (code : Z) (incl : bool) (l : list nat) :
  mg_traverse_k g k code incl = Ok l ->
  exists init, mg_rel_k g k code incl = Ok init /\
    drain (mg_cols g code) pop_first (S (length (mg_nodes g))) (NotStarted init) = l.
Proof.
  unfold mg_traverse_k. destruct (mg_rel_k g k code incl) as [init|e]; [|discriminate]. cbn [bind].
  destruct (traverse_from (length (mg_nodes g)) (mg_cols g code) pop_first init) as [res|] eqn:T; [|discriminate].
  intro H. inversion H; subst. exists init. split; [reflexivity|]. exact (lazy_refines_eager _ _ _ _ _ T).
Qed.
