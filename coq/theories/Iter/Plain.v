(* C12: the parent / child queries return lazy iterators too (a `map` over one CSR row / a generator over the columns of
   one matrix row).  Such an iterator is the instance of Iter/Model.v with no successors and first-in-first-out
   consumption: it yields exactly the row, in order, whatever its content - so C12_non_interference and
   C12_partial_is_prefix cover them as well. *)
From Coq Require Import List Bool Arith Lia.
From Hpotk Require Import Graph.Worklist Iter.Model Iter.Proofs.
Import ListNotations.
Open Scope list_scope.

Definition no_succ : nat -> list nat := fun _ => [].

Lemma plain_running_drain : forall (buf seen : list nat) (fuel : nat), length buf < fuel ->
  drain no_succ pop_first fuel (Running seen buf) = buf.
Proof.
  induction buf as [|x buf IH]; intros seen fuel H; destruct fuel as [|f]; try (cbn in H; lia).
  - reflexivity.
  - cbn [drain next pop_first no_succ push]. f_equal. apply IH. cbn [length] in H. lia.
Qed.

Theorem plain_iterator_drain : forall (row : list nat) (fuel : nat), length row < fuel ->
  drain no_succ pop_first fuel (NotStarted row) = row.
Proof.
  intros [|x row] fuel H; destruct fuel as [|f]; try (cbn in H; lia).
  - reflexivity.
  - cbn [drain next pop_first no_succ push]. f_equal. apply plain_running_drain. cbn [length] in H. lia.
Qed.

(* consumed alone for m steps it yields the first m items of the row, then StopIteration for ever *)
Theorem plain_iterator_solo : forall (row : list nat) (m : nat),
  solo no_succ pop_first (NotStarted row) m = map Some (firstn m row) ++ repeat None (m - length row).
Proof.
  assert (R : forall (buf seen : list nat) (m : nat),
             solo no_succ pop_first (Running seen buf) m = map Some (firstn m buf) ++ repeat None (m - length buf)).
  { induction buf as [|x buf IH]; intros seen m.
    - destruct m as [|m]; [reflexivity|]. cbn [solo next pop_first firstn map app length Nat.sub repeat fst snd].
      f_equal. clear. induction m as [|m IHm]; [reflexivity|]. cbn [solo next fst snd repeat]. f_equal. exact IHm.
    - destruct m as [|m]; [reflexivity|]. cbn [solo next pop_first no_succ push firstn map app length Nat.sub fst snd]. f_equal. apply IH. }
  intros [|x row] m.
  - destruct m as [|m]; [reflexivity|]. cbn [solo next pop_first firstn map app length Nat.sub repeat fst snd].
    f_equal. clear. induction m as [|m IHm]; [reflexivity|]. cbn [solo next fst snd repeat]. f_equal. exact IHm.
  - destruct m as [|m]; [reflexivity|]. cbn [solo next pop_first no_succ push firstn map app length Nat.sub fst snd]. f_equal. apply R.
Qed.

(* hence, in any history of opening and advancing such iterators, the k-th one yields the first items of ITS row *)
Theorem plain_iterators_do_not_interfere : forall (ops : list op) (its : list it) (k : nat) (row : list nat),
  nth_error its k = Some (NotStarted row) ->
  let m := nexts_of k ops in
  outputs_of k (snd (exec no_succ pop_first its ops)) = map Some (firstn m row) ++ repeat None (m - length row).
Proof.
  intros ops its k row H m. unfold m. rewrite (non_interference no_succ pop_first ops its k _ H). apply plain_iterator_solo.
Qed.
