(* Executable model of the LAZY traversal iterators
     src/hpotk/graph/_csr_idx_graph.py  CsrIndexedOntologyGraph._traverse_graph   (generator, list as a stack)
     src/hpotk/graph/_csr_graph.py      BaseCsrOntologyGraph._traverse_graph      (generator, deque)
   An iterator is an explicit state; `next` performs exactly one round of the loop.  All traversal
   state (seen set, buffer) lives in the iterator - nothing is kept on the graph - so a world with
   several open iterators is just a list of independent states.  Generic in the successor function
   and the pop policy, like Graph/Worklist.v.  Definitions only. *)
From Coq Require Import List Bool Arith.
From Hpotk Require Import Graph.Worklist.
Import ListNotations.
Open Scope list_scope.

Section Iter.
Variable succ : nat -> list nat.
Variable pop : list nat -> option (nat * list nat).

Inductive it :=
| NotStarted (init : list nat)          (* generator created, body not entered yet *)
| Running (seen buf : list nat)
| Finished.

(* one `next(iterator)`: Some yielded value, or None = StopIteration *)
Definition next (i : it) : option nat * it :=
  let run seen buf :=
    match pop buf with
    | None => (None, Finished)
    | Some (cur, rest) => let '(seen', buf') := push (succ cur) seen rest in (Some cur, Running seen' buf')
    end in
  match i with
  | NotStarted init => run init init
  | Running seen buf => run seen buf
  | Finished => (None, Finished)
  end.

(* consuming an iterator to the end (at most fuel items) *)
Fixpoint drain (fuel : nat) (i : it) : list nat :=
  match fuel with
  | 0 => []
  | S f => match next i with
           | (Some x, i') => x :: drain f i'
           | (None, _) => []
           end
  end.

(* ---- a world of open iterators ---- *)
Inductive op :=
| Open (init : list nat)     (* a traversal query is started; its iterator is kept open *)
| Next (k : nat).            (* the k-th open iterator is advanced once *)

Fixpoint set_nth (k : nat) (x : it) (l : list it) : list it :=
  match l, k with
  | [], _ => []
  | _ :: r, 0 => x :: r
  | y :: r, S j => y :: set_nth j x r
  end.

(* returns the iterators and the log of (k, what the k-th iterator yielded), oldest first *)
Fixpoint exec (its : list it) (ops : list op) : list it * list (nat * option nat) :=
  match ops with
  | [] => (its, [])
  | Open init :: r => exec (its ++ [NotStarted init]) r
  | Next k :: r =>
      match nth_error its k with
      | Some i => let '(y, i') := next i in
                  let '(its', log) := exec (set_nth k i' its) r in (its', (k, y) :: log)
      | None => exec its r
      end
  end.
End Iter.
