(* C11: the validators report exactly the rule violations. *)
From Coq Require Import String List Bool Arith ZArith Lia Setoid Relations Relation_Operators.
From Hpotk Require Import Base.Result Base.Str Base.Ord TermId.Model TermId.Proofs Graph.Worklist Graph.Model Graph.Spec
  Graph.Front Graph.ApiI Graph.Main Graph.Top Ontology.Model Ontology.Proofs Validate.Model.
Import ListNotations.
Open Scope list_scope.

Lemma concat_map_flat {A B} (f : A -> list B) (l : list A) : concat (map f l) = flat_map f l.
Proof. induction l as [|a l IH]; cbn; [reflexivity | rewrite IH; reflexivity]. Qed.

Section Built.
Variable f : factory.
Variable es : list edge.
Variable g : graph.
Hypothesis HW : WfInput es.
Hypothesis HC : create f es = Ok g.

Definition anc_list (k : key) : list key := match ancestors_of g k with Ok l => l | Err _ => [] end.

Lemma anc_list_spec x : node_of es x ->
  ancestors_of g x = Ok (anc_list x) /\ NoDup (anc_list x) /\ forall y, In y (anc_list x) <-> ancestor es x y.
Proof.
  intro Hn. unfold anc_list, ancestors_of.
  destruct (proj1 (query_spec f es g HW HC QAncestors (ATid x) x false (den_tid x)) Hn) as (l & Hl & Hnd & Hin).
  rewrite Hl. split; [reflexivity|]. split; [exact Hnd|]. intro y. rewrite Hin. cbn [rel].
  split; [intros [H|[H _]]; [exact H | discriminate] | intro H; left; exact H].
Qed.

Lemma offending_iff fs p anc : offending fs p anc = true <-> exists st', In (anc, st') fs /\ (p = true \/ st' = false).
Proof.
  unfold offending. rewrite existsb_exists. split.
  - intros ([k st'] & Hin & H). cbn [fst snd] in H. apply andb_prop in H. destruct H as [H1 H2].
    apply key_eqb_eq in H1. subst k. exists st'. split; [exact Hin|]. destruct p; [left; reflexivity|].
    right. cbn in H2. destruct st'; [discriminate | reflexivity].
  - intros (st' & Hin & H). exists (anc, st'). split; [exact Hin|]. cbn [fst snd].
    assert (K : key_eqb anc anc = true) by (apply key_eqb_eq; reflexivity). rewrite K. cbn [andb].
    destruct H as [-> | ->]; [reflexivity | apply orb_true_r].
Qed.

(* ----- annotation propagation ----- *)
(* one ERROR per (item, offending strict ancestor id): the descendant is present (any state of the
   ancestor) or both are excluded *)
Theorem ap_findings_spec (fs : list item) : (forall x, In x fs -> node_of es (fst x)) ->
  exists per_item : item -> list key,
    ap_findings g fs = Ok (flat_map (fun x => map (fun a => FProp (fst x) a (snd x)) (per_item x)) fs) /\
    forall x, In x fs -> NoDup (per_item x) /\
      forall a, In a (per_item x) <-> (ancestor es (fst x) a /\ exists st', In (a, st') fs /\ (snd x = true \/ st' = false)).
Proof.
  intro Hn. exists (fun x => filter (offending fs (snd x)) (anc_list (fst x))). split.
  - unfold ap_findings.
    rewrite (rsequence_map_ok _ (fun x => flat_map (fun anc => if offending fs (snd x) anc then [FProp (fst x) anc (snd x)] else []) (anc_list (fst x)))).
    + cbn [rmap]. f_equal. rewrite concat_map_flat. apply flat_map_ext. intro x.
      induction (anc_list (fst x)) as [|a l IH]; cbn [flat_map filter map]; [reflexivity|].
      destruct (offending fs (snd x) a); cbn [app map]; rewrite IH; reflexivity.
    + intros x Hx. rewrite (proj1 (anc_list_spec (fst x) (Hn x Hx))). reflexivity.
  - intros x Hx. destruct (anc_list_spec (fst x) (Hn x Hx)) as (_ & Hnd & Hin). split; [apply NoDup_filter; exact Hnd|].
    intro a. rewrite filter_In, Hin, offending_iff. reflexivity.
Qed.

Corollary ap_findings_in (fs : list item) res d a st : (forall x, In x fs -> node_of es (fst x)) ->
  ap_findings g fs = Ok res ->
  (In (FProp d a st) res <-> (In (d, st) fs /\ ancestor es d a /\ exists st', In (a, st') fs /\ (st = true \/ st' = false))).
Proof.
  intros Hn Hr. destruct (ap_findings_spec fs Hn) as (per & Hp & Hspec). rewrite Hr in Hp. inversion Hp; subst res. clear Hp.
  rewrite in_flat_map. split.
  - intros ([d' st'] & Hx & Hin). apply in_map_iff in Hin. destruct Hin as (a' & E & Ha). cbn [fst snd] in E. inversion E; subst.
    split; [exact Hx|]. exact (proj1 (proj2 (Hspec _ Hx) a) Ha).
  - intros (Hx & Hrest). exists (d, st). split; [exact Hx|]. apply in_map_iff. exists a. split; [reflexivity|].
    apply (proj2 (Hspec _ Hx)). exact Hrest.
Qed.

(* ----- with the ontology in front: obsolete ids are replaced by current ones first ----- *)
Variable X : Type.
Variable all_terms : list (term X).
Let o := create_ontology X all_terms.
Let current := filter (fun t => negb (t_obsolete X t)) all_terms.

Lemma primary_spec k p : primary X o k = Some p <-> exists t, get_term X o (ATid k) = Ok (Some t) /\ t_id X t = p.
Proof.
  unfold primary, get_term, validate_term_id. cbn [map_to_term_id rmap]. destruct (dget (o_map X o) k) as [t|]; cbn [option_map].
  - split; [intro E; inversion E; exists t; auto | intros (t' & E & H); inversion E; subst; reflexivity].
  - split; [discriminate | intros (t' & E & _); discriminate].
Qed.

(* the ontology knows the ids of the items, and current terms are nodes of the graph *)
Definition known (items : list item) : Prop :=
  forall it, In it items -> exists p, primary X o (fst it) = Some p /\ node_of es p.

Lemma to_feature_ok items : known items ->
  rsequence (map (to_feature X o) items) = Ok (map (fun it => (match primary X o (fst it) with Some p => p | None => fst it end, snd it)) items).
Proof.
  intro Hk. apply rsequence_map_ok. intros it Hit. destruct (Hk it Hit) as (p & Hp & _). unfold to_feature. rewrite Hp. reflexivity.
Qed.

Theorem ap_validate_spec items : known items ->
  let fs := map (fun it => (match primary X o (fst it) with Some p => p | None => fst it end, snd it)) items in
  exists res, ap_validate X o g items = Ok res /\
    (forall d a st, In (FProp d a st) res <->
       (In (d, st) fs /\ ancestor es d a /\ exists st', In (a, st') fs /\ (st = true \/ st' = false))) /\
    (forall x, In x res -> exists d a st, x = FProp d a st).
Proof.
  intros Hk fs. unfold ap_validate. rewrite (to_feature_ok items Hk). cbn [bind]. fold fs.
  assert (Hn : forall x, In x fs -> node_of es (fst x)).
  { intros x Hx. unfold fs in Hx. apply in_map_iff in Hx. destruct Hx as (it & <- & Hit). destruct (Hk it Hit) as (p & Hp & Hnode).
    cbn [fst]. rewrite Hp. exact Hnode. }
  destruct (ap_findings_spec fs Hn) as (per & Hp & Hspec). eexists. split; [exact Hp|]. split.
  - intros d a st. apply (ap_findings_in fs _ d a st Hn Hp).
  - intros x Hx. apply in_flat_map in Hx. destruct Hx as (y & _ & Hx). apply in_map_iff in Hx. destruct Hx as (a & <- & _). eauto.
Qed.

(* ----- phenotypic abnormality ----- *)
Theorem pa_validate_spec items : known items ->
  exists res, pa_validate X o g items = Ok res /\
    res = flat_map (fun it => match primary X o (fst it) with
                              | Some p => if kmem PA (anc_list p) then [] else [FPa p]
                              | None => [] end) items /\
    (forall p, In (FPa p) res <-> exists it, In it items /\ primary X o (fst it) = Some p /\ ~ ancestor es p PA).
Proof.
  intro Hk. unfold pa_validate.
  rewrite (rsequence_map_ok _ (fun it => match primary X o (fst it) with
                                          | Some p => if kmem PA (anc_list p) then [] else [FPa p] | None => [] end)).
  - cbn [rmap]. rewrite concat_map_flat. eexists. split; [reflexivity|]. split; [reflexivity|].
    intro p. rewrite in_flat_map. split.
    + intros (it & Hit & Hin). destruct (Hk it Hit) as (q & Hq & Hnode). rewrite Hq in Hin.
      destruct (kmem PA (anc_list q)) eqn:K; [destruct Hin|]. destruct Hin as [E|[]]. inversion E; subst q.
      exists it. split; [exact Hit|]. split; [exact Hq|]. intro Ha. apply (proj2 (proj2 (anc_list_spec p Hnode))) in Ha.
      apply kmem_in in Ha. rewrite Ha in K. discriminate.
    + intros (it & Hit & Hq & Hna). exists it. split; [exact Hit|]. rewrite Hq.
      destruct (kmem PA (anc_list p)) eqn:K; [|left; reflexivity]. exfalso. apply Hna.
      destruct (Hk it Hit) as (q & Hq' & Hnode). rewrite Hq in Hq'. inversion Hq'; subst q.
      apply (proj2 (proj2 (anc_list_spec p Hnode))). apply kmem_in. exact K.
  - intros it Hit. destruct (Hk it Hit) as (p & Hp & Hnode). rewrite Hp. rewrite (proj1 (anc_list_spec p Hnode)). reflexivity.
Qed.

(* ----- obsolete ids ----- *)
Theorem obs_validate_spec items : known items ->
  exists res, obs_validate X o items = Ok res /\
    res = flat_map (fun it => match primary X o (fst it) with
                              | Some p => if key_eqb p (fst it) then [] else [FObs (fst it) p]
                              | None => [] end) items /\
    (forall k p, In (FObs k p) res <-> ((exists st, In (k, st) items) /\ primary X o k = Some p /\ p <> k)).
Proof.
  intro Hk. unfold obs_validate.
  rewrite (rsequence_map_ok _ (fun it => match primary X o (fst it) with
                                          | Some p => if key_eqb p (fst it) then [] else [FObs (fst it) p] | None => [] end)).
  - cbn [rmap]. rewrite concat_map_flat. eexists. split; [reflexivity|]. split; [reflexivity|].
    intros k p. rewrite in_flat_map. split.
    + intros ([k' st] & Hit & Hin). cbn [fst] in Hin. destruct (primary X o k') as [q|] eqn:Hq; [|destruct Hin].
      destruct (key_eqb q k') eqn:K; [destruct Hin|]. destruct Hin as [E|[]]. inversion E; subst.
      split; [exists st; exact Hit|]. split; [exact Hq|]. intro E'. subst p.
      assert (key_eqb k k = true) by (apply key_eqb_eq; reflexivity). congruence.
    + intros ((st & Hit) & Hq & Hne). exists (k, st). split; [exact Hit|]. cbn [fst]. rewrite Hq.
      destruct (key_eqb p k) eqn:K; [apply key_eqb_eq in K; contradiction | left; reflexivity].
  - intros it Hit. destruct (Hk it Hit) as (p & Hp & _). rewrite Hp. reflexivity.
Qed.

(* with a disjoint id assignment: the primary id differs from the given id exactly when the given
   id is an ALTERNATE id of a current term *)
Theorem primary_differs_iff_alternate k p : WfIds X current ->
  ((primary X o k = Some p /\ p <> k) <->
   exists t, In t all_terms /\ t_obsolete X t = false /\ In k (t_alts X t) /\ p = t_id X t).
Proof.
  intro Hw. rewrite primary_spec. split.
  - intros ((t & Ht & <-) & Hne).
    apply (proj1 (get_term_spec X all_terms (ATid k) k Hw (den_tid k))) in Ht. destruct Ht as (H1 & H2 & H3).
    exists t. split; [exact H1|]. split; [exact H2|]. split; [|reflexivity].
    destruct H3 as [H3|H3]; [exfalso; apply Hne; exact H3 | exact H3].
  - intros (t & H1 & H2 & H3 & ->). split.
    + exists t. split; [|reflexivity]. apply (proj1 (get_term_spec X all_terms (ATid k) k Hw (den_tid k))).
      split; [exact H1|]. split; [exact H2|]. right. exact H3.
    + (* the primary id of t is not among its own alternate ids *)
      intro E. assert (Hc : In t current) by (apply filter_In; split; [exact H1 | rewrite H2; reflexivity]).
      unfold WfIds in Hw. clear -Hw Hc H3 E. induction current as [|u l IH]; [destruct Hc|].
      cbn [flat_map] in Hw. apply NoDup_app_iff in Hw. destruct Hw as (Hu & Hl & _). destruct Hc as [->|Hc]; [|exact (IH Hl Hc)].
      unfold ids in Hu. inversion Hu as [|? ? Hn _]. apply Hn. rewrite E. exact H3.
Qed.

(* ----- the runner ----- *)
Theorem validate_all_concat (vs : list (vkind)) items (r : vkind -> list finding) :
  (forall v, In v vs -> validate X o g v items = Ok (r v)) ->
  validate_all X o g vs items = Ok (concat (map r vs)).
Proof.
  intro H. unfold validate_all. rewrite (rsequence_map_ok _ r vs H). reflexivity.
Qed.

Theorem is_ok_iff (results : list finding) : is_ok results = true <-> results = [].
Proof. destruct results; cbn; split; congruence. Qed.
End Built.

Print Assumptions ap_validate_spec.
Print Assumptions pa_validate_spec.
Print Assumptions obs_validate_spec.
Print Assumptions primary_differs_iff_alternate.
