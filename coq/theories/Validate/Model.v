(* Executable model of the validators:
     src/hpotk/validate/_hpo.py     AnnotationPropagationValidator, PhenotypicAbnormalityValidator,
                                    ObsoleteTermIdsValidator, BaseOntologyRuleValidator._primary_term_id
     src/hpotk/validate/_model.py   ValidationRunner.validate_all, ValidationResults.is_ok
     src/hpotk/validate/_util.py    map_to_stateful_feature
   An item is (term id, is_present) - what map_to_stateful_feature extracts into a PRIVATE copy
   (a TermId or an Identified without status counts as present).  The ontology is the C06 model
   (id map) plus the C01 graph model.  A finding names the ids its message names.  Definitions only. *)
From Coq Require Import String List Bool Arith ZArith.
From Hpotk Require Import Base.Result Base.Str Base.Ord TermId.Model Graph.Model Ontology.Model.
Import ListNotations.
Open Scope list_scope.

Definition PA : key := ("HP"%string, "0000118"%string).      (* hpotk.constants.hpo.base.PHENOTYPIC_ABNORMALITY *)

Definition item : Type := (key * bool)%type.                 (* (identifier, is_present) *)

Inductive finding :=
| FProp (d a : key) (present : bool)    (* ERROR   annotation_propagation: descendant d, ancestor a, state of d *)
| FPa (x : key)                         (* WARNING phenotypic_abnormality_descendant *)
| FObs (given primary : key).           (* WARNING obsolete_term_id_is_used *)

Section Validators.
Variable X : Type.
Variable o : onto X.
Variable g : graph.

(* hpo.get_term(id).identifier *)
Definition primary (k : key) : option key := option_map (t_id X) (dget (o_map X o) k).

(* _extract_stateful_feature + _primary_term_id on the private copy; an id the ontology does not
   know makes the validators fail (AttributeError on None) - outside the property's scope *)
Definition to_feature (it : item) : res item :=
  match primary (fst it) with Some p => Ok (p, snd it) | None => Err OtherError end.

Definition ancestors_of (k : key) : res (list key) := g_query g QAncestors (ATid k) false.

(* the inner scan: any(anc == sf.identifier for sf in features [if sf.is_excluded]) *)
Definition offending (fs : list item) (present : bool) (anc : key) : bool :=
  existsb (fun f' => key_eqb anc (fst f') && (present || negb (snd f'))) fs.

Definition ap_findings (fs : list item) : res (list finding) :=
  rmap (@concat finding)
    (rsequence (map (fun f => rmap (fun l => flat_map (fun anc => if offending fs (snd f) anc then [FProp (fst f) anc (snd f)] else []) l)
                                   (ancestors_of (fst f))) fs)).

Definition ap_validate (items : list item) : res (list finding) :=
  bind (rsequence (map to_feature items)) ap_findings.

Definition pa_validate (items : list item) : res (list finding) :=
  rmap (@concat finding)
    (rsequence (map (fun it => match primary (fst it) with
                               | None => Ok []
                               | Some p => rmap (fun l => if kmem PA l then [] else [FPa p]) (ancestors_of p)
                               end) items)).

Definition obs_validate (items : list item) : res (list finding) :=
  rmap (@concat finding)
    (rsequence (map (fun it => match primary (fst it) with
                               | None => Err OtherError
                               | Some p => Ok (if key_eqb p (fst it) then [] else [FObs (fst it) p])
                               end) items)).

Inductive vkind := VProp | VPa | VObs.
Definition validate (v : vkind) : list item -> res (list finding) :=
  match v with VProp => ap_validate | VPa => pa_validate | VObs => obs_validate end.

(* ValidationRunner.validate_all *)
Definition validate_all (vs : list vkind) (items : list item) : res (list finding) :=
  rmap (@concat finding) (rsequence (map (fun v => validate v items) vs)).

Definition is_ok (results : list finding) : bool := match results with [] => true | _ => false end.
End Validators.
