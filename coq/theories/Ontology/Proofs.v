(* C06: ontology lookups resolve primary and alternate ids to current terms only. *)
From Coq Require Import String List Bool Arith ZArith Lia Setoid.
From Hpotk Require Import Base.Result Base.Str Base.Ord TermId.Model TermId.Proofs Graph.Worklist Graph.Model Graph.Spec Graph.Front Graph.ApiM Graph.Main Ontology.Model.
Import ListNotations.
Open Scope list_scope.

Lemma keqb_refl k : key_eqb k k = true.
Proof. apply key_eqb_eq. reflexivity. Qed.
Lemma keqb_neq a b : key_eqb a b = false <-> a <> b.
Proof.
  split.
  - intros H E. subst b. rewrite keqb_refl in H. discriminate.
  - intro H. destruct (key_eqb a b) eqn:K; [apply key_eqb_eq in K; contradiction | reflexivity].
Qed.

(* ---------- dict ---------- *)
Section DictFacts.
Context {V : Type}.
Implicit Types (d : list (key * V)).

Lemma dget_dput d k v k' : dget (dput k v d) k' = if key_eqb k' k then Some v else dget d k'.
Proof.
  induction d as [|[k0 v0] d IH]; cbn [dput dget].
  - reflexivity.
  - destruct (key_eqb k k0) eqn:K; cbn [dget].
    + apply key_eqb_eq in K. subst k0. destruct (key_eqb k' k); reflexivity.
    + destruct (key_eqb k' k0) eqn:K0.
      * apply key_eqb_eq in K0. subst k0. destruct (key_eqb k' k) eqn:K1; [|reflexivity].
        apply key_eqb_eq in K1. subst k'. rewrite keqb_refl in K. discriminate.
      * exact IH.
Qed.

Lemma dput_keys d k v k' : In k' (map fst (dput k v d)) <-> (k' = k \/ In k' (map fst d)).
Proof.
  induction d as [|[k0 v0] d IH]; cbn [dput map fst In].
  - split; [intros [H|[]]; left; symmetry; exact H | intros [H|[]]; left; symmetry; exact H].
  - destruct (key_eqb k k0) eqn:K; cbn [map fst In].
    + apply key_eqb_eq in K. subst k0. split; [intros [H|H]; auto | intros [H|[H|H]]; auto].
    + rewrite IH. split; [intros [H|[H|H]]; auto | intros [H|[H|H]]; auto].
Qed.

Lemma dput_nodup d k v : NoDup (map fst d) -> NoDup (map fst (dput k v d)).
Proof.
  induction d as [|[k0 v0] d IH]; cbn [dput map fst]; intro H.
  - constructor; [intros [] | constructor].
  - inversion H as [|? ? Hn Hd]; subst. destruct (key_eqb k k0) eqn:K; cbn [map fst].
    + constructor; assumption.
    + constructor; [|apply IH; exact Hd]. rewrite dput_keys. intros [E|E]; [|exact (Hn E)].
      subst k0. rewrite keqb_refl in K. discriminate.
Qed.

Lemma dget_some_in d k v : dget d k = Some v -> In (k, v) d.
Proof.
  induction d as [|[k0 v0] d IH]; cbn [dget]; [discriminate|].
  destruct (key_eqb k k0) eqn:K.
  - apply key_eqb_eq in K. subst k0. intro H. inversion H; subst. left. reflexivity.
  - intro H. right. exact (IH H).
Qed.

Lemma dget_none_iff d k : dget d k = None <-> ~ In k (map fst d).
Proof.
  induction d as [|[k0 v0] d IH]; cbn [dget map fst In]; [tauto|].
  destruct (key_eqb k k0) eqn:K.
  - apply key_eqb_eq in K. subst k0. split; [discriminate | intro H; exfalso; apply H; left; reflexivity].
  - apply keqb_neq in K. rewrite IH. split; [intros H [E|E]; [apply K; symmetry; exact E | exact (H E)] | intros H E; apply H; right; exact E].
Qed.
End DictFacts.

(* ---------- the id map ---------- *)
Section OntoFacts.
Variable X : Type.
Notation term := (term X).
Implicit Types (t u : term) (ts : list term) (d : list (key * term)).

(* the last term of the list that carries the id x (primary or alternate) *)
Fixpoint lookup_last ts (x : key) : option term :=
  match ts with
  | [] => None
  | t :: r => match lookup_last r x with
              | Some u => Some u
              | None => if kmem x (ids X t) then Some t else None
              end
  end.

Lemma fold_alts_get t (alts : list key) : forall d x,
  dget (fold_left (fun d a => dput a t d) alts d) x = if kmem x alts then Some t else dget d x.
Proof.
  induction alts as [|a alts IH]; intros d x; cbn [fold_left kmem existsb]; [reflexivity|].
  rewrite IH. unfold kmem. cbn [existsb]. rewrite dget_dput.
  destruct (existsb (key_eqb x) alts); [rewrite orb_true_r; reflexivity|]. rewrite orb_false_r. reflexivity.
Qed.

Lemma add_term_get d t x : dget (add_term X d t) x = if kmem x (ids X t) then Some t else dget d x.
Proof.
  unfold add_term. rewrite fold_alts_get, dget_dput. unfold ids, kmem. cbn [existsb].
  destruct (existsb (key_eqb x) (t_alts X t)); [rewrite orb_true_r; reflexivity|]. rewrite orb_false_r. reflexivity.
Qed.

Lemma fold_alts_keys t (alts : list key) : forall d k,
  In k (map fst (fold_left (fun d a => dput a t d) alts d)) <-> (In k alts \/ In k (map fst d)).
Proof.
  induction alts as [|a alts IH]; intros d k; cbn [fold_left In]; [tauto|].
  rewrite IH, dput_keys. split; [intros [H|[H|H]]; auto | intros [[H|H]|H]; auto].
Qed.

Lemma fold_alts_nodup t (alts : list key) : forall d, NoDup (map fst d) -> NoDup (map fst (fold_left (fun d a => dput a t d) alts d)).
Proof. induction alts as [|a alts IH]; intros d H; cbn [fold_left]; [exact H|]. apply IH. apply dput_nodup. exact H. Qed.

Lemma add_term_keys d t k : In k (map fst (add_term X d t)) <-> (In k (ids X t) \/ In k (map fst d)).
Proof.
  unfold add_term. rewrite fold_alts_keys, dput_keys. unfold ids. cbn [In].
  split; [intros [H|[H|H]]; auto | intros [[H|H]|H]; auto].
Qed.

Lemma add_term_nodup d t : NoDup (map fst d) -> NoDup (map fst (add_term X d t)).
Proof. intro H. unfold add_term. apply fold_alts_nodup. apply dput_nodup. exact H. Qed.

Lemma fold_terms_get ts : forall d x,
  dget (fold_left (add_term X) ts d) x = match lookup_last ts x with Some u => Some u | None => dget d x end.
Proof.
  induction ts as [|t ts IH]; intros d x; cbn [fold_left lookup_last]; [reflexivity|].
  rewrite IH. destruct (lookup_last ts x); [reflexivity|]. rewrite add_term_get.
  destruct (kmem x (ids X t)); reflexivity.
Qed.

Lemma fold_terms_keys ts : forall d k,
  In k (map fst (fold_left (add_term X) ts d)) <-> ((exists t, In t ts /\ In k (ids X t)) \/ In k (map fst d)).
Proof.
  induction ts as [|t ts IH]; intros d k; cbn [fold_left].
  - split; [auto | intros [(t & [] & _)|H]; exact H].
  - rewrite IH, add_term_keys. split.
    + intros [(u & Hu & Hk)|[H|H]]; [left; exists u; split; [right; exact Hu | exact Hk] | left; exists t; split; [left; reflexivity | exact H] | right; exact H].
    + intros [(u & [->|Hu] & Hk)|H]; [right; left; exact Hk | left; exists u; auto | right; right; exact H].
Qed.

Lemma fold_terms_nodup ts : forall d, NoDup (map fst d) -> NoDup (map fst (fold_left (add_term X) ts d)).
Proof. induction ts as [|t ts IH]; intros d H; cbn [fold_left]; [exact H|]. apply IH. apply add_term_nodup. exact H. Qed.

Lemma lookup_last_sound ts x u : lookup_last ts x = Some u -> In u ts /\ In x (ids X u).
Proof.
  induction ts as [|t ts IH]; cbn [lookup_last]; [discriminate|].
  destruct (lookup_last ts x) as [w|].
  - intro H. inversion H; subst w. destruct (IH eq_refl) as [H1 H2]. split; [right; exact H1 | exact H2].
  - destruct (kmem x (ids X t)) eqn:K; [|discriminate]. intro H. inversion H; subst u.
    split; [left; reflexivity | apply kmem_in; exact K].
Qed.

Lemma lookup_last_none ts x : lookup_last ts x = None <-> forall t, In t ts -> ~ In x (ids X t).
Proof.
  induction ts as [|t ts IH]; cbn [lookup_last].
  - split; [intros _ t [] | reflexivity].
  - destruct (lookup_last ts x) as [w|] eqn:L.
    + split; [discriminate|]. intro H. exfalso. destruct (lookup_last_sound ts x w L) as [H1 H2]. exact (H w (or_intror H1) H2).
    + destruct (kmem x (ids X t)) eqn:K.
      * split; [discriminate|]. intro H. exfalso. apply (H t (or_introl eq_refl)). apply kmem_in. exact K.
      * split; [|reflexivity]. intros _ u [->|Hu]; [rewrite <- kmem_in, K; discriminate | exact (proj1 IH eq_refl u Hu)].
Qed.

(* ids of distinct (positions of) terms are disjoint and no term lists an id twice *)
Definition WfIds ts : Prop := NoDup (flat_map (ids X) ts).

Lemma lookup_last_complete ts x u : WfIds ts -> In u ts -> In x (ids X u) -> lookup_last ts x = Some u.
Proof.
  unfold WfIds. induction ts as [|t ts IH]; intros Hw Hu Hx; [destruct Hu|].
  cbn [flat_map] in Hw. apply NoDup_app_iff in Hw. destruct Hw as (_ & Hw2 & Hdisj).
  cbn [lookup_last]. destruct Hu as [->|Hu].
  - assert (L : lookup_last ts x = None).
    { apply lookup_last_none. intros w Hw Hxw. apply (Hdisj x Hx). apply in_flat_map. exists w. split; assumption. }
    rewrite L. apply kmem_in in Hx. rewrite Hx. reflexivity.
  - rewrite (IH Hw2 Hu Hx). reflexivity.
Qed.

(* ---------- the ontology ---------- *)
Variable all_terms : list term.
Let o := create_ontology X all_terms.
Let current := filter (fun t => negb (t_obsolete X t)) all_terms.

Lemma current_in t : In t current <-> (In t all_terms /\ t_obsolete X t = false).
Proof. unfold current. rewrite filter_In. destruct (t_obsolete X t); cbn; intuition congruence. Qed.

(* length and term iterator: exactly the non-obsolete terms, in input order *)
Theorem len_terms_spec : olen X o = length current /\ terms_of X o = current /\
  forall t, In t (terms_of X o) <-> (In t all_terms /\ t_obsolete X t = false).
Proof. split; [reflexivity|]. split; [reflexivity|]. exact current_in. Qed.

Lemma get_term_eq a x : map_to_term_id a = Ok x -> get_term X o a = Ok (lookup_last current x).
Proof.
  intro H. unfold get_term, validate_term_id. rewrite H. cbn [rmap]. f_equal.
  unfold o, create_ontology, make_term_id_map. cbn [o_map]. fold current. rewrite fold_terms_get.
  destruct (lookup_last current x); reflexivity.
Qed.

(* an obsolete term is never returned by any lookup - whatever the ids look like *)
Theorem never_obsolete a t : get_term X o a = Ok (Some t) ->
  In t all_terms /\ t_obsolete X t = false /\ exists x, map_to_term_id a = Ok x /\ In x (ids X t).
Proof.
  intro H. destruct (map_to_term_id a) as [x|e] eqn:M.
  - rewrite (get_term_eq a x M) in H. inversion H as [L]. destruct (lookup_last_sound _ _ _ L) as [H1 H2].
    apply current_in in H1. destruct H1 as [H1 H3]. split; [exact H1|]. split; [exact H3|]. exists x. split; [reflexivity | exact H2].
  - unfold get_term, validate_term_id in H. rewrite M in H. discriminate.
Qed.

(* looking up a primary or alternate id of a current term returns that term; any other id None *)
Theorem get_term_spec a x : WfIds current -> denotes a x ->
  (forall t, get_term X o a = Ok (Some t) <-> (In t all_terms /\ t_obsolete X t = false /\ In x (ids X t))) /\
  (get_term X o a = Ok None <-> forall t, In t all_terms -> t_obsolete X t = false -> ~ In x (ids X t)).
Proof.
  intros Hw Hd. pose proof (Main.denotes_map a x Hd) as M. rewrite (get_term_eq a x M). split.
  - intro t. split.
    + intro H. inversion H as [L]. destruct (lookup_last_sound _ _ _ L) as [H1 H2]. apply current_in in H1. tauto.
    + intros (H1 & H2 & H3). f_equal. apply lookup_last_complete; [exact Hw | apply current_in; auto | exact H3].
  - split.
    + intro H. inversion H as [L]. intros t Ht Ho. apply (proj1 (lookup_last_none _ _) L). apply current_in. auto.
    + intro H. f_equal. apply lookup_last_none. intros t Ht. apply current_in in Ht. apply H; tauto.
Qed.

Theorem get_term_malformed a : malformed a -> get_term X o a = Err ValueError.
Proof. intro H. unfold get_term, validate_term_id. rewrite (ApiM.malformed_map a H). reflexivity. Qed.

(* `in` is true exactly when the lookup succeeds; the name is the name of the term found *)
Theorem contains_iff_lookup a : forall b, contains X o a = Ok b ->
  (b = true <-> exists t, get_term X o a = Ok (Some t)).
Proof.
  unfold contains. destruct (get_term X o a) as [[t|]|e]; cbn [rmap]; intros b H; inversion H; subst.
  - split; [intros _; exists t; reflexivity | reflexivity].
  - split; [discriminate | intros [t Ht]; discriminate].
Qed.

Theorem name_spec a : get_term_name X o a = rmap (option_map (t_name X)) (get_term X o a).
Proof. reflexivity. Qed.

(* the term-id iterator: each id once; exactly the primary and alternate ids of current terms *)
Theorem term_ids_spec : NoDup (term_ids X o) /\
  forall k, In k (term_ids X o) <-> exists t, In t all_terms /\ t_obsolete X t = false /\ (k = t_id X t \/ In k (t_alts X t)).
Proof.
  unfold term_ids, o, create_ontology, make_term_id_map. cbn [o_map]. fold current. split.
  - apply fold_terms_nodup. constructor.
  - intro k. rewrite fold_terms_keys. cbn [map In]. split.
    + intros [(t & Ht & Hk)|[]]. apply current_in in Ht. exists t. destruct Ht as [H1 H2]. split; [exact H1|]. split; [exact H2|].
      destruct Hk as [Hk|Hk]; [left; symmetry; exact Hk | right; exact Hk].
    + intros (t & H1 & H2 & Hk). left. exists t. split; [apply current_in; auto|].
      destruct Hk as [->|Hk]; [left; reflexivity | right; exact Hk].
Qed.

(* every listed id resolves, and only listed ids do *)
Theorem term_ids_resolve k : In k (term_ids X o) <-> exists t, get_term X o (ATid k) = Ok (Some t).
Proof.
  rewrite (get_term_eq (ATid k) k eq_refl). rewrite (proj2 term_ids_spec). split.
  - intros (t & H1 & H2 & Hk). destruct (lookup_last current k) as [u|] eqn:L; [exists u; reflexivity|]. exfalso.
    apply (proj1 (lookup_last_none _ _) L t); [apply current_in; auto|]. destruct Hk as [->|Hk]; [left; reflexivity | right; exact Hk].
  - intros (t & H). inversion H as [L]. destruct (lookup_last_sound _ _ _ L) as [H1 H2]. apply current_in in H1.
    exists t. destruct H1 as [H1 H3]. split; [exact H1|]. split; [exact H3|]. destruct H2 as [H2|H2]; [left; symmetry; exact H2 | right; exact H2].
Qed.

(* CURIE str, TermId and Identified arguments are interchangeable *)
Theorem arg_forms_agree a x : denotes a x ->
  get_term X o a = get_term X o (ATid x) /\ contains X o a = contains X o (ATid x) /\ get_term_name X o a = get_term_name X o (ATid x).
Proof.
  intro H. pose proof (Main.denotes_map a x H) as M.
  assert (E : get_term X o a = get_term X o (ATid x)) by (unfold get_term, validate_term_id; rewrite M; reflexivity).
  unfold contains, get_term_name. rewrite E. auto.
Qed.
End OntoFacts.

Print Assumptions get_term_spec.
Print Assumptions never_obsolete.
Print Assumptions term_ids_spec.
Print Assumptions term_ids_resolve.
