(* Executable model of the ontology containers:
     src/hpotk/ontology/_default.py   create_minimal_ontology / create_ontology, make_term_id_map,
                                      DefaultMinimalOntology / DefaultOntology (.terms, .term_ids, get_term, __len__),
                                      _validate_term_id
     src/hpotk/ontology/_api.py       MinimalOntology.get_term_name / __contains__
   Generic in the payload X a term carries besides its ids (name only for MinimalTerm; definition,
   comment, synonyms, xrefs for Term), so one model serves the minimal and the full ontology.
   A Python dict is an association list with dict semantics: assignment to an existing key replaces
   the value in place, a new key is appended.  Definitions only. *)
From Coq Require Import String List Bool Arith ZArith.
From Hpotk Require Import Base.Result Base.Str Base.Ord TermId.Model Graph.Model.
Import ListNotations.
Open Scope list_scope.

Section Dict.
Context {V : Type}.
Fixpoint dget (d : list (key * V)) (k : key) : option V :=
  match d with
  | [] => None
  | (k', v) :: r => if key_eqb k k' then Some v else dget r k
  end.
Fixpoint dput (k : key) (v : V) (d : list (key * V)) : list (key * V) :=
  match d with
  | [] => [(k, v)]
  | (k', v') :: r => if key_eqb k k' then (k', v) :: r else (k', v') :: dput k v r
  end.
End Dict.

Section Onto.
Variable X : Type.

Record term := mkTerm { t_id : key; t_name : string; t_alts : list key; t_obsolete : bool; t_extra : X }.

Definition ids (t : term) : list key := t_id t :: t_alts t.

(* make_term_id_map: data[term.identifier] = term; for alt in term.alt_term_ids: data[alt] = term *)
Definition add_term (d : list (key * term)) (t : term) : list (key * term) :=
  fold_left (fun d a => dput a t d) (t_alts t) (dput (t_id t) t d).
Definition make_term_id_map (terms : list term) : list (key * term) := fold_left add_term terms [].

Record onto := mkOnto { o_terms : list term; o_map : list (key * term) }.

(* create_minimal_ontology / create_ontology: terms = ALL terms, obsolete ones included *)
Definition create_ontology (terms : list term) : onto :=
  let current := filter (fun t => negb (t_obsolete t)) terms in
  mkOnto current (make_term_id_map current).

(* _validate_term_id: TermId | Identified | str, else ValueError - the same normalisation as the graph API *)
Definition validate_term_id (a : arg) : res key := map_to_term_id a.

Definition get_term (o : onto) (a : arg) : res (option term) := rmap (dget (o_map o)) (validate_term_id a).
Definition get_term_name (o : onto) (a : arg) : res (option string) := rmap (option_map t_name) (get_term o a).
Definition contains (o : onto) (a : arg) : res bool :=
  rmap (fun r => match r with Some _ => true | None => false end) (get_term o a).
Definition olen (o : onto) : nat := length (o_terms o).
Definition terms_of (o : onto) : list term := o_terms o.
Definition term_ids (o : onto) : list key := map fst (o_map o).
End Onto.
