(* Executable model of src/hpotk/store/_api.py  OntologyStore  (as repaired: download into a unique
   temporary file in the target directory, os.replace it onto the cache location, remove it on failure):
     _impl_load_ontology, _fetch_latest_release_if_missing, resolve_store_path, clear
   as a state machine over the I/O boundaries of a load.  The world holds a file system, any number of
   loaders (threads / processes), each with its own fault plan; a step advances ONE loader by ONE
   boundary (isfile, fetch, mkstemp, read, write, close, replace, load), kills it (it never runs again; the file system keeps whatever it holds), or clears.
   Paths are structured: the cache location Final, a loader's temporary file Temp (mkstemp: unique
   name, '.tmp' suffix - never a cache location), anything else under a type directory Other.
   Definitions only. *)
From Coq Require Import String List Bool Arith.
From Hpotk Require Import Base.Result Base.Str.
Import ListNotations.
Open Scope list_scope.

Definition bytes : Type := list nat.
Definition otype : Type := nat.                          (* OntologyType: HPO, MAxO, MONDO *)

Inductive path :=
| Final (t : otype) (release : string)                   (* <store>/<ID>/<id>.<release>.json *)
| Temp (t : otype) (n : nat)                             (* <store>/<ID>/<unique>.tmp *)
| Other (t : otype) (name : string).

Definition path_eqb (p q : path) : bool :=
  match p, q with
  | Final t r, Final t' r' => Nat.eqb t t' && seqb r r'
  | Temp t n, Temp t' n' => Nat.eqb t t' && Nat.eqb n n'
  | Other t s, Other t' s' => Nat.eqb t t' && seqb s s'
  | _, _ => false
  end.
Definition path_type (p : path) : otype := match p with Final t _ | Temp t _ | Other t _ => t end.

(* the file system: files only (directories are implicit) *)
Definition fsys : Type := list (path * bytes).
Fixpoint fget (fs : fsys) (p : path) : option bytes :=
  match fs with [] => None | (q, b) :: r => if path_eqb p q then Some b else fget r p end.
Definition fdel (fs : fsys) (p : path) : fsys := filter (fun e => negb (path_eqb p (fst e))) fs.
Definition fput (fs : fsys) (p : path) (b : bytes) : fsys := (p, b) :: fdel fs p.

(* what can go wrong in one load *)
(* WriteFails k: write() puts k bytes into the file and raises; CloseFails k: write() succeeds into the io buffer and the
   flush at close() puts k bytes into the file and raises (the usual way a small payload fails on a full disk) *)
Inductive fault := NoFault | FetchRaises | ReadRaises | WriteFails (k : nat) | CloseFails (k : nat).

(* program counter of a loader: which I/O boundary comes next *)
Inductive pc :=
| PStart            (* next: os.path.isfile(final) *)
| PHit              (* isfile was true; next: loader_func(final) *)
| PMiss             (* isfile was false; next: makedirs + fetch_ontology *)
| PFetched          (* next: mkstemp in the target directory *)
| PTemp             (* temp exists, empty; next: response.read() *)
| PRead             (* bytes in memory; next: write() into the (buffered) temp file *)
| PBuffered         (* write() returned, the data may still sit in the io buffer; next: close() (flush) *)
| PWriteFailed      (* a prefix is in temp, write() or close() raised; next: cleanup (remove temp) *)
| PWritten          (* temp holds everything, closed; next: os.replace(temp, final) *)
| PPublished        (* next: loader_func(final) *)
| PDone (b : bytes) (* returned the ontology parsed from b *)
| PFailed           (* raised *)
| PDead.            (* killed *)

Record loader := mkLoader { l_type : otype; l_release : string; l_fault : fault; l_tmp : nat; l_pc : pc }.

Record world := mkWorld {
  w_fs : fsys;
  w_loaders : list loader;
  w_fetches : list (otype * string) }.       (* log of fetch_ontology calls, newest first *)

Section Store.
Variable remote : otype -> string -> bytes.   (* what the remote serves *)

Definition set_pc (l : loader) (p : pc) : loader := mkLoader (l_type l) (l_release l) (l_fault l) (l_tmp l) p.

(* one boundary of loader l in file system fs: new fs, new pc, did it call fetch? *)
Definition advance (fs : fsys) (l : loader) : fsys * pc * bool :=
  let fin := Final (l_type l) (l_release l) in
  let tmp := Temp (l_type l) (l_tmp l) in
  match l_pc l with
  | PStart => (fs, match fget fs fin with Some _ => PHit | None => PMiss end, false)
  | PHit => (fs, match fget fs fin with Some b => PDone b | None => PFailed end, false)
  | PMiss => (fs, match l_fault l with FetchRaises => PFailed | _ => PFetched end, true)
  | PFetched => (fput fs tmp [], PTemp, false)
  | PTemp => match l_fault l with
             | ReadRaises => (fdel fs tmp, PFailed, false)          (* exception: the temp file is removed *)
             | _ => (fs, PRead, false)
             end
  | PRead => match l_fault l with
             | WriteFails k => (match fget fs tmp with Some _ => fput fs tmp (firstn k (remote (l_type l) (l_release l))) | None => fs end, PWriteFailed, false)
             | _ => (fs, PBuffered, false)                          (* nothing is guaranteed to have reached the file yet *)
             end
  | PBuffered => match l_fault l with
                 | CloseFails k => (match fget fs tmp with Some _ => fput fs tmp (firstn k (remote (l_type l) (l_release l))) | None => fs end, PWriteFailed, false)
                 | _ => (match fget fs tmp with Some _ => fput fs tmp (remote (l_type l) (l_release l)) | None => fs end, PWritten, false)
                 end
  | PWriteFailed => (fdel fs tmp, PFailed, false)
  | PWritten => match fget fs tmp with
                | Some b => (fput (fdel fs tmp) fin b, PPublished, false)    (* os.replace: atomic *)
                | None => (fs, PFailed, false)                               (* temp vanished (cleared): FileNotFoundError *)
                end
  | PPublished => (fs, match fget fs fin with Some b => PDone b | None => PFailed end, false)
  | PDone b => (fs, PDone b, false)
  | PFailed => (fs, PFailed, false)
  | PDead => (fs, PDead, false)
  end.

Inductive action :=
| Step (i : nat)              (* loader i passes its next boundary *)
| Kill (i : nat)              (* loader i is killed *)
| Spawn (l : loader)          (* a new load starts *)
| ClearType (t : otype)       (* store.clear(t) *)
| ClearAll.                   (* store.clear() *)

Fixpoint update_nth {A} (i : nat) (f : A -> A) (l : list A) : list A :=
  match l, i with
  | [], _ => []
  | x :: r, 0 => f x :: r
  | x :: r, S k => x :: update_nth k f r
  end.

Definition do_action (w : world) (a : action) : world :=
  match a with
  | Step i =>
      match nth_error (w_loaders w) i with
      | Some l => let '(fs', p', fetched) := advance (w_fs w) l in
                  mkWorld fs' (update_nth i (fun l => set_pc l p') (w_loaders w))
                          (if fetched then (l_type l, l_release l) :: w_fetches w else w_fetches w)
      | None => w
      end
  | Kill i => mkWorld (w_fs w) (update_nth i (fun l => set_pc l PDead) (w_loaders w)) (w_fetches w)
  | Spawn l => mkWorld (w_fs w) (w_loaders w ++ [set_pc l PStart]) (w_fetches w)
  | ClearType t => mkWorld (filter (fun e => negb (Nat.eqb (path_type (fst e)) t)) (w_fs w)) (w_loaders w) (w_fetches w)
  | ClearAll => mkWorld [] (w_loaders w) (w_fetches w)
  end.

Definition run (w : world) (acts : list action) : world := fold_left do_action acts w.
End Store.

(* _fetch_latest_release_if_missing: max(tags) under str order; no tag: ValueError *)
Definition latest (tags : list string) : res string :=
  match tags with
  | [] => Err ValueError
  | t :: r => Ok (fold_left (fun m x => if sltb m x then x else m) r t)
  end.
