(* C07: the ontology store cache stays correct under repeats, failures, crashes and races. *)
From Coq Require Import String List Bool Arith Lia Setoid.
From Hpotk Require Import Base.Result Base.Str Store.Model.
Import ListNotations.
Open Scope list_scope.

Lemma path_eqb_eq p q : path_eqb p q = true <-> p = q.
Proof.
  destruct p, q; cbn [path_eqb]; try (split; [discriminate | intro H; discriminate]);
    rewrite andb_true_iff, Nat.eqb_eq; try rewrite seqb_eq; try rewrite Nat.eqb_eq;
    (split; [intros [-> ->]; reflexivity | intro H; inversion H; auto]).
Qed.
Lemma path_eqb_refl p : path_eqb p p = true.
Proof. apply path_eqb_eq. reflexivity. Qed.
Lemma path_eqb_neq p q : p <> q -> path_eqb p q = false.
Proof. intro H. destruct (path_eqb p q) eqn:E; [apply path_eqb_eq in E; contradiction | reflexivity]. Qed.

Lemma fget_filter (f : path -> bool) fs q : fget (filter (fun e => f (fst e)) fs) q = if f q then fget fs q else None.
Proof.
  induction fs as [|[p b] fs IH]; cbn [filter fget fst]; [destruct (f q); reflexivity|].
  destruct (f p) eqn:Fp; cbn [fget].
  - destruct (path_eqb q p) eqn:E; [apply path_eqb_eq in E; subst; rewrite Fp; reflexivity | exact IH].
  - destruct (path_eqb q p) eqn:E; [apply path_eqb_eq in E; subst; rewrite Fp; rewrite IH, Fp; reflexivity | exact IH].
Qed.

Lemma fget_fdel fs p q : fget (fdel fs p) q = if path_eqb q p then None else fget fs q.
Proof.
  unfold fdel. rewrite (fget_filter (fun x => negb (path_eqb p x))).
  destruct (path_eqb q p) eqn:E.
  - apply path_eqb_eq in E. subst. rewrite path_eqb_refl. reflexivity.
  - assert (path_eqb p q = false) by (apply path_eqb_neq; intro H; subst; rewrite path_eqb_refl in E; discriminate).
    rewrite H. reflexivity.
Qed.

Lemma fget_fput fs p b q : fget (fput fs p b) q = if path_eqb q p then Some b else fget fs q.
Proof. unfold fput. cbn [fget]. destruct (path_eqb q p) eqn:E; [reflexivity|]. rewrite fget_fdel, E. reflexivity. Qed.

Section Store.
Variable remote : otype -> string -> bytes.

Definition tkey (l : loader) : otype * nat := (l_type l, l_tmp l).
Definition fin (l : loader) : path := Final (l_type l) (l_release l).
Definition tmp (l : loader) : path := Temp (l_type l) (l_tmp l).

(* ---- the invariant ---- *)
Record Inv (w : world) : Prop := {
  (* a cache location is absent or holds exactly what the remote serves for it - never a prefix *)
  inv_final : forall t r b, fget (w_fs w) (Final t r) = Some b -> b = remote t r;
  (* a closed temporary file about to be published holds everything *)
  inv_temp : forall l, In l (w_loaders w) -> l_pc l = PWritten -> forall b, fget (w_fs w) (tmp l) = Some b -> b = remote (l_type l) (l_release l);
  (* temporary names are unique (mkstemp) *)
  inv_tmp_unique : NoDup (map tkey (w_loaders w)) }.

(* a new load gets a temporary name no loader has used *)
Definition valid_action (w : world) (a : action) : Prop :=
  match a with Spawn l => ~ In (tkey l) (map tkey (w_loaders w)) | _ => True end.

Lemma update_nth_in {A} (f : A -> A) (l : list A) : forall i x, In x (update_nth i f l) ->
  (In x l /\ nth_error l i <> Some x) \/ (exists y, nth_error l i = Some y /\ x = f y) \/ In x l.
Proof.
  induction l as [|a l IH]; intros i x H; [destruct i; destruct H|]. destruct i as [|k]; cbn [update_nth] in H.
  - destruct H as [<-|H]; [right; left; exists a; auto | right; right; right; exact H].
  - destruct H as [<-|H]; [right; right; left; reflexivity|]. destruct (IH k x H) as [[H1 _]|[(y & H1 & H2)|H1]].
    + right. right. right. exact H1.
    + right. left. exists y. auto.
    + right. right. right. exact H1.
Qed.

Lemma update_nth_map {A B} (g : A -> B) (f : A -> A) (l : list A) i : (forall x, g (f x) = g x) -> map g (update_nth i f l) = map g l.
Proof. intro H. revert i. induction l as [|a l IH]; intro i; destruct i; cbn; try reflexivity; [rewrite H; reflexivity | rewrite IH; reflexivity]. Qed.

Lemma nth_error_update {A} (f : A -> A) (l : list A) i j :
  nth_error (update_nth i f l) j = if Nat.eqb i j then option_map f (nth_error l j) else nth_error l j.
Proof.
  revert i j. induction l as [|a l IH]; intros i j; [destruct i, j; cbn; try reflexivity; destruct (Nat.eqb i j); reflexivity|].
  destruct i, j; cbn [update_nth nth_error Nat.eqb option_map]; try reflexivity. apply IH.
Qed.

Lemma in_update_cases {A} (f : A -> A) (l : list A) i x : In x (update_nth i f l) ->
  (exists j, j <> i /\ nth_error l j = Some x) \/ (exists y, nth_error l i = Some y /\ x = f y).
Proof.
  intro H. apply In_nth_error in H. destruct H as [j Hj]. rewrite nth_error_update in Hj. destruct (Nat.eqb i j) eqn:E.
  - apply Nat.eqb_eq in E. subst j. right. destruct (nth_error l i) as [y|]; [|discriminate]. cbn in Hj. inversion Hj. exists y. auto.
  - left. exists j. apply Nat.eqb_neq in E. split; [congruence | exact Hj].
Qed.

Lemma nodup_keys_distinct (ls : list loader) i j a b : NoDup (map tkey ls) -> i <> j ->
  nth_error ls i = Some a -> nth_error ls j = Some b -> tkey a <> tkey b.
Proof.
  intros Hnd Hij Ha Hb E. apply (map_nth_error tkey) in Ha. apply (map_nth_error tkey) in Hb. rewrite E in Ha.
  apply Hij. eapply NoDup_nth_error; [exact Hnd | | congruence]. apply nth_error_Some. rewrite Ha. discriminate.
Qed.

Lemma tmp_neq a b : tkey a <> tkey b -> tmp a <> tmp b.
Proof. unfold tkey, tmp. intros H E. inversion E. apply H. congruence. Qed.

(* every step of every loader, every kill, every new load, every clear preserves the invariant *)
Theorem inv_step w a : Inv w -> valid_action w a -> Inv (do_action remote w a).
Proof.
  intros [IF IT IU] Hv. destruct a as [i|i|l|t|]; cbn [do_action].
  - (* Step *)
    destruct (nth_error (w_loaders w) i) as [l|] eqn:Hl; [|constructor; assumption].
    destruct (advance remote (w_fs w) l) as [[fs' p'] fetched] eqn:Adv.
    assert (Hin : In l (w_loaders w)) by (eapply nth_error_In; exact Hl).
    (* how the step changes the file system: only this loader's temp, or a publish of a complete temp *)
    assert (FS : forall q, q <> tmp l -> q <> fin l -> fget fs' q = fget (w_fs w) q).
    { intros q Q1 Q2. unfold advance in Adv. fold (fin l) (tmp l) in Adv.
      destruct (l_pc l); try (inversion Adv; subst; reflexivity).
      - inversion Adv; subst. rewrite fget_fput, (path_eqb_neq _ _ Q1). reflexivity.
      - destruct (l_fault l); inversion Adv; subst; try reflexivity. rewrite fget_fdel, (path_eqb_neq _ _ Q1). reflexivity.
      - destruct (l_fault l); destruct (fget (w_fs w) (tmp l)); inversion Adv; subst; try reflexivity; rewrite fget_fput, (path_eqb_neq _ _ Q1); reflexivity.
      - destruct (l_fault l); destruct (fget (w_fs w) (tmp l)); inversion Adv; subst; try reflexivity; rewrite fget_fput, (path_eqb_neq _ _ Q1); reflexivity.
      - inversion Adv; subst. rewrite fget_fdel, (path_eqb_neq _ _ Q1). reflexivity.
      - destruct (fget (w_fs w) (tmp l)); inversion Adv; subst; [|reflexivity].
        rewrite fget_fput, (path_eqb_neq _ _ Q2), fget_fdel, (path_eqb_neq _ _ Q1). reflexivity. }
    assert (FIN : forall b, fget fs' (fin l) = Some b -> b = remote (l_type l) (l_release l)).
    { intros b Hb. unfold advance in Adv. fold (fin l) (tmp l) in Adv.
      assert (NE : path_eqb (fin l) (tmp l) = false) by reflexivity.
      destruct (l_pc l) eqn:PC; try (inversion Adv; subst; exact (IF _ _ _ Hb)).
      - inversion Adv; subst. rewrite fget_fput, NE in Hb. exact (IF _ _ _ Hb).
      - destruct (l_fault l); inversion Adv; subst; try exact (IF _ _ _ Hb). rewrite fget_fdel, NE in Hb. exact (IF _ _ _ Hb).
      - destruct (l_fault l); destruct (fget (w_fs w) (tmp l)); inversion Adv; subst; try exact (IF _ _ _ Hb);
          rewrite fget_fput, NE in Hb; exact (IF _ _ _ Hb).
      - destruct (l_fault l); destruct (fget (w_fs w) (tmp l)); inversion Adv; subst; try exact (IF _ _ _ Hb);
          rewrite fget_fput, NE in Hb; exact (IF _ _ _ Hb).
      - inversion Adv; subst. rewrite fget_fdel, NE in Hb. exact (IF _ _ _ Hb).
      - destruct (fget (w_fs w) (tmp l)) as [b0|] eqn:T; inversion Adv; subst; [|exact (IF _ _ _ Hb)].
        rewrite fget_fput, path_eqb_refl in Hb. inversion Hb; subst. exact (IT l Hin PC _ T). }
    constructor; cbn [w_fs w_loaders].
    + intros t r b Hb. destruct (path_eqb (Final t r) (fin l)) eqn:E.
      * apply path_eqb_eq in E. rewrite E in Hb. unfold fin in E. inversion E; subst. exact (FIN b Hb).
      * rewrite FS in Hb; [exact (IF _ _ _ Hb) | discriminate | intro H; rewrite H, path_eqb_refl in E; discriminate].
    + intros l' Hin' PC' b Hb. destruct (in_update_cases _ _ _ _ Hin') as [(j & Hj & Hlj)|(y & Hy & ->)].
      * assert (K : tkey l' <> tkey l) by (exact (nodup_keys_distinct _ j i l' l IU Hj Hlj Hl)).
        rewrite FS in Hb; [exact (IT l' (nth_error_In _ _ Hlj) PC' b Hb) | apply tmp_neq; exact K | discriminate].
      * rewrite Hl in Hy. inversion Hy; subst y. cbn [set_pc l_pc] in PC'. subst p'.
        change (tmp (set_pc l PWritten)) with (tmp l) in Hb. cbn [set_pc l_type l_release].
        unfold advance in Adv. fold (fin l) (tmp l) in Adv.
        destruct (l_pc l) eqn:PC; try (inversion Adv; fail);
          try (destruct (fget (w_fs w) (fin l)); inversion Adv; fail);
          try (destruct (l_fault l); inversion Adv; fail).
        -- destruct (l_fault l); destruct (fget (w_fs w) (tmp l)) eqn:T; inversion Adv; subst.
           all: try (rewrite fget_fput, path_eqb_refl in Hb; inversion Hb; reflexivity).
           all: rewrite T in Hb; discriminate.
        -- destruct (fget (w_fs w) (tmp l)); inversion Adv.
    + rewrite update_nth_map; [exact IU | reflexivity].
  - (* Kill *)
    constructor; cbn [w_fs w_loaders]; [exact IF | | rewrite update_nth_map; [exact IU | reflexivity]].
    intros l' Hin' PC' b Hb. destruct (in_update_cases _ _ _ _ Hin') as [(j & _ & Hlj)|(y & _ & ->)]; [|discriminate].
    exact (IT l' (nth_error_In _ _ Hlj) PC' b Hb).
  - (* Spawn *)
    constructor; cbn [w_fs w_loaders]; [exact IF | |].
    + intros l' Hin' PC' b Hb. apply in_app_or in Hin'. destruct Hin' as [H|[<-|[]]]; [exact (IT l' H PC' b Hb) | discriminate].
    + rewrite map_app. cbn [map]. change (tkey (set_pc l PStart)) with (tkey l).
      apply NoDup_rev in IU. rewrite <- (rev_involutive (map tkey (w_loaders w) ++ [tkey l])). apply NoDup_rev.
      rewrite rev_app_distr. cbn [rev app]. constructor; [rewrite <- in_rev; exact Hv | exact IU].
  - (* ClearType *)
    constructor; cbn [w_fs w_loaders]; [| | exact IU].
    + intros t' r b Hb. rewrite (fget_filter (fun p => negb (Nat.eqb (path_type p) t))) in Hb.
      destruct (negb (Nat.eqb (path_type (Final t' r)) t)); [exact (IF _ _ _ Hb) | discriminate].
    + intros l' Hin' PC' b Hb. rewrite (fget_filter (fun p => negb (Nat.eqb (path_type p) t))) in Hb.
      destruct (negb (Nat.eqb (path_type (tmp l')) t)); [exact (IT l' Hin' PC' b Hb) | discriminate].
  - (* ClearAll *)
    constructor; cbn [w_fs w_loaders]; [intros; discriminate | intros; discriminate | exact IU].
Qed.

(* a history: every action valid when it happens *)
Fixpoint valid_run (w : world) (acts : list action) : Prop :=
  match acts with
  | [] => True
  | a :: r => valid_action w a /\ valid_run (do_action remote w a) r
  end.

(* in EVERY reachable world - any number of loaders, any interleaving, any fault, any kill point -
   each cache location is absent or complete *)
Theorem atomicity_invariant acts : forall w, Inv w -> valid_run w acts -> Inv (run remote w acts).
Proof.
  induction acts as [|a r IH]; intros w HI HV; [exact HI|]. cbn [run fold_left]. destruct HV as [Ha Hr].
  apply IH; [apply inv_step; assumption | exact Hr].
Qed.

Theorem empty_world_inv : Inv (mkWorld [] [] []).
Proof. constructor; cbn; [intros; discriminate | intros l [] | constructor]. Qed.

(* whatever a load returns was parsed from exactly the bytes the remote serves *)
Theorem loaded_equals_direct w i l b : Inv w -> nth_error (w_loaders w) i = Some l ->
  forall w', w' = do_action remote w (Step i) -> forall l', nth_error (w_loaders w') i = Some l' ->
  l_pc l' = PDone b -> l_pc l = PDone b \/ b = remote (l_type l) (l_release l).
Proof.
  intros HI Hl w' -> l' Hl' PC. cbn [do_action] in Hl'. rewrite Hl in Hl'.
  destruct (advance remote (w_fs w) l) as [[fs' p'] fetched] eqn:Adv. cbn [w_loaders] in Hl'.
  rewrite nth_error_update, Nat.eqb_refl, Hl in Hl'. cbn in Hl'. inversion Hl'; subst l'. cbn [set_pc l_pc] in PC. subst p'.
  unfold advance in Adv.
  destruct (l_pc l) eqn:P; destruct (l_fault l); destruct (fget (w_fs w) (Final (l_type l) (l_release l))) eqn:F;
    destruct (fget (w_fs w) (Temp (l_type l) (l_tmp l))) eqn:T; inversion Adv; subst;
    try (left; reflexivity); right; eapply (inv_final w HI); eassumption.
Qed.

(* a fetch happens only at the boundary that follows a failed isfile of the same loader *)
Theorem fetch_only_on_miss w i : w_fetches (do_action remote w (Step i)) <> w_fetches w ->
  exists l, nth_error (w_loaders w) i = Some l /\ l_pc l = PMiss /\
            w_fetches (do_action remote w (Step i)) = (l_type l, l_release l) :: w_fetches w.
Proof.
  cbn [do_action]. destruct (nth_error (w_loaders w) i) as [l|] eqn:Hl; [|intro H; contradiction].
  destruct (advance remote (w_fs w) l) as [[fs' p'] fetched] eqn:Adv. cbn [w_fetches]. destruct fetched; [|intro H; contradiction].
  intros _. exists l. split; [reflexivity|]. split; [|reflexivity].
  unfold advance in Adv.
  destruct (l_pc l); destruct (l_fault l); destruct (fget (w_fs w) (Final (l_type l) (l_release l)));
    destruct (fget (w_fs w) (Temp (l_type l) (l_tmp l))); inversion Adv; reflexivity.
Qed.

(* PMiss is only entered from PStart when the cache location is absent *)
Theorem miss_means_absent fs l fs' fetched : l_pc l = PStart -> advance remote fs l = (fs', PMiss, fetched) ->
  fget fs (Final (l_type l) (l_release l)) = None /\ fs' = fs /\ fetched = false.
Proof.
  intros P. unfold advance. rewrite P. destruct (fget fs (Final (l_type l) (l_release l))); intro H; inversion H; auto.
Qed.

(* running one loader alone, from its start *)
Definition solo (w : world) (i : nat) (n : nat) : world := run remote w (repeat (Step i) n).

Lemma update_nth_app_last {A} (f : A -> A) (ls : list A) (x : A) : update_nth (length ls) f (ls ++ [x]) = ls ++ [f x].
Proof. induction ls as [|a ls IH]; cbn [length app update_nth]; [reflexivity | rewrite IH; reflexivity]. Qed.

Lemma set_pc_set_pc l p q : set_pc (set_pc l p) q = set_pc l q.
Proof. reflexivity. Qed.

Lemma spawn_eq fs ls l fetches :
  do_action remote (mkWorld fs ls fetches) (Spawn l) = mkWorld fs (ls ++ [set_pc l PStart]) fetches.
Proof. reflexivity. Qed.

(* one boundary of the last loader *)
Lemma step_last fs ls l fetches :
  do_action remote (mkWorld fs (ls ++ [l]) fetches) (Step (length ls)) =
  mkWorld (fst (fst (advance remote fs l))) (ls ++ [set_pc l (snd (fst (advance remote fs l)))])
          (if snd (advance remote fs l) then (l_type l, l_release l) :: fetches else fetches).
Proof.
  cbn [do_action w_loaders w_fs w_fetches]. rewrite nth_error_app2, Nat.sub_diag by lia. cbn [nth_error].
  destruct (advance remote fs l) as [[fs' p'] f]. cbn [fst snd]. rewrite update_nth_app_last. reflexivity.
Qed.

Ltac one_step := rewrite step_last; unfold advance; cbn [set_pc l_pc l_type l_release l_fault l_tmp].

(* a loader run alone when a complete copy exists: a cache hit after two boundaries *)
Lemma solo_hit fs ls fetches l b n : fget fs (Final (l_type l) (l_release l)) = Some b ->
  solo (do_action remote (mkWorld fs ls fetches) (Spawn l)) (length ls) (2 + n) =
  mkWorld fs (ls ++ [set_pc l (PDone b)]) fetches.
Proof.
  intro F. unfold solo, run. rewrite spawn_eq. cbn [repeat Nat.add fold_left].
  one_step. rewrite F. cbn [fst snd]. rewrite set_pc_set_pc.
  one_step. rewrite F. cbn [fst snd]. rewrite set_pc_set_pc.
  induction n as [|n IH]; cbn [repeat fold_left]; [reflexivity|].
  one_step. cbn [fst snd]. rewrite set_pc_set_pc. exact IH.
Qed.

(* ... and when there is none: fetch, temporary file, write, close, publish, load - eight boundaries *)
Lemma solo_miss fs ls fetches l : fget fs (Final (l_type l) (l_release l)) = None -> l_fault l = NoFault ->
  let bytes := remote (l_type l) (l_release l) in
  let t := Temp (l_type l) (l_tmp l) in
  solo (do_action remote (mkWorld fs ls fetches) (Spawn l)) (length ls) 8 =
  mkWorld (fput (fdel (fput (fput fs t []) t bytes) t) (Final (l_type l) (l_release l)) bytes)
          (ls ++ [set_pc l (PDone bytes)]) ((l_type l, l_release l) :: fetches).
Proof.
  intros F HF bytes t. unfold solo, run. rewrite spawn_eq. cbn [repeat fold_left].
  one_step. rewrite F. cbn [fst snd]. rewrite set_pc_set_pc.
  one_step. rewrite HF. cbn [fst snd]. rewrite set_pc_set_pc.
  one_step. cbn [fst snd]. rewrite set_pc_set_pc.
  one_step. rewrite HF. cbn [fst snd]. rewrite set_pc_set_pc.
  one_step. rewrite HF. cbn [fst snd]. rewrite set_pc_set_pc.
  one_step. rewrite HF. fold t. rewrite fget_fput, path_eqb_refl. cbn [fst snd]. rewrite set_pc_set_pc.
  one_step. fold t. rewrite fget_fput, path_eqb_refl. cbn [fst snd]. rewrite set_pc_set_pc.
  one_step. rewrite fget_fput, path_eqb_refl. cbn [fst snd]. rewrite set_pc_set_pc.
  reflexivity.
Qed.

(* a complete copy is a cache hit: no fetch, nothing written, and the load returns exactly those bytes *)
Theorem cache_hit w l : fget (w_fs w) (Final (l_type l) (l_release l)) = Some (remote (l_type l) (l_release l)) ->
  let w2 := solo (do_action remote w (Spawn l)) (length (w_loaders w)) 2 in
  w_fetches w2 = w_fetches w /\ w_fs w2 = w_fs w /\
  w_loaders w2 = w_loaders w ++ [set_pc l (PDone (remote (l_type l) (l_release l)))].
Proof.
  intros Hf w2. destruct w as [fs ls fetches]. cbn [w_fs w_loaders w_fetches] in *.
  assert (E : w2 = mkWorld fs (ls ++ [set_pc l (PDone (remote (l_type l) (l_release l)))]) fetches) by (exact (solo_hit fs ls fetches l _ 0 Hf)).
  rewrite E. cbn. auto.
Qed.

(* recovery: from EVERY world satisfying the invariant (whatever failed, was killed or is still
   running), a fresh healthy loader run alone ends with the right ontology and a complete copy *)
Theorem recovery w l : Inv w -> l_fault l = NoFault -> ~ In (tkey l) (map tkey (w_loaders w)) ->
  let i := length (w_loaders w) in
  let w' := solo (do_action remote w (Spawn l)) i 8 in
  nth_error (w_loaders w') i = Some (set_pc l (PDone (remote (l_type l) (l_release l)))) /\
  fget (w_fs w') (Final (l_type l) (l_release l)) = Some (remote (l_type l) (l_release l)) /\
  Inv w'.
Proof.
  intros HI HF Hfresh i w'.
  assert (HI' : Inv w').
  { unfold w', solo. apply atomicity_invariant; [apply inv_step; [exact HI | exact Hfresh]|]. cbn. tauto. }
  destruct w as [fs ls fetches]. cbn [w_fs w_loaders w_fetches] in *.
  destruct (fget fs (Final (l_type l) (l_release l))) as [b|] eqn:F.
  - pose proof (inv_final _ HI _ _ _ F) as E. cbn [w_fs] in E. subst b.
    assert (E : w' = mkWorld fs (ls ++ [set_pc l (PDone (remote (l_type l) (l_release l)))]) fetches) by (exact (solo_hit fs ls fetches l _ 6 F)).
    rewrite E in *. cbn [w_fs w_loaders]. split; [unfold i; rewrite nth_error_app2, Nat.sub_diag by lia; reflexivity|]. split; [exact F | exact HI'].
  - assert (E : w' = mkWorld (fput (fdel (fput (fput fs (Temp (l_type l) (l_tmp l)) []) (Temp (l_type l) (l_tmp l)) (remote (l_type l) (l_release l))) (Temp (l_type l) (l_tmp l)))
                                   (Final (l_type l) (l_release l)) (remote (l_type l) (l_release l)))
                             (ls ++ [set_pc l (PDone (remote (l_type l) (l_release l)))]) ((l_type l, l_release l) :: fetches))
      by (exact (solo_miss fs ls fetches l F HF)).
    rewrite E in *. cbn [w_fs w_loaders].
    split; [unfold i; rewrite nth_error_app2, Nat.sub_diag by lia; reflexivity|]. split; [|exact HI'].
    rewrite fget_fput, path_eqb_refl. reflexivity.
Qed.
End Store.

Lemma latest_spec (tags : list string) :
  (tags = [] -> latest tags = Err ValueError) /\
  (tags <> [] -> exists m, latest tags = Ok m /\ In m tags /\ forall x, In x tags -> sltb m x = false).
Proof.
  split; [intros ->; reflexivity|]. destruct tags as [|t r]; [intro H; contradiction|]. intros _. unfold latest.
  assert (G : forall r m0, let m := fold_left (fun m x => if sltb m x then x else m) r m0 in
                           (m = m0 \/ In m r) /\ sltb m m0 = false /\ forall x, In x r -> sltb m x = false).
  { induction r0 as [|a r0 IH]; intro m0; cbn [fold_left].
    - split; [left; reflexivity|]. split; [apply sltb_irrefl | intros x []].
    - destruct (sltb m0 a) eqn:C.
      + destruct (IH a) as (H1 & H2 & H3). split; [destruct H1 as [->|H1]; [right; left; reflexivity | right; right; exact H1]|].
        split.
        * destruct (sltb (fold_left (fun m x => if sltb m x then x else m) r0 a) m0) eqn:D; [|reflexivity].
          rewrite (sltb_trans _ _ _ D C) in H2. discriminate.
        * intros x [<-|Hx]; [exact H2 | exact (H3 x Hx)].
      + destruct (IH m0) as (H1 & H2 & H3). split; [destruct H1 as [->|H1]; [left; reflexivity | right; right; exact H1]|].
        split; [exact H2|]. intros x [<-|Hx]; [|exact (H3 x Hx)].
        destruct (sltb (fold_left (fun m x => if sltb m x then x else m) r0 m0) a) eqn:D; [|reflexivity].
        destruct (sltb_trichotomy m0 a) as [T|[T|T]].
        -- destruct T as [T _]. congruence.
        -- destruct T as (_ & T & _). subst a. congruence.
        -- destruct T as (_ & _ & T). rewrite (sltb_trans _ _ _ D T) in H2. discriminate. }
  destruct (G r t) as (H1 & H2 & H3). eexists. split; [reflexivity|]. split.
  - destruct H1 as [->|H1]; [left; reflexivity | right; exact H1].
  - intros x [<-|Hx]; [exact H2 | exact (H3 x Hx)].
Qed.

Print Assumptions atomicity_invariant.
Print Assumptions recovery.
Print Assumptions cache_hit.
