(* The names the store uses, as strings relative to the store directory ('/' separator):
     resolve_store_path:  <ID>/<id>.<release>.json        (ID = HP / MAXO / MONDO, id = ID.lower())
     mkstemp(dir=<ID>, prefix=basename(final) + '.', suffix='.tmp'):  <ID>/<id>.<release>.json.<random>.tmp
   and the classification of an arbitrary name found under the store directory into the three kinds of
   path of Store.Model (cache location / temporary file / anything else).  The theorems justify the
   structured paths of the model: classification is a left inverse of both naming functions, so cache
   locations of different (type, release) never coincide and a temporary file is never a cache location. *)
From Coq Require Import String Ascii List Bool Arith Lia.
From Hpotk Require Import Base.Str Io.Model Io.Proofs Store.Model.
Import ListNotations.
Open Scope string_scope.

Definition type_id (t : otype) : string := match t with 0 => "HP" | 1 => "MAXO" | _ => "MONDO" end.
Definition lower_id (t : otype) : string := match t with 0 => "hp" | 1 => "maxo" | _ => "mondo" end.
Definition type_of_id (s : string) : option otype :=
  if seqb s "HP" then Some 0 else if seqb s "MAXO" then Some 1 else if seqb s "MONDO" then Some 2 else None.

Definition base_name (t : otype) (r : string) : string := lower_id t ++ "." ++ r ++ ".json".
Definition final_name (t : otype) (r : string) : string := type_id t ++ "/" ++ base_name t r.
Definition temp_name (t : otype) (r rnd : string) : string := type_id t ++ "/" ++ base_name t r ++ "." ++ rnd ++ ".tmp".

(* s = a ++ x  ->  a *)
Fixpoint strip_suffix (x s : string) : option string :=
  if seqb x s then Some ""
  else match s with
       | EmptyString => None
       | String c r => match strip_suffix x r with Some a => Some (String c a) | None => None end
       end.
Fixpoint strip_prefix (p s : string) : option string :=
  match p, s with
  | EmptyString, _ => Some s
  | String a p', String b s' => if Ascii.eqb a b then strip_prefix p' s' else None
  | String _ _, EmptyString => None
  end.
(* split at the first '/' *)
Fixpoint split_dir (s : string) : option (string * string) :=
  match s with
  | EmptyString => None
  | String c r => if Ascii.eqb c "/" then Some ("", r)
                  else match split_dir r with Some (d, b) => Some (String c d, b) | None => None end
  end.

Inductive pclass :=
| CFinal (t : otype) (release : string)
| CTemp (t : otype) (name : string)
| COther (t : otype) (name : string)
| CForeign.                                  (* not under a type directory *)

Definition classify (s : string) : pclass :=
  match split_dir s with
  | Some (d, b) =>
      match type_of_id d with
      | Some t =>
          if ssuffixb ".tmp" b then CTemp t b
          else match strip_prefix (lower_id t ++ ".") b with
               | Some rest => match strip_suffix ".json" rest with Some r => CFinal t r | None => COther t b end
               | None => COther t b
               end
      | None => CForeign
      end
  | None => CForeign
  end.

(* ---- lemmas ---- *)
Lemma slen_app (a b : string) : String.length (a ++ b) = String.length a + String.length b.
Proof. induction a as [|c a IH]; cbn [append String.length]; [reflexivity | rewrite IH; reflexivity]. Qed.

Lemma seqb_len_neq (x s : string) : String.length x <> String.length s -> seqb x s = false.
Proof. intro H. destruct (seqb x s) eqn:E; [|reflexivity]. apply seqb_eq in E. subst. contradiction. Qed.

Lemma strip_suffix_app x a : strip_suffix x (a ++ x) = Some a.
Proof.
  induction a as [|c a IH].
  - cbn [append]. destruct x; cbn [strip_suffix]; unfold seqb; rewrite String.eqb_refl; reflexivity.
  - cbn [append strip_suffix]. rewrite seqb_len_neq by (cbn [String.length]; rewrite slen_app; lia). rewrite IH. reflexivity.
Qed.

Lemma strip_prefix_app p s : strip_prefix p (p ++ s) = Some s.
Proof. induction p as [|c p IH]; cbn [append strip_prefix]; [destruct s; reflexivity | rewrite Ascii.eqb_refl; exact IH]. Qed.

Lemma app_tail_eq (a b x y : string) : a ++ x = b ++ y -> String.length x = String.length y -> x = y.
Proof.
  revert b. induction a as [|c a IH]; intros b E L.
  - destruct b as [|d b]; [exact E|]. cbn [append] in E. exfalso. apply (f_equal String.length) in E. cbn [String.length] in E. rewrite slen_app in E. lia.
  - destruct b as [|d b].
    + cbn [append] in E. exfalso. apply (f_equal String.length) in E. cbn [String.length] in E. rewrite slen_app in E. lia.
    + cbn [append] in E. injection E as _ E. exact (IH b E L).
Qed.

(* a name ending in ".json" does not end in ".tmp" *)
Lemma json_not_tmp a : ssuffixb ".tmp" (a ++ ".json") = false.
Proof.
  destruct (ssuffixb ".tmp" (a ++ ".json")) eqn:E; [|reflexivity]. apply ssuffixb_iff in E. destruct E as [p E].
  assert (X : (a ++ ".") ++ "json" = p ++ ".tmp") by (rewrite <- E; clear E; induction a as [|c a IH]; cbn [append]; [reflexivity | rewrite IH; reflexivity]).
  apply app_tail_eq in X; [discriminate X | reflexivity].
Qed.
Lemma ends_tmp a : ssuffixb ".tmp" (a ++ ".tmp") = true.
Proof. apply ssuffixb_iff. exists a. reflexivity. Qed.

Lemma sapp_assoc' (a b c : string) : (a ++ b) ++ c = a ++ (b ++ c).
Proof. induction a as [|x a IH]; cbn [append]; [reflexivity | rewrite IH; reflexivity]. Qed.

Lemma split_dir_id t rest : t < 3 -> split_dir (type_id t ++ "/" ++ rest) = Some (type_id t, rest).
Proof. intro H. destruct t as [|[|[|t]]]; [reflexivity | reflexivity | reflexivity | lia]. Qed.
Lemma type_of_type_id t : t < 3 -> type_of_id (type_id t) = Some t.
Proof. intro H. destruct t as [|[|[|t]]]; [reflexivity | reflexivity | reflexivity | lia]. Qed.

(* ---- classification is a left inverse of the two naming functions ---- *)
Theorem classify_final t r : t < 3 -> classify (final_name t r) = CFinal t r.
Proof.
  intro H. unfold classify, final_name. rewrite (split_dir_id t _ H), (type_of_type_id t H). unfold base_name.
  assert (E : lower_id t ++ "." ++ r ++ ".json" = (lower_id t ++ "." ++ r) ++ ".json") by (rewrite !sapp_assoc'; reflexivity).
  rewrite E, json_not_tmp, <- E.
  assert (E2 : lower_id t ++ "." ++ r ++ ".json" = (lower_id t ++ ".") ++ (r ++ ".json")) by (rewrite !sapp_assoc'; reflexivity).
  rewrite E2, strip_prefix_app, strip_suffix_app. reflexivity.
Qed.

Theorem classify_temp t r rnd : t < 3 -> classify (temp_name t r rnd) = CTemp t (base_name t r ++ "." ++ rnd ++ ".tmp").
Proof.
  intro H. unfold classify, temp_name. rewrite (split_dir_id t _ H), (type_of_type_id t H).
  assert (E : base_name t r ++ "." ++ rnd ++ ".tmp" = (base_name t r ++ "." ++ rnd) ++ ".tmp") by (rewrite !sapp_assoc'; reflexivity).
  rewrite E, ends_tmp. reflexivity.
Qed.

(* cache locations of different (type, release) pairs are different files; a temporary file is never a cache location *)
Theorem final_name_injective t r t' r' : t < 3 -> t' < 3 -> final_name t r = final_name t' r' -> t = t' /\ r = r'.
Proof.
  intros H H' E. pose proof (classify_final t r H) as C. rewrite E, (classify_final t' r' H') in C. injection C as -> ->. auto.
Qed.
Theorem temp_is_not_final t r rnd t' r' : t < 3 -> t' < 3 -> temp_name t r rnd <> final_name t' r'.
Proof.
  intros H H' E. pose proof (classify_temp t r rnd H) as C. rewrite E, (classify_final t' r' H') in C. discriminate C.
Qed.
(* temporary files of different loads differ as soon as their random parts differ (mkstemp's guarantee) *)
Theorem temp_name_injective t r rnd rnd' : temp_name t r rnd = temp_name t r rnd' -> rnd = rnd'.
Proof.
  unfold temp_name. intro E.
  assert (G : forall p a b : string, p ++ a = p ++ b -> a = b) by (induction p as [|c p IH]; intros a b X; cbn [append] in X; [exact X | injection X as X; exact (IH a b X)]).
  apply G in E. apply G in E. apply G in E. apply G in E.
  apply (f_equal (strip_suffix ".tmp")) in E. rewrite !strip_suffix_app in E. injection E as E. exact E.
Qed.

(* everything under a type directory is classified with that type; clear(type) removes the directory <ID> *)
Definition class_type (c : pclass) : option otype := match c with CFinal t _ | CTemp t _ | COther t _ => Some t | CForeign => None end.
Theorem classify_type s t : class_type (classify s) = Some t -> exists b, s = type_id t ++ "/" ++ b /\ t < 3.
Proof.
  unfold classify. destruct (split_dir s) as [[d b]|] eqn:S; [|discriminate].
  destruct (type_of_id d) as [t0|] eqn:T; [|discriminate]. intro H.
  assert (t0 = t) by (destruct (ssuffixb ".tmp" b); [injection H as H; exact H|]; destruct (strip_prefix _ b); [destruct (strip_suffix _ _)|]; injection H as H; exact H).
  subst t0. exists b.
  assert (D : d = type_id t /\ t < 3).
  { unfold type_of_id in T. destruct (seqb d "HP") eqn:E1; [apply seqb_eq in E1; injection T as <-; subst; split; [reflexivity | lia]|].
    destruct (seqb d "MAXO") eqn:E2; [apply seqb_eq in E2; injection T as <-; subst; split; [reflexivity | lia]|].
    destruct (seqb d "MONDO") eqn:E3; [apply seqb_eq in E3; injection T as <-; subst; split; [reflexivity | lia]|]. discriminate. }
  destruct D as [-> Ht]. split; [|exact Ht].
  clear T H. revert S. generalize (type_id t). clear t Ht. intro d. revert d. induction s as [|c s IH]; intros d S; cbn [split_dir] in S; [discriminate|].
  destruct (Ascii.eqb c "/") eqn:E.
  - apply Ascii.eqb_eq in E. subst c. injection S as <- <-. reflexivity.
  - destruct (split_dir s) as [[d' b']|] eqn:S'; [|discriminate]. injection S as <- <-. cbn [append]. rewrite (IH d' eq_refl). reflexivity.
Qed.

Example names :
  final_name 0 "v2023-10-09" = "HP/hp.v2023-10-09.json" /\
  temp_name 2 "v1" "abc123" = "MONDO/mondo.v1.json.abc123.tmp" /\
  classify "HP/hp.v2023-10-09.json" = CFinal 0 "v2023-10-09" /\
  classify "HP/hp.v1.json.x8.tmp" = CTemp 0 "hp.v1.json.x8.tmp" /\
  classify "MAXO/hp.v1.json" = COther 1 "hp.v1.json" /\
  classify "MAXO/maxo..json" = CFinal 1 "" /\
  classify "HP/notes.txt" = COther 0 "notes.txt" /\
  classify "hp.v1.json" = CForeign /\ classify "XX/hp.v1.json" = CForeign.
Proof. vm_compute. repeat split; reflexivity. Qed.

Print Assumptions classify_final.
Print Assumptions temp_is_not_final.
