(* C07: the remote re-publishes a tag with other content.  The model's remote is a parameter; these theorems say when
   the whole theory may be re-instantiated with ANOTHER remote: after clear() for any new remote, after clear(type) for
   a remote that differs in that type only - provided no load is in flight (a loader that already holds the old bytes
   in memory is outside this statement).  Consequence: load / clear / re-publication / load fetches, stores and loads
   the NEW bytes, and everything proved about reachable worlds holds again with the new remote. *)
From Coq Require Import String List Bool Arith Lia.
From Hpotk Require Import Base.Result Base.Str Store.Model Store.Proofs.
Import ListNotations.
Open Scope list_scope.

(* no load is in flight: every loader has returned, raised or was killed *)
Definition terminal (p : pc) : Prop := match p with PDone _ | PFailed | PDead => True | _ => False end.
Definition quiescent (w : world) : Prop := forall l, In l (w_loaders w) -> terminal (l_pc l).

Theorem inv_after_clear_all (remote remote' : otype -> string -> bytes) (w : world) :
  Inv remote w -> quiescent w -> Inv remote' (do_action remote w ClearAll).
Proof.
  intros HI HQ. constructor; cbn [do_action w_fs w_loaders].
  - intros t r b H. cbn in H. discriminate H.
  - intros l Hl Hp. apply HQ in Hl. rewrite Hp in Hl. destruct Hl.
  - exact (inv_tmp_unique _ _ HI).
Qed.

Theorem inv_after_clear_type (remote remote' : otype -> string -> bytes) (t : otype) (w : world) :
  Inv remote w -> quiescent w -> (forall t' r, t' <> t -> remote' t' r = remote t' r) ->
  Inv remote' (do_action remote w (ClearType t)).
Proof.
  intros HI HQ Hsame. constructor; cbn [do_action w_fs w_loaders].
  - intros t' r b H.
    rewrite (fget_filter (fun p => negb (Nat.eqb (path_type p) t))) in H. cbn [path_type] in H.
    destruct (Nat.eqb t' t) eqn:E; cbn [negb] in H; [discriminate H|].
    apply Nat.eqb_neq in E. rewrite (Hsame _ _ E). exact (inv_final _ _ HI _ _ _ H).
  - intros l Hl Hp. apply HQ in Hl. rewrite Hp in Hl. destruct Hl.
  - exact (inv_tmp_unique _ _ HI).
Qed.

(* load ... clear() ... the tag is re-published ... load: the remote is asked again, the NEW bytes are stored and loaded *)
Theorem republished_after_clear_all (remote remote' : otype -> string -> bytes) (w : world) (l : loader) :
  Inv remote w -> quiescent w -> l_fault l = NoFault -> ~ In (tkey l) (map tkey (w_loaders w)) ->
  let w1 := do_action remote w ClearAll in
  let i := length (w_loaders w1) in
  let w' := solo remote' (do_action remote' w1 (Spawn l)) i 8 in
  nth_error (w_loaders w') i = Some (set_pc l (PDone (remote' (l_type l) (l_release l)))) /\
  fget (w_fs w') (Final (l_type l) (l_release l)) = Some (remote' (l_type l) (l_release l)) /\
  w_fetches w' = (l_type l, l_release l) :: w_fetches w /\
  Inv remote' w'.
Proof.
  intros HI HQ HF Hfresh w1 i w'.
  pose proof (inv_after_clear_all remote remote' w HI HQ) as HI1. fold w1 in HI1.
  assert (Hfresh1 : ~ In (tkey l) (map tkey (w_loaders w1))) by exact Hfresh.
  destruct (recovery remote' w1 l HI1 HF Hfresh1) as [A [B C]]. fold i in A. fold i w' in B, C.
  split; [exact A|]. split; [exact B|]. split; [|exact C].
  unfold w', i, w1. destruct w as [fs ls fetches].
  change (do_action remote (mkWorld fs ls fetches) ClearAll) with (mkWorld [] ls fetches).
  cbn [w_loaders w_fetches].
  pose proof (solo_miss remote' [] ls fetches l eq_refl HF) as E. cbv zeta in E. rewrite E. reflexivity.
Qed.

(* ... and with clear(type) when only that type's releases changed *)
Theorem republished_after_clear_type (remote remote' : otype -> string -> bytes) (w : world) (l : loader) :
  Inv remote w -> quiescent w -> l_fault l = NoFault -> ~ In (tkey l) (map tkey (w_loaders w)) ->
  (forall t' r, t' <> l_type l -> remote' t' r = remote t' r) ->
  let w1 := do_action remote w (ClearType (l_type l)) in
  let i := length (w_loaders w1) in
  let w' := solo remote' (do_action remote' w1 (Spawn l)) i 8 in
  nth_error (w_loaders w') i = Some (set_pc l (PDone (remote' (l_type l) (l_release l)))) /\
  fget (w_fs w') (Final (l_type l) (l_release l)) = Some (remote' (l_type l) (l_release l)) /\
  w_fetches w' = (l_type l, l_release l) :: w_fetches w /\
  Inv remote' w'.
Proof.
  intros HI HQ HF Hfresh Hsame w1 i w'.
  pose proof (inv_after_clear_type remote remote' (l_type l) w HI HQ Hsame) as HI1. fold w1 in HI1.
  assert (Hfresh1 : ~ In (tkey l) (map tkey (w_loaders w1))) by exact Hfresh.
  destruct (recovery remote' w1 l HI1 HF Hfresh1) as [A [B C]]. fold i in A. fold i w' in B, C.
  split; [exact A|]. split; [exact B|]. split; [|exact C].
  unfold w', i, w1. destruct w as [fs ls fetches].
  change (do_action remote (mkWorld fs ls fetches) (ClearType (l_type l)))
    with (mkWorld (filter (fun e => negb (Nat.eqb (path_type (fst e)) (l_type l))) fs) ls fetches).
  cbn [w_loaders w_fetches].
  assert (Hnone : fget (filter (fun e => negb (Nat.eqb (path_type (fst e)) (l_type l))) fs) (Final (l_type l) (l_release l)) = None).
  { rewrite (fget_filter (fun p => negb (Nat.eqb (path_type p) (l_type l)))). cbn [path_type]. rewrite Nat.eqb_refl. reflexivity. }
  pose proof (solo_miss remote' _ ls fetches l Hnone HF) as E. cbv zeta in E. rewrite E. reflexivity.
Qed.

(* non-vacuity: a world in which a release was loaded (so a copy of the OLD bytes is cached) meets the hypotheses *)
Example republish_hypotheses_met :
  let remote : otype -> string -> bytes := fun _ _ => [1; 2; 3] in
  let l := mkLoader 0 "v1" NoFault 0 PStart in
  let w := solo remote (do_action remote (mkWorld [] [] []) (Spawn l)) 0 8 in
  quiescent w /\ fget (w_fs w) (Final 0 "v1") = Some [1; 2; 3] /\ ~ In (tkey (mkLoader 0 "v1" NoFault 1 PStart)) (map tkey (w_loaders w)).
Proof.
  cbv zeta. split; [|split].
  - intros l' Hl. vm_compute in Hl. destruct Hl as [E|[]]. subst l'. exact I.
  - vm_compute. reflexivity.
  - vm_compute. intros [E|[]]. discriminate E.
Qed.
