(* C02 - Graph construction depends only on the edge SET; the root is unique or owl:Thing.
   Statements only; proofs in Graph/*.v. *)
From Coq Require Import String List Bool Arith ZArith Permutation Relations Relation_Operators.
From Hpotk Require Import Base.Result Base.Ord TermId.Model Graph.Model Graph.Spec Graph.Main Graph.Top.
Import ListNotations.

(* the graph contains exactly the terms mentioned in the edges, each once (in TermId order), plus
   owl:Thing exactly when two or more terms have no parent *)
Theorem C02_nodes : forall (f : factory) (es : list edge) (g : graph),
  WfInput es -> create f es = Ok g ->
  NoDup (g_nodes g) /\ SSorted key_ltb (g_nodes g) /\
  forall x, In x (g_nodes g) <-> (mentions es x \/ (multi_root es /\ x = owl_thing)).
Proof. exact nodes_spec. Qed.

(* the root is the single parentless term or, when several terms are parentless, the added owl:Thing
   whose children are exactly those terms; it has no parents; every other node is its descendant *)
Theorem C02_root : forall (f : factory) (es : list edge) (g : graph),
  WfInput es -> create f es = Ok g ->
  exists root, g_root g = Ok root /\ node_of es root /\
    (((forall b, parentless es b <-> b = root) /\ ~ multi_root es) \/ (multi_root es /\ root = owl_thing)) /\
    (forall y, ~ is_a es root y) /\
    (forall x, node_of es x -> x <> root -> ancestor es x root) /\
    (multi_root es -> forall x, is_a es x root <-> parentless es x).
Proof. exact root_spec. Qed.

(* ... and the same facts as the graph itself answers them *)
Theorem C02_root_queries : forall (f : factory) (es : list edge) (g : graph),
  WfInput es -> create f es = Ok g -> forall root, g_root g = Ok root ->
  g_query g QParents (ATid root) false = Ok [] /\
  (exists l, g_query g QDescendants (ATid root) false = Ok l /\ NoDup l /\
     forall x, In x l <-> (node_of es x /\ x <> root)) /\
  (multi_root es -> exists l, g_query g QChildren (ATid root) false = Ok l /\ NoDup l /\
     forall x, In x l <-> parentless es x).
Proof. exact root_queries. Qed.

(* an input without any parentless term (the empty list, or a list in which every term has a parent,
   i.e. a cyclic one) is rejected with ValueError by every factory *)
Theorem C02_no_root_rejected : forall (f : factory) (es : list edge),
  (forall p, ~ parentless es p) -> create f es = Err ValueError.
Proof. exact create_rejects. Qed.

(* re-ordering the edges or repeating an edge - any two lists with the same edge SET - changes
   neither the node list, nor the root, nor the result of any query, predicate or membership test
   (stated across factories, so it also says that the factories agree: C03) *)
Theorem C02_edge_set_only : forall (f1 f2 : factory) (es1 es2 : list edge) (g1 g2 : graph),
  (forall e, In e es1 <-> In e es2) -> WfInput es1 -> create f1 es1 = Ok g1 -> create f2 es2 = Ok g2 ->
  g_nodes g1 = g_nodes g2 /\ g_root g1 = g_root g2 /\
  (forall k, g_contains g1 k = g_contains g2 k) /\
  (forall q a incl, res_perm (g_query g1 q a incl) (g_query g2 q a incl)) /\
  (forall q sa oa, g_pred g1 q sa oa = g_pred g2 q sa oa) /\
  (forall a, g_is_leaf g1 a = g_is_leaf g2 a).
Proof. exact same_edge_set_same_answers. Qed.

(* the second list is accepted whenever the first is *)
Theorem C02_edge_set_wf : forall (es1 es2 : list edge),
  (forall e, In e es1 <-> In e es2) -> WfInput es1 -> WfInput es2.
Proof. exact wf_ext. Qed.

(* non-vacuity: a two-root forest given shuffled and with a repeated, non-adjacent edge *)
Example C02_example :
  let k s := match from_curie s with Ok t => tkey t | Err _ => key0 end in
  let es1 := [(k "HP:3", k "HP:1"); (k "HP:4", k "HP:2"); (k "HP:4", k "HP:1")]%string in
  let es2 := [(k "HP:4", k "HP:1"); (k "HP:3", k "HP:1"); (k "HP:4", k "HP:2"); (k "HP:4", k "HP:1")]%string in
  forall f, exists g1 g2, create f es1 = Ok g1 /\ create f es2 = Ok g2 /\
    g_root g1 = Ok owl_thing /\ g_root g2 = Ok owl_thing /\ length (g_nodes g1) = 5 /\ g_nodes g1 = g_nodes g2 /\
    exists l1 l2, g_query g1 QParents (AStr "HP:4") false = Ok l1 /\ g_query g2 QParents (AStr "HP:4") false = Ok l2 /\
      length l1 = 2 /\ length l2 = 2.
Proof. intros k es1 es2 f. destruct f; vm_compute; do 2 eexists; repeat split; do 2 eexists; repeat split; reflexivity. Qed.
