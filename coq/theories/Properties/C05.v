(* C05 - Obographs loading is faithful to the document.
   Statements only; proofs in Obographs/Proofs.v.  A document is the parsed JSON (json.load is an
   oracle); `keep P n = Some (c, k)`: node n is typed CLASS, its id is an OBO PURL whose CURIE c has a
   prefix in P, and k is its term id; `make_term full k n` builds the (minimal or full) term from the
   node alone; the graph is built by a C01/C02 factory from the extracted edges, the ontology is the
   C06 container.  Scope: well-formed documents (ASCII ids, alternate ids / xrefs that are CURIEs). *)
From Coq Require Import String Ascii List Bool Arith ZArith Permutation.
From Hpotk Require Import Base.Result Base.Str TermId.Model Graph.Model Ontology.Model Obographs.Model Obographs.Proofs Obographs.Version Obographs.Purl.
Import ListNotations.

(* the current terms are exactly the non-deprecated CLASS nodes with an OBO PURL identifier in a
   requested prefix, each carrying the fields stated in the document *)
Theorem C05_current_terms : forall (full : bool) (f : factory) (P : list string) (dc : doc) (l : loaded),
  load full f P dc = Ok l ->
  forall t, In t (terms_of fullx (ontology_of l)) <->
    exists c k n, In n (d_nodes dc) /\ keep P n = Some (c, k) /\ is_deprecated (n_meta n) = false /\ make_term full k n = Ok t.
Proof. exact current_terms_spec. Qed.

Theorem C05_retained_node : forall (P : list string) (n : jnode) (c : string) (k : key), keep P n = Some (c, k) ->
  n_type n = TClass /\ purl_curie (n_id n) = Some c /\
  exists t, from_curie c = Ok t /\ k = tkey t /\ existsb (seqb (prefix t)) P = true.
Proof. exact keep_key. Qed.

Theorem C05_term_fields : forall (full : bool) (k : key) (n : jnode) (t : term fullx), make_term full k n = Ok t ->
  t_id fullx t = k /\ t_name fullx t = n_lbl n /\ t_obsolete fullx t = is_deprecated (n_meta n) /\ alt_ids (n_meta n) = Ok (t_alts fullx t).
Proof. exact make_term_fields. Qed.

(* the hierarchy contains exactly the is_a edges between CLASS nodes of the requested prefixes
   (deprecated or not); every other predicate, dangling edge and foreign prefix is ignored *)
Theorem C05_edges : forall (full : bool) (f : factory) (P : list string) (dc : doc) (l : loaded),
  load full f P dc = Ok l ->
  forall s o, In (s, o) (ld_edges l) <->
    exists e cs co, In e (d_edges dc) /\ e_pred e = "is_a"%string /\
      purl_curie (e_sub e) = Some cs /\ purl_curie (e_obj e) = Some co /\
      In (cs, s) (map fst (kept P (d_nodes dc))) /\ In (co, o) (map fst (kept P (d_nodes dc))).
Proof. exact edges_spec. Qed.

(* every other node is ignored *)
Theorem C05_other_nodes_ignored : forall (full : bool) (P : list string) (nodes : list jnode),
  extract_terms full P nodes = extract_terms full P (filter (fun n => match keep P n with Some _ => true | None => false end) nodes).
Proof. exact extract_terms_ignores. Qed.

(* the minimal and the full loader agree on everything they share *)
Theorem C05_minimal_and_full_agree : forall (P : list string) (nodes : list jnode) d ts d' ts',
  extract_terms false P nodes = Ok (d, ts) -> extract_terms true P nodes = Ok (d', ts') ->
  d = d' /\ Forall2 (fun t t' => t_id fullx t = t_id fullx t' /\ t_name fullx t = t_name fullx t' /\
                                 t_alts fullx t = t_alts fullx t' /\ t_obsolete fullx t = t_obsolete fullx t') ts ts'.
Proof. exact min_full_agree. Qed.

(* the order of nodes and edges in the document does not matter: same current terms, same edge set
   (hence, by C02_edge_set_only, the same graph answers) *)
Theorem C05_order_irrelevant : forall (full : bool) (f : factory) (P : list string) (dc dc' : doc) (l l' : loaded),
  Permutation (d_nodes dc) (d_nodes dc') -> Permutation (d_edges dc) (d_edges dc') ->
  load full f P dc = Ok l -> load full f P dc' = Ok l' ->
  (forall t, In t (terms_of fullx (ontology_of l)) <-> In t (terms_of fullx (ontology_of l'))) /\
  (forall e, In e (ld_edges l) <-> In e (ld_edges l')).
Proof. exact order_irrelevant. Qed.

(* the version: the loaded ontology carries version_of(meta); for a 'version' entry that is the date
   dddd-dd-dd of the LAST "/dddd-dd-dd/" in the string (whatever surrounds it), None when there is none;
   otherwise the value of the FIRST basic property value with a pred ending in "#versionInfo" and a val;
   None when the document has neither *)
Theorem C05_version_loaded : forall (full : bool) (f : factory) (P : list string) (dc : doc) (l : loaded),
  load full f P dc = Ok l -> ld_version l = version_of (d_meta dc).
Proof. exact load_version. Qed.

Theorem C05_version_from_iri : forall (m : gmeta) (v : string), gm_version m = Some v ->
  forall o, version_of m = o <->
    match o with
    | Some d => is_dateb d = true /\ exists pre post, v = (pre ++ "/" ++ d ++ "/" ++ post)%string /\
                  (forall pre' d' post', v = (pre' ++ "/" ++ d' ++ "/" ++ post')%string -> is_dateb d' = true -> String.length pre' <= String.length pre)
    | None => forall pre d post, v = (pre ++ "/" ++ d ++ "/" ++ post)%string -> is_dateb d = false
    end.
Proof. exact version_spec. Qed.

Theorem C05_version_from_property_values : forall (m : gmeta) (l : list bpv), gm_version m = None -> gm_bpvs m = Some l ->
  match version_of m with
  | Some v => exists l1 p l2, l = (l1 ++ (Some p, Some v) :: l2)%list /\ Io.Model.ssuffixb "#versionInfo" p = true /\
                              forall b, In b l1 -> is_version_bpv b = false
  | None => forall b, In b l -> is_version_bpv b = false
  end.
Proof. exact version_bpv_spec. Qed.

Theorem C05_version_absent : forall (m : gmeta), gm_version m = None -> gm_bpvs m = None -> version_of m = None.
Proof. exact version_absent. Qed.

(* which identifiers count as OBO PURLs, and what their CURIE is (PURL_PATTERN.match): the text starts with the OBO PURL
   prefix, the CURIE is the maximal run of word characters behind it, and that run has an underscore with at least one
   character on each side; whatever follows the run is ignored, an identifier that merely CONTAINS or ENDS with such
   text is not an OBO PURL *)
Theorem C05_curie_of_purl : forall (p c : string),
  purl_curie p = Some c <->
  exists rest, p = (purl_prefix ++ c ++ rest)%string /\ all_word c = true /\ starts_nonword rest = true /\
               exists a b, c = (a ++ String "_"%char b)%string /\ a <> EmptyString /\ b <> EmptyString.
Proof. exact purl_curie_spec. Qed.
