(* C14 - Unknown nodes and bad indices are rejected, never silently answered.
   Statements only; proofs in Graph/*.v. *)
From Coq Require Import String List Bool Arith ZArith Permutation Relations Relation_Operators.
From Hpotk Require Import Base.Result Base.Ord TermId.Model Graph.Model Graph.Spec Graph.Main Graph.Top.
Import ListNotations.

(* a term id that is not a node: traversals and the leaf test raise ValueError, the predicates raise
   ValueError for an unknown object and return False for an unknown subject, membership is False *)
Theorem C14_unknown_node : forall (f : factory) (es : list edge) (g : graph),
  WfInput es -> create f es = Ok g ->
  forall (a : arg) (x : key), denotes a x -> ~ node_of es x ->
  (forall q incl, g_query g q a incl = Err ValueError) /\
  g_is_leaf g a = Err ValueError /\
  g_contains g x = false /\
  (forall q sa, g_pred g q sa a = Err ValueError \/ malformed sa) /\
  (forall q oa o, denotes oa o -> node_of es o -> g_pred g q a oa = Ok false).
Proof.
  exact (fun f es g W C a x Hd Hn =>
    conj (fun q incl => proj2 (query_spec f es g W C q a x incl Hd) Hn)
   (conj (proj2 (leaf_spec f es g W C a x Hd) Hn)
   (conj (match g_contains g x as b return (b = true <-> node_of es x) -> b = false with
          | true => fun I => False_ind _ (Hn (proj1 I eq_refl)) | false => fun _ => eq_refl end (contains_spec f es g W C x))
   (conj (fun q sa => match ApiM.arg_cases sa with
                      | or_introl M => or_intror M
                      | or_intror (ex_intro _ s Hs) => or_introl (proj2 (proj2 (pred_spec f es g W C q sa a s x Hs Hd)) Hn)
                      end)
         (fun q oa o Ho Hno => proj1 (proj2 (pred_spec f es g W C q a oa x o Hd Ho)) Hno Hn))))).
Qed.

(* arguments that are neither a CURIE string, a TermId nor an identified object, and strings that
   are not CURIEs, raise ValueError in every method *)
Theorem C14_bad_argument : forall (f : factory) (es : list edge) (g : graph),
  WfInput es -> create f es = Ok g ->
  forall a, malformed a ->
  (forall q incl, g_query g q a incl = Err ValueError) /\
  g_is_leaf g a = Err ValueError /\
  (forall q b, g_pred g q a b = Err ValueError /\ g_pred g q b a = Err ValueError).
Proof.
  exact (fun f es g W C a M =>
    conj (fun q incl => malformed_query f es g W C q a incl M)
   (conj (malformed_leaf f es g W C a M)
         (fun q b => conj (malformed_pred f es g W C q a b (or_introl M)) (malformed_pred f es g W C q b a (or_intror M))))).
Qed.

(* in the index API every index outside 0..n-1, negative ones included, raises ValueError in the
   traversals and in idx_to_node; an unknown node maps to no index *)
Theorem C14_index_out_of_range : forall (es : list edge) (ig : igraph),
  WfInput es -> idx_factory es = Ok ig ->
  let n := length (ig_nodes ig) in
  (forall q (i : Z), ~ (0 <= i < Z.of_nat n)%Z -> idx_query ig q i = Err ValueError) /\
  (forall z, ~ (0 <= z < Z.of_nat n)%Z -> ig_idx_to_node ig z = Err ValueError) /\
  (forall x, ~ node_of es x -> ig_node_to_idx ig x = None).
Proof.
  exact (fun es ig W C =>
    conj (fun q i => proj2 (idx_query_spec es ig W C q i))
   (conj (proj1 (proj2 (proj2 (proj2 (idx_bijection es ig W C)))))
         (fun x => proj2 (proj1 (proj2 (idx_bijection es ig W C)) x)))).
Qed.

(* is_*_of_idx: an out-of-range index whose row is read (the object for parent/ancestor, the subject
   for child/descendant) raises ValueError; an out-of-range other index is never answered True *)
Theorem C14_index_predicates : forall (es : list edge) (ig : igraph),
  WfInput es -> idx_factory es = Ok ig ->
  let n := length (ig_nodes ig) in let node i := nth i (ig_nodes ig) key0 in
  forall (s o : Z),
  let walked q := match q with QParents | QAncestors => o | _ => s end in
  let other q := match q with QParents | QAncestors => s | _ => o end in
  let up q := match q with QParents | QChildren => QParents | _ => QAncestors end in
  forall q,
  ((0 <= walked q < Z.of_nat n)%Z ->
     exists b, idx_pred ig q s o = Ok b /\
       (b = true <-> ((0 <= other q < Z.of_nat n)%Z /\ rel es (up q) (node (Z.to_nat (walked q))) (node (Z.to_nat (other q)))))) /\
  (~ (0 <= walked q < Z.of_nat n)%Z -> idx_pred ig q s o = Err ValueError).
Proof. exact idx_pred_spec_es. Qed.
