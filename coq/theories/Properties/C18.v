(* C18 - Module-level traversal helpers agree with the graph they wrap.
   Statements only; proofs in Helpers/Proofs.v.  `carries w g`: w is the graph g itself or a
   graph-aware object (an ontology) whose graph is g. *)
From Coq Require Import String List Bool Arith ZArith Permutation Relations Relation_Operators.
From Hpotk Require Import Base.Result Base.Ord TermId.Model Graph.Model Graph.Spec Graph.Main Graph.Top
  Helpers.Model Helpers.Proofs.
Import ListNotations.

(* get_parents / get_children / get_ancestors / get_descendants (module level): exactly the frozen
   set of the corresponding graph query, plus the source when asked - for a bare graph and for
   anything that carries one, for CURIE and TermId sources *)
Theorem C18_helpers_agree_with_graph : forall (f : factory) (es : list edge) (g : graph),
  WfInput es -> create f es = Ok g ->
  forall (q : query) (w : gwrap) (a : harg) (x : key) (incl : bool), carries w g -> hdenotes a x ->
  (node_of es x ->
     exists l, helper q w a incl = Ok l /\ NoDup l /\
       (forall y, In y l <-> (rel es q x y \/ (incl = true /\ y = x))) /\
       (forall lq, g_query g q (ATid x) incl = Ok lq -> forall y, In y l <-> In y lq)) /\
  (~ node_of es x -> helper q w a incl = Err ValueError).
Proof. exact helper_spec. Qed.

Theorem C18_helpers_reject : forall (f : factory) (es : list edge) (g : graph),
  WfInput es -> create f es = Ok g ->
  forall (q : query) (w : gwrap) (a : harg) (incl : bool),
  (carries w g -> hmalformed a -> helper q w a incl = Err ValueError) /\
  helper q GOtherG a incl = Err ValueError.
Proof. exact (fun f es g W C q w a incl => conj (helper_malformed g q w a incl) (helper_not_graph q a incl)). Qed.

(* a path exists from a to b exactly when b is a strict ancestor of a *)
Theorem C18_exists_path : forall (f : factory) (es : list edge) (g : graph),
  WfInput es -> create f es = Ok g ->
  forall (w : gwrap) (a b : harg) (x y : key), carries w g -> hdenotes a x -> hdenotes b y ->
  (node_of es x -> exists r, exists_path w a b = Ok r /\ (r = true <-> ancestor es x y)) /\
  (~ node_of es x -> x <> y -> exists_path w a b = Err ValueError) /\
  (x = y -> exists_path w a b = Ok false).
Proof. exact exists_path_spec. Qed.

(* augmenting a single term = the helper on that term (its closure, + itself only when asked) *)
Theorem C18_augment_single : forall (g : graph) (q : query) (w : gwrap) (x : key) (incl : bool),
  carries w g -> augment q w (SOne x) incl = helper q w (HTid x) incl.
Proof. exact augment_one_spec. Qed.

(* augmenting a collection (empty, singleton, overlapping closures): the union of the closures of
   the given terms, including the terms themselves only when asked *)
Theorem C18_augment_collection : forall (f : factory) (es : list edge) (g : graph),
  WfInput es -> create f es = Ok g ->
  forall (q : query) (w : gwrap) (srcs : list harg) (xs : list key) (incl : bool), carries w g ->
  Forall2 hdenotes srcs xs ->
  ((forall x, In x xs -> node_of es x) ->
     exists l, augment q w (SMany srcs) incl = Ok l /\ NoDup l /\
       forall y, In y l <-> exists x, In x xs /\ (rel es q x y \/ (incl = true /\ y = x))) /\
  ((exists x, In x xs /\ ~ node_of es x) -> augment q w (SMany srcs) incl = Err ValueError).
Proof. exact augment_many_spec. Qed.

Theorem C18_augment_rejects : forall (q : query) (w : gwrap) (s : asrc) (incl : bool),
  augment q GOtherG s incl = Err ValueError /\ augment q w SOtherS incl = Err ValueError.
Proof. exact (fun q w s incl => conj (augment_rejects q s incl) (augment_bad_source q w incl)). Qed.
