(* C09 - Information content equals -log of the propagated annotation frequency.
   Statements only; proofs in Ic/Proofs.v (integer counts) and Ic/Real.v (the logarithm, over R).
   The implementation's IC of a term t is  fl(-log_base(c(t) / c(root)))  where c is the integer
   count function the model computes; the binary64 evaluation of log and / is NOT modelled (the
   correspondence recomputes it from the model's counts). *)
From Coq Require Import String List Bool Arith ZArith Permutation Reals Relations Relation_Operators.
From Hpotk Require Import Base.Result TermId.Model Graph.Model Graph.Spec Graph.Main Helpers.Model Ic.Model Ic.Proofs Ic.Real.
Import ListNotations.

(* c(t) counts the present annotations to t or to any of its descendants - restricted to the module
   when a module is given (m = Some ids) - one increment per annotation however many paths lead to t *)
Theorem C09_count_is_propagated_frequency : forall (f : factory) (es : list edge) (g : graph),
  WfInput es -> create f es = Ok g ->
  forall (m : option (list key)) (items : corpus), all_nodes es items ->
  exists hs, hits g m items = Ok hs /\
    (forall t, kcount t hs = length (filter (counts_for g m t) (concat items))) /\
    (forall t a, In a (concat items) ->
       (counts_for g m t a = true <->
        (snd a = true /\ in_module m (fst a) = true /\ in_module m t = true /\ (t = fst a \/ ancestor es (fst a) t)))).
Proof.
  exact (fun f es g W C m items H =>
    match hits_count f es g W C m items H with
    | ex_intro _ hs (conj E Hc) => ex_intro _ hs (conj E (conj Hc (fun t a Ha => counts_for_iff f es g W C m t a (H a Ha))))
    end).
Qed.

(* counts never increase from a term to its descendants (so IC never decreases) *)
Theorem C09_count_monotone : forall (f : factory) (es : list edge) (g : graph),
  WfInput es -> create f es = Ok g ->
  forall (m : option (list key)) (items : corpus) (hs : list key) (d t : key),
  all_nodes es items -> hits g m items = Ok hs -> ancestor es d t -> in_module m t = true -> (kcount d hs <= kcount t hs)%nat.
Proof. exact count_mono. Qed.

(* the root is counted once for every present annotation, so no count exceeds the root's: c(t) <= c(root) *)
Theorem C09_root_count_is_maximal : forall (f : factory) (es : list edge) (g : graph),
  WfInput es -> create f es = Ok g ->
  forall (m : option (list key)) (items : corpus) (hs : list key) (root t : key),
  m = None -> all_nodes es items -> hits g m items = Ok hs -> g_root g = Ok root -> (kcount t hs <= kcount root hs)%nat.
Proof. exact count_root_max. Qed.

(* excluded annotations and the order of items do not matter *)
Theorem C09_excluded_and_order_irrelevant : forall (f : factory) (es : list edge) (g : graph),
  WfInput es -> create f es = Ok g ->
  forall (m : option (list key)) (items items' : corpus) (hs hs' : list key), all_nodes es items ->
  (hits g m items = Ok hs -> hits g m (map (filter (fun a => snd a)) items) = Ok hs' -> forall t, kcount t hs = kcount t hs') /\
  (Permutation items items' -> hits g m items = Ok hs -> hits g m items' = Ok hs' -> forall t, kcount t hs = kcount t hs').
Proof.
  exact (fun f es g W C m items items' hs hs' H =>
    conj (count_present_only f es g W C m items hs hs' H) (count_perm f es g W C m items items' hs hs' H)).
Qed.

(* the returned mapping: never-annotated terms are absent unless pseudocounts are on, in which case
   every term of the corpus (all current terms / the module) is present with count max(c, 1) *)
Theorem C09_result_keys : forall (pseudo : bool) (corpus_ids hs : list key),
  let base := map (fun t => (t, kcount t hs)) (dedup hs) in
  let final := with_pseudo pseudo corpus_ids base in
  NoDup (map fst final) /\
  (forall t, In t (map fst final) <-> ((0 < kcount t hs)%nat \/ (pseudo = true /\ In t corpus_ids))) /\
  (forall t, lookup final t = if Nat.ltb 0 (kcount t hs) then kcount t hs else if pseudo && kmem t corpus_ids then 1%nat else 0%nat).
Proof. exact result_keys. Qed.

(* over the reals, for base > 1: the root has IC 0, no IC is negative, smaller counts have larger IC *)
Theorem C09_ic_real : forall (c1 c2 pop base : R), (0 < c1 <= c2)%R -> (c2 <= pop)%R -> (1 < base)%R ->
  icR pop pop base = 0%R /\ (0 <= icR c2 pop base)%R /\ (icR c2 pop base <= icR c1 pop base)%R.
Proof.
  exact (fun c1 c2 pop base H12 H2p Hb =>
    conj (ic_root_zero pop base (Rlt_le_trans _ _ _ (Rlt_le_trans _ _ _ (proj1 H12) (proj2 H12)) H2p))
   (conj (ic_nonneg c2 pop base (conj (Rlt_le_trans _ _ _ (proj1 H12) (proj2 H12)) H2p) Hb)
         (ic_mono c1 c2 pop base H12 (Rlt_le_trans _ _ _ (Rlt_le_trans _ _ _ (proj1 H12) (proj2 H12)) H2p) Hb))).
Qed.
