(* C08 - HPOA loading aggregates lines into per-disease, per-phenotype frequencies.
   Statements only; proofs in Hpoa/Proofs.v, Hpoa/Range.v.  The model works on parsed lines (the tab
   and ';' splitting is exercised by the correspondence on real files); cohort = cohort_size,
   salvage = salvage_negated_frequencies; pf l = the (numerator, denominator) _parse_frequency gives
   for line l. *)
From Coq Require Import String Ascii List Bool Arith ZArith Permutation.
From Coq Require Import PrimFloat.
From Hpotk Require Import Base.Result Base.Str TermId.Model Io.Model Hpoa.Float Hpoa.Model Hpoa.Proofs Hpoa.Range Hpoa.Text Hpoa.TextProofs.
From Hpotk Require Import Hpoa.VersionLine Hpoa.FreqSpec.
Import ListNotations.

(* exactly one disease per distinct database id; per disease exactly one annotation per distinct
   phenotype (aspect P) term, whose numerator and denominator are the SUMS of the per-line counts,
   with references and modifiers united; inheritance (aspect I) terms become the modes of inheritance
   (as term ids); C and M lines are ignored; every annotation has 0 <= numerator and 0 < denominator *)
Theorem C08_aggregation : forall (cohort : Z) (salvage : bool) (lines : list line) (ds : list disease),
  load cohort salvage lines = Ok ds ->
  map d_id ds = sdedup (map l_disease lines) /\ NoDup (map d_id ds) /\
  forall d, In d ds ->
    let ls := lines_of lines (d_id d) in
    ls <> [] /\
    map ann_pheno (d_annotations d) = kdedup (map l_pheno (pheno_lines ls)) /\ NoDup (map ann_pheno (d_annotations d)) /\
    d_moi d = kdedup (map l_pheno (filter (fun l => is_aspect (l_aspect l) AI) ls)) /\
    forall a, In a (d_annotations d) ->
      let g := lines_for ls (ann_pheno a) in
      g <> [] /\
      exists rs, Forall2 (fun l r => pf cohort salvage l = Ok r) g rs /\
        a = (ann_pheno a, zsum (map fst rs), zsum (map snd rs), rdedup (flat_map l_refs g), kdedup (flat_map l_mods g)) /\
        (0 <= zsum (map fst rs))%Z /\ (0 < zsum (map snd rs))%Z.
Proof. exact load_spec. Qed.

(* the result does not depend on the order of the data lines: the disease ids, the lines folded into
   each (disease, phenotype) annotation and the inheritance lines are the same up to rearrangement,
   and sums are invariant under rearrangement *)
Theorem C08_line_order_irrelevant : forall (lines lines' : list line), Permutation lines lines' ->
  (forall id, In id (sdedup (map l_disease lines)) <-> In id (sdedup (map l_disease lines'))) /\
  (forall id p, Permutation (lines_for (lines_of lines id) p) (lines_for (lines_of lines' id) p)) /\
  (forall id, Permutation (filter (fun l => is_aspect (l_aspect l) AI) (lines_of lines id))
                          (filter (fun l => is_aspect (l_aspect l) AI) (lines_of lines' id))) /\
  (forall l l' : list Z, Permutation l l' -> zsum l = zsum l').
Proof.
  exact (fun lines lines' P => match line_order_irrelevant lines lines' P with
                               | conj A (conj B C) => conj A (conj B (conj C zsum_perm)) end).
Qed.

(* a frequency written as one of the six HPO frequency terms: for EVERY cohort size 1..100000 the
   numerator round(frequency * cohort) is in 0..cohort and inside the term's defined range scaled to
   the cohort, up to rounding to an integer (floor(lower*c) <= n <= ceil(upper*c)) *)
Theorem C08_frequency_term_in_range : forall (c : Z) (i : nat) (b : float * float),
  (1 <= c <= 100000)%Z -> nth_error freq_bounds i = Some b ->
  exists n lo hi, term_numerator b c = Some n /\ nth_error freq_pct i = Some (lo, hi) /\
    (0 <= n <= c)%Z /\ (lo * c / 100 <= n <= (hi * c + 99) / 100)%Z.
Proof. exact freq_term_range. Qed.

(* a frequency written as a percentage k/2 % (0, 0.5, ..., 100): for every cohort size 1..2000 the
   numerator is in 0..cohort and within 1/2 of percentage * cohort / 100 *)
Theorem C08_percentage_in_range : forall (c k : Z), (1 <= c <= 2000)%Z -> (0 <= k <= 200)%Z ->
  exists n, percent_numerator (of_Z_f k / 2)%float c = Some n /\ (0 <= n <= c)%Z /\ (Z.abs (200 * n - k * c) <= 100)%Z.
Proof. exact percent_range. Qed.

(* the representative frequency of each term lies between its bounds *)
Theorem C08_term_frequency_within_bounds :
  forallb (fun b => (fst b <=? term_frequency b)%float && (term_frequency b <=? snd b)%float) freq_bounds = true.
Proof. exact term_frequency_within_bounds. Qed.

(* text level: loading the lines of a file is scanning the header (either style), parsing every data
   line (strip, TAB split, NOT, ';' lists, evidence, aspect, frequency classification) and then the
   line-level loader the theorems above speak about; the version is the last #version / #date line
   seen before the column header *)
Theorem C08_text_level_factors : forall (cohort : Z) (salvage : bool) (cvt : list (string * float)) (lines : list string)
  (ds : list disease) (v : option string),
  load_text cohort salvage cvt lines = Ok (ds, v) ->
  exists parsed,
    Forall2 (fun ln l => parse_hpoa_line cvt ln = Ok l) (snd (scan true None lines)) parsed /\
    load cohort salvage parsed = Ok ds /\ v = fst (scan true None lines).
Proof. exact load_text_factors. Qed.

Theorem C08_header_detection : forall (version : option string) (ln : string) (r : list string),
  (sprefixb "database_id" ln = true -> sprefixb "#" ln = false -> scan true version (ln :: r) = (version, r)) /\
  (sprefixb "#DatabaseID" ln = true -> scan true version (ln :: r) = (version, r)) /\
  scan false version r = (version, r).
Proof. exact (fun version ln r => conj (scan_header_line version ln r) (conj (scan_old_header_line version ln r) (scan_after_header version r))). Qed.

(* non-vacuity: two lines of one phenotype fold to 5/13; a negated line; an inheritance line *)
Example C08_example :
  let hp i : key := ("HP"%string, i) in
  let ln neg p f a := mkLine "OMIM:1" "d" neg (hp p) [] f [] a in
  rmap (map (fun d => (d_annotations d, d_moi d)))
       (load 50 false [ln false "1" (FRatio 2 5) AP; ln false "6" FEmpty AI; ln false "1" (FRatio 3 8) AP; ln true "2" FEmpty AP; ln false "3" (FTerm 5) AP]%string)
  = Ok [([(hp "1", 5, 13, [], []); (hp "2", 0, 1, [], []); (hp "3", 50, 50, [], [])]%string%Z, [hp "6"%string])].
Proof. vm_compute. reflexivity. Qed.

(* the version of an HPOA file: a header line "#date: V" or "#version: V" (with or without its line feed) where V is a
   non-empty text of word characters and dashes gives V - the whole of it; any other header line gives nothing *)
Theorem C08_version_header : forall (ln v : String.string),
  version_of_line ln = Some v <->
  (v <> EmptyString /\ all_word_dash v = true /\ (chomp ln = ("#date: " ++ v)%string \/ chomp ln = ("#version: " ++ v)%string)).
Proof. exact version_of_line_spec. Qed.

(* the frequency column as text: an HPO term is "HP:" + seven digits; a ratio is digits "/" digits and denotes those two
   numbers; a percentage is digits, optionally "." and more digits, then "%", and its literal (without the sign) is what
   float() converts; the forms exclude one another, so the order in which the loader tries them does not matter *)
Theorem C08_frequency_forms : forall (s : String.string),
  (is_hpo_id s = true <-> exists d, s = ("HP:" ++ d)%string /\ String.length d = 7 /\ all_digits d = true) /\
  (forall n m, ratio_of s = Some (n, m) <->
     exists a b, s = (a ++ String "/"%char b)%string /\ digits a = true /\ digits b = true /\ n = int_of a /\ m = int_of b) /\
  (forall v, percent_literal s = Some v <->
     (s = (v ++ "%")%string /\ (digits v = true \/ exists a b, v = (a ++ String "."%char b)%string /\ digits a = true /\ all_digits b = true))) /\
  (is_hpo_id s = true -> ratio_of s = None /\ percent_literal s = None) /\
  (forall n m, ratio_of s = Some (n, m) -> percent_literal s = None).
Proof.
  exact (fun s => conj (is_hpo_id_spec s) (conj (ratio_of_spec s) (conj (percent_literal_spec s)
                  (conj (proj1 (frequency_forms_disjoint s)) (proj2 (frequency_forms_disjoint s)))))).
Qed.
