(* C17 - Sparse CSR matrix and its builder behave exactly like the dense matrix.
   Statements only; proofs in Csr/Proofs.v.  V is any value type (dtype) with a zero. *)
From Coq Require Import List Bool Arith ZArith.
From Hpotk Require Import Base.Result Csr.Model Csr.Proofs.
Import ListNotations.

(* EVERY history of assignments (any order, repeats, overwrites, out-of-range ones that raise and
   change nothing): the builder stays a valid CSR of the same shape and denotes the dense matrix in
   which later assignments overwrite earlier ones and unset cells are the dtype's zero *)
Theorem C17_builder_refines_dense : forall (V : Type) (zero : V) (R C : nat) (ops : list (assign V)),
  let b := run R C ops in
  Inv V b /\ nrows b = R /\ ncols b = C /\
  (forall r c, r < R -> c < C -> den V zero b r c = dense_of zero R C ops r c) /\
  ((forall r c v, In (r, c, v) ops -> v <> zero) -> NZ V zero b).
Proof. exact builder_refines_dense. Qed.

(* `den` is the unique dense reading of a valid CSR triple (sorted or not) *)
Theorem C17_den_unique : forall (V : Type) (zero : V) (m : csr V) (r c : nat),
  WF V m -> r < nrows m ->
  (forall k v, nth_error (row_cols m r) k = Some c -> nth_error (row_vals m r) k = Some v -> den V zero m r c = v) /\
  (~ In c (row_cols m r) -> den V zero m r c = zero).
Proof. exact (fun V zero m r c Hw Hr => conj (fun k v => den_stored V zero m r c k v Hw Hr) (den_absent V zero m r c)). Qed.

(* reading a valid CSR matrix: cell by cell, row by row and value -> columns, all equal the dense
   matrix (stored values, the default and absent values alike; each column listed once) *)
Theorem C17_reads_are_dense : forall (V : Type) (veqb : V -> V -> bool) (zero : V),
  (forall a b, veqb a b = true <-> a = b) ->
  forall (m : csr V) (r : Z), WF V m -> (0 <= r < Z.of_nat (nrows m))%Z ->
  (forall c, (0 <= c < Z.of_nat (ncols m))%Z ->
     getitem_cell zero m r c = Ok (den V zero m (Z.to_nat r) (Z.to_nat c))) /\
  getitem_row zero m r = Ok (map (den V zero m (Z.to_nat r)) (seq 0 (ncols m))) /\
  (NZ V zero m -> forall q, exists l,
     col_indices_of_val veqb zero m r q = Ok l /\ NoDup l /\
     forall c, In c l <-> (c < ncols m /\ den V zero m (Z.to_nat r) c = q)).
Proof.
  exact (fun V veqb zero Hv m r Hw Hr =>
    conj (fun c Hc => getitem_cell_spec V zero m r c Hr Hc)
   (conj (getitem_row_spec V zero m r Hw Hr)
         (fun Hnz q => col_indices_spec V veqb zero Hv m r q Hw Hnz Hr))).
Qed.

(* rows or columns outside the shape (negative ones included) raise; nothing wraps around, and an
   out-of-shape assignment raises too *)
Theorem C17_out_of_shape : forall (V : Type) (veqb : V -> V -> bool) (zero : V) (m : csr V) (r c : Z) (q v : V),
  (~ ((0 <= r < Z.of_nat (nrows m))%Z /\ (0 <= c < Z.of_nat (ncols m))%Z) ->
     getitem_cell zero m r c = Err IndexError /\ setitem m r c v = Err IndexError) /\
  (~ (0 <= r < Z.of_nat (nrows m))%Z ->
     getitem_row zero m r = Err (if (r <? 0)%Z then ValueError else IndexError) /\
     col_indices_of_val veqb zero m r q = Err IndexError).
Proof.
  exact (fun V veqb zero m r c q v =>
    conj (fun H => conj (getitem_cell_oob V zero m r c H) (setitem_oob V m r c v H))
         (fun H => conj (getitem_row_oob V zero m r H) (col_indices_oob V veqb zero m r q H))).
Qed.

(* one in-bounds assignment updates exactly that cell of the denoted dense matrix *)
Theorem C17_setitem_spec : forall (V : Type) (zero : V) (b : csr V) (r c : Z) (v : V),
  Inv V b -> (0 <= r < Z.of_nat (nrows b))%Z -> (0 <= c < Z.of_nat (ncols b))%Z ->
  exists b', setitem b r c v = Ok b' /\ Inv V b' /\ nrows b' = nrows b /\ ncols b' = ncols b /\
    (forall r' c', r' < nrows b -> c' < ncols b ->
        den V zero b' r' c' = dense_upd (den V zero b) (Z.to_nat r) (Z.to_nat c) v r' c') /\
    (NZ V zero b -> v <> zero -> NZ V zero b').
Proof. exact setitem_spec. Qed.

(* non-vacuity: a 3x4 history with descending-column inserts, an overwrite and an out-of-range
   assignment is in the scope of the theorems and reads back as expected *)
Example C17_example :
  let ops := [(1, 3, 5); (1, 1, 6); (1, 0, 7); (0, 2, 8); (1, 1, 9); (3, 0, 4); (2, (-1), 4)]%Z in
  let b := run 3 4 ops in
  (indptr b, cols b, vals b) = ([0; 1; 4; 4], [2; 0; 1; 3], [8; 7; 9; 5]%Z) /\
  getitem_row 0%Z b 1 = Ok [7; 9; 0; 5]%Z /\
  col_indices_of_val Z.eqb 0%Z b 1 0%Z = Ok [2] /\
  getitem_cell 0%Z b (-1) 0 = Err IndexError.
Proof. vm_compute. repeat split. Qed.
