(* C10 - Precomputed Resnik similarity is the IC of the most informative common ancestor.
   Statements only; proofs in Resnik/Proofs.v.  g is built by any factory from an acyclic edge list
   es whose terms are parsed term ids (prefix without ':'); ic is ANY information-content map
   (monotone or not, entries missing); PA = HP:0000118.
   mica_value es ic a b m :  m = max(0, max{ ic?(c) | c a common ancestor of a and b, each term
   counting as its own ancestor }), ic?(c) = 0 for a missing entry. *)
From Coq Require Import String List Bool Arith ZArith Relations Relation_Operators.
From Hpotk Require Import Base.Result Base.Str TermId.Model Graph.Model Graph.Spec Graph.Main Sim.Model Sim.Proofs
  Validate.Model Resnik.Model Resnik.Proofs.
Import ListNotations.

Theorem C10_precomputed_resnik : forall (f : factory) (es : list edge) (g : graph),
  WfInput es -> create f es = Ok g ->
  forall (ic : icmap), (forall x, node_of es x -> smem colon (fst x) = false) -> node_of es PA ->
  exists s, precalculate g ic = Ok s /\
    (forall a b, node_of es a -> node_of es b ->
       exists m, mica_value es ic a b m /\
         let v := get_similarity Z 0%Z s (key_value a) (key_value b) in
         (* symmetric, non-negative, never above the maximum, 0 or the maximum *)
         v = get_similarity Z 0%Z s (key_value b) (key_value a) /\
         (0 <= v <= m)%Z /\ (v = 0%Z \/ v = m) /\
         (* equal to the maximum for every pair below the same child of Phenotypic abnormality *)
         (same_branch es a b -> v = m)) /\
    (* only pairs with positive similarity are stored (any other pair reads as 0) *)
    (forall p w, stored Z s p = Some w -> (0 < w)%Z).
Proof. exact resnik_spec. Qed.

(* the declarative value is unique and symmetric, so the statement above determines the result *)
Theorem C10_mica_value_determined : forall (es : list edge) (ic : icmap) (a b : key) (m m' : Z),
  mica_value es ic a b m -> (mica_value es ic a b m' -> m = m') /\ mica_value es ic b a m.
Proof. exact (fun es ic a b m m' H => conj (mica_value_unique es ic a b m m' H) (mica_value_sym es ic a b m H)). Qed.

(* the pair loop, whatever the MICA function: every processed pair is stored once under its
   normalised key with its value, iff that value is positive *)
Theorem C10_pair_loop : forall (mv : key -> key -> Z) (N : key -> Prop),
  (forall x y, N x -> N y -> key_value x = key_value y -> x = y) ->
  (forall x y, N x -> N y -> mv x y = mv y x) ->
  forall (Q : list (key * key)), (forall q, In q Q -> NN N q) ->
  forall p, stored Z (fold_left (pproc mv) Q []) p = expected mv Q p.
Proof. exact loop_invariant. Qed.

(* an ontology without Phenotypic abnormality: ValueError *)
Theorem C10_no_phenotypic_abnormality : forall (f : factory) (es : list edge) (g : graph),
  WfInput es -> create f es = Ok g -> forall (ic : icmap), ~ node_of es PA -> precalculate g ic = Err ValueError.
Proof. exact resnik_no_pa. Qed.
