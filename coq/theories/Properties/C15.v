(* C15 - Similarity container is a symmetric map; CSV round trip is lossless.
   Statements only; proofs in Sim/Proofs.v.  V is the value type with its zero and sign test
   (`sim < 0.`); `run V neg ops` is the container after the history ops of set_similarity calls
   (rejected ones raise and change nothing); `spec_run` is the abstract map: one slot per unordered
   pair, the last accepted write wins. *)
From Coq Require Import String List Bool Arith ZArith.
From Hpotk Require Import Base.Result Base.Str Sim.Model Sim.Proofs Sim.Csv.
From Hpotk Require Import Io.Model Sim.CsvFile Sim.Rebuild Sim.RoundTrip.
Import ListNotations.

(* after ANY sequence of set operations: for any two keys in either order, the value most recently
   set for that unordered pair, and 0 if there is none *)
Theorem C15_symmetric_last_write_wins : forall (V : Type) (zero : V) (neg : V -> bool) (ops : list (op V)) (a b : string),
  get_similarity V zero (run V neg ops) a b = match spec_run V neg ops (norm a b) with Some v => v | None => zero end /\
  get_similarity V zero (run V neg ops) a b = get_similarity V zero (run V neg ops) b a.
Proof. exact get_after_history. Qed.

(* the abstract map really is "the last accepted write to {a,b}" *)
Theorem C15_abstract_map : forall (V : Type) (neg : V -> bool) (ops : list (op V)) (a b : string) (v : V),
  spec_run V neg (ops ++ [(a, b, v)]) =
  if neg v then spec_run V neg ops
  else fun p => if pair_eqb p (norm a b) then Some v else spec_run V neg ops p.
Proof.
  exact (fun V neg ops a b v => eq_trans (fold_left_app (spec_step V neg) ops [(a, b, v)] (fun _ => None)) eq_refl).
Qed.

Theorem C15_same_unordered_pair : forall (a b c d : string),
  norm a b = norm c d <-> ((a = c /\ b = d) \/ (a = d /\ b = c)).
Proof. exact norm_same_pair. Qed.

(* length and item listing cover every stored unordered pair exactly once *)
Theorem C15_len_and_items : forall (V : Type) (zero : V) (neg : V -> bool) (ops : list (op V)),
  let s := run V neg ops in
  clen V s = length (items V s) /\
  NoDup (map (item_key V) (items V s)) /\
  (forall a b v, In (a, b, v) (items V s) <-> spec_run V neg ops (a, b) = Some v) /\
  (forall a b v, In (a, b, v) (items V s) -> sleb a b = true /\ get_similarity V zero s a b = v /\ get_similarity V zero s b a = v).
Proof. exact len_items_spec. Qed.

Theorem C15_stored_iff_written : forall (V : Type) (neg : V -> bool) (ops : list (op V)) (p : pair),
  (exists v, spec_run V neg ops p = Some v) <-> exists a b v, In (a, b, v) ops /\ neg v = false /\ norm a b = p.
Proof. exact items_iff_touched. Qed.

(* a negative value is rejected without any effect *)
Theorem C15_negative_rejected : forall (V : Type) (neg : V -> bool) (s : cont V) (a b : string) (v : V),
  (neg v = true -> set_similarity V neg s a b v = Err ValueError /\ step V neg s (a, b, v) = s) /\
  (neg v = false -> exists s', set_similarity V neg s a b v = Ok s' /\ step V neg s (a, b, v) = s').
Proof. exact negative_rejected. Qed.

(* the metadata codec and its header framing: every non-empty key-unique metadata map free of the
   reserved characters (; = and line breaks) is written as ONE line and read back unchanged *)
Theorem C15_metadata_roundtrip : forall (m : meta), meta_ok m ->
  exists s, metadata_to_str m = Ok s /\ smem nl s = false /\ smem cr s = false /\
            unframe (frame s) = s /\ metadata_from_str (unframe (frame s)) = Ok m.
Proof. exact meta_roundtrip. Qed.

(* metadata containing a reserved character is rejected instead of being written corrupted *)
Theorem C15_metadata_reserved_rejected : forall (m : meta) (k v : string),
  In (k, v) m -> reserved k = true \/ reserved v = true -> metadata_to_str m = Err ValueError.
Proof. exact meta_reserved_rejected. Qed.

(* the CSV row codec (csv module, excel dialect, QUOTE_MINIMAL; writer and the reader state machine
   are modelled): every non-empty row whose fields contain no line breaks - commas, quotes, blanks,
   hash signs, non-ASCII bytes, empty fields allowed - is read back unchanged.  What remains an oracle
   for the lossless round trip is only repr / float() of binary64 and gzip. *)
Theorem C15_csv_row_roundtrip : forall (fields : list string),
  fields <> [] -> forallb no_break fields = true -> read_row (write_row fields) = fields.
Proof. exact csv_row_roundtrip. Qed.

(* non-vacuity: a history with reversed key order, an overwrite, a self pair, a rejected negative
   value and a zero *)
Example C15_example :
  let neg := fun z : Z => (z <? 0)%Z in
  let ops := [("b", "a", 3); ("a", "b", 5); ("c", "c", 7); ("a", "c", (-1)); ("b", "c", 0)]%string%Z in
  let s := run Z neg ops in
  get_similarity Z 0%Z s "b" "a" = 5%Z /\ get_similarity Z 0%Z s "a" "c" = 0%Z /\ clen Z s = 3 /\
  items Z s = [("a", "b", 5); ("c", "c", 7); ("b", "c", 0)]%string%Z /\
  meta_ok [("version", "2024-01-01"); ("created", "x y")]%string.
Proof.
  cbv zeta. repeat split; try reflexivity; try discriminate.
  - repeat constructor; cbn; intuition discriminate.
  - cbn in H. destruct H as [H|[H|[]]]; inversion H; reflexivity.
  - cbn in H. destruct H as [H|[H|[]]]; inversion H; reflexivity.
Qed.

(* THE FILE: what to_csv writes ('#' description, '#' metadata, column names, one CR LF terminated row per stored
   pair), read through the universal-newline text layer of the handle (C16), is what from_csv's reader returns: the
   two header lines and exactly those rows in that order - for any keys and value texts without line breaks (commas,
   quotes, hash signs - also at the start of a row -, blanks, empty strings), any number of rows *)
Theorem C15_csv_file_roundtrip : forall (valid_float : string -> bool) (description meta_str : string) (rows : list (string * string * string)),
  no_break description = true -> no_break meta_str = true -> forallb row_ok rows = true ->
  forallb (fun r => valid_float (snd r)) rows = true ->
  from_csv_text valid_float (universal (to_csv_text description meta_str rows)) =
  Ok ([String hash (description ++ lfs); String hash (meta_str ++ lfs)],
      map (fun r => (Some (fst (fst r)), Some (snd (fst r)), snd r)) rows).
Proof. exact csv_file_roundtrip. Qed.

Theorem C15_csv_file_metadata_line : forall (description meta_str : string), meta_str <> EmptyString ->
  meta_line [String hash (description ++ lfs); String hash (meta_str ++ lfs)] = Some meta_str.
Proof. exact csv_file_meta_line. Qed.

(* re-inserting the listed items (what from_csv does with the rows) reproduces the container *)
Theorem C15_rebuild : forall (V : Type) (zero : V) (neg : V -> bool) (ops : list (op V)),
  let s := run V neg ops in
  let s' := run V neg (items V s) in
  (forall a b, get_similarity V zero s' a b = get_similarity V zero s a b) /\
  clen V s' = clen V s /\ (forall x, In x (items V s') <-> In x (items V s)).
Proof.
  exact (fun V zero neg ops => conj (proj1 (proj2 (rebuild_same V zero neg ops)))
                                    (conj (rebuild_same_length V zero neg ops) (proj2 (proj2 (rebuild_same V zero neg ops))))).
Qed.

(* END TO END: history -> container -> to_csv text -> handle -> from_csv records -> float() -> container', with the
   float <-> text conversion as an oracle pair obeying float(repr(v)) = v *)
Theorem C15_container_csv_roundtrip : forall (V : Type) (zero : V) (neg : V -> bool) (show : V -> string) (parse : string -> V)
  (valid_float : string -> bool), (forall v, parse (show v) = v) -> (forall v, valid_float (show v) = true /\ no_break (show v) = true) ->
  forall (ops : list (op V)) (description meta_str : string),
  key_ok V ops -> no_break description = true -> no_break meta_str = true ->
  let s := run V neg ops in
  exists recs,
    from_csv_text valid_float (universal (to_csv_text description meta_str (rows_of V show s))) =
      Ok ([String hash (description ++ lfs); String hash (meta_str ++ lfs)], map (fun r => (Some (fst (fst r)), Some (snd (fst r)), snd r)) recs) /\
    map (fun r => (fst (fst r), snd (fst r), parse (snd r))) recs = items V s /\
    let s' := run V neg (items V s) in
    (forall a b, get_similarity V zero s' a b = get_similarity V zero s a b) /\
    clen V s' = clen V s /\ (forall x, In x (items V s') <-> In x (items V s)).
Proof. exact container_csv_roundtrip. Qed.
