(* C01 - Ancestor/descendant queries equal the transitive closure of is_a edges.
   Statements only; proofs in Graph/*.v.  `create f es` is the model of factory f
   (CsrIndexedGraphFactory | IncrementalCsrGraphFactory | CsrGraphFactory) applied to the edge list es;
   `rel es q x y` is the declarative answer (Graph/Spec.v): is_a / its converse / its transitive
   closure / the converse closure, where is_a = the input edges plus the synthetic edges to owl:Thing. *)
From Coq Require Import String List Bool Arith ZArith Permutation Relations Relation_Operators.
From Hpotk Require Import Base.Result Base.Ord TermId.Model Graph.Model Graph.Spec Graph.Main Graph.Top.
Import ListNotations.

(* every factory accepts every non-empty acyclic edge list (that does not itself use owl:Thing) *)
Theorem C01_factory_total : forall (f : factory) (es : list edge),
  WfInput es -> exists g, create f es = Ok g.
Proof. exact create_total. Qed.

(* every factory, every node, every query, both flags, every argument form: the answer lists each
   node EXACTLY ONCE (NoDup) and contains exactly the related nodes, plus the source iff asked *)
Theorem C01_queries_are_closure : forall (f : factory) (es : list edge) (g : graph),
  WfInput es -> create f es = Ok g ->
  forall (q : query) (a : arg) (x : key) (incl : bool), denotes a x ->
  (node_of es x ->
     exists l, g_query g q a incl = Ok l /\ NoDup l /\
       forall y, In y l <-> (rel es q x y \/ (incl = true /\ y = x))) /\
  (~ node_of es x -> g_query g q a incl = Err ValueError).
Proof. exact query_spec. Qed.

(* include_source adds the source itself exactly once and nothing else *)
Theorem C01_include_source : forall (f : factory) (es : list edge) (g : graph),
  WfInput es -> create f es = Ok g ->
  forall (q : query) (a : arg) (x : key) (l0 l1 : list key), denotes a x ->
  g_query g q a false = Ok l0 -> g_query g q a true = Ok l1 ->
  ~ In x l0 /\ Permutation l1 (x :: l0).
Proof. exact include_source_spec. Qed.

(* the traversal loop itself, for ANY pop policy (stack and deque are instances): with fuel n+1 it
   terminates and returns, each once, exactly the nodes reachable in one or more steps *)
Theorem C01_worklist : forall (n : nat) (succ : nat -> list nat),
  (forall i j, In j (succ i) -> j < n) ->
  forall pop : list nat -> option (nat * list nat),
  (forall l x r, pop l = Some (x, r) -> Permutation l (x :: r)) ->
  (forall l, l <> [] -> pop l <> None) ->
  forall src, NoDup (succ src) ->
  exists out, Worklist.traverse n succ pop src = Some out /\ NoDup out /\
    forall y, In y out <-> Worklist.reach succ src y.
Proof. exact Worklist.traverse_correct. Qed.

(* non-vacuity: a re-converging diamond under two roots, ids whose numeric and lexicographic order
   differ (HP:10 < HP:9) and an underscore CURIE is in the scope of the theorems *)
Definition ex_k (s : string) : key := match from_curie s with Ok t => tkey t | Err _ => key0 end.
Definition ex_edges : list edge :=
  [(ex_k "HP:9", ex_k "HP:10"); (ex_k "HP:9", ex_k "MP_1"); (ex_k "HP:10", ex_k "HP:2"); (ex_k "MP_1", ex_k "HP:2"); (ex_k "HP:9", ex_k "HP:3")]%string.
Definition ex_rank (x : key) : nat :=
  if key_eqb x (ex_k "HP:9") then 0 else if key_eqb x (ex_k "HP:2") then 2 else 1.

Example C01_example_in_scope : WfInput ex_edges.
Proof.
  apply (wf_by_rank ex_edges ex_rank); [discriminate | | vm_compute; reflexivity].
  intros x y H. unfold ex_edges in H. cbn [In] in H.
  repeat (destruct H as [H|H]; [inversion H; subst; vm_compute; repeat constructor|]). contradiction.
Qed.

Example C01_example :
  forall f, exists g l, create f ex_edges = Ok g /\ g_query g QAncestors (AStr "HP_9") false = Ok l /\ length l = 5 /\
    forallb (fun v => existsb (String.eqb v) (map key_value l)) ["HP:10"; "HP:2"; "HP:3"; "MP:1"; "owl:Thing"]%string = true.
Proof.
  intros f. destruct f; vm_compute; eexists; eexists; (split; [reflexivity|]); (split; [reflexivity|]); split; reflexivity.
Qed.
