(* C03 - All views of the hierarchy agree: implementations, predicates, indices, id forms.
   Statements only; proofs in Graph/*.v. *)
From Coq Require Import String List Bool Arith ZArith Permutation Relations Relation_Operators.
From Hpotk Require Import Base.Result Base.Ord TermId.Model Graph.Model Graph.Spec Graph.Main Graph.Top.
Import ListNotations.

(* every shipped factory, given the same edges (in fact: the same edge set), answers every query
   with the same set of nodes, every predicate and leaf/membership test identically *)
Theorem C03_implementations_agree : forall (f1 f2 : factory) (es : list edge) (g1 g2 : graph),
  WfInput es -> create f1 es = Ok g1 -> create f2 es = Ok g2 ->
  g_nodes g1 = g_nodes g2 /\ g_root g1 = g_root g2 /\
  (forall k, g_contains g1 k = g_contains g2 k) /\
  (forall q a incl, res_perm (g_query g1 q a incl) (g_query g2 q a incl)) /\
  (forall q sa oa, g_pred g1 q sa oa = g_pred g2 q sa oa) /\
  (forall a, g_is_leaf g1 a = g_is_leaf g2 a).
Proof. exact (fun f1 f2 es g1 g2 => same_edge_set_same_answers f1 f2 es es g1 g2 (fun e => iff_refl _)). Qed.

(* is_parent/child/ancestor/descendant_of(sub, obj) is true exactly when the corresponding
   traversal of obj contains sub; is_leaf exactly when there are no children *)
Theorem C03_predicates_are_membership : forall (f : factory) (es : list edge) (g : graph),
  WfInput es -> create f es = Ok g ->
  (forall q sa oa s b l, denotes sa s ->
     g_pred g q sa oa = Ok b -> g_query g q oa false = Ok l -> (b = true <-> In s l)) /\
  (forall a b l, g_is_leaf g a = Ok b -> g_query g QChildren a false = Ok l -> (b = true <-> l = [])).
Proof. exact (fun f es g W C => conj (pred_is_membership f es g W C) (leaf_is_no_children f es g W C)). Qed.

(* the predicates in terms of the input edges; unknown object -> ValueError, unknown subject -> False *)
Theorem C03_predicates_spec : forall (f : factory) (es : list edge) (g : graph),
  WfInput es -> create f es = Ok g ->
  forall q sa oa s o, denotes sa s -> denotes oa o ->
  (node_of es o -> node_of es s -> exists b, g_pred g q sa oa = Ok b /\ (b = true <-> rel es q o s)) /\
  (node_of es o -> ~ node_of es s -> g_pred g q sa oa = Ok false) /\
  (~ node_of es o -> g_pred g q sa oa = Err ValueError).
Proof. exact pred_spec. Qed.

(* parent/child and ancestor/descendant are converse relations *)
Theorem C03_converse : forall (f : factory) (es : list edge) (g : graph),
  WfInput es -> create f es = Ok g ->
  forall sa oa s o, denotes sa s -> denotes oa o -> node_of es s -> node_of es o ->
  g_pred g QParents sa oa = g_pred g QChildren oa sa /\
  g_pred g QAncestors sa oa = g_pred g QDescendants oa sa.
Proof. exact converse. Qed.

(* a node may be passed as a CURIE string, a TermId or any object carrying an identifier *)
Theorem C03_argument_forms : forall (g : graph) (a sa oa : arg) (x s o : key),
  denotes a x -> denotes sa s -> denotes oa o ->
  (forall q incl, g_query g q a incl = g_query g q (ATid x) incl) /\
  g_is_leaf g a = g_is_leaf g (ATid x) /\
  (forall q, g_pred g q sa oa = g_pred g q (ATid s) (ATid o)).
Proof.
  exact (fun g a sa oa x s o Ha Hs Ho =>
    conj (fun q incl => arg_forms_query g q a x incl Ha)
   (conj (arg_forms_leaf g a x Ha) (fun q => arg_forms_pred g q sa oa s o Hs Ho))).
Qed.

(* the index API: node <-> index is a bijection between the nodes and 0..n-1, root_idx is the index
   of the root *)
Theorem C03_index_bijection : forall (es : list edge) (ig : igraph),
  WfInput es -> idx_factory es = Ok ig ->
  let n := length (ig_nodes ig) in
  (forall x i, ig_node_to_idx ig x = Some i <-> (i < n /\ ig_idx_to_node ig (Z.of_nat i) = Ok x)) /\
  (forall x, ig_node_to_idx ig x = None <-> ~ node_of es x) /\
  (forall z, (0 <= z < Z.of_nat n)%Z -> exists x, ig_idx_to_node ig z = Ok x /\ node_of es x /\ ig_node_to_idx ig x = Some (Z.to_nat z)) /\
  (forall z, ~ (0 <= z < Z.of_nat n)%Z -> ig_idx_to_node ig z = Err ValueError) /\
  (exists root, ig_root_node ig = Ok root /\ g_root (GI ig) = Ok root /\ ig_node_to_idx ig root = Some (ig_root ig)).
Proof. exact idx_bijection. Qed.

(* the index API mirrors the node API through that bijection *)
Theorem C03_index_api_mirrors_node_api : forall (es : list edge) (ig : igraph),
  WfInput es -> idx_factory es = Ok ig ->
  (forall q x i incl, ig_node_to_idx ig x = Some i ->
     g_query (GI ig) q (ATid x) incl =
     rmap (fun l => (if incl then [x] else []) ++ map (fun j => nth j (ig_nodes ig) key0) l) (idx_query ig q (Z.of_nat i))) /\
  (forall q s o x y, ig_node_to_idx ig x = Some s -> ig_node_to_idx ig y = Some o ->
     idx_pred ig q (Z.of_nat s) (Z.of_nat o) = g_pred (GI ig) q (ATid x) (ATid y)).
Proof. exact (fun es ig W C => conj (idx_query_mirror es ig W C) (fun q s o x y => idx_pred_mirror ig q s o x y)). Qed.

(* get_*_idx in terms of the input edges *)
Theorem C03_index_queries_spec : forall (es : list edge) (ig : igraph),
  WfInput es -> idx_factory es = Ok ig ->
  let n := length (ig_nodes ig) in let node i := nth i (ig_nodes ig) key0 in
  forall q (i : Z),
  ((0 <= i < Z.of_nat n)%Z ->
     exists l, idx_query ig q i = Ok l /\ NoDup l /\
       forall j, In j l <-> (j < n /\ rel es q (node (Z.to_nat i)) (node j))) /\
  (~ (0 <= i < Z.of_nat n)%Z -> idx_query ig q i = Err ValueError).
Proof. exact idx_query_spec. Qed.
