(* C04 - TermId parsing, equality, hashing and ordering are mutually consistent.
   This file holds only the statements; each is closed by `exact` of a lemma proved in
   TermId/Proofs.v or Base/Ord.v. *)
From Coq Require Import String Ascii List Bool ZArith.
From Hpotk Require Import Base.Result Base.Str Base.Ord TermId.Model TermId.Proofs TermId.Injective.
Import ListNotations.
Open Scope string_scope.

(* parsing succeeds exactly when the string contains ':' or '_' (and fails with ValueError) *)
Theorem C04_parse_ok_iff : forall s,
  (is_ok (from_curie s) = true <-> (smem colon s = true \/ smem underscore s = true)) /\
  (from_curie s = Err ValueError \/ exists t, from_curie s = Ok t).
Proof. exact (fun s => conj (from_curie_ok_iff s) (from_curie_err s)). Qed.

(* it splits at the FIRST ':' and, only when there is no ':', at the first '_' *)
Theorem C04_parse_split : forall s t,
  from_curie s = Ok t ->
  tvalue t = s /\
  (smem colon s = true ->
     s = prefix t ++ String colon (ident t) /\ smem colon (prefix t) = false) /\
  (smem colon s = false ->
     s = prefix t ++ String underscore (ident t) /\ smem underscore (prefix t) = false
     /\ smem colon (prefix t) = false /\ smem colon (ident t) = false).
Proof. exact from_curie_split. Qed.

(* the printed value joins with ':' and re-parses to an equal TermId with the same value *)
Theorem C04_value_reparse : forall s t,
  from_curie s = Ok t ->
  value t = prefix t ++ ":" ++ ident t /\
  exists t', from_curie (value t) = Ok t' /\ teqb t t' = true /\ value t' = value t /\ tkey t' = tkey t.
Proof. exact (fun s t H => conj eq_refl (value_reparse s t H)). Qed.

(* parsing does not normalise: CURIEs that parse to equal TermIds are the same text up to the delimiter character, and
   the very same text when both use ':' (or both '_') - other zero padding, a sign, blanks, digit separators, other
   digits or another letter case never denote the same id *)
Theorem C04_parse_does_not_normalise : forall s s' t t',
  from_curie s = Ok t -> from_curie s' = Ok t' -> teqb t t' = true ->
  (smem colon s = smem colon s' -> s = s') /\
  exists p i d d', s = p ++ String d i /\ s' = p ++ String d' i /\ (d = colon \/ d = underscore) /\ (d' = colon \/ d' = underscore).
Proof.
  exact (fun s s' t t' H H' E =>
    conj (fun C => match smem colon s as b return smem colon s = b -> s = s' with
                   | true => fun C1 => parse_injective_colon s s' t t' H H' C1 (eq_trans (eq_sym C) C1) E
                   | false => fun C1 => parse_injective_underscore s s' t t' H H' C1 (eq_trans (eq_sym C) C1) E
                   end eq_refl)
         (parse_equal_means_same_parts s s' t t' H H' E)).
Qed.

(* equality is equality of (prefix, id), whatever the delimiter, stored string or class *)
Theorem C04_eq_iff : forall t u, teqb t u = true <-> (prefix t = prefix u /\ ident t = ident u).
Proof. exact teqb_iff. Qed.

(* equal TermIds hash equally, for every combination of the two classes (cached or recomputed)
   and for any hash function of the two strings *)
Theorem C04_eq_hash : forall (H : string -> string -> Z) c1 c2 t u,
  teqb t u = true -> thash H c1 t = thash H c2 u.
Proof. exact eq_hash. Qed.

(* '<' is a strict total order compatible with '==' ... *)
Theorem C04_lt_strict_total : forall t u v,
  tltb t t = false /\
  (tltb t u = true -> tltb u v = true -> tltb t v = true) /\
  ((tltb t u = true /\ teqb t u = false /\ tltb u t = false) \/
   (tltb t u = false /\ teqb t u = true /\ tltb u t = false) \/
   (tltb t u = false /\ teqb t u = false /\ tltb u t = true)).
Proof. exact (fun t u v => conj (tltb_irrefl t) (conj (tltb_trans t u v) (tltb_trichotomy t u))). Qed.

(* ... namely the lexicographic order on (prefix, id) *)
Theorem C04_lt_lex : forall t u,
  tltb t u = true <->
  (sltb (prefix t) (prefix u) = true \/ (prefix t = prefix u /\ sltb (ident t) (ident u) = true)).
Proof. exact tltb_lex. Qed.

(* sorting with de-duplication is canonical: strictly sorted, same elements, and a function of
   the element set alone *)
Theorem C04_sort_canonical : forall l1 l2 : list key,
  SSorted key_ltb (sort_unique key_ltb l1) /\
  (forall x, In x (sort_unique key_ltb l1) <-> In x l1) /\
  ((forall x, In x l1 <-> In x l2) -> sort_unique key_ltb l1 = sort_unique key_ltb l2).
Proof. exact (fun l1 l2 => conj (key_sort_sorted l1) (conj (key_sort_in l1) (key_sort_canonical l1 l2))). Qed.

(* binary search (Python's bisect_left loop + equality test) over a sorted array of TermIds
   finds a term id exactly when it is present, at its position *)
Theorem C04_bisect_finds : forall (a : list key) (x : key) (i : nat),
  SSorted key_ltb a ->
  (index_of key_ltb a x = Some i <-> nth_error a i = Some x) /\
  (index_of key_ltb a x = None <-> ~ In x a).
Proof. exact (fun a x i Hs => conj (key_index_of_spec a x Hs i) (key_index_of_none a x Hs)). Qed.
