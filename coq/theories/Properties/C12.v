(* C12 - Queries are pure: results independent of history and iterator interleaving.
   Statements only; proofs in Iter/Proofs.v.  In the model all traversal state lives in the iterator
   value and graphs / ontologies / loader factories are immutable values, so isolation is structural
   and these theorems are short; what ties them to the code is the exploration run by the check:
   query histories, all interleavings of several open iterators, concurrent reader threads and
   repeated loads through the shared default factories on the real implementation.
   PARTIAL: thread preemption inside one generator step cannot be exhibited by the model; concurrent
   readers are explored, not proved. *)
From Coq Require Import List Bool Arith ZArith.
From Hpotk Require Import Base.Result Graph.Worklist Graph.Model Iter.Model Iter.Proofs Iter.Plain.
Import ListNotations.

(* draining a lazily evaluated traversal iterator yields exactly the list of the eager traversal that
   C01 / C03 characterise (same elements, same order) - for any successor function and pop policy *)
Theorem C12_lazy_refines_eager : forall (succ : nat -> list nat) (pop : list nat -> option (nat * list nat)) (n : nat) (init res : list nat),
  traverse_from n succ pop init = Some res -> drain succ pop (S n) (NotStarted init) = res.
Proof. exact lazy_refines_eager. Qed.

(* a partially consumed iterator has yielded a prefix of that list *)
Theorem C12_partial_is_prefix : forall (succ : nat -> list nat) (pop : list nat -> option (nat * list nat)) (k fuel : nat) (i : it),
  k <= fuel -> exists rest, drain succ pop fuel i = fst (take_next succ pop k i) ++ rest.
Proof. exact partial_is_prefix. Qed.

(* for EVERY history of opening and advancing iterators - however many are open, in whatever order
   they are consumed - each iterator yields exactly what it yields when consumed alone *)
Theorem C12_non_interference : forall (succ : nat -> list nat) (pop : list nat -> option (nat * list nat))
  (ops : list op) (its : list it) (k : nat) (i : it), nth_error its k = Some i ->
  outputs_of k (snd (exec succ pop its ops)) = solo succ pop i (nexts_of k ops).
Proof. exact non_interference. Qed.

Theorem C12_opened_later_is_fresh : forall (succ : nat -> list nat) (pop : list nat -> option (nat * list nat))
  (ops : list op) (its : list it) (init : list nat),
  let k := length its in
  outputs_of k (snd (exec succ pop its (Open init :: ops))) = solo succ pop (NotStarted init) (nexts_of k ops).
Proof. exact opened_later_is_fresh. Qed.

(* the traversal methods of both graph classes are these iterators (stack / deque), drained *)
Theorem C12_indexed_graph_iterators : forall (g : igraph) (a : csrarr) (src : Z) (l : list nat),
  ig_traverse g a src = Ok l ->
  exists init, outgoing a src = Ok init /\ drain (succ_of a) pop_last (S (length (ig_nodes g))) (NotStarted init) = l.
Proof. exact ig_traverse_is_drained_iterator. Qed.

Theorem C12_matrix_graph_iterators : forall (g : mgraph) (k : TermId.Model.key) (code : Z) (incl : bool) (l : list nat),
  mg_traverse_k g k code incl = Ok l ->
  exists init, mg_rel_k g k code incl = Ok init /\ drain (mg_cols g code) pop_first (S (length (mg_nodes g))) (NotStarted init) = l.
Proof. exact mg_traverse_is_drained_iterator. Qed.

(* the parent / child queries return lazy iterators as well (a map over one CSR row, a generator over one matrix row):
   the instance without successors, consumed first-in-first-out.  Drained it is the row; in ANY history of opening and
   advancing such iterators the k-th one yields the first items of its own row, then StopIteration *)
Theorem C12_neighbour_iterators : forall (ops : list op) (its : list it) (k : nat) (row : list nat),
  nth_error its k = Some (NotStarted row) ->
  drain no_succ pop_first (S (List.length row)) (NotStarted row) = row /\
  let m := nexts_of k ops in
  outputs_of k (snd (exec no_succ pop_first its ops)) = map Some (firstn m row) ++ repeat None (m - List.length row).
Proof. exact (fun ops its k row H => conj (plain_iterator_drain row (S (List.length row)) (Nat.lt_succ_diag_r _)) (plain_iterators_do_not_interfere ops its k row H)). Qed.

(* non-vacuity: three iterators over a diamond, interleaved *)
Example C12_example :
  let succ := fun i => match i with 0 => [1; 2] | 1 => [3] | 2 => [3] | _ => [] end in
  let r := exec succ pop_last [] [Open (succ 0); Open (succ 0); Next 0; Next 1; Next 1; Next 0; Open [0]; Next 2; Next 0; Next 1; Next 0; Next 1] in
  outputs_of 0 (snd r) = [Some 2; Some 3; Some 1; None] /\ outputs_of 1 (snd r) = [Some 2; Some 3; Some 1; None] /\ outputs_of 2 (snd r) = [Some 0].
Proof. vm_compute. repeat split; reflexivity. Qed.
