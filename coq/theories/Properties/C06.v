(* C06 - Ontology lookups resolve primary and alternate ids to current terms only.
   Statements only; proofs in Ontology/Proofs.v.  X is whatever a term carries besides its ids and
   name (nothing for MinimalTerm; definition, comment, synonyms, xrefs for Term): the same theorems
   cover the minimal and the full ontology.  `create_ontology X ts` is given ALL terms, obsolete
   ones included, as create_minimal_ontology / create_ontology are. *)
From Coq Require Import String List Bool Arith ZArith.
From Hpotk Require Import Base.Result TermId.Model Graph.Model Graph.Spec Ontology.Model Ontology.Proofs.
Import ListNotations.

(* the length and the term iterator cover exactly the non-obsolete terms (in input order) *)
Theorem C06_len_and_terms : forall (X : Type) (ts : list (term X)),
  let o := create_ontology X ts in
  olen X o = length (filter (fun t => negb (t_obsolete X t)) ts) /\
  terms_of X o = filter (fun t => negb (t_obsolete X t)) ts /\
  forall t, In t (terms_of X o) <-> (In t ts /\ t_obsolete X t = false).
Proof. exact len_terms_spec. Qed.

(* an obsolete term is never returned by any lookup (no hypothesis on the ids at all); whatever is
   returned is a current term carrying the queried id *)
Theorem C06_never_obsolete : forall (X : Type) (ts : list (term X)) (a : arg) (t : term X),
  get_term X (create_ontology X ts) a = Ok (Some t) ->
  In t ts /\ t_obsolete X t = false /\ exists x, map_to_term_id a = Ok x /\ In x (ids X t).
Proof. exact never_obsolete. Qed.

(* with a disjoint assignment of ids to current terms: looking up the primary id or any alternate id
   - as CURIE, TermId or identified object - returns that current term; any other id returns None *)
Theorem C06_lookup : forall (X : Type) (ts : list (term X)) (a : arg) (x : key),
  WfIds X (filter (fun t => negb (t_obsolete X t)) ts) -> denotes a x ->
  let o := create_ontology X ts in
  (forall t, get_term X o a = Ok (Some t) <-> (In t ts /\ t_obsolete X t = false /\ In x (ids X t))) /\
  (get_term X o a = Ok None <-> forall t, In t ts -> t_obsolete X t = false -> ~ In x (ids X t)).
Proof. exact get_term_spec. Qed.

(* `in` is true exactly when the lookup succeeds; get_term_name is the name of the term found *)
Theorem C06_contains_and_name : forall (X : Type) (ts : list (term X)) (a : arg),
  let o := create_ontology X ts in
  (forall b, contains X o a = Ok b -> (b = true <-> exists t, get_term X o a = Ok (Some t))) /\
  get_term_name X o a = rmap (option_map (t_name X)) (get_term X o a).
Proof. exact (fun X ts a => conj (contains_iff_lookup X ts a) (name_spec X ts a)). Qed.

(* the term-id iterator lists exactly the primary and alternate ids of current terms, each once,
   and these are exactly the ids a lookup resolves *)
Theorem C06_term_ids : forall (X : Type) (ts : list (term X)),
  let o := create_ontology X ts in
  NoDup (term_ids X o) /\
  (forall k, In k (term_ids X o) <-> exists t, In t ts /\ t_obsolete X t = false /\ (k = t_id X t \/ In k (t_alts X t))) /\
  (forall k, In k (term_ids X o) <-> exists t, get_term X o (ATid k) = Ok (Some t)).
Proof. exact (fun X ts => conj (proj1 (term_ids_spec X ts)) (conj (proj2 (term_ids_spec X ts)) (term_ids_resolve X ts))). Qed.

(* the three argument forms agree; anything else raises ValueError *)
Theorem C06_argument_forms : forall (X : Type) (ts : list (term X)) (a : arg),
  let o := create_ontology X ts in
  (forall x, denotes a x ->
     get_term X o a = get_term X o (ATid x) /\ contains X o a = contains X o (ATid x) /\
     get_term_name X o a = get_term_name X o (ATid x)) /\
  (malformed a -> get_term X o a = Err ValueError).
Proof. exact (fun X ts a => conj (arg_forms_agree X ts a) (get_term_malformed X ts a)). Qed.

(* non-vacuity: two current terms with alternate ids and an obsolete term whose primary id is an
   alternate id of a current one satisfy WfIds, and the lookups behave as stated *)
Example C06_example :
  let k p i : key := (p, i) in
  let ts := [mkTerm nat (k "HP" "1") "one" [k "HP" "11"; k "HP" "12"] false 0;
             mkTerm nat (k "HP" "2") "two" [] false 1;
             mkTerm nat (k "HP" "12") "gone" [k "HP" "2"] true 2]%string in
  let o := create_ontology nat ts in
  WfIds nat (filter (fun t => negb (t_obsolete nat t)) ts) /\
  rmap (option_map (t_extra nat)) (get_term nat o (AStr "HP_12")) = Ok (Some 0) /\
  rmap (option_map (t_extra nat)) (get_term nat o (AStr "HP:2")) = Ok (Some 1) /\
  get_term nat o (AStr "HP:3") = Ok None /\ olen nat o = 2 /\ length (term_ids nat o) = 4.
Proof.
  cbv zeta. split; [|vm_compute; repeat split; reflexivity].
  unfold WfIds. vm_compute. repeat constructor; cbn; intuition discriminate.
Qed.
