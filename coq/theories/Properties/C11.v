(* C11 - Validators report exactly the rule violations and never alter their input.
   Statements only; proofs in Validate/Proofs.v.  The graph g is built by any factory from an
   acyclic edge list es; the ontology o over it is the C06 model; `known items` = the ontology knows
   the id of every item and maps it to a node of the graph (the property's scope); an item is
   (id, is_present).  Non-mutation is an aliasing fact of the implementation: the model's validators
   take items by value, so it is checked on the implementation by the correspondence, not proved. *)
From Coq Require Import String List Bool Arith ZArith Relations Relation_Operators.
From Hpotk Require Import Base.Result TermId.Model Graph.Model Graph.Spec Graph.Main Ontology.Model Ontology.Proofs
  Validate.Model Validate.Proofs.
Import ListNotations.

(* annotation propagation: after replacing obsolete ids by current ones (fs), an ERROR naming (d, a)
   in state st is reported exactly when an item has (d, st), a is a STRICT ancestor of d carried by
   some item, and d is present or both are excluded; nothing else is reported *)
Theorem C11_annotation_propagation : forall (f : factory) (es : list edge) (g : graph),
  WfInput es -> create f es = Ok g ->
  forall (X : Type) (ts : list (term X)) (items : list item),
  let o := create_ontology X ts in
  known es X ts items ->
  let fs := map (fun it => (match primary X o (fst it) with Some p => p | None => fst it end, snd it)) items in
  exists res, ap_validate X o g items = Ok res /\
    (forall d a st, In (FProp d a st) res <->
       (In (d, st) fs /\ ancestor es d a /\ exists st', In (a, st') fs /\ (st = true \/ st' = false))) /\
    (forall x, In x res -> exists d a st, x = FProp d a st).
Proof. exact ap_validate_spec. Qed.

(* ... with multiplicity: exactly one ERROR per (item, offending ancestor id) *)
Theorem C11_annotation_propagation_multiplicity : forall (f : factory) (es : list edge) (g : graph),
  WfInput es -> create f es = Ok g ->
  forall (fs : list item), (forall x, In x fs -> node_of es (fst x)) ->
  exists per_item : item -> list key,
    ap_findings g fs = Ok (flat_map (fun x => map (fun a => FProp (fst x) a (snd x)) (per_item x)) fs) /\
    forall x, In x fs -> NoDup (per_item x) /\
      forall a, In a (per_item x) <-> (ancestor es (fst x) a /\ exists st', In (a, st') fs /\ (snd x = true \/ st' = false)).
Proof. exact ap_findings_spec. Qed.

(* phenotypic abnormality: one WARNING per item (in order) whose current id is not a strict
   descendant of HP:0000118 (the term itself and the root included) *)
Theorem C11_phenotypic_abnormality : forall (f : factory) (es : list edge) (g : graph),
  WfInput es -> create f es = Ok g ->
  forall (X : Type) (ts : list (term X)) (items : list item),
  let o := create_ontology X ts in
  known es X ts items ->
  exists res, pa_validate X o g items = Ok res /\
    res = flat_map (fun it => match primary X o (fst it) with
                              | Some p => if kmem PA (anc_list g p) then [] else [FPa p]
                              | None => [] end) items /\
    (forall p, In (FPa p) res <-> exists it, In it items /\ primary X o (fst it) = Some p /\ ~ ancestor es p PA).
Proof. exact pa_validate_spec. Qed.

(* obsolete ids: one WARNING per item (in order) whose id differs from its current id ... *)
Theorem C11_obsolete_ids : forall (es : list edge) (X : Type) (ts : list (term X)) (items : list item),
  let o := create_ontology X ts in
  known es X ts items ->
  exists res, obs_validate X o items = Ok res /\
    res = flat_map (fun it => match primary X o (fst it) with
                              | Some p => if key_eqb p (fst it) then [] else [FObs (fst it) p]
                              | None => [] end) items /\
    (forall k p, In (FObs k p) res <-> ((exists st, In (k, st) items) /\ primary X o k = Some p /\ p <> k)).
Proof. exact obs_validate_spec. Qed.

(* ... which, for a disjoint id assignment, is exactly: the item uses an ALTERNATE id *)
Theorem C11_obsolete_means_alternate : forall (X : Type) (ts : list (term X)) (k p : key),
  let o := create_ontology X ts in
  WfIds X (filter (fun t => negb (t_obsolete X t)) ts) ->
  ((primary X o k = Some p /\ p <> k) <->
   exists t, In t ts /\ t_obsolete X t = false /\ In k (t_alts X t) /\ p = t_id X t).
Proof. exact primary_differs_iff_alternate. Qed.

(* the runner reports the concatenation of its validators' findings; is_ok iff nothing was reported *)
Theorem C11_runner : forall (X : Type) (ts : list (term X)) (g : graph) (vs : list vkind) (items : list item) (r : vkind -> list finding),
  let o := create_ontology X ts in
  (forall v, In v vs -> validate X o g v items = Ok (r v)) ->
  validate_all X o g vs items = Ok (concat (map r vs)) /\
  forall results, is_ok results = true <-> results = [].
Proof. exact (fun X ts g vs items r H => conj (validate_all_concat g X ts vs items r H) is_ok_iff). Qed.
