(* C16 - Readers and writers treat paths, gzip paths and open streams alike.
   Statements only; proofs in Io/Proofs.v.  The theorem is about the helper's decision table and
   what each decision does to the content, for ANY text/bytes types and ANY codecs satisfying the
   two round-trip laws (hypotheses, not axioms).  Which Python object falls into which kind, and the
   codecs themselves (UTF-8, gzip), are runtime behaviour: the correspondence executes the full
   product of source kinds and readers / writers. *)
From Coq Require Import String List Bool Arith.
From Hpotk Require Import Base.Result Base.Str Io.Model Io.Proofs.
Import ListNotations.
Open Scope string_scope.

(* every reader built on the helper sees the same text c whichever kind of source carries it; any
   other kind of argument is rejected with ValueError *)
Theorem C16_read_uniform : forall (text bytes : Type) (encode : text -> bytes) (decode : bytes -> text) (gzip gunzip : bytes -> bytes),
  (forall c, decode (encode c) = c) -> (forall b, gunzip (gzip b) = b) ->
  forall (a : arg) (c : text),
  match open_for_reading a with
  | Ok p => a <> AOther /\ read_text text bytes decode gunzip p (materialise text bytes encode gzip a c) = Some c
  | Err e => a = AOther /\ e = ValueError
  end.
Proof. exact read_uniform. Qed.

(* every writer leaves in a target of each kind exactly the material that kind of source carries for
   c - and a reader of the same kind reads c back *)
Theorem C16_write_uniform : forall (text bytes : Type) (encode : text -> bytes) (decode : bytes -> text) (gzip gunzip : bytes -> bytes),
  (forall c, decode (encode c) = c) -> (forall b, gunzip (gzip b) = b) ->
  forall (a : arg) (c : text),
  match open_for_writing a, open_for_reading a with
  | Ok w, Ok r => a <> AOther /\ written text bytes encode gzip w c = materialise text bytes encode gzip a c /\
                  read_text text bytes decode gunzip r (written text bytes encode gzip w c) = Some c
  | Err e, Err e' => a = AOther /\ e = ValueError /\ e' = ValueError
  | _, _ => False
  end.
Proof. exact write_uniform. Qed.

(* "name ending in .gz" / "starts with http:// or https://" *)
Theorem C16_suffix_and_url_tests : forall (f : string),
  (looks_gzipped f = true <-> exists p, f = p ++ ".gz") /\
  (looks_like_url f = true <-> ((exists r, f = "http://" ++ r) \/ (exists r, f = "https://" ++ r))).
Proof. exact (fun f => conj (looks_gzipped_spec f) (looks_like_url_spec f)). Qed.

Example C16_example :
  looks_gzipped "hp.json.gz" = true /\ looks_gzipped "hp.gz.json" = false /\ looks_gzipped ".gz" = true /\ looks_gzipped "gz" = false /\
  open_for_reading (AStr "a/b.hpoa.gz") = Ok (ROpen false true) /\ open_for_writing (AStr "x.csv") = Ok (WOpen false).
Proof. vm_compute. repeat split; reflexivity. Qed.
