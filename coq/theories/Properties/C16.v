(* C16 - Readers and writers treat paths, gzip paths and open streams alike.
   Statements only; proofs in Io/Proofs.v.  The theorem is about the helper's decision table and
   what each decision does to the content - which encoding and which newline mode the text layer
   uses - for ANY bytes type and ANY codecs satisfying the two round-trip laws (hypotheses, not axioms).  Which Python object falls into which kind, and the
   codecs themselves (UTF-8, gzip), are runtime behaviour: the correspondence executes the full
   product of source kinds and readers / writers. *)
From Coq Require Import String Ascii List Bool Arith.
From Hpotk Require Import Base.Result Base.Str Io.Model Io.Proofs.
Import ListNotations.
Open Scope string_scope.

(* every reader built on the helper sees the same text of the content c whichever kind of source
   carries it - stored in the requested encoding behind a name (plain or gzip, local or URL) or a binary
   stream: the content with its line endings translated (seen a c = universal c); a caller's own text
   stream yields its text as it is (seen a c = c).  Nothing is assumed of the locale's codec: no handle
   the helper creates uses it.  Any other kind of argument is rejected with ValueError *)
Theorem C16_read_uniform : forall (bytes : Type) (encode : encsel -> string -> bytes) (decode : encsel -> bytes -> string) (gzip gunzip : bytes -> bytes),
  (forall c, decode EncParam (encode EncParam c) = c) -> (forall b, gunzip (gzip b) = b) ->
  forall (a : arg) (c : string),
  match open_for_reading a with
  | Ok p => a <> AOther /\ read_text bytes decode gunzip p (materialise bytes encode gzip a c) = Some (seen a c)
  | Err e => a = AOther /\ e = ValueError
  end.
Proof. exact read_uniform. Qed.

(* ... in particular the same content with LF, CR LF or CR line endings is seen as the same text
   through every handle the helper opens, a text stream opened the default way on the same file yields
   that very text, and no reader ever sees a carriage return *)
Theorem C16_line_endings : forall (s : string), has_cr s = false ->
  universal s = s /\ universal (with_ending (String crc (String lf "")) s) = s /\ universal (with_ending (String crc "") s) = s.
Proof. exact (fun s H => conj (universal_id s H) (conj (universal_crlf s H) (universal_cr_only s H))). Qed.
Theorem C16_no_carriage_return : forall (s : string), has_cr (universal s) = false /\ universal (universal s) = universal s.
Proof. exact (fun s => conj (universal_no_cr s) (universal_idem s)). Qed.
Theorem C16_read_uniform_all_kinds : forall (bytes : Type) (encode : encsel -> string -> bytes) (decode : encsel -> bytes -> string) (gzip gunzip : bytes -> bytes),
  (forall c, decode EncParam (encode EncParam c) = c) -> (forall b, gunzip (gzip b) = b) ->
  forall (a : arg) (c : string) (p : rplan), open_for_reading a = Ok p ->
  read_text bytes decode gunzip p (materialise bytes encode gzip a (match a with ATextStream => universal c | _ => c end)) = Some (universal c).
Proof. exact read_uniform_all_kinds. Qed.

(* the text layers the helper creates: requested encoding and universal newlines for every reader,
   requested encoding - never the locale's - for every writer *)
Theorem C16_layers : forall (a : arg),
  (forall p l, open_for_reading a = Ok p -> rplan_layer p = Some l -> l = {| l_enc := EncParam; l_nl := NlUniversal |}) /\
  (forall p l, open_for_writing a = Ok p -> wplan_layer p = Some l -> l_enc l = EncParam).
Proof. exact (fun a => conj (read_layer a) (write_layer_enc a)). Qed.

(* every writer leaves in a target of each kind exactly the material that kind of source carries for
   c - and a reader of the same kind reads c back.  Stated for a platform whose os.linesep is LF (the
   third argument of `written`): the plain-path writer uses universal-newline output and the .gz-path
   writer newline='', which differ where os.linesep is CR LF (Io.Proofs.write_newline_platform_caveat;
   not executable in this sandbox) *)
Theorem C16_write_uniform : forall (bytes : Type) (encode : encsel -> string -> bytes) (decode : encsel -> bytes -> string) (gzip gunzip : bytes -> bytes),
  (forall c, decode EncParam (encode EncParam c) = c) -> (forall b, gunzip (gzip b) = b) ->
  forall (a : arg) (c : string),
  match open_for_writing a, open_for_reading a with
  | Ok w, Ok r => a <> AOther /\ written bytes encode gzip (String lf "") w c = materialise bytes encode gzip a c /\
                  read_text bytes decode gunzip r (written bytes encode gzip (String lf "") w c) = Some (seen a c)
  | Err e, Err e' => a = AOther /\ e = ValueError /\ e' = ValueError
  | _, _ => False
  end.
Proof. exact write_uniform. Qed.

(* "name ending in .gz" / "starts with http:// or https://" *)
Theorem C16_suffix_and_url_tests : forall (f : string),
  (looks_gzipped f = true <-> exists p, f = p ++ ".gz") /\
  (looks_like_url f = true <-> ((exists r, f = "http://" ++ r) \/ (exists r, f = "https://" ++ r))).
Proof. exact (fun f => conj (looks_gzipped_spec f) (looks_like_url_spec f)). Qed.

Example C16_example :
  looks_gzipped "hp.json.gz" = true /\ looks_gzipped "hp.gz.json" = false /\ looks_gzipped ".gz" = true /\ looks_gzipped "gz" = false /\
  open_for_reading (AStr "a/b.hpoa.gz") = Ok (ROpen false true {| l_enc := EncParam; l_nl := NlUniversal |}) /\
  open_for_writing (AStr "x.csv") = Ok (WOpen false {| l_enc := EncParam; l_nl := NlUniversal |}) /\
  universal (String "a"%char (String crc (String lf (String "b"%char (String crc (String "c"%char (String lf "")))))))
  = String "a" (String lf (String "b" (String lf (String "c" (String lf ""))))).
Proof. vm_compute. repeat split; reflexivity. Qed.
