(* C13 - Term-id argsort always returns a permutation of the input positions.
   Statements only; proofs in Sort/Proofs.v.  `oracle` stands for the similarity measure together
   with numpy's argmax and the epsilon test: it decides, from the round number and the current
   clusters, which two clusters are merged - the theorems hold for EVERY oracle, hence for edge
   distance and for any IC function (all-zero, ties, negative values included).  Ids are compared
   by equality only (naturals here): TermIds and identified objects with those ids give the same
   id sequence (to_term_id), hence the same result; the model is a function, so repeated calls agree. *)
From Coq Require Import List Bool Arith Permutation.
From Hpotk Require Import Sort.Model Sort.Proofs.
From Coq Require Import ZArith.
From Hpotk Require Import Sort.Argmax.
Import ListNotations.

(* every non-empty sequence, repeats allowed: each position 0..n-1 exactly once, and indexing the
   input with the result re-orders it without losing or duplicating an item *)
Theorem C13_argsort_is_a_permutation : forall (oracle : nat -> list tree -> decision) (ids : list nat),
  ids <> [] ->
  exists l, argsort oracle ids = Some l /\
    Permutation l (seq 0 (length ids)) /\ NoDup l /\
    Permutation (map (fun i => nth i ids 0) l) ids.
Proof. exact argsort_perm. Qed.

Theorem C13_single_item : forall (oracle : nat -> list tree -> decision) (i : nat), argsort oracle [i] = Some [0].
Proof. exact argsort_single. Qed.

(* the clustering loop by itself: one tree, its tagged leaves in order = the input ids, each occurrence once *)
Theorem C13_cluster_keeps_every_leaf : forall (oracle : nat -> list tree -> decision) (fuel k : nat) (nodes : list tree),
  nodes <> [] -> length nodes <= fuel ->
  exists t, cluster oracle fuel k nodes = [t] /\ Permutation (leaves t) (all_leaves nodes).
Proof. exact cluster_leaves. Qed.

(* mapping the ordered ids back to input positions *)
Theorem C13_find_indices : forall (source ordered : list nat), Permutation ordered source ->
  exists l, find_indices source ordered = Some l /\ Permutation l (seq 0 (length source)) /\ NoDup l /\
            map (fun i => nth i source 0) l = ordered.
Proof. exact find_indices_perm. Qed.

(* non-vacuity: a sequence with a repeated id through a replayed decision list *)
Example C13_example : argsort (replay [DPair 0 2; DLast; DPair 1 0]) [7; 8; 7; 9] = Some [0; 2; 3; 1].
Proof. vm_compute. reflexivity. Qed.

(* the loop in full - similarity matrix (symmetric, zero diagonal), first-position argmax over the flattened matrix,
   epsilon test, pops, the extra call of the arbitrary branch - driven by the stream of values the measure returns:
   WHATEVER those values are (any measure, ties, all zero, negative, a negative epsilon), when the loop completes the
   answer lists every position exactly once and indexing the input with it re-orders the input without losing or
   duplicating an item *)
Theorem C13_argsort_from_similarity_values : forall (zero eps : Z) (ids : list nat) (vals : list Z) (res : list nat),
  argsort_vals zero eps ids vals = Some res ->
  Permutation res (seq 0 (length ids)) /\ NoDup res /\ Permutation (map (fun i => nth i ids 0) res) ids.
Proof. exact argsort_vals_permutation. Qed.

(* numpy's argmax on a non-empty flattened matrix is one of its positions *)
Theorem C13_argmax_in_range : forall (l : list Z), l <> [] -> argmax l < length l.
Proof. exact argmax_in_range. Qed.
