(* C07 - Ontology store cache stays correct under repeats, failures, crashes and races.
   Statements only; proofs in Store/Proofs.v.  The world is a file system plus any number of loaders,
   each with its own fault plan (fetch raises | read raises | write fails after k bytes | none); an
   action advances ONE loader by ONE I/O boundary (isfile, fetch, mkstemp, read, write+close,
   os.replace, load), kills a loader at any point, starts a new load, or clears one type / the store.
   PARTIAL: power-loss durability (fsync) and non-POSIX rename semantics are outside the model:
   os.replace is assumed atomic; mkstemp names are assumed unique and never equal to a cache location. *)
From Hpotk Require Import Store.Paths.
From Coq Require Import String List Bool Arith.
From Hpotk Require Import Base.Result Base.Str Store.Model Store.Proofs Store.Republish.
Import ListNotations.

(* in EVERY reachable world - any number of loaders, any interleaving, any fault, any kill point, any
   clears in between - each cache location is absent or holds exactly the bytes the remote serves
   for it: no incomplete file is ever left or observed there *)
Theorem C07_no_incomplete_file_ever : forall (remote : otype -> string -> bytes) (acts : list action) (w : world),
  Inv remote w -> valid_run remote w acts -> Inv remote (run remote w acts).
Proof. exact atomicity_invariant. Qed.

Theorem C07_invariant_initially : forall (remote : otype -> string -> bytes), Inv remote (mkWorld [] [] []).
Proof. exact empty_world_inv. Qed.

Theorem C07_invariant_means : forall (remote : otype -> string -> bytes) (w : world), Inv remote w ->
  forall t r b, fget (w_fs w) (Final t r) = Some b -> b = remote t r.
Proof. exact (fun remote w H => inv_final remote w H). Qed.

(* a release is fetched only when no local copy exists: a fetch happens only at the boundary after
   an isfile that found the cache location absent ... *)
Theorem C07_fetch_only_on_miss : forall (remote : otype -> string -> bytes) (w : world) (i : nat),
  w_fetches (do_action remote w (Step i)) <> w_fetches w ->
  exists l, nth_error (w_loaders w) i = Some l /\ l_pc l = PMiss /\
            w_fetches (do_action remote w (Step i)) = (l_type l, l_release l) :: w_fetches w.
Proof. exact fetch_only_on_miss. Qed.

Theorem C07_miss_means_absent : forall (remote : otype -> string -> bytes) (fs : fsys) (l : loader) (fs' : fsys) (fetched : bool),
  l_pc l = PStart -> advance remote fs l = (fs', PMiss, fetched) ->
  fget fs (Final (l_type l) (l_release l)) = None /\ fs' = fs /\ fetched = false.
Proof. exact miss_means_absent. Qed.

(* ... and a load that finds a complete copy performs no fetch, writes nothing and returns exactly
   the ontology of those bytes *)
Theorem C07_cache_hit : forall (remote : otype -> string -> bytes) (w : world) (l : loader),
  fget (w_fs w) (Final (l_type l) (l_release l)) = Some (remote (l_type l) (l_release l)) ->
  let w2 := solo remote (do_action remote w (Spawn l)) (length (w_loaders w)) 2 in
  w_fetches w2 = w_fetches w /\ w_fs w2 = w_fs w /\
  w_loaders w2 = w_loaders w ++ [set_pc l (PDone (remote (l_type l) (l_release l)))].
Proof. exact cache_hit. Qed.

(* what is loaded equals loading the served bytes directly *)
Theorem C07_loaded_equals_direct : forall (remote : otype -> string -> bytes) (w : world) (i : nat) (l : loader) (b : bytes),
  Inv remote w -> nth_error (w_loaders w) i = Some l ->
  forall w', w' = do_action remote w (Step i) -> forall l', nth_error (w_loaders w') i = Some l' ->
  l_pc l' = PDone b -> l_pc l = PDone b \/ b = remote (l_type l) (l_release l).
Proof. exact loaded_equals_direct. Qed.

(* after ANY history a later load from a healthy remote succeeds, and leaves a complete copy *)
Theorem C07_recovery : forall (remote : otype -> string -> bytes) (w : world) (l : loader),
  Inv remote w -> l_fault l = NoFault -> ~ In (tkey l) (map tkey (w_loaders w)) ->
  let i := length (w_loaders w) in
  let w' := solo remote (do_action remote w (Spawn l)) i 8 in
  nth_error (w_loaders w') i = Some (set_pc l (PDone (remote (l_type l) (l_release l)))) /\
  fget (w_fs w') (Final (l_type l) (l_release l)) = Some (remote (l_type l) (l_release l)) /\
  Inv remote w'.
Proof. exact recovery. Qed.

(* omitting the release selects the greatest available tag; no tag: ValueError *)
Theorem C07_latest_is_greatest : forall (tags : list string),
  (tags = [] -> latest tags = Err ValueError) /\
  (tags <> [] -> exists m, latest tags = Ok m /\ In m tags /\ forall x, In x tags -> sltb m x = false).
Proof. exact latest_spec. Qed.

(* clearing one type removes exactly that type's files; clearing everything empties the store *)
Theorem C07_clear : forall (remote : otype -> string -> bytes) (w : world) (t : otype) (p : path),
  fget (w_fs (do_action remote w (ClearType t))) p = (if Nat.eqb (path_type p) t then None else fget (w_fs w) p) /\
  w_fs (do_action remote w ClearAll) = [].
Proof.
  exact (fun remote w t p => conj
    (eq_trans (fget_filter (fun q => negb (Nat.eqb (path_type q) t)) (w_fs w) p)
              (match Nat.eqb (path_type p) t as b return (if negb b then fget (w_fs w) p else None) = (if b then None else fget (w_fs w) p)
               with true => eq_refl | false => eq_refl end))
    eq_refl).
Qed.

(* the NAMES behind the structured paths of the model (relative to the store directory):
   <ID>/<id>.<release>.json for a cache location, that name + "." + <random> + ".tmp" for a temporary file.
   Classifying a name found under the store directory is a left inverse of both naming functions, hence cache
   locations of different (type, release) pairs are different files, a temporary file is never a cache location
   (whatever the release string looks like), temporary files with different random parts differ, and everything
   classified with a type lies in that type's directory - the one clear(type) removes *)
Theorem C07_names : forall (t : otype) (r rnd : string), t < 3 ->
  classify (final_name t r) = CFinal t r /\ classify (temp_name t r rnd) = CTemp t (base_name t r ++ "." ++ rnd ++ ".tmp")%string.
Proof. exact (fun t r rnd H => conj (classify_final t r H) (classify_temp t r rnd H)). Qed.

Theorem C07_names_distinct : forall (t t' : otype) (r r' rnd rnd' : string), t < 3 -> t' < 3 ->
  (final_name t r = final_name t' r' -> t = t' /\ r = r') /\
  temp_name t r rnd <> final_name t' r' /\
  (temp_name t r rnd = temp_name t r rnd' -> rnd = rnd').
Proof. exact (fun t t' r r' rnd rnd' H H' => conj (final_name_injective t r t' r' H H') (conj (temp_is_not_final t r rnd t' r' H H') (temp_name_injective t r rnd rnd'))). Qed.

Theorem C07_names_type_directory : forall (s : string) (t : otype), class_type (classify s) = Some t ->
  exists b, s = (type_id t ++ "/" ++ b)%string /\ t < 3.
Proof. exact classify_type. Qed.

(* the remote re-publishes a tag with other content (the remote is a parameter of the model, so this is a change of
   parameter): once the store was cleared and no load is in flight, EVERYTHING above holds again for the new remote - after
   clear() for any new remote, after clear(type) for one that differs in that type only - and the next load asks the
   remote again, stores exactly the NEW bytes and loads them.  A loader that already holds the old bytes in memory while
   the tag is re-published is outside the statement. *)
Theorem C07_republished_tag : forall (remote remote' : otype -> string -> bytes) (w : world) (l : loader),
  Inv remote w -> quiescent w -> l_fault l = NoFault -> ~ In (tkey l) (map tkey (w_loaders w)) ->
  let w1 := do_action remote w ClearAll in
  let i := length (w_loaders w1) in
  let w' := solo remote' (do_action remote' w1 (Spawn l)) i 8 in
  nth_error (w_loaders w') i = Some (set_pc l (PDone (remote' (l_type l) (l_release l)))) /\
  fget (w_fs w') (Final (l_type l) (l_release l)) = Some (remote' (l_type l) (l_release l)) /\
  w_fetches w' = (l_type l, l_release l) :: w_fetches w /\
  Inv remote' w'.
Proof. exact republished_after_clear_all. Qed.

Theorem C07_republished_tag_one_type : forall (remote remote' : otype -> string -> bytes) (w : world) (l : loader),
  Inv remote w -> quiescent w -> l_fault l = NoFault -> ~ In (tkey l) (map tkey (w_loaders w)) ->
  (forall t' r, t' <> l_type l -> remote' t' r = remote t' r) ->
  let w1 := do_action remote w (ClearType (l_type l)) in
  let i := length (w_loaders w1) in
  let w' := solo remote' (do_action remote' w1 (Spawn l)) i 8 in
  nth_error (w_loaders w') i = Some (set_pc l (PDone (remote' (l_type l) (l_release l)))) /\
  fget (w_fs w') (Final (l_type l) (l_release l)) = Some (remote' (l_type l) (l_release l)) /\
  w_fetches w' = (l_type l, l_release l) :: w_fetches w /\
  Inv remote' w'.
Proof. exact republished_after_clear_type. Qed.
