(* Executable model of src/hpotk/algorithm/similarity/_resnik.py
     precalculate_ic_mica_for_hpo_concept_pairs / _get_common_ancestors
   on top of the helpers model (C18), the graph model (C01) and the similarity container (C15).
   IC values are integers: the harness uses dyadic floats scaled by a power of two, for which
   max, > 0 and equality are exact.  Definitions only. *)
From Coq Require Import String List Bool Arith ZArith.
From Hpotk Require Import Base.Result Base.Str Base.Ord TermId.Model Graph.Model Ontology.Model Helpers.Model Sim.Model Validate.Model.
Import ListNotations.
Open Scope list_scope.

Definition icmap : Type := list (key * Z).
(* ic.get(term_id, 0.) *)
Definition ic_get (ic : icmap) (k : key) : Z := match dget ic k with Some v => v | None => 0%Z end.

Definition zneg (z : Z) : bool := (z <? 0)%Z.

Section Resnik.
Variable g : graph.
Variable ic : icmap.

(* get_ancestors(hpo, x, include_source=True) *)
Definition anc_star (x : key) : res (list key) := helper QAncestors (GAware g) (HTid x) true.

(* la.intersection(ra) *)
Definition common_ancestors (a b : key) : res (list key) :=
  bind (anc_star a) (fun la => bind (anc_star b) (fun lb => Ok (filter (fun x => kmem x lb) la))).

(* functools.reduce(max, map(lambda t: ic.get(t, 0.), common), 0.) *)
Definition ic_mica (a b : key) : res Z :=
  rmap (fun l => fold_left Z.max (map (ic_get ic) l) 0%Z) (common_ancestors a b).

(* for i in range(n): for j in range(i, n) *)
Fixpoint pairs (l : list key) : list (key * key) :=
  match l with
  | [] => []
  | x :: r => map (pair x) (x :: r) ++ pairs r
  end.

(* if left.value < right.value: a, b = left.value, right.value else: a, b = right.value, left.value *)
Definition ord (x y : string) : string * string := if sltb x y then (x, y) else (y, x).

Definition process (s : cont Z) (p : key * key) : res (cont Z) :=
  bind (ic_mica (fst p) (snd p)) (fun m =>
    let '(A, B) := ord (key_value (fst p)) (key_value (snd p)) in
    if (0 <? m)%Z then set_similarity Z zneg s A B (Z.max m (get_similarity Z 0%Z s A B))
    else Ok s).

Fixpoint process_all (s : cont Z) (ps : list (key * key)) : res (cont Z) :=
  match ps with
  | [] => Ok s
  | p :: r => bind (process s p) (fun s' => process_all s' r)
  end.

Definition section_pairs (top : key) : res (list (key * key)) :=
  rmap pairs (helper QDescendants (GAware g) (HTid top) true).

Definition precalculate : res (cont Z) :=
  bind (helper QChildren (GAware g) (HTid PA) false) (fun groups =>
  bind (rsequence (map section_pairs groups)) (fun pss => process_all [] (concat pss))).
End Resnik.
