(* C10: the precomputed Resnik similarity is the IC of the most informative common ancestor. *)
From Coq Require Import String List Bool Arith ZArith Lia Setoid Relations Relation_Operators.
From Hpotk Require Import Base.Result Base.Str Base.Ord TermId.Model TermId.Proofs Graph.Worklist Graph.Model Graph.Spec
  Graph.Front Graph.ApiI Graph.Main Graph.Top Ontology.Model Ontology.Proofs Helpers.Model Helpers.Proofs Sim.Model Sim.Proofs
  Validate.Model Resnik.Model.
Import ListNotations.
Open Scope list_scope.

Lemma ord_norm x y : ord x y = norm x y.
Proof.
  unfold ord, norm, sltb, sleb. destruct (scmp x y) eqn:C; try reflexivity.
  apply scmp_eq_iff in C. subst y. reflexivity.
Qed.

Lemma norm_idem x y : norm (fst (norm x y)) (snd (norm x y)) = norm x y.
Proof.
  pose proof (norm_ordered x y) as H. destruct (norm x y) as [A B]. cbn [fst snd] in *. unfold norm. rewrite H. reflexivity.
Qed.

Lemma find_snoc {A} (f : A -> bool) (l : list A) (x : A) :
  find f (l ++ [x]) = match find f l with Some y => Some y | None => if f x then Some x else None end.
Proof. induction l as [|a l IH]; cbn [app find]; [reflexivity|]. destruct (f a); [reflexivity | exact IH]. Qed.

Lemma zneg_pos m : (0 < m)%Z -> zneg m = false.
Proof. intro H. unfold zneg. apply Z.ltb_ge. lia. Qed.

(* ---------- the processing loop over an abstract MICA function ---------- *)
Section Abstract.
Variable mv : key -> key -> Z.
Variable N : key -> Prop.
Hypothesis inj : forall x y, N x -> N y -> key_value x = key_value y -> x = y.
Hypothesis sym : forall x y, N x -> N y -> mv x y = mv y x.

Definition pproc (s : cont Z) (p : key * key) : cont Z :=
  let m := mv (fst p) (snd p) in
  let '(A, B) := ord (key_value (fst p)) (key_value (snd p)) in
  if (0 <? m)%Z then
    match set_similarity Z zneg s A B (Z.max m (get_similarity Z 0%Z s A B)) with Ok s' => s' | Err _ => s end
  else s.

Definition slot (q : key * key) : pair := norm (key_value (fst q)) (key_value (snd q)).
Definition hit (p : pair) (q : key * key) : bool := pair_eqb (slot q) p && (0 <? mv (fst q) (snd q))%Z.
Definition expected (Q : list (key * key)) (p : pair) : option Z :=
  option_map (fun q => mv (fst q) (snd q)) (find (hit p) Q).

Definition NN (q : key * key) : Prop := N (fst q) /\ N (snd q).

Lemma same_slot_same_mv q q' : NN q -> NN q' -> slot q = slot q' -> mv (fst q) (snd q) = mv (fst q') (snd q').
Proof.
  intros [H1 H2] [H3 H4] E. unfold slot in E. apply norm_same_pair in E. destruct E as [[E1 E2]|[E1 E2]].
  - apply inj in E1; [|assumption|assumption]. apply inj in E2; [|assumption|assumption]. rewrite E1, E2. reflexivity.
  - apply inj in E1; [|assumption|assumption]. apply inj in E2; [|assumption|assumption]. rewrite E1, E2. apply sym; assumption.
Qed.

Lemma loop_invariant (Q : list (key * key)) : (forall q, In q Q -> NN q) ->
  forall p, stored Z (fold_left pproc Q []) p = expected Q p.
Proof.
  induction Q as [|q Q IH] using rev_ind; intros HN p; [reflexivity|].
  rewrite fold_left_app. cbn [fold_left].
  assert (HNQ : forall x, In x Q -> NN x) by (intros x Hx; apply HN; apply in_or_app; left; exact Hx).
  assert (Hq : NN q) by (apply HN; apply in_or_app; right; left; reflexivity).
  specialize (IH HNQ). set (s := fold_left pproc Q []) in *.
  unfold expected. rewrite find_snoc. fold (expected Q p).
  unfold pproc. rewrite ord_norm. fold (slot q). set (m := mv (fst q) (snd q)).
  destruct (slot q) as [A B] eqn:SL.
  destruct (0 <? m)%Z eqn:Pm.
  - apply Z.ltb_lt in Pm.
    assert (NAB : norm A B = (A, B)).
    { pose proof (norm_idem (key_value (fst q)) (key_value (snd q))) as I. fold (slot q) in I. rewrite SL in I. exact I. }
    assert (G : Z.max m (get_similarity Z 0%Z s A B) = m).
    { rewrite get_stored, NAB, IH. unfold expected. destruct (find (hit (A, B)) Q) as [q'|] eqn:F; cbn [option_map]; [|lia].
      apply find_some in F. destruct F as [Hin Hh]. unfold hit in Hh. apply andb_prop in Hh. destruct Hh as [Hs _].
      apply pair_eqb_eq in Hs. rewrite (same_slot_same_mv q' q (HNQ _ Hin) Hq); [fold m; lia | rewrite Hs, SL; reflexivity]. }
    rewrite G. destruct (set_similarity Z zneg s A B m) as [s'|e] eqn:ST.
    2:{ unfold set_similarity in ST. rewrite (zneg_pos m Pm) in ST. destruct (norm A B); discriminate. }
    destruct (stored_set Z zneg s A B m s' ST) as [_ St]. rewrite St, NAB. clear St.
    destruct (pair_eqb p (A, B)) eqn:K.
    + apply pair_eqb_eq in K. subst p. unfold expected. destruct (find (hit (A, B)) Q) as [q'|] eqn:F; cbn [option_map].
      * apply find_some in F. destruct F as [Hin Hh]. unfold hit in Hh. apply andb_prop in Hh. destruct Hh as [Hs _].
        apply pair_eqb_eq in Hs. f_equal. symmetry. apply (same_slot_same_mv q' q (HNQ _ Hin) Hq). rewrite Hs, SL. reflexivity.
      * unfold hit. rewrite SL. assert (R : pair_eqb (A, B) (A, B) = true) by (apply pair_eqb_eq; reflexivity).
        rewrite R. fold m. assert (R2 : (0 <? m)%Z = true) by (apply Z.ltb_lt; exact Pm). rewrite R2. reflexivity.
    + rewrite IH. unfold expected. destruct (find (hit p) Q); [reflexivity|]. unfold hit. rewrite SL.
      assert (R : pair_eqb (A, B) p = false).
      { destruct (pair_eqb (A, B) p) eqn:R; [|reflexivity]. apply pair_eqb_eq in R. subst p.
        assert (pair_eqb (A, B) (A, B) = true) by (apply pair_eqb_eq; reflexivity). congruence. }
      rewrite R. reflexivity.
  - rewrite IH. unfold expected. destruct (find (hit p) Q); [reflexivity|]. unfold hit. fold m. rewrite Pm, andb_false_r. reflexivity.
Qed.

(* what can be read back after the loop *)
Theorem loop_reads (Q : list (key * key)) : (forall q, In q Q -> NN q) ->
  let s := fold_left pproc Q [] in
  forall a b, N a -> N b ->
  let v := get_similarity Z 0%Z s (key_value a) (key_value b) in
  v = get_similarity Z 0%Z s (key_value b) (key_value a) /\
  (v = 0 \/ (v = mv a b /\ 0 < v))%Z /\
  ((In (a, b) Q \/ In (b, a) Q) -> v = Z.max 0 (mv a b)) /\
  (forall p w, stored Z s p = Some w -> (0 < w)%Z).
Proof.
  intros HN s a b Ha Hb v.
  assert (Hv : v = match expected Q (slot (a, b)) with Some w => w | None => 0%Z end).
  { unfold v. rewrite get_stored. unfold s. rewrite loop_invariant by exact HN. reflexivity. }
  assert (Hexp : forall p w, expected Q p = Some w -> exists q, In q Q /\ slot q = p /\ w = mv (fst q) (snd q) /\ (0 < w)%Z).
  { intros p w H. unfold expected in H. destruct (find (hit p) Q) as [q|] eqn:F; [|discriminate]. cbn in H. inversion H; subst w.
    apply find_some in F. destruct F as [Hin Hh]. unfold hit in Hh. apply andb_prop in Hh. destruct Hh as [H1 H2].
    apply pair_eqb_eq in H1. apply Z.ltb_lt in H2. exists q. auto. }
  split; [|split; [|split]].
  - unfold v. rewrite !get_stored, (norm_sym (key_value a)). reflexivity.
  - rewrite Hv. destruct (expected Q (slot (a, b))) as [w|] eqn:E; [|left; reflexivity]. right.
    destruct (Hexp _ _ E) as (q & Hin & Hs & Hw & Hpos). split; [|exact Hpos]. rewrite Hw.
    apply (same_slot_same_mv q (a, b) (HN _ Hin)); [split; assumption | exact Hs].
  - intro Hin. rewrite Hv.
    assert (exists q, In q Q /\ slot q = slot (a, b) /\ mv (fst q) (snd q) = mv a b) as (q0 & Hq0 & Hs0 & Hm0).
    { destruct Hin as [Hin|Hin]; [exists (a, b); auto|]. exists (b, a). split; [exact Hin|]. split; [apply norm_sym | apply sym; assumption]. }
    destruct (expected Q (slot (a, b))) as [w|] eqn:E.
    + destruct (Hexp _ _ E) as (q & Hq & Hs & Hw & Hpos).
      assert (w = mv a b). { rewrite Hw. apply (same_slot_same_mv q (a, b) (HN _ Hq)); [split; assumption | exact Hs]. }
      lia.
    + (* nothing stored: the value is not positive *)
      unfold expected in E. destruct (find (hit (slot (a, b))) Q) as [q|] eqn:F; [discriminate|].
      pose proof (find_none _ _ F q0 Hq0) as Hn. unfold hit in Hn. rewrite Hs0 in Hn.
      assert (R : pair_eqb (slot (a, b)) (slot (a, b)) = true) by (apply pair_eqb_eq; reflexivity).
      rewrite R, Hm0 in Hn. cbn [andb] in Hn. apply Z.ltb_ge in Hn. lia.
  - intros p w H. unfold s in H. rewrite loop_invariant in H by exact HN. destruct (Hexp _ _ H) as (_ & _ & _ & _ & Hpos). exact Hpos.
Qed.
End Abstract.

(* ---------- folding max ---------- *)
Lemma fold_max_spec (l : list Z) : forall i, let m := fold_left Z.max l i in
  (i <= m)%Z /\ (forall x, In x l -> (x <= m)%Z) /\ (m = i \/ In m l).
Proof.
  induction l as [|a l IH]; intro i; cbn [fold_left].
  - split; [lia|]. split; [intros x []|left; reflexivity].
  - destruct (IH (Z.max i a)) as (H1 & H2 & H3). split; [lia|]. split.
    + intros x [->|Hx]; [lia | apply H2; exact Hx].
    + destruct H3 as [H3|H3]; [|right; right; exact H3].
      destruct (Z.max_spec i a) as [[_ E]|[_ E]]; rewrite E in *; [right; left; symmetry; exact H3 | left; exact H3].
Qed.

(* ---------- values are injective on parsed term ids ---------- *)
Lemma key_value_inj (x y : key) : smem colon (fst x) = false -> smem colon (fst y) = false ->
  key_value x = key_value y -> x = y.
Proof.
  destruct x as [p i], y as [q j]. cbn [fst]. intros Hp Hq E. unfold key_value in E. cbn [fst snd append] in E.
  destruct (reparse_of_key p i Hp) as (t1 & P1 & A1 & B1). destruct (reparse_of_key q j Hq) as (t2 & P2 & A2 & B2).
  unfold colon in P1, P2. rewrite E in P1. rewrite P1 in P2. inversion P2; subst t2. congruence.
Qed.

Section Built.
Variable f : factory.
Variable es : list edge.
Variable g : graph.
Hypothesis HW : WfInput es.
Hypothesis HC : create f es = Ok g.
Variable ic : icmap.
(* every node is a parsed term id: its prefix contains no ':' (C04: parsed_prefix_no_colon) *)
Hypothesis Hcolon : forall x, node_of es x -> smem colon (fst x) = false.

Definition up (x c : key) : Prop := c = x \/ ancestor es x c.

(* the declarative value: max(0, max IC over the common ancestors, each term its own ancestor) *)
Definition mica_value (a b : key) (m : Z) : Prop :=
  (0 <= m)%Z /\ (forall c, up a c -> up b c -> (ic_get ic c <= m)%Z) /\
  (m = 0%Z \/ exists c, up a c /\ up b c /\ ic_get ic c = m).

Lemma mica_value_unique a b m m' : mica_value a b m -> mica_value a b m' -> m = m'.
Proof.
  intros (H1 & H2 & H3) (K1 & K2 & K3).
  assert (m <= m')%Z by (destruct H3 as [->|(c & U1 & U2 & <-)]; [exact K1 | exact (K2 c U1 U2)]).
  assert (m' <= m)%Z by (destruct K3 as [->|(c & U1 & U2 & <-)]; [exact H1 | exact (H2 c U1 U2)]).
  lia.
Qed.

Lemma mica_value_sym a b m : mica_value a b m -> mica_value b a m.
Proof.
  intros (H1 & H2 & H3). split; [exact H1|]. split; [intros c U1 U2; exact (H2 c U2 U1)|].
  destruct H3 as [H3|(c & U1 & U2 & E)]; [left; exact H3 | right; exists c; auto].
Qed.

Lemma anc_star_spec x : node_of es x ->
  exists l, anc_star g x = Ok l /\ forall y, In y l <-> up x y.
Proof.
  intro Hn. destruct (proj1 (helper_spec f es g HW HC QAncestors (GAware g) (HTid x) x true (or_intror eq_refl) (hden_tid x)) Hn)
    as (l & Hl & _ & Hin & _).
  exists l. split; [exact Hl|]. intro y. rewrite Hin. cbn [rel]. unfold up.
  split; [intros [H|[_ H]]; auto | intros [H|H]; auto].
Qed.

Lemma ic_mica_spec a b : node_of es a -> node_of es b -> exists m, ic_mica g ic a b = Ok m /\ mica_value a b m.
Proof.
  intros Ha Hb. destruct (anc_star_spec a Ha) as (la & Hla & Ia). destruct (anc_star_spec b Hb) as (lb & Hlb & Ib).
  unfold ic_mica, common_ancestors. rewrite Hla, Hlb. cbn [bind rmap]. eexists. split; [reflexivity|].
  set (cm := filter (fun x => kmem x lb) la).
  assert (Icm : forall c, In c cm <-> (up a c /\ up b c)).
  { intro c. unfold cm. rewrite filter_In, kmem_in, Ia, Ib. reflexivity. }
  destruct (fold_max_spec (map (ic_get ic) cm) 0%Z) as (H1 & H2 & H3). split; [exact H1|]. split.
  - intros c U1 U2. apply H2. apply in_map. apply Icm. auto.
  - destruct H3 as [H3|H3]; [left; exact H3|]. right. apply in_map_iff in H3. destruct H3 as (c & E & Hc).
    apply Icm in Hc. exists c. tauto.
Qed.

Definition mv (a b : key) : Z := match ic_mica g ic a b with Ok m => m | Err _ => 0%Z end.

Lemma mv_spec a b : node_of es a -> node_of es b -> ic_mica g ic a b = Ok (mv a b) /\ mica_value a b (mv a b).
Proof. intros Ha Hb. destruct (ic_mica_spec a b Ha Hb) as (m & Hm & Hv). unfold mv. rewrite Hm. auto. Qed.

Lemma mv_sym a b : node_of es a -> node_of es b -> mv a b = mv b a.
Proof.
  intros Ha Hb. apply (mica_value_unique a b); [exact (proj2 (mv_spec a b Ha Hb))|].
  apply mica_value_sym. exact (proj2 (mv_spec b a Hb Ha)).
Qed.

Lemma value_inj x y : node_of es x -> node_of es y -> key_value x = key_value y -> x = y.
Proof. intros Hx Hy. apply key_value_inj; apply Hcolon; assumption. Qed.

Lemma process_pure s q : NN (node_of es) q -> process g ic s q = Ok (pproc mv s q).
Proof.
  intros [H1 H2]. unfold process, pproc. rewrite (proj1 (mv_spec _ _ H1 H2)). cbn [bind].
  destruct (ord (key_value (fst q)) (key_value (snd q))) as [A B].
  destruct (0 <? mv (fst q) (snd q))%Z eqn:P; [|reflexivity]. apply Z.ltb_lt in P.
  destruct (set_ok Z zneg s A B (Z.max (mv (fst q) (snd q)) (get_similarity Z 0%Z s A B))) as [s' Hs'].
  - apply zneg_pos. lia.
  - rewrite Hs'. reflexivity.
Qed.

Lemma process_all_pure Q : (forall q, In q Q -> NN (node_of es) q) -> forall s,
  process_all g ic s Q = Ok (fold_left (pproc mv) Q s).
Proof.
  induction Q as [|q Q IH]; intros HN s; cbn [process_all fold_left]; [reflexivity|].
  rewrite (process_pure s q (HN q (or_introl eq_refl))). cbn [bind]. apply IH. intros x Hx. apply HN. right. exact Hx.
Qed.

Lemma pairs_in l a b : In (a, b) (pairs l) -> In a l /\ In b l.
Proof.
  induction l as [|x l IH]; cbn [pairs]; [intros []|]. rewrite in_app_iff, in_map_iff. intros [(y & E & Hy)|H].
  - inversion E; subst. split; [left; reflexivity | exact Hy].
  - destruct (IH H). split; right; assumption.
Qed.

Lemma pairs_complete l a b : In a l -> In b l -> In (a, b) (pairs l) \/ In (b, a) (pairs l).
Proof.
  induction l as [|x l IH]; [intros []|]. cbn [pairs]. intros [->|Ha] [->|Hb].
  - left. apply in_or_app. left. apply in_map. left. reflexivity.
  - left. apply in_or_app. left. apply in_map. right. exact Hb.
  - right. apply in_or_app. left. apply in_map. right. exact Ha.
  - destruct (IH Ha Hb) as [H|H]; [left | right]; apply in_or_app; right; exact H.
Qed.

Lemma ancestor_nodes x y : ancestor es x y -> node_of es x /\ node_of es y.
Proof.
  intro H.
  assert (L : forall a b, is_a es a b -> node_of es a /\ node_of es b).
  { intros a b [E|(Hmr & Hp & ->)].
    - split; left; [exists b; left; exact E | exists a; right; exact E].
    - split; [left; apply parentless_mentions; exact Hp | right; auto]. }
  unfold ancestor in H. induction H as [a b Hs|a b c _ [IH1 _] _ [_ IH2]]; [exact (L a b Hs) | auto].
Qed.

Definition below (x top : key) : Prop := x = top \/ ancestor es x top.
Definition same_branch (a b : key) : Prop := exists top, is_a es top PA /\ below a top /\ below b top.

Definition desc_list (top : key) : list key :=
  match helper QDescendants (GAware g) (HTid top) true with Ok l => l | Err _ => [] end.

Lemma desc_list_spec top : node_of es top ->
  helper QDescendants (GAware g) (HTid top) true = Ok (desc_list top) /\ forall y, In y (desc_list top) <-> below y top.
Proof.
  intro Hn. unfold desc_list.
  destruct (proj1 (helper_spec f es g HW HC QDescendants (GAware g) (HTid top) top true (or_intror eq_refl) (hden_tid top)) Hn)
    as (l & Hl & _ & Hin & _).
  rewrite Hl. split; [reflexivity|]. intro y. rewrite Hin. cbn [rel]. unfold below.
  split; [intros [H|[_ H]]; auto | intros [H|H]; auto].
Qed.

(* the property *)
Theorem resnik_spec : node_of es PA ->
  exists s, precalculate g ic = Ok s /\
    (forall a b, node_of es a -> node_of es b ->
       exists m, mica_value a b m /\
         let v := get_similarity Z 0%Z s (key_value a) (key_value b) in
         v = get_similarity Z 0%Z s (key_value b) (key_value a) /\
         (0 <= v <= m)%Z /\ (v = 0%Z \/ v = m) /\
         (same_branch a b -> v = m)) /\
    (forall p w, stored Z s p = Some w -> (0 < w)%Z).
Proof.
  intro Hpa. unfold precalculate.
  destruct (proj1 (helper_spec f es g HW HC QChildren (GAware g) (HTid PA) PA false (or_intror eq_refl) (hden_tid PA)) Hpa)
    as (groups & Hg & _ & Hgin & _).
  rewrite Hg. cbn [bind].
  assert (Hgn : forall top, In top groups -> is_a es top PA /\ node_of es top).
  { intros top Ht. apply Hgin in Ht. cbn [rel] in Ht. destruct Ht as [Ht|[Ht _]]; [|discriminate].
    split; [exact Ht|]. apply (ancestor_nodes top PA). apply t_step. exact Ht. }
  rewrite (rsequence_map_ok _ (fun top => pairs (desc_list top))).
  2:{ intros top Ht. unfold section_pairs. rewrite (proj1 (desc_list_spec top (proj2 (Hgn top Ht)))). reflexivity. }
  cbn [bind]. set (Q := concat (map (fun top => pairs (desc_list top)) groups)).
  assert (HQ : forall q, In q Q -> NN (node_of es) q).
  { intros [a b] Hq. unfold Q in Hq. apply in_concat in Hq. destruct Hq as (l & Hl & Hq). apply in_map_iff in Hl.
    destruct Hl as (top & <- & Ht). apply pairs_in in Hq. destruct Hq as [Ha Hb]. destruct (Hgn top Ht) as [_ Hn].
    apply (desc_list_spec top Hn) in Ha. apply (desc_list_spec top Hn) in Hb.
    assert (B : forall y, below y top -> node_of es y) by (intros y [->|H]; [exact Hn | exact (proj1 (ancestor_nodes y top H))]).
    split; cbn [fst snd]; apply B; assumption. }
  rewrite (process_all_pure Q HQ []). eexists. split; [reflexivity|].
  pose proof (loop_reads mv (node_of es) value_inj mv_sym Q HQ) as LR. cbv zeta in LR. split.
  - intros a b Ha Hb. exists (mv a b). destruct (mv_spec a b Ha Hb) as [_ Hmv]. split; [exact Hmv|].
    destruct (LR a b Ha Hb) as (S1 & S2 & S3 & _). cbv zeta. split; [exact S1|].
    destruct Hmv as (Hm0 & _). split; [destruct S2 as [->|[-> ?]]; lia|]. split; [destruct S2 as [S2|[S2 _]]; auto|].
    intros (top & Ht & Ba & Bb). rewrite S3; [lia|].
    assert (Htg : In top groups) by (apply Hgin; left; exact Ht). destruct (Hgn top Htg) as [_ Hn].
    apply (desc_list_spec top Hn) in Ba. apply (desc_list_spec top Hn) in Bb.
    destruct (pairs_complete _ a b Ba Bb) as [H|H]; [left | right]; unfold Q; apply in_concat;
      exists (pairs (desc_list top)); (split; [apply in_map_iff; exists top; auto | exact H]).
  - intros p w H. destruct (LR PA PA Hpa Hpa) as (_ & _ & _ & S4). exact (S4 p w H).
Qed.

(* an ontology without Phenotypic abnormality: the precomputation raises *)
Theorem resnik_no_pa : ~ node_of es PA -> precalculate g ic = Err ValueError.
Proof.
  intro H. unfold precalculate.
  rewrite (proj2 (helper_spec f es g HW HC QChildren (GAware g) (HTid PA) PA false (or_intror eq_refl) (hden_tid PA)) H). reflexivity.
Qed.
End Built.

Print Assumptions resnik_spec.
Print Assumptions loop_invariant.
