(* Executable model of the module-level traversal helpers:
     src/hpotk/algorithm/_traversal.py   get_ancestors / get_parents / get_descendants / get_children,
                                         exists_path, _check_ontology_graph_is_available, _check_curie_or_term_id
     src/hpotk/algorithm/_augment.py     augment_with_ancestors / augment_with_descendants / _augment_impl
   A frozenset result is modelled by a duplicate-free list (its iteration order is not observable
   through the property).  Definitions only. *)
From Coq Require Import String List Bool Arith ZArith.
From Hpotk Require Import Base.Result Base.Str Base.Ord TermId.Model Csr.Model Graph.Worklist Graph.Model.
Import ListNotations.
Open Scope list_scope.

(* the first argument: an OntologyGraph, something GraphAware (e.g. an ontology), or anything else *)
Inductive gwrap := GGraph (g : graph) | GAware (g : graph) | GOtherG.
(* a source: a CURIE str, a TermId, or anything else (an Identified object is NOT accepted here) *)
Inductive harg := HStr (s : string) | HTid (k : key) | HOther.

Definition check_g (w : gwrap) : res graph :=
  match w with GGraph g | GAware g => Ok g | GOtherG => Err ValueError end.
Definition check_src (a : harg) : res key :=
  match a with HStr s => rmap tkey (from_curie s) | HTid k => Ok k | HOther => Err ValueError end.

(* set(...) of a list: first occurrences *)
Fixpoint dedup (l : list key) : list key :=
  match l with
  | [] => []
  | x :: r => x :: filter (fun y => negb (key_eqb x y)) (dedup r)
  end.

(* builder = set(); if include_source: builder.add(source); builder.update(g.get_<q>(source)) *)
Definition helper (q : query) (w : gwrap) (src : harg) (incl : bool) : res (list key) :=
  bind (check_g w) (fun g =>
  bind (check_src src) (fun k =>
  bind (g_query g q (ATid k) false) (fun l =>
  Ok (dedup ((if incl then [k] else []) ++ l))))).

Definition exists_path (w : gwrap) (a b : harg) : res bool :=
  bind (check_g w) (fun g =>
  bind (check_src a) (fun ka =>
  bind (check_src b) (fun kb =>
  if key_eqb ka kb then Ok false
  else rmap (kmem kb) (helper QAncestors (GGraph g) (HTid ka) false)))).

(* the `source` of the augment functions: a single TermId, a collection, or anything else *)
Inductive asrc := SOne (k : key) | SMany (l : list harg) | SOtherS.

Definition augment (q : query) (w : gwrap) (s : asrc) (incl : bool) : res (list key) :=
  match w with
  | GOtherG => Err ValueError
  | _ =>
      match s with
      | SOne k => helper q w (HTid k) incl
      | SMany l => rmap (fun ls => dedup (concat ls)) (rsequence (map (fun a => helper q w a incl) l))
      | SOtherS => Err ValueError
      end
  end.
Definition augment_with_ancestors := augment QAncestors.
Definition augment_with_descendants := augment QDescendants.
