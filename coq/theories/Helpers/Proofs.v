(* C18: the module-level helpers agree with the graph they wrap. *)
From Coq Require Import String List Bool Arith ZArith Lia Permutation Relations Relation_Operators Setoid.
From Hpotk Require Import Base.Result Base.Str Base.Ord TermId.Model TermId.Proofs Csr.Model
  Graph.Worklist Graph.Model Graph.Spec Graph.Front Graph.Main Graph.Top Helpers.Model.
Import ListNotations.
Open Scope list_scope.

Lemma dedup_in l x : In x (dedup l) <-> In x l.
Proof.
  induction l as [|a l IH]; cbn [dedup In]; [reflexivity|].
  rewrite filter_In, IH. split.
  - intros [H|[H _]]; auto.
  - intros [H|H]; [left; exact H|]. destruct (key_eqb a x) eqn:K.
    + left. apply key_eqb_eq. exact K.
    + right. split; [exact H | reflexivity].
Qed.

Lemma dedup_nodup l : NoDup (dedup l).
Proof.
  induction l as [|a l IH]; cbn [dedup]; constructor.
  - rewrite filter_In. intros [_ H]. assert (K : key_eqb a a = true) by (apply key_eqb_eq; reflexivity).
    rewrite K in H. discriminate.
  - apply NoDup_filter. exact IH.
Qed.

(* a well-formed source denoting the term id k: a CURIE str or a TermId *)
Inductive hdenotes : harg -> key -> Prop :=
| hden_str s t : from_curie s = Ok t -> hdenotes (HStr s) (tkey t)
| hden_tid k : hdenotes (HTid k) k.
Definition hmalformed (a : harg) : Prop := a = HOther \/ exists s, a = HStr s /\ from_curie s = Err ValueError.

Lemma hdenotes_ok a k : hdenotes a k -> check_src a = Ok k.
Proof. intro H. destruct H as [s t Hs|k]; cbn; [rewrite Hs; reflexivity | reflexivity]. Qed.
Lemma hmalformed_err a : hmalformed a -> check_src a = Err ValueError.
Proof. intros [->|(s & -> & Hs)]; cbn; [reflexivity | rewrite Hs; reflexivity]. Qed.
Lemma harg_cases a : hmalformed a \/ exists k, hdenotes a k.
Proof.
  destruct a as [s|k|].
  - destruct (from_curie_err s) as [H|[t H]]; [left; right; exists s; auto | right; exists (tkey t); constructor; exact H].
  - right. exists k. constructor.
  - left. left. reflexivity.
Qed.

(* w carries the graph g *)
Definition carries (w : gwrap) (g : graph) : Prop := w = GGraph g \/ w = GAware g.

Section Built.
Variable f : factory.
Variable es : list edge.
Variable g : graph.
Hypothesis HW : WfInput es.
Hypothesis HC : create f es = Ok g.

(* each helper returns exactly the frozen set of the corresponding graph query, plus the source when
   asked; unknown node / malformed source / not a graph: ValueError *)
Theorem helper_spec q w a x incl : carries w g -> hdenotes a x ->
  (node_of es x ->
     exists l, helper q w a incl = Ok l /\ NoDup l /\
       (forall y, In y l <-> (rel es q x y \/ (incl = true /\ y = x))) /\
       (forall lq, g_query g q (ATid x) incl = Ok lq -> forall y, In y l <-> In y lq)) /\
  (~ node_of es x -> helper q w a incl = Err ValueError).
Proof.
  intros Hw Ha. apply hdenotes_ok in Ha.
  assert (Hg : check_g w = Ok g) by (destruct Hw as [->| ->]; reflexivity).
  unfold helper. rewrite Hg, Ha. cbn [bind].
  destruct (query_spec f es g HW HC q (ATid x) x false (den_tid x)) as [H1 H2]. split.
  - intro Hn. destruct (H1 Hn) as (l & Hl & Hnd & Hin). rewrite Hl. cbn [bind]. eexists. split; [reflexivity|].
    split; [apply dedup_nodup|].
    assert (M : forall y, In y (dedup ((if incl then [x] else []) ++ l)) <-> (rel es q x y \/ (incl = true /\ y = x))).
    { intro y. rewrite dedup_in, in_app_iff, Hin. destruct incl; cbn [In].
      - split; [intros [[H|[]]|[H|[H _]]]; [right; auto | left; exact H | discriminate] | intros [H|[_ H]]; [right; left; exact H | left; left; symmetry; exact H]].
      - split; [intros [[]|[H|[H _]]]; [left; exact H | discriminate] | intros [H|[H _]]; [right; left; exact H | discriminate]]. }
    split; [exact M|].
    intros lq Hq y. destruct (proj1 (query_spec f es g HW HC q (ATid x) x incl (den_tid x)) Hn) as (l' & Hl' & _ & Hin').
    rewrite Hq in Hl'. inversion Hl'; subst l'. rewrite M, Hin'. reflexivity.
  - intro Hn. rewrite (H2 Hn). reflexivity.
Qed.

Theorem helper_malformed q w a incl : carries w g -> hmalformed a -> helper q w a incl = Err ValueError.
Proof.
  intros Hw Ha. assert (Hg : check_g w = Ok g) by (destruct Hw as [->| ->]; reflexivity).
  unfold helper. rewrite Hg, (hmalformed_err a Ha). reflexivity.
Qed.

Theorem helper_not_graph q a incl : helper q GOtherG a incl = Err ValueError.
Proof. reflexivity. Qed.

(* a path exists from a to b exactly when b is a strict ancestor of a *)
Theorem exists_path_spec w a b x y : carries w g -> hdenotes a x -> hdenotes b y ->
  (node_of es x -> exists r, exists_path w a b = Ok r /\ (r = true <-> ancestor es x y)) /\
  (~ node_of es x -> x <> y -> exists_path w a b = Err ValueError) /\
  (x = y -> exists_path w a b = Ok false).
Proof.
  intros Hw Ha Hb. apply hdenotes_ok in Ha. apply hdenotes_ok in Hb.
  assert (Hg : check_g w = Ok g) by (destruct Hw as [->| ->]; reflexivity).
  unfold exists_path. rewrite Hg, Ha, Hb. cbn [bind].
  destruct (helper_spec QAncestors (GGraph g) (HTid x) x false (or_introl eq_refl) (hden_tid x)) as [H1 H2].
  destruct HW as (_ & Hac & Hm).
  split; [|split].
  - intro Hn. destruct (key_eqb x y) eqn:K.
    + apply key_eqb_eq in K. subst y. exists false. split; [reflexivity|]. split; [discriminate|].
      intro H. exfalso. exact (rel_irrefl es QAncestors x Hac Hm H).
    + destruct (H1 Hn) as (l & Hl & _ & Hin & _). rewrite Hl. cbn [rmap]. eexists. split; [reflexivity|].
      rewrite Front.kmem_in, Hin. cbn [rel]. split; [intros [H|[H _]]; [exact H | discriminate] | intro H; left; exact H].
  - intros Hn Hne. destruct (key_eqb x y) eqn:K; [apply key_eqb_eq in K; contradiction|].
    rewrite (H2 Hn). reflexivity.
  - intros ->. assert (K : key_eqb y y = true) by (apply key_eqb_eq; reflexivity). rewrite K. reflexivity.
Qed.

(* augmenting a single term: the closure of that term (+ the term when asked) *)
Theorem augment_one_spec q w x incl : carries w g ->
  augment q w (SOne x) incl = helper q w (HTid x) incl.
Proof. intros [->| ->]; reflexivity. Qed.

Lemma rsequence_ok {A} (l : list (res A)) (vs : list A) :
  Forall2 (fun r v => r = Ok v) l vs -> rsequence l = Ok vs.
Proof. induction 1 as [|r v l vs Hr _ IH]; cbn [rsequence]; [reflexivity|]. rewrite Hr, IH. reflexivity. Qed.

Lemma rsequence_err {A} (l : list (res A)) :
  (forall r, In r l -> r = Err ValueError \/ exists v, r = Ok v) -> (exists r, In r l /\ r = Err ValueError) ->
  rsequence l = Err ValueError.
Proof.
  induction l as [|r l IH]; intros Hall (r0 & Hin & Hr0); [destruct Hin|].
  cbn [rsequence]. destruct (Hall r (or_introl eq_refl)) as [->|[v ->]]; [reflexivity|].
  destruct Hin as [E|Hin]; [rewrite <- E in Hr0; discriminate|].
  rewrite IH; [reflexivity | intros r' Hr'; apply Hall; right; exact Hr' | exists r0; auto].
Qed.

(* augmenting a collection: the union of the closures of the given terms, including the terms
   themselves only when asked; the empty collection gives the empty set *)
Theorem augment_many_spec q w (srcs : list harg) (xs : list key) incl : carries w g ->
  Forall2 hdenotes srcs xs ->
  ((forall x, In x xs -> node_of es x) ->
     exists l, augment q w (SMany srcs) incl = Ok l /\ NoDup l /\
       forall y, In y l <-> exists x, In x xs /\ (rel es q x y \/ (incl = true /\ y = x))) /\
  ((exists x, In x xs /\ ~ node_of es x) -> augment q w (SMany srcs) incl = Err ValueError).
Proof.
  intros Hw Hd.
  assert (EQ : augment q w (SMany srcs) incl = rmap (fun ls => dedup (concat ls)) (rsequence (map (fun a => helper q w a incl) srcs)))
    by (destruct Hw as [->| ->]; reflexivity).
  rewrite EQ. clear EQ. split.
  - intro Hall.
    assert (exists ls, Forall2 (fun r v => r = Ok v) (map (fun a => helper q w a incl) srcs) ls /\
                       Forall2 (fun x l => forall y, In y l <-> (rel es q x y \/ (incl = true /\ y = x))) xs ls) as (ls & F1 & F2).
    { clear -Hd Hall Hw HW HC. induction Hd as [|a x srcs xs Hax _ IH].
      - exists []. split; constructor.
      - destruct IH as (ls & F1 & F2); [intros x' Hx'; apply Hall; right; exact Hx'|].
        destruct (proj1 (helper_spec q w a x incl Hw Hax) (Hall x (or_introl eq_refl))) as (l & Hl & _ & Hin & _).
        exists (l :: ls). split; constructor; assumption. }
    rewrite (rsequence_ok _ ls F1). cbn [rmap]. eexists. split; [reflexivity|]. split; [apply dedup_nodup|].
    intro y. rewrite dedup_in, in_concat. clear -F2. split.
    + intros (l & Hl & Hy). induction F2 as [|x l' xs ls Hx _ IH]; [destruct Hl|].
      destruct Hl as [->|Hl]; [exists x; split; [left; reflexivity | apply Hx; exact Hy]|].
      destruct (IH Hl) as (x' & Hx' & Hr). exists x'. split; [right; exact Hx' | exact Hr].
    + intros (x & Hx & Hr). induction F2 as [|x' l' xs ls Hx' _ IH]; [destruct Hx|].
      destruct Hx as [->|Hx]; [exists l'; split; [left; reflexivity | apply Hx'; exact Hr]|].
      destruct (IH Hx) as (l & Hl & Hy). exists l. split; [right; exact Hl | exact Hy].
  - intros (x0 & Hx0 & Hn0). rewrite rsequence_err; [reflexivity| |].
    + intros r Hr. apply in_map_iff in Hr. destruct Hr as (a & <- & Ha).
      clear -Hd Ha Hw HW HC. induction Hd as [|a' x srcs xs Hax _ IH]; [destruct Ha|].
      destruct Ha as [->|Ha]; [|exact (IH Ha)].
      destruct (helper_spec q w a x incl Hw Hax) as [H1 H2].
      destruct (node_of_dec f es g HW HC x) as [Hn|Hn]; [right; destruct (H1 Hn) as (l & Hl & _); exists l; exact Hl | left; exact (H2 Hn)].
    + clear -Hd Hx0 Hn0 Hw HW HC. induction Hd as [|a x srcs xs Hax _ IH]; [destruct Hx0|].
      destruct Hx0 as [->|Hx0].
      * exists (helper q w a incl). split; [left; reflexivity | exact (proj2 (helper_spec q w a x0 incl Hw Hax) Hn0)].
      * destruct (IH Hx0) as (r & Hr & Er). exists r. split; [right; exact Hr | exact Er].
Qed.

Theorem augment_rejects q s incl : augment q GOtherG s incl = Err ValueError.
Proof. reflexivity. Qed.
Theorem augment_bad_source q w incl : augment q w SOtherS incl = Err ValueError.
Proof. destruct w; reflexivity. Qed.
End Built.

Print Assumptions helper_spec.
Print Assumptions exists_path_spec.
Print Assumptions augment_many_spec.
