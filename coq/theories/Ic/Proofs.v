(* C09 (integer part): the propagated annotation counts. *)
From Coq Require Import String List Bool Arith ZArith Lia Setoid Permutation Relations Relation_Operators.
From Hpotk Require Import Base.Result Base.Str Base.Ord TermId.Model TermId.Proofs Graph.Worklist Graph.Model Graph.Spec
  Graph.Acyclic Graph.Front Graph.ApiI Graph.Main Graph.Top Helpers.Model Helpers.Proofs Ic.Model.
Import ListNotations.
Open Scope list_scope.

Lemma keqb_refl k : key_eqb k k = true.
Proof. apply key_eqb_eq. reflexivity. Qed.

Lemma kcount_app t l1 l2 : kcount t (l1 ++ l2) = kcount t l1 + kcount t l2.
Proof. unfold kcount. rewrite filter_app, app_length. reflexivity. Qed.

Lemma kcount_nodup t l : NoDup l -> kcount t l = if kmem t l then 1 else 0.
Proof.
  unfold kcount, kmem. induction l as [|a l IH]; intro H; cbn [filter existsb length]; [reflexivity|].
  inversion H as [|? ? Hn Hd]; subst. specialize (IH Hd). destruct (key_eqb t a) eqn:K; cbn [orb length].
  - apply key_eqb_eq in K. subst a. destruct (existsb (key_eqb t) l) eqn:E; [|rewrite IH; reflexivity].
    exfalso. apply Hn. apply existsb_exists in E. destruct E as (y & Hy & Ey). apply key_eqb_eq in Ey. subst y. exact Hy.
  - exact IH.
Qed.

Lemma kcount_pos t l : 0 < kcount t l <-> In t l.
Proof.
  unfold kcount. induction l as [|a l IH]; cbn [filter length In]; [split; [lia | intros []]|].
  destruct (key_eqb t a) eqn:K; cbn [length].
  - apply key_eqb_eq in K. subst a. split; [intros _; left; reflexivity | lia].
  - rewrite IH. split; [intro H; right; exact H | intros [E|H]; [subst a; rewrite keqb_refl in K; discriminate | exact H]].
Qed.

Lemma filter_length_le {A} (p q : A -> bool) (l : list A) :
  (forall x, In x l -> p x = true -> q x = true) -> length (filter p l) <= length (filter q l).
Proof.
  induction l as [|a l IH]; intro H; cbn [filter length]; [lia|].
  assert (IH' : length (filter p l) <= length (filter q l)) by (apply IH; intros x Hx; apply H; right; exact Hx).
  destruct (p a) eqn:P; destruct (q a) eqn:Q; cbn [length]; try lia.
  rewrite (H a (or_introl eq_refl) P) in Q. discriminate.
Qed.

Lemma filter_length_perm {A} (p : A -> bool) (l l' : list A) : Permutation l l' -> length (filter p l) = length (filter p l').
Proof.
  induction 1 as [|a l l' _ IH|a b l|l l' l'' _ IH1 _ IH2]; cbn [filter]; try reflexivity.
  - destruct (p a); cbn [length]; lia.
  - destruct (p a), (p b); reflexivity.
  - lia.
Qed.

Lemma concat_perm {A} (L L' : list (list A)) : Permutation L L' -> Permutation (concat L) (concat L').
Proof.
  induction 1 as [|a l l' _ IH|a b l|l l' l'' _ IH1 _ IH2]; cbn [concat].
  - constructor.
  - apply Permutation_app_head. exact IH.
  - rewrite !app_assoc. apply Permutation_app_tail. apply Permutation_app_comm.
  - eapply Permutation_trans; eassumption.
Qed.

Section Built.
Variable f : factory.
Variable es : list edge.
Variable g : graph.
Hypothesis HW : WfInput es.
Hypothesis HC : create f es = Ok g.

Definition up (a t : key) : Prop := t = a \/ ancestor es a t.

(* the ancestors of a node, the node itself included, as the model lists them *)
Definition alist (a : key) : list key := match g_query g QAncestors (ATid a) true with Ok l => l | Err _ => [] end.

Lemma alist_spec a : node_of es a ->
  g_query g QAncestors (ATid a) true = Ok (alist a) /\ NoDup (alist a) /\ forall t, In t (alist a) <-> up a t.
Proof.
  intro Hn. unfold alist. destruct (proj1 (query_spec f es g HW HC QAncestors (ATid a) a true (den_tid a)) Hn) as (l & Hl & Hnd & Hin).
  rewrite Hl. split; [reflexivity|]. split; [exact Hnd|]. intro t. rewrite Hin. cbn [rel]. unfold up.
  split; [intros [H|[_ H]]; auto | intros [H|H]; auto].
Qed.

Variable m : option (list key).          (* the module's term ids, None = whole ontology *)

(* does the annotation a increment the count of t? *)
Definition counts_for (t : key) (a : annot) : bool :=
  snd a && in_module m (fst a) && in_module m t && kmem t (alist (fst a)).

Definition all_nodes (items : corpus) : Prop := forall a, In a (concat items) -> node_of es (fst a).

Lemma hits_annot_spec a : node_of es (fst a) ->
  exists l, hits_of_annot g m a = Ok l /\ forall t, kcount t l = if counts_for t a then 1 else 0.
Proof.
  intro Hn. destruct (alist_spec (fst a) Hn) as (Hq & Hnd & _). unfold hits_of_annot, counts_for.
  destruct (snd a); [|exists []; split; [reflexivity | intro t; reflexivity]].
  destruct (in_module m (fst a)); [|exists []; split; [reflexivity | intro t; reflexivity]].
  rewrite Hq. cbn [rmap andb]. eexists. split; [reflexivity|]. intro t.
  rewrite (kcount_nodup t _ (NoDup_filter _ Hnd)). unfold kmem. 
  destruct (existsb (key_eqb t) (filter (in_module m) (alist (fst a)))) eqn:E.
  - apply existsb_exists in E. destruct E as (y & Hy & Ey). apply key_eqb_eq in Ey. subst y. apply filter_In in Hy.
    destruct Hy as [H1 H2]. rewrite H2. apply kmem_in in H1. unfold kmem in H1. rewrite H1. reflexivity.
  - destruct (in_module m t) eqn:M; [|reflexivity]. cbn [andb].
    destruct (existsb (key_eqb t) (alist (fst a))) eqn:E2; [|reflexivity]. exfalso.
    apply existsb_exists in E2. destruct E2 as (y & Hy & Ey). apply key_eqb_eq in Ey. subst y.
    assert (existsb (key_eqb t) (filter (in_module m) (alist (fst a))) = true); [|congruence].
    apply existsb_exists. exists t. split; [apply filter_In; auto | apply keqb_refl].
Qed.

(* c(t) = the number of present (module) annotations to t or to a descendant of t: one increment per
   annotation, however many paths lead from it to t *)
Theorem hits_count (items : corpus) : all_nodes items ->
  exists hs, hits g m items = Ok hs /\ forall t, kcount t hs = length (filter (counts_for t) (concat items)).
Proof.
  intro Hall. unfold hits. unfold all_nodes in Hall. induction (concat items) as [|a l IH].
  - exists []. split; [reflexivity | intro t; reflexivity].
  - destruct IH as (hs & Hh & Hc); [intros x Hx; apply Hall; right; exact Hx|].
    destruct (hits_annot_spec a (Hall a (or_introl eq_refl))) as (la & Hla & Hca).
    cbn [map rsequence]. rewrite Hla. cbn [bind].
    destruct (rsequence (map (hits_of_annot g m) l)) as [ls|e] eqn:R; [|discriminate].
    cbn [rmap] in Hh. inversion Hh; subst hs. cbn [bind rmap concat]. eexists. split; [reflexivity|].
    intro t. rewrite kcount_app, Hca, Hc. cbn [filter]. destruct (counts_for t a); cbn [length]; lia.
Qed.

Lemma counts_for_iff t a : node_of es (fst a) ->
  (counts_for t a = true <-> (snd a = true /\ in_module m (fst a) = true /\ in_module m t = true /\ up (fst a) t)).
Proof.
  intro Hn. unfold counts_for. rewrite !andb_true_iff, kmem_in, (proj2 (proj2 (alist_spec (fst a) Hn))). tauto.
Qed.

(* IC never decreases towards descendants: counts never increase *)
Theorem count_mono (items : corpus) hs d t : all_nodes items -> hits g m items = Ok hs ->
  ancestor es d t -> in_module m t = true -> kcount d hs <= kcount t hs.
Proof.
  intros Hall Hh Hanc Hmt. destruct (hits_count items Hall) as (hs' & Hh' & Hc). rewrite Hh in Hh'. inversion Hh'; subst hs'.
  rewrite !Hc. apply filter_length_le. intros a Ha Hd. pose proof (Hall a Ha) as Hn.
  apply (counts_for_iff d a Hn) in Hd. apply (counts_for_iff t a Hn). destruct Hd as (H1 & H2 & _ & H4).
  split; [exact H1|]. split; [exact H2|]. split; [exact Hmt|].
  destruct H4 as [->|H4]; [right; exact Hanc | right; eapply t_trans; eassumption].
Qed.

Lemma filter_counts_present t (i : list annot) :
  length (filter (counts_for t) (filter (fun a => snd a) i)) = length (filter (counts_for t) i).
Proof.
  induction i as [|a i IH]; cbn [filter]; [reflexivity|]. destruct (snd a) eqn:S.
  - cbn [filter]. destruct (counts_for t a); cbn [length]; rewrite IH; reflexivity.
  - assert (E : counts_for t a = false) by (unfold counts_for; rewrite S; reflexivity). rewrite E. exact IH.
Qed.

(* the root is counted for every present annotation: no count exceeds the root's (whole ontology, no module) *)
Theorem count_root_max (items : corpus) hs root t : m = None -> all_nodes items -> hits g m items = Ok hs ->
  g_root g = Ok root -> kcount t hs <= kcount root hs.
Proof.
  intros Hm Hall Hh Hr. destruct (hits_count items Hall) as (hs' & Hh' & Hc). rewrite Hh in Hh'. inversion Hh'; subst hs'.
  rewrite !Hc. apply filter_length_le. intros a Ha Hd. pose proof (Hall a Ha) as Hn.
  apply (counts_for_iff t a Hn) in Hd. apply (counts_for_iff root a Hn). destruct Hd as (H1 & H2 & _ & _).
  split; [exact H1|]. split; [exact H2|]. split; [rewrite Hm; reflexivity|].
  destruct (root_spec f es g HW HC) as (root' & Hr' & _ & _ & _ & Hall' & _). rewrite Hr in Hr'. inversion Hr'; subst root'.
  unfold up. destruct (key_eq_dec root (fst a)) as [E|E]; [left; exact E | right; apply Hall'; [exact Hn | intro E'; apply E; symmetry; exact E']].
Qed.

(* excluded annotations do not matter, nor does the order of items or of annotations *)
Theorem count_present_only (items : corpus) hs hs' : all_nodes items ->
  hits g m items = Ok hs -> hits g m (map (filter (fun a => snd a)) items) = Ok hs' -> forall t, kcount t hs = kcount t hs'.
Proof.
  intros Hall Hh Hh' t.
  assert (Hall' : all_nodes (map (filter (fun a => snd a)) items)).
  { intros a Ha. apply Hall. clear -Ha. induction items as [|i items IH]; cbn [map concat] in *; [exact Ha|].
    apply in_app_or in Ha. apply in_or_app. destruct Ha as [Ha|Ha]; [left; apply filter_In in Ha; tauto | right; exact (IH Ha)]. }
  destruct (hits_count items Hall) as (h1 & E1 & C1). destruct (hits_count _ Hall') as (h2 & E2 & C2).
  rewrite Hh in E1. rewrite Hh' in E2. inversion E1; inversion E2; subst. rewrite C1, C2.
  clear. induction items as [|i items IH]; cbn [map concat]; [reflexivity|]. rewrite !filter_app, !app_length, IH. f_equal.
  symmetry. apply filter_counts_present.
Qed.

Theorem count_perm (items items' : corpus) hs hs' : all_nodes items -> Permutation items items' ->
  hits g m items = Ok hs -> hits g m items' = Ok hs' -> forall t, kcount t hs = kcount t hs'.
Proof.
  intros Hall Hp Hh Hh' t. pose proof (concat_perm _ _ Hp) as Hc.
  assert (Hall' : all_nodes items') by (intros a Ha; apply Hall; eapply Permutation_in; [apply Permutation_sym; exact Hc | exact Ha]).
  destruct (hits_count items Hall) as (h1 & E1 & C1). destruct (hits_count items' Hall') as (h2 & E2 & C2).
  rewrite Hh in E1. rewrite Hh' in E2. inversion E1; inversion E2; subst. rewrite C1, C2. apply filter_length_perm. exact Hc.
Qed.
End Built.

Lemma find_app {A} (p : A -> bool) (l1 l2 : list A) :
  find p (l1 ++ l2) = match find p l1 with Some x => Some x | None => find p l2 end.
Proof. induction l1 as [|a l1 IH]; cbn [app find]; [reflexivity|]. destruct (p a); [reflexivity | exact IH]. Qed.

(* ---- the result mapping ---- *)
Lemma lookup_base hs t : lookup (map (fun t => (t, kcount t hs)) (dedup hs)) t = kcount t hs.
Proof.
  unfold lookup. destruct (find (fun p => key_eqb t (fst p)) (map (fun t0 => (t0, kcount t0 hs)) (dedup hs))) as [[k n]|] eqn:F.
  - apply find_some in F. destruct F as [Hin Hk]. cbn [fst] in Hk. apply key_eqb_eq in Hk. subst k.
    apply in_map_iff in Hin. destruct Hin as (t' & E & _). inversion E; subst. reflexivity.
  - destruct (kcount t hs) eqn:K; [reflexivity|]. exfalso.
    assert (Hin : In t (dedup hs)) by (apply dedup_in; apply kcount_pos; lia).
    assert (Hin2 : In (t, kcount t hs) (map (fun t0 => (t0, kcount t0 hs)) (dedup hs))) by (apply in_map_iff; exists t; auto).
    pose proof (find_none _ _ F _ Hin2) as Hx. cbn in Hx. rewrite keqb_refl in Hx. discriminate.
Qed.

(* without pseudocounts a term is a key of the result exactly when its count is positive;
   with pseudocounts every corpus term is a key, with count max(count, 1) *)
Theorem result_keys (pseudo : bool) (corpus_ids : list key) (hs : list key) :
  let base := map (fun t => (t, kcount t hs)) (dedup hs) in
  let final := with_pseudo pseudo corpus_ids base in
  NoDup (map fst final) /\
  (forall t, In t (map fst final) <-> (0 < kcount t hs \/ (pseudo = true /\ In t corpus_ids))) /\
  (forall t, lookup final t = if Nat.ltb 0 (kcount t hs) then kcount t hs else if pseudo && kmem t corpus_ids then 1 else 0).
Proof.
  intros base final.
  assert (Bk : map fst base = dedup hs) by (unfold base; rewrite map_map; cbn [fst]; apply map_id).
  assert (Fin : forall t, In t (map fst base) <-> 0 < kcount t hs) by (intro t; rewrite Bk, dedup_in; symmetry; apply kcount_pos).
  unfold final, with_pseudo. destruct pseudo.
  - set (extra := dedup (filter (fun t => negb (kmem t (map fst base))) corpus_ids)).
    assert (Ex : forall t, In t extra <-> (In t corpus_ids /\ ~ 0 < kcount t hs)).
    { intro t. unfold extra. rewrite dedup_in, filter_In, negb_true_iff. rewrite <- Fin.
      split; intros [H1 H2]; (split; [exact H1|]).
      - intro H. apply kmem_in in H. congruence.
      - destruct (kmem t (map fst base)) eqn:K; [apply kmem_in in K; contradiction | reflexivity]. }
    split; [|split].
    + rewrite map_app, map_map. cbn [fst]. rewrite map_id. apply NoDup_app_iff. split; [rewrite Bk; apply dedup_nodup|].
      split; [apply dedup_nodup|]. intros t H1 H2. apply Fin in H1. apply Ex in H2. tauto.
    + intro t. rewrite map_app, in_app_iff, map_map. cbn [fst]. rewrite map_id, Fin, Ex.
      destruct (Nat.ltb_spec 0 (kcount t hs)); split; intuition.
    + intro t. unfold lookup. rewrite find_app. fold (lookup base t).
      destruct (find (fun p => key_eqb t (fst p)) base) as [[k n]|] eqn:F.
      * pose proof (lookup_base hs t) as L. unfold lookup in L. fold base in L. rewrite F in L. cbn [snd] in *.
        apply find_some in F. destruct F as [Hin Hk]. cbn [fst] in Hk. apply key_eqb_eq in Hk. subst k.
        assert (0 < kcount t hs) by (apply Fin; apply in_map_iff; exists (t, n); auto).
        destruct (Nat.ltb_spec 0 (kcount t hs)); [exact L | lia].
      * assert (Z0 : ~ 0 < kcount t hs).
        { intro H. apply Fin in H. apply in_map_iff in H. destruct H as ([k n] & E & Hin). cbn [fst] in E. subst k.
          pose proof (find_none _ _ F _ Hin) as Hx. cbn in Hx. rewrite keqb_refl in Hx. discriminate. }
        destruct (Nat.ltb_spec 0 (kcount t hs)); [contradiction|]. cbn [andb].
        destruct (kmem t corpus_ids) eqn:K.
        -- apply kmem_in in K. assert (He : In t extra) by (apply Ex; auto).
           destruct (find (fun p => key_eqb t (fst p)) (map (fun t0 => (t0, 1)) extra)) as [[k n]|] eqn:F2.
           ++ apply find_some in F2. destruct F2 as [Hin _]. apply in_map_iff in Hin. destruct Hin as (? & E & _). inversion E. reflexivity.
           ++ exfalso. assert (Hin2 : In (t, 1) (map (fun t0 => (t0, 1)) extra)) by (apply in_map_iff; exists t; auto).
              pose proof (find_none _ _ F2 _ Hin2) as Hx. cbn in Hx. rewrite keqb_refl in Hx. discriminate.
        -- destruct (find (fun p => key_eqb t (fst p)) (map (fun t0 => (t0, 1)) extra)) as [[k n]|] eqn:F2; [|reflexivity].
           exfalso. apply find_some in F2. destruct F2 as [Hin Hk]. cbn [fst] in Hk. apply key_eqb_eq in Hk. subst k.
           apply in_map_iff in Hin. destruct Hin as (t' & E & Hin). inversion E; subst t'. apply Ex in Hin. destruct Hin as [Hin _].
           apply kmem_in in Hin. congruence.
  - split; [rewrite Bk; apply dedup_nodup|]. split.
    + intro t. rewrite Fin. split; [auto | intros [H|[H _]]; [exact H | discriminate]].
    + intro t. unfold base. rewrite lookup_base. cbn [andb]. destruct (Nat.ltb_spec 0 (kcount t hs)); [reflexivity | lia].
Qed.

Print Assumptions hits_count.
Print Assumptions count_mono.
Print Assumptions result_keys.
