(* Executable model of src/hpotk/algorithm/similarity/_ic.py  calculate_ic_for_annotated_items,
   up to (and excluding) the floating-point step  -log(count / population):  the model delivers the
   integer count of every key of the result and the population count.  Definitions only. *)
From Coq Require Import String List Bool Arith ZArith.
From Hpotk Require Import Base.Result Base.Str Base.Ord TermId.Model Graph.Model Helpers.Model.
Import ListNotations.
Open Scope list_scope.

Definition annot : Type := (key * bool)%type.          (* (annotation.identifier, annotation.is_present) *)
Definition corpus : Type := list (list annot).         (* items, each with its annotations *)

Section Ic.
Variable g : graph.

(* module_term_ids: None when no module root was given *)
Definition in_module (m : option (list key)) (k : key) : bool :=
  match m with None => true | Some ids => kmem k ids end.

(* the increments one annotation causes: every (module) ancestor incl. the term itself, once *)
Definition hits_of_annot (m : option (list key)) (a : annot) : res (list key) :=
  if snd a then
    if in_module m (fst a) then rmap (filter (in_module m)) (g_query g QAncestors (ATid (fst a)) true)
    else Ok []
  else Ok [].

Definition hits (m : option (list key)) (items : corpus) : res (list key) :=
  rmap (@concat key) (rsequence (map (hits_of_annot m) (concat items))).

Definition kcount (t : key) (l : list key) : nat := length (filter (key_eqb t) l).

(* use_pseudocount: every term of the corpus (all current terms / the module) that has no count gets 1 *)
Definition with_pseudo (pseudo : bool) (corpus_ids : list key) (base : list (key * nat)) : list (key * nat) :=
  if pseudo then base ++ map (fun t => (t, 1)) (dedup (filter (fun t => negb (kmem t (map fst base))) corpus_ids))
  else base.

Definition lookup (l : list (key * nat)) (t : key) : nat :=
  match find (fun p => key_eqb t (fst p)) l with Some p => snd p | None => 0 end.

(* result: (term -> count for every key of the returned mapping, population count) *)
Definition ic_counts (module_root : option key) (pseudo : bool) (terms : list key) (items : corpus)
  : res (list (key * nat) * nat) :=
  bind (match module_root with
        | None => Ok None
        | Some r => rmap (@Some (list key)) (g_query g QDescendants (ATid r) true)
        end) (fun m =>
  bind (hits m items) (fun hs =>
  bind (match module_root with None => g_root g | Some r => Ok r end) (fun root =>
  let base := map (fun t => (t, kcount t hs)) (dedup hs) in
  let final := with_pseudo pseudo (match m with None => terms | Some ids => ids end) base in
  (* -log(count / population): a population count of 0 with a non-empty mapping divides by zero
     (only possible for an ontology whose term list does not cover its own root) *)
  match final, lookup final root with
  | _ :: _, 0 => Err OtherError
  | _, pop => Ok (final, pop)
  end))).
End Ic.
