(* C09 (real-valued part): IC(t) = -log_base(c(t) / c(root)) over the reals.
   Depends on the standard library's axioms of the real numbers (listed in DESIGN §6). *)
From Coq Require Import Reals Lra.
Open Scope R_scope.

Definition icR (c pop base : R) : R := - ln (c / pop) / ln base.

Lemma ln_base_pos base : 1 < base -> 0 < ln base.
Proof. intro H. rewrite <- ln_1. apply ln_increasing; lra. Qed.

(* the (module) root has IC 0 *)
Lemma ic_root_zero pop base : 0 < pop -> icR pop pop base = 0.
Proof.
  intro H. unfold icR. replace (pop / pop) with 1 by (field; lra). rewrite ln_1. unfold Rdiv. lra.
Qed.

(* no IC is negative *)
Lemma ic_nonneg c pop base : 0 < c <= pop -> 1 < base -> 0 <= icR c pop base.
Proof.
  intros [Hc Hle] Hb. unfold icR. pose proof (ln_base_pos base Hb) as Lb.
  assert (Hq : 0 < c / pop <= 1).
  { split; [apply Rdiv_lt_0_compat; lra|]. apply (Rmult_le_reg_r pop); [lra|]. unfold Rdiv. rewrite Rmult_assoc, Rinv_l by lra. lra. }
  assert (ln (c / pop) <= 0).
  { destruct Hq as [Hq1 [Hq2|Hq2]]; [rewrite <- ln_1; left; apply ln_increasing; lra | rewrite Hq2, ln_1; lra]. }
  unfold Rdiv at 1. apply Rmult_le_pos; [lra | left; apply Rinv_0_lt_compat; exact Lb].
Qed.

(* IC never decreases from a term to its descendants: smaller counts have larger IC *)
Lemma ic_mono c1 c2 pop base : 0 < c1 <= c2 -> 0 < pop -> 1 < base -> icR c2 pop base <= icR c1 pop base.
Proof.
  intros [H1 H12] Hp Hb. unfold icR. pose proof (ln_base_pos base Hb) as Lb.
  assert (ln (c1 / pop) <= ln (c2 / pop)).
  { destruct H12 as [H12|H12]; [|rewrite H12; lra]. left. apply ln_increasing; [apply Rdiv_lt_0_compat; lra|].
    unfold Rdiv. apply Rmult_lt_compat_r; [apply Rinv_0_lt_compat; lra | lra]. }
  unfold Rdiv at 1 3. apply Rmult_le_compat_r; [left; apply Rinv_0_lt_compat; exact Lb | lra].
Qed.

(* natural logarithm: base = e *)
Lemma ic_base_e c pop : icR c pop (exp 1) = - ln (c / pop).
Proof. unfold icR. rewrite ln_exp. unfold Rdiv at 1. rewrite Rinv_1. lra. Qed.
