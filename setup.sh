#!/bin/sh
# MANIFEST.setup_cmd: clean, full (.vo) build of the Coq development from files on disk only.
cd "$(dirname "$0")" || exit 2
rm -rf work
exec /venv/bin/python - <<'PY'
import sys
sys.path.insert(0, 'harness')
import common
ok, out = common.build_coq(clean=True)
print(out[-3000:])
bad = common.scan_forbidden()
if bad:
    print('forbidden vernacular:', bad)
sys.exit(0 if ok and not bad else 1)
PY
