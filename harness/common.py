"""Shared machinery of the /verif checks (see DESIGN.md §1).

A check = proof gate (Coq development builds, property theorems exist, their
`Print Assumptions` output is inside the allow-list, no forbidden vernacular) +
correspondence gate (the implementation under $VERIF_REPO/src and the Gallina model are run
on the same generated cases; Coq itself does the comparison inside `vm_compute`).
"""
import fcntl
import hashlib
import json
import os
import random
import re
import shutil
import subprocess
import sys
import time
from pathlib import Path

VERIF = Path(__file__).resolve().parent.parent
REPO = Path(os.environ.get('VERIF_REPO', '/repo')).resolve()
PY = os.environ.get('VERIF_PYTHON', '/venv/bin/python')
COQ = VERIF / 'coq'
THEORIES = COQ / 'theories'
WORK = VERIF / 'work'
GUARD = 'HPOTK_VERIF'
NCPU = int(os.environ.get('VERIF_JOBS', '16'))

FORBIDDEN = re.compile(r'\b(Admitted|admit|Axiom|Axioms|Parameter|Parameters|Conjecture|Conjectures|'
                       r'Unset\s+Guard|bypass_check|Admit\s+Obligations|Unset\s+Universe\s+Checking|'
                       r'Unset\s+Positivity|type-in-type|impredicative-set)\b')

# Axioms of the standard library that a property theorem may depend on (DESIGN §6); anything else
# printed by `Print Assumptions` fails the proof gate.  Kernel primitives (PrimFloat / Uint63) are
# listed per property in PRIMITIVE_OK.
STDLIB_AXIOMS_OK = {
    'ClassicalDedekindReals.sig_forall_dec',
    'ClassicalDedekindReals.sig_not_dec',
    'FunctionalExtensionality.functional_extensionality_dep',
    'Classical_Prop.classic',
}
PRIMITIVE_PREFIXES = ('PrimFloat.', 'Uint63.', 'PrimInt63.', 'Float64.', 'FloatOps.', 'SpecFloat.')
PRIMITIVE_NAMES = {'float', 'int', 'PrimFloat.float', 'Uint63.int', 'PrimInt63.int'}


class Violation(Exception):
    pass


def log(*a):
    print(*a, flush=True)


# ----------------------------------------------------------------------------------------------
# Coq term emission
# ----------------------------------------------------------------------------------------------
def cstr(s):
    """Python str -> Coq `string` term holding its UTF-8 bytes.  Printable ASCII, TAB and LF are written
    raw inside the literal (Coq strings have no escapes; '"' is doubled); anything else as a byte list."""
    b = s.encode('utf-8')
    if all(32 <= c < 127 or c in (9, 10) for c in b):
        return '"' + s.replace('"', '""') + '"'
    return '(sb [' + ';'.join(str(c) for c in b) + '])'


def cbytes(b):
    return '(sb [' + ';'.join(str(c) for c in b) + '])'


def cnat(n):
    assert n >= 0
    return str(n)


def cz(n):
    return f'({n})%Z' if n < 0 else f'{n}%Z'


def cbool(b):
    return 'true' if b else 'false'


def clist(items):
    return '[' + '; '.join(items) + ']'


def ctuple(items):
    return '(' + ', '.join(items) + ')'


def copt(x, f=lambda v: v):
    return 'None' if x is None else f'(Some {f(x)})'


def cexn(name):
    return name if name in ('ValueError', 'IndexError', 'KeyError', 'TypeError') else 'OtherError'


def cres(r, f):
    """r = {'ok': value} | {'err': 'ValueError'}"""
    if 'ok' in r:
        return f'(Ok {f(r["ok"])})'
    return f'(Err {cexn(r["err"])})'


def exn_name(e):
    n = type(e).__name__
    return n if n in ('ValueError', 'IndexError', 'KeyError', 'TypeError') else 'Other:' + n


# ----------------------------------------------------------------------------------------------
# Build / proof gate
# ----------------------------------------------------------------------------------------------
def _locked(fn):
    WORK.mkdir(exist_ok=True)
    with open(WORK / '.build.lock', 'w') as lk:
        fcntl.flock(lk, fcntl.LOCK_EX)
        try:
            return fn()
        finally:
            fcntl.flock(lk, fcntl.LOCK_UN)


def build_coq(clean=False):
    """Full .vo build of the development (never -vos).  Returns (ok, output)."""
    def go():
        if clean and (COQ / 'Makefile').exists():
            subprocess.run(['make', '-C', str(COQ), 'clean'], capture_output=True, text=True)
        files = sorted(str(p.relative_to(COQ)) for p in THEORIES.rglob('*.v'))
        proj = (COQ / '_CoqProject.in').read_text() + '\n'.join(files) + '\n'
        old = (COQ / '_CoqProject').read_text() if (COQ / '_CoqProject').exists() else ''
        if proj != old or not (COQ / 'Makefile').exists():
            (COQ / '_CoqProject').write_text(proj)
            r = subprocess.run(['coq_makefile', '-f', '_CoqProject', '-o', 'Makefile'], cwd=COQ,
                               capture_output=True, text=True)
            if r.returncode != 0:
                return False, r.stdout + r.stderr
        r = subprocess.run(['timeout', '3000', 'make', '-j', str(NCPU)], cwd=COQ, capture_output=True, text=True)
        return r.returncode == 0, r.stdout + r.stderr
    return _locked(go)


def scan_forbidden():
    bad = []
    for p in sorted(THEORIES.rglob('*.v')):
        txt = strip_comments(p.read_text())
        for i, line in enumerate(txt.splitlines(), 1):
            if FORBIDDEN.search(line):
                bad.append(f'{p.relative_to(VERIF)}:{i}: {line.strip()}')
    return bad


def strip_comments(txt):
    out, depth, i, n = [], 0, 0, len(txt)
    in_str = False
    while i < n:
        if not in_str and txt.startswith('(*', i):
            depth += 1
            i += 2
            continue
        if not in_str and depth and txt.startswith('*)', i):
            depth -= 1
            i += 2
            continue
        c = txt[i]
        if depth == 0:
            if c == '"':
                in_str = not in_str
            out.append(c)
        elif c == '\n':
            out.append(c)
        i += 1
    return ''.join(out)


def property_theorems(pid):
    """Names of the theorems stated in Properties/<pid>.v (that file contains nothing else)."""
    src = strip_comments((THEORIES / 'Properties' / f'{pid}.v').read_text())
    return re.findall(r'^\s*(?:Theorem|Corollary)\s+([A-Za-z0-9_\']+)', src, re.M)


def run_coqc(vfile, timeout=900, cwd=None):
    cmd = ['timeout', str(timeout), 'coqc', '-Q', str(THEORIES), 'Hpotk',
           '-w', '-notation-overridden,-deprecated-hint-without-locality', str(vfile)]
    return subprocess.run(cmd, capture_output=True, text=True, cwd=cwd)


def parse_assumptions(out, names):
    """Split the output of a sequence of `Print Assumptions` into {theorem: [axiom names]}."""
    res = {}
    blocks = re.split(r'^ASSUMPTIONS-OF (\S+)\s*$', out, flags=re.M)
    # blocks = [pre, name1, body1, name2, body2, ...]
    for k in range(1, len(blocks), 2):
        name, body = blocks[k], blocks[k + 1]
        if 'Closed under the global context' in body:
            res[name] = []
            continue
        axs = []
        for line in body.splitlines():
            m = re.match(r'^([A-Za-z_][A-Za-z0-9_.\']*)\s*(:|$)', line)
            if m and m.group(1) not in ('Axioms', 'Section', 'Variables'):
                axs.append(m.group(1))
        res[name] = axs
    return res


def axiom_allowed(ax, allow_primitives):
    if ax in STDLIB_AXIOMS_OK:
        return True
    if allow_primitives and (ax in PRIMITIVE_NAMES or ax.startswith(PRIMITIVE_PREFIXES)):
        return True
    return False


# ----------------------------------------------------------------------------------------------
# The check object
# ----------------------------------------------------------------------------------------------
MAX_SHARD_BYTES = 1500000


def _big_stack():
    """coqc parses the case literals recursively: give it all the stack the hard limit allows"""
    import resource
    try:
        soft, hard = resource.getrlimit(resource.RLIMIT_STACK)
        resource.setrlimit(resource.RLIMIT_STACK, (hard, hard))
    except Exception:
        pass


class Check:
    def __init__(self, pid, tier, seed, allow_primitives=False):
        self.pid = pid
        self.tier = tier
        self.seed = seed
        self.rng = random.Random(f'{pid}:{seed}')
        self.t0 = time.time()
        # one scratch directory per property and tier; a run against another tree (VERIF_REPO) gets its own
        self.work = WORK / (pid + ('t' if tier == 'thorough' else '') + ('' if str(REPO) == '/repo' else '-' + re.sub(r'\W+', '_', str(REPO))[-40:]))
        if self.work.exists():
            shutil.rmtree(self.work)
        self.work.mkdir(parents=True)
        self.allow_primitives = allow_primitives
        self.evaluations = 0
        self.digests = set()
        self.samples = []
        self.dist = {}
        self.traces = 0
        self.rule = ''
        self.violations = []      # (signature, replay path)
        self.known_hits = []
        self.obligations = []
        self.discharged = []
        self.assumptions = {}
        self.extra = {}
        self.exhaustive = False
        self.known = load_known_findings()
        self.hashseed = str(seed % 4294967295)

    # ---- bookkeeping -------------------------------------------------------------------------
    def count(self, key, n=1):
        self.dist[key] = self.dist.get(key, 0) + n

    def note_case(self, case, nontrivial=True, sample_every=0):
        """Register one explored case (JSON-able).  Distinct non-trivial cases are counted by digest."""
        self.evaluations += 1
        if nontrivial:
            d = hashlib.sha1(json.dumps(case, sort_keys=True, default=str).encode()).digest()[:10]
            self.digests.add(d)
        if len(self.samples) < 3 or (sample_every and self.evaluations % sample_every == 0 and len(self.samples) < 8):
            self.samples.append(case)

    # ---- proof gate --------------------------------------------------------------------------
    def proof_gate(self):
        ok, out = build_coq()
        problems = []
        if not ok:
            problems.append('Coq development does not build: ' + out[-2000:])
        bad = scan_forbidden()
        if bad:
            problems.append('forbidden vernacular: ' + '; '.join(bad[:5]))
        names = []
        try:
            names = property_theorems(self.pid)
        except FileNotFoundError:
            problems.append(f'Properties/{self.pid}.v is missing')
        self.obligations = names
        if names and ok:
            v = self.work / 'assumptions.v'
            lines = [f'From Hpotk Require Import Properties.{self.pid}.']
            for nme in names:
                lines.append(f'Goal True. idtac "ASSUMPTIONS-OF {nme}". exact I. Qed.')
                lines.append(f'Print Assumptions {nme}.')
            v.write_text('\n'.join(lines) + '\n')
            r = run_coqc(v, cwd=self.work)
            if r.returncode != 0:
                problems.append('Print Assumptions failed: ' + (r.stdout + r.stderr)[-1500:])
            else:
                self.assumptions = parse_assumptions(r.stdout, names)
                for nme in names:
                    if nme not in self.assumptions:
                        problems.append(f'no Print Assumptions output for {nme}')
                        continue
                    notok = [a for a in self.assumptions[nme] if not axiom_allowed(a, self.allow_primitives)]
                    if notok:
                        problems.append(f'theorem {nme} depends on assumptions outside the allow-list: {notok}')
                    else:
                        self.discharged.append(nme)
        if self.tier == 'thorough' and ok and names and not problems:
            # independent re-check of the compiled property file and everything it depends on, with the axiom listing
            to = int(os.environ.get('VERIF_COQCHK_TIMEOUT', '1500'))
            r = subprocess.run(['timeout', str(to), 'coqchk', '-silent', '-o', '-Q', str(THEORIES), 'Hpotk', f'Hpotk.Properties.{self.pid}'],
                               cwd=COQ, capture_output=True, text=True)
            out = r.stdout + r.stderr
            if r.returncode == 124:
                self.extra['coqchk'] = f'timed out after {to} s (the kernel-float sweeps are re-evaluated by coqchk); not a verdict'
            elif r.returncode != 0:
                problems.append('coqchk rejects the compiled development: ' + out[-800:])
            else:
                m = re.search(r'\* Axioms:(.*?)\n\s*\n\* Constants/Inductives relying on type-in-type:(.*?)\n', out, re.S)
                self.extra['coqchk'] = {'axioms': ' '.join(m.group(1).split()) if m else out[-600:],
                                        'type_in_type': ' '.join(m.group(2).split()) if m else '?'}
        if problems:
            self.gate_problems = problems
        else:
            self.gate_problems = []
        return not problems

    # ---- translated tie ---------------------------------------------------------------------
    def translation_tie(self, translate, src, vname):
        """second tie: definitions TRANSLATED from the source file `src` by the fail-closed translator `translate` and
        proved equal to the hand-written model.  Returns None when the tie holds, else what no longer checks."""
        try:
            text = translate(str(src))
        except Exception as e:
            if type(e).__name__ == 'TranslateError':
                return f'translator rejects {src}: {e} (the source no longer has the shape the model was read from)'
            return f'translator failed on {src}: {type(e).__name__}: {e}'
        v = self.work / vname
        v.write_text(text)
        r = run_coqc(v.name, cwd=self.work)
        self.extra.setdefault('translated_definitions', []).extend(l.strip()[:300] for l in text.splitlines() if l.startswith('Definition'))
        if r.returncode != 0:
            return ('the definitions translated from the source are NOT equal to the model the theorems are about: '
                    + (r.stdout + r.stderr).strip()[-500:])
        self.count('translated-and-proved-equal')
        return None

    def report_broken_tie(self, sig, broken_tie, lemmas, theorem):
        """a broken translated tie is reported with the concrete failing inputs the behavioural exploration found, or
        with no-failing-input-found"""
        found = [str(rp) for _, rp, nf in self.violations if not nf]
        self.report_violation(sig, {'no_failing_input': not found, 'broken': [lemmas], 'detail': broken_tie, 'theorem': theorem,
                                    'failing_inputs_found_by_the_exploration': found[:5]}, what=sig + ': ' + broken_tie[:300])

    # ---- implementation side -----------------------------------------------------------------
    def impl_env(self, hashseed=None):
        env = dict(os.environ)
        env['PYTHONPATH'] = str(REPO / 'src')
        env['PYTHONHASHSEED'] = hashseed if hashseed is not None else self.hashseed
        env['PYTHONWARNINGS'] = 'ignore'
        env['PYTHONDONTWRITEBYTECODE'] = '1'
        env[GUARD] = '1'
        env['VERIF_REPO'] = str(REPO)
        return env

    def run_impl(self, observer, payload, timeout=600, hashseed=None, extra_env=None):
        """Run harness/impl_<observer>.py:observe(payload) against $VERIF_REPO/src in a fresh
        interpreter.  Returns the JSON result; raises ImplFailure when the worker dies/hangs."""
        inp = self.work / f'impl_in_{observer}.json'
        outp = self.work / f'impl_out_{observer}.json'
        inp.write_text(json.dumps(payload))
        if outp.exists():
            outp.unlink()
        cmd = ['timeout', str(timeout), PY, str(VERIF / 'harness' / 'impl_runner.py'), observer, str(inp), str(outp)]
        env = self.impl_env(hashseed)
        if extra_env:
            env.update(extra_env)
        r = subprocess.run(cmd, capture_output=True, text=True, env=env, cwd=str(self.work))
        if r.returncode != 0 or not outp.exists():
            raise ImplFailure(observer, r.returncode, (r.stdout + r.stderr)[-3000:])
        return json.loads(outp.read_text())

    # ---- model side --------------------------------------------------------------------------
    @staticmethod
    def _drop_compiled(f):
        """the compiled shard is of no further use (its printed result is what counts): keep the disk small"""
        for suffix in ('.vo', '.vok', '.vos', '.glob'):
            try:
                os.unlink(str(f)[:-2] + suffix)
            except OSError:
                pass
        try:
            os.unlink(os.path.join(os.path.dirname(str(f)), '.' + os.path.basename(str(f))[:-2] + '.aux'))
        except OSError:
            pass

    def coq_failing(self, header, cases, check_fn, shard=400, tag='cases', timeout=900):
        """cases: list of Coq terms (strings).  Emits shards `Definition cases := [...]` and lets Coq
        evaluate `failing check_fn cases` with vm_compute.  Returns sorted global failing indices."""
        if not cases:
            return []
        files = []
        # shards are bounded by case count AND by text size (a multi-MB literal overflows coqc's stack)
        k, n_file = 0, 0
        while k < len(cases):
            size, j = 0, k
            while j < len(cases) and j - k < shard and (j == k or size + len(cases[j]) < MAX_SHARD_BYTES):
                size += len(cases[j])
                j += 1
            f = self.work / f'{tag}_{n_file:04d}.v'
            body = [header, 'Definition cases := [', ';\n'.join(cases[k:j]), '].',
                    f'Eval vm_compute in (failing {check_fn} cases).']
            f.write_text('\n'.join(body) + '\n')
            files.append((k, j - k, f))
            k, n_file = j, n_file + 1
        procs = []
        failing = []
        pending = list(files)
        running = []
        errors = []
        while pending or running:
            while pending and len(running) < NCPU:
                k, cnt, f = pending.pop(0)
                p = subprocess.Popen(['timeout', str(timeout), 'coqc', '-noglob', '-Q', str(THEORIES), 'Hpotk',
                                      '-w', '-notation-overridden', f.name],
                                     cwd=str(self.work), stdout=subprocess.PIPE, stderr=subprocess.PIPE, text=True,
                                     preexec_fn=_big_stack)
                running.append((k, cnt, f, p))
            k, cnt, f, p = running.pop(0)
            out, err = p.communicate()
            self._drop_compiled(f)
            if p.returncode != 0:
                errors.append(f'{f.name}: exit {p.returncode}: {(out + err)[-1500:]}')
                continue
            m = re.search(r'=\s*\((\d+),\s*(\[[^\]]*\])\)', out.replace('\n', ' '))
            if not m:
                errors.append(f'{f.name}: cannot parse: {out[-500:]}')
                continue
            n = int(m.group(1))
            expected = cnt
            if n != expected:
                errors.append(f'{f.name}: evaluated {n} cases, expected {expected}')
            idx = [int(x) for x in re.findall(r'\d+', m.group(2))]
            failing.extend(k + i for i in idx)
        if errors:
            raise ModelFailure('; '.join(errors[:3]))
        return sorted(failing)


    def coq_eval_ints(self, header, cases, fn, shard=200, tag='eval', timeout=900):
        """Evaluates `fn case : list Z` for every case inside Coq (vm_compute) and returns the integer
        lists, one per case - used where the comparison itself cannot be done in Coq (floating-point log)."""
        if not cases:
            return []
        out = []
        files = []
        for k in range(0, len(cases), shard):
            f = self.work / f'{tag}_{k // shard:04d}.v'
            body = [header, 'Definition cases := [', ';\n'.join(cases[k:k + shard]), '].',
                    f'Eval vm_compute in (map {fn} cases).']
            f.write_text('\n'.join(body) + '\n')
            files.append((k, f))
        procs = []
        for k, f in files:
            procs.append((k, f, subprocess.Popen(['timeout', str(timeout), 'coqc', '-noglob', '-Q', str(THEORIES), 'Hpotk', '-w', '-notation-overridden', f.name],
                                                  cwd=str(self.work), stdout=subprocess.PIPE, stderr=subprocess.PIPE, text=True)))
            if len(procs) >= NCPU:
                pass
        for k, f, p in procs:
            o, e = p.communicate()
            self._drop_compiled(f)
            if p.returncode != 0:
                raise ModelFailure(f'{f.name}: exit {p.returncode}: {(o + e)[-1500:]}')
            txt = o[o.index('='):]
            txt = txt[:txt.rindex(':')]
            lists = re.findall(r'\[([^\[\]]*)\]', txt)
            expected = min(shard, len(cases) - k)
            if len(lists) != expected:
                raise ModelFailure(f'{f.name}: parsed {len(lists)} results, expected {expected}')
            for l in lists:
                out.append([int(x) for x in re.findall(r'-?\d+', l.replace('%Z', ''))])
        return out

    # ---- verdicts ----------------------------------------------------------------------------
    def report_violation(self, signature, replay, what=''):
        """signature: stable identifier of WHAT fails (used to match known findings)."""
        for k in self.known:
            if k.get('property') == self.pid and k.get('status') == 'known' and k.get('signature') == signature:
                if signature not in [s for s, _ in self.known_hits]:
                    self.known_hits.append((signature, k.get('what', what)))
                return False
        d = hashlib.sha1((signature + json.dumps(replay, sort_keys=True, default=str)).encode()).hexdigest()[:12]
        rp = VERIF / 'replays' / f'{self.pid}-{d}.json'
        rp.parent.mkdir(exist_ok=True)
        replay = dict(replay)
        replay.setdefault('property', self.pid)
        replay.setdefault('signature', signature)
        replay.setdefault('what', what)
        replay.setdefault('replay_cmd', f'./check {self.pid} --replay {rp.relative_to(VERIF)}')
        rp.write_text(json.dumps(replay, indent=1, sort_keys=True, default=str))
        self.violations.append((signature, rp, replay.get('no_failing_input', False)))
        return True

    def finish(self, level='proof', trusted_base=None, assumptions=None):
        wall = time.time() - self.t0
        cov = {
            'obligations': len(self.obligations),
            'discharged': len(self.discharged),
            'checker_cmd': f'make -C coq (full .vo build, coqc 8.16.1) && coqc work/{self.pid}/assumptions.v '
                           f'(Print Assumptions of every theorem of Properties/{self.pid}.v) && '
                           f'coqc work/{self.pid}/cases_*.v (vm_compute correspondence)',
            'trusted_base': trusted_base or [],
            'theorems': self.obligations,
            'assumptions_of_theorems': self.assumptions,
            'evaluations': self.evaluations,
            'distinct_nontrivial': len(self.digests),
            'rule': self.rule,
            'samples': self.samples[:8],
            'traces_validated_against_impl': self.traces or self.evaluations,
            'input_distribution': self.dist,
            'exhaustive': self.exhaustive,
            'implementation_under_test': str(REPO / 'src'),
        }
        cov.update(self.extra)
        ev = {
            'property_id': self.pid, 'tier': self.tier, 'seed': self.seed, 'level': level,
            'coverage': cov, 'assumptions': assumptions or [], 'wall_s': round(wall, 2),
            'violations': len(self.violations),
        }
        if str(REPO) == '/repo':
            (VERIF / 'evidence').mkdir(exist_ok=True)
            (VERIF / 'evidence' / f'{self.pid}.json').write_text(json.dumps(ev, indent=1, default=str))
        else:
            # self-validation run against a scratch tree ($VERIF_REPO): never touches the committed evidence
            (self.work / 'evidence.json').write_text(json.dumps(ev, indent=1, default=str))
        for sig, what in self.known_hits:
            log(f'KNOWN-FINDING: property={self.pid} {what}')
        if self.violations:
            for sig, rp, nofail in self.violations[:20]:
                tail = ' no-failing-input-found' if nofail else ''
                log(f'VIOLATION property={self.pid} replay={rp}{tail}')
            return 1
        log(f'OK property={self.pid} tier={self.tier} seed={self.seed} theorems={len(self.discharged)}/'
            f'{len(self.obligations)} evaluations={self.evaluations} distinct_nontrivial={len(self.digests)} '
            f'wall={wall:.1f}s')
        return 0

    def gate_violation_if_needed(self):
        """Called at the end: if the proof gate failed and no concrete failing input was found,
        report the broken theorem / machinery with no-failing-input-found."""
        if getattr(self, 'gate_problems', None) and not [v for v in self.violations if not v[2]]:
            self.report_violation('proof-gate', {'no_failing_input': True, 'broken': self.gate_problems},
                                  what='proof gate no longer checks: ' + self.gate_problems[0][:300])

    def correspondence_break(self, signature, replay, what=''):
        """The model and the implementation disagree on something the property itself does not fix (a different but
        valid answer, another sequence of internal steps, another file text that still round-trips ...).  The tie is
        broken, so the property is no longer shown to hold: reported at the end of the run, with the failing inputs of
        the property-level exploration when it found any, with no-failing-input-found otherwise."""
        if not hasattr(self, 'pending_breaks'):
            self.pending_breaks = []
        if signature not in [p[0] for p in self.pending_breaks]:
            self.pending_breaks.append((signature, dict(replay), what))

    def flush_breaks(self):
        for signature, replay, what in getattr(self, 'pending_breaks', []):
            found = [str(rp) for _, rp, nf in self.violations if not nf]
            replay['no_failing_input'] = not found
            replay.setdefault('broken', ['correspondence ' + signature + ' (model vs implementation)'])
            replay['failing_inputs_found_by_the_exploration'] = found[:5]
            replay['note'] = ('the disagreement below is between the model and the implementation; the input is NOT by itself a violation of the property'
                              if not found else 'property-level failing inputs were found by the same run, see failing_inputs_found_by_the_exploration')
            self.report_violation(signature, replay, what=what)
        self.pending_breaks = []

    def machinery_violation(self, what, detail):
        self.report_violation('machinery:' + what, {'no_failing_input': True, 'broken': [what], 'detail': detail},
                              what=f'correspondence can no longer be evaluated: {what}')


class ImplFailure(Exception):
    def __init__(self, observer, rc, out):
        super().__init__(f'implementation worker {observer} failed rc={rc}: {out}')
        self.rc = rc
        self.out = out


class ModelFailure(Exception):
    pass


def load_known_findings():
    p = VERIF / 'known_findings.json'
    if not p.exists():
        return []
    return json.loads(p.read_text()).get('findings', [])


def chunks(l, n):
    for i in range(0, len(l), n):
        yield l[i:i + n]
