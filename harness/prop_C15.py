"""C15 - similarity container is a symmetric map; CSV round trip is lossless."""
import itertools
import json

import graphcorr as GC
from common import cstr, cnat, cbool, clist, ctuple, cexn, log, run_coqc

TRUSTED_BASE = [
    'the nested defaultdict is modelled by a nested association list with dict semantics; str <= by String order (bytewise UTF-8 = code point order)',
    'values travel as float.hex() tokens; `sim < 0.` is modelled on the token (leading "-" and not -0.0)',
    'the CSV row codec (csv.writer QUOTE_MINIMAL, the csv.reader state machine incl. records that span lines), the FILE layout (comment lines, column names, rows), '
    'the store_header filter, DictReader (field names, skipped empty records, short rows) and _parse_meta ARE modelled; the file round trip and the end-to-end container round trip are theorems '
    '(C15_csv_file_roundtrip, C15_rebuild, C15_container_csv_roundtrip)',
    'PARTIAL: repr / float() of binary64 and gzip are runtime-library behaviour: an oracle pair with the law float(repr(v)) = v (hypothesis of the theorem); the correspondence passes a '
    'per-file table cell text -> (float() accepts it, value < 0, float.hex()) computed by Python; the real round trip is also executed (write, read back, compare by float.hex())',
]
ASSUMPTIONS = ['metadata round-trip theorem: non-empty key-unique maps whose keys and values contain none of ; = LF CR',
               'CSV keys contain no line breaks (a quoted embedded line break is legal CSV but outside the explored inputs)']
THEOREM = 'C15_symmetric_last_write_wins / C15_len_and_items / C15_negative_rejected / C15_metadata_roundtrip / C15_metadata_reserved_rejected / C15_csv_row_roundtrip / C15_csv_file_roundtrip / C15_rebuild / C15_container_csv_roundtrip'

HEADER = '''From Coq Require Import String List ZArith.
From Hpotk Require Import Base.Result Base.Emit Sim.Model Sim.Csv Corr.C15.
Import ListNotations.
Open Scope string_scope.
Open Scope list_scope.'''

VALS = [0.0, 1.5, -1.0]
EXTRA_VALS = [5e-324, 1.7976931348623157e308, -0.0, float('inf'), -5e-324, 2.5, 1e-300, 3.0, 0.1, -2.0, 123456789.125]
KEYSETS = [['a', 'b', 'c'], ['HP:0000001', 'HP:0000010', 'HP:0000002'], ['é', 'e', 'z', 'ü'], ['a,b', 'c"d', " a", "b'"],
           ['', 'A', 'a'], ['#b', 'a', '#'], ['10', '9', '1'], ['a\x0bb', 'c\x85d', 'e\u2028f', 'g\x1ch', 'i\x0cj']]


def crb(rb):
    items = clist([ctuple([cstr(a), cstr(b), cstr(v)]) for a, b, v in rb['items']])
    return f'(mkRB {clist([cstr(g) for g in rb["gets"]])} {cnat(rb["len"])} {items})'


def render(case, obs):
    if case['kind'] == 'history':
        steps = clist([ctuple([cstr(a), cstr(b), cstr(tok), cbool(st['accepted']), crb(st['rb'])])
                       for (a, b, tok), st in zip(case['ops'], obs['steps'])])
        return f'(CHistory {clist([cstr(k) for k in case["keys"]])} {steps})'
    if case['kind'] == 'csv_text':
        tbl = clist([ctuple([cstr(t), ctuple([ctuple([cbool(ok), cbool(ng)]), cstr(h)])]) for t, ok, ng, h in obs['table']])
        if 'ok' in obs:
            r = ('(Ok (' + clist([ctuple([cstr(k), cstr(v)]) for k, v in obs['ok']['meta']]) + ', '
                 + clist([ctuple([cstr(a), cstr(b), cstr(v)]) for a, b, v in obs['ok']['items']]) + '))')
        else:
            r = f'(Err {cexn(obs["err"])})'
        return f'(CCsvFileRead {tbl} {cstr(case["text"])} {r})'
    if case['kind'] == 'csv_write':
        return f'(CCsvWrite {clist([cstr(x) for x in case["fields"]])} {cstr(obs["line"])})'
    if case['kind'] == 'csv_read':
        return f'(CCsvRead {cstr(case["line"])} {clist([cstr(x) for x in (obs["fields"] or [])])})'
    if case['kind'] == 'meta_to_str':
        m = clist([ctuple([cstr(k), cstr(v)]) for k, v in case['meta']])
        r = f'(Ok {cstr(obs["ok"])})' if 'ok' in obs else f'(Err {cexn(obs["err"])})'
        return f'(CMetaToStr {m} {r})'
    r = ('(Ok ' + clist([ctuple([cstr(k), cstr(v)]) for k, v in obs['ok']]) + ')') if 'ok' in obs else f'(Err {cexn(obs["err"])})'
    return f'(CMetaFromStr {cstr(case["s"])} {r})'


def evaluate(chk, cases, tag='cases', shard=250):
    obs = []
    for part in [cases[i:i + 3000] for i in range(0, len(cases), 3000)]:
        obs += chk.run_impl('C15', {'cases': part, 'workdir': str(chk.work)})['cases']
    bad = [i for i, o in enumerate(obs) if 'crash' in o]
    live = [i for i in range(len(cases)) if i not in set(bad)]
    file_cases = [i for i in live if cases[i]['kind'] == 'csv_file']
    live = [i for i in live if cases[i]['kind'] != 'csv_file']
    terms = {i: render(cases[i], obs[i]) for i in live}
    for i in live:
        if cases[i]['kind'] == 'csv_text':
            chk.count('csv_text:' + ('ok:%d-items' % min(len(obs[i]['ok']['items']), 3) if 'ok' in obs[i] else 'raises:' + obs[i]['err']))
    extra = []
    # the header line of a successfully encoded metadata map: frame/unframe agree with the model
    fr = [(i, obs[i]) for i in live if cases[i]['kind'] == 'meta_to_str' and 'ok' in obs[i]]
    fterms = [f'(CFrame {cstr(o["ok"])} {cstr(o["line"])})' for _, o in fr]
    for i in file_cases:
        o = obs[i]
        if o.get('data_lines') is None or len(o['data_lines']) != len(o['rows']):
            fr.append((i, o))
            fterms.append('(CCsvWrite [] "the file has another number of data lines than the container has rows")')
            continue
        for row, line in zip(o['rows'], o['data_lines']):
            fr.append((i, o))
            fterms.append(f'(CCsvWrite {clist([cstr(x) for x in row])} {cstr(line)})')
        # the whole file text against to_csv_text
        fr.append((i, o))
        if o.get('description') is None:
            fterms.append('(CCsvWrite [] "the file does not start with a comment line")')
        else:
            fterms.append(f'(CCsvFileWrite {cstr(o["description"])} {cstr(o["meta_str"])} '
                          f'{clist([ctuple([cstr(a), cstr(b), cstr(v)]) for a, b, v in o["items"]])} {cstr(o["text"])})')
    allterms = [terms[i] for i in live] + fterms
    f = chk.coq_failing(HEADER, allterms, 'check_ccase', shard=shard, tag=tag)
    failing = sorted({live[j] if j < len(live) else fr[j - len(live)][0] for j in f} | set(bad))
    # round trip: property evaluated directly on the implementation's own output
    rtfail = [i for i in live if cases[i]['kind'] == 'history' and any(obs[i].get('roundtrip', {}).get(e) for e in ('.csv', '.csv.gz'))]
    return terms, obs, failing, rtfail


def tok(v):
    return float(v).hex()


def gen(chk):
    rng = chk.rng
    thorough = chk.tier == 'thorough'
    cases = []
    keys = KEYSETS[0]
    alpha = [(a, b, tok(v)) for a in keys for b in keys for v in VALS]          # 27 operations
    n_exh = 0
    for L in (1, 2):
        for seq in itertools.product(alpha, repeat=L):
            cases.append({'kind': 'history', 'keys': keys, 'ops': list(seq), 'exh': True})
            n_exh += 1
    n3 = 19683 if thorough else 2500
    all3 = itertools.product(alpha, repeat=3)
    if thorough:
        for seq in all3:
            cases.append({'kind': 'history', 'keys': keys, 'ops': list(seq), 'exh': True})
    else:
        for _ in range(n3):
            cases.append({'kind': 'history', 'keys': keys, 'ops': [rng.choice(alpha) for _ in range(3)]})
    for _ in range(4000 if thorough else 600):
        cases.append({'kind': 'history', 'keys': keys, 'ops': [rng.choice(alpha) for _ in range(4)]})
    # random long histories over other key alphabets and values, followed by a CSV round trip
    for _ in range(1500 if thorough else 300):
        ks = rng.choice(KEYSETS)
        n = rng.randint(0, 60 if rng.random() < 0.2 else 12)
        vals = VALS + EXTRA_VALS
        ops = [(rng.choice(ks), rng.choice(ks), tok(rng.choice(vals))) for _ in range(n)]
        meta = gen_meta(rng, ok=True)
        cases.append({'kind': 'history', 'keys': ks, 'ops': ops, 'csv': True, 'metadata': meta})
    # metadata codec
    for _ in range(1200 if thorough else 300):
        cases.append({'kind': 'meta_to_str', 'meta': gen_meta(rng, ok=rng.random() < 0.6)})
    strs = ['', 'a', 'a=b', 'a=b;c=d', 'a=b;;c=d', 'a=b=c', '=', ';', 'a=', '=b', 'a=b;a=c', 'k=v;', 'é=ü;x= y ', 'a=b\nc', '#a=b']
    for s in strs:
        cases.append({'kind': 'meta_from_str', 's': s})
    for _ in range(600 if thorough else 150):
        n = rng.randint(1, 4)
        s = ';'.join(''.join(rng.choice('ab=é ;#') for _ in range(rng.randint(0, 5))) for _ in range(n))
        cases.append({'kind': 'meta_from_str', 's': s})
    # the CSV row codec: csv.writer / csv.reader against the model, and the rows to_csv really writes
    alphabet = ['a', 'B', '1', ',', '"', ' ', '#', 'é', ';', '=', "'", '.', ':']
    for _ in range(1500 if thorough else 400):
        fields = [''.join(rng.choice(alphabet) for _ in range(rng.randint(0, 5))) for _ in range(rng.randint(1, 4))]
        cases.append({'kind': 'csv_write', 'fields': fields})
    for _ in range(1500 if thorough else 400):
        line = ''.join(rng.choice(alphabet + [',', '"', '"']) for _ in range(rng.randint(0, 12))) + rng.choice(['', '\r\n', '\n'])
        cases.append({'kind': 'csv_read', 'line': line})
    for _ in range(300 if thorough else 60):
        ks = [''.join(rng.choice(alphabet) for _ in range(rng.randint(0, 4))) for _ in range(3)]
        ops = [(rng.choice(ks), rng.choice(ks), tok(rng.choice(VALS[:2] + EXTRA_VALS[:4] + [0.1, 2.5, 1e-7, 123456789.125]))) for _ in range(rng.randint(0, 6))]
        ops = [o for o in ops if not o[2].startswith('-')]
        cases.append({'kind': 'csv_file', 'ops': ops})
    # from_csv on whole files: well-formed ones, mutated ones (columns, blank lines, short / long rows, multi-line quoted
    # fields, comments in odd places, missing pieces, line-ending conventions) and random soups
    for text in csv_texts(rng, 900 if thorough else 220):
        cases.append({'kind': 'csv_text', 'text': text})
    return cases, n_exh


CSV_SEEDS = [
    '#d\n#k=v\nterm_a,term_b,ic_mica\r\na,b,1.5\r\nb,a,2\r\nc,c,0.25\r\n',
    '#d\n#k=v;created=2024-01-01-00:00:00\nterm_a,term_b,ic_mica\r\n"a,b","c""d",1e-3\r\n#x,y,3\r\n,,0\r\n',
    '#Information content\n#m=é\nterm_a,term_b,ic_mica\r\nHP:1,HP:é,inf\r\nHP:1,HP:1,nan\r\n',
    '#d\n#k=v\nterm_a,term_b,ic_mica\r\n',
    '',
]


def csv_texts(rng, n):
    out = list(CSV_SEEDS)
    cells = ['a', 'b', 'HP:1', '#x', '', ' ', '1.5', '-2', '0', 'x', '1e400', '-0.0', 'nan', ' 2 ', '"q"', 'a"b', '"a,b"', '"a\nb"', 'é', 'term_a', 'ic_mica']
    heads = ['term_a,term_b,ic_mica', 'term_b,term_a,ic_mica', 'term_a,term_b', 'term_a,term_b,ic_mica,extra', 'term_a,term_a,ic_mica', 'ic_mica,term_a,term_b',
             '"term_a",term_b,ic_mica', 'term_a, term_b,ic_mica', '', 'x']
    comments = ['#d', '#k=v', '#k=v;a=b', '#', '#k', '#a=b=c', '#k=v;', '# k = v ', '#é=ü']
    good_heads = ['term_a,term_b,ic_mica', 'term_b,term_a,ic_mica', 'ic_mica,term_a,term_b', 'term_a,term_b,ic_mica,extra', '"term_a",term_b,ic_mica']
    good_vals = ['1.5', '0', '2', '0.25', '1e-7', 'inf', ' 2 ', '1e400', '-0.0', 'nan', '3']
    while len(out) < n:
        eol = rng.choice(['\r\n', '\n', '\r\n', '\r'])
        tidy = rng.random() < 0.65                       # mostly-valid files; the rest is the malformed stream
        lines = []
        if tidy:
            lines.append('#' + rng.choice(['d', 'Information content', '']) + '\n')
            lines.append(rng.choice(['#k=v', '#k=v;a=b', '#é=ü;created=2024-01-01', '# k = v ', '#a=;b=c']) + '\n')
            lines.append(rng.choice(good_heads) + eol)
        else:
            for _ in range(rng.choice([0, 1, 2, 2, 3])):
                lines.append(rng.choice(comments) + rng.choice(['\n', '\n', eol]))
            if rng.random() < 0.9:
                lines.append(rng.choice(heads) + eol)
        ncol = len(lines[-1].split(',')) if lines else 3
        for _ in range(rng.randint(0, 6)):
            k = rng.random()
            if k < 0.08:
                lines.append(eol)                                           # blank line
            elif k < 0.14:
                lines.append(rng.choice(comments) + eol)                    # a '#' line below the column names: a data row
            elif tidy and k < 0.92:
                head = lines[2].rstrip('\r\n').replace('"', '').split(',')
                row = [rng.choice(good_vals) if h.strip() == 'ic_mica' else rng.choice(cells[:9] + ['"a,b"', '"a\nb"', 'é', '"c""d"']) for h in head]
                lines.append(','.join(row) + eol)
            else:
                width = rng.choice([3, 3, 3, 2, 4, 1])
                row = [rng.choice(cells) for _ in range(width)]
                if width == 3 and rng.random() < 0.7:
                    row[2] = rng.choice(['1.5', '0', '2', '0.25', '1e-7', '-2', 'inf', 'x', ''])
                lines.append(','.join(row) + eol)
        text = ''.join(lines)
        if rng.random() < 0.15 and text.endswith(eol):
            text = text[:-len(eol)]                                          # no terminator on the last line
        if '\x00' not in text:
            out.append(text)
    return out


def gen_meta(rng, ok):
    # incl. the characters that str.splitlines() - but no text file and no csv reader - takes for line boundaries
    good = 'abcXYZ019 -_.:/é#,"\'' + '\x0b\x0c\x1c\x1e\x85\u2028\u2029'
    n = rng.randint(0 if not ok else 1, 4)
    m = []
    seen = set()
    for _ in range(n):
        k = ''.join(rng.choice(good) for _ in range(rng.randint(0, 6)))
        v = ''.join(rng.choice(good) for _ in range(rng.randint(0, 8)))
        if not ok and rng.random() < 0.6:
            bad = rng.choice([';', '=', '\n', '\r', ';=', '\r\n'])
            if rng.random() < 0.5:
                k = k[:2] + bad + k[2:]
            else:
                v = v[:3] + bad + v[3:]
        if k in seen:
            continue
        seen.add(k)
        m.append([k, v])
    return m


def run(chk):
    cases, n_exh = gen(chk)
    corpus = GC.load_corpus('C15')
    for c in corpus:        # value tokens must be canonical float.hex() spellings
        if c['kind'] == 'history':
            c['ops'] = [[a, b, float.fromhex(t).hex()] for a, b, t in c['ops']]
    cases = corpus + cases
    for c in cases:
        chk.count('kind:' + c['kind'])
        if c['kind'] == 'history':
            chk.count('history_len:%s' % (len(c['ops']) if len(c['ops']) <= 4 else '5+'))
            chk.count('rejected_negative_ops', sum(1 for o in c['ops'] if o[2].startswith('-') and o[2] != '-0x0.0p+0'))
        chk.note_case(c, nontrivial=(c['kind'] != 'history' or len(c['ops']) >= 2), sample_every=1500)
    terms, obs, failing, rtfail = evaluate(chk, cases)
    chk.evaluations = len(cases)
    chk.traces = sum(1 for c in cases if c['kind'] == 'history')
    chk.extra['exhaustive_histories'] = n_exh
    chk.extra['csv_roundtrips'] = 2 * sum(1 for c in cases if c.get('csv'))
    chk.exhaustive = True
    chk.rule = ('ALL histories of length <= 2 (quick) / <= 3 (thorough) over 27 operations (keys {a,b,c} in both orders incl. self pairs x values {0, 1.5, -1}) plus sampled '
                'length-3/4 histories, with a full read-back after EVERY step (get for all ordered key pairs, len, sorted items) compared with the model; random '
                'histories up to length 60 over 8 key alphabets (CURIEs, non-ASCII, commas/quotes, empty key, #-keys, the line boundaries of str.splitlines that no file iterator honours: VT FF FS RS NEL LS PS) and tiny/huge/zero/-0.0/inf/negative values, '
                'each followed by a .csv and .csv.gz round trip evaluated on the implementation (similarities by float.hex, metadata); metadata_to_str on random '
                'maps incl. ; = LF CR (exact string and header line vs the model), metadata_from_str on well- and ill-formed strings; csv.writer rows and csv.reader lines over an alphabet with commas, quotes, blanks, #, non-ASCII compared with the row-codec model, and the data lines to_csv writes compared with write_row [a; b; repr(v)]; the WHOLE file to_csv writes compared with to_csv_text; from_csv on 220 (thorough: 900) whole files - 65% mostly-valid '
                '(column permutations, extra column, quoted / multi-line / #-leading cells, blank lines, LF / CR LF / CR endings, missing last terminator), 35% malformed (missing or wrong columns, short / long rows, bad / negative numbers, '
                'odd comment lines) - compared with the file-level model: metadata + items or the exception class')
    if failing or rtfail:
        report(chk, cases, obs, failing, rtfail)


def shrink_history(chk, case):
    cur = case
    for _ in range(30):
        ops = cur['ops']
        cands = [dict(cur, ops=ops[:i] + ops[i + 1:]) for i in range(len(ops))]
        if not cands:
            break
        _, _, f, rt = evaluate(chk, cands, tag='shrink')
        bad = sorted(set(f) | set(rt))
        if not bad:
            break
        cur = cands[bad[0]]
    return cur


def model_answer(chk, term):
    f = chk.work / 'model_answer.v'
    f.write_text(HEADER + f'\nEval vm_compute in (check_ccase {term}).\n')
    r = run_coqc(f, timeout=120, cwd=chk.work)
    return (r.stdout + r.stderr)[-1500:]


def sig_for(case, is_rt, obs):
    if case['kind'] in ('csv_write', 'csv_read', 'csv_file', 'csv_text'):
        return 'C15:' + case['kind']
    if case['kind'] == 'history':
        if is_rt:
            probs = [p for e in ('.csv', '.csv.gz') for p in obs.get('roundtrip', {}).get(e, [])]
            what = 'metadata' if any('metadata_before' in p for p in probs) else 'exception' if any('exception' in p for p in probs) else 'similarities'
            return 'C15:csv-roundtrip:' + what
        return 'C15:history'
    if case['kind'] == 'meta_to_str':
        flat = ''.join(k + v for k, v in case['meta'])
        return 'C15:metadata_to_str:' + ('linebreak' if ('\n' in flat or '\r' in flat) and ';' not in flat and '=' not in flat else 'other')
    return 'C15:metadata_from_str'


def report(chk, cases, obs, failing, rtfail, limit=4):
    seen = {}
    todo = [(i, False) for i in failing] + [(i, True) for i in rtfail]
    todo.sort(key=lambda t: len(json.dumps(cases[t[0]])))
    for i, is_rt in todo:
        sig = sig_for(cases[i], is_rt, obs[i])
        if sig in seen or len(seen) >= limit:
            continue
        seen[sig] = 1
        if cases[i]['kind'] in ('csv_write', 'csv_read', 'csv_file', 'csv_text') and not is_rt:
            # the exact text of a row / a file and the behaviour on malformed files are fixed by the model, not by the property
            # (which asks for a lossless round trip - evaluated directly on every history with csv=True)
            chk.correspondence_break(sig, {'case': cases[i], 'impl': {k: v for k, v in obs[i].items() if k != 'table'}, 'theorem': THEOREM,
                                           'broken': ['Corr.C15.check_ccase (CCsvWrite / CCsvRead / CCsvFileWrite / CCsvFileRead): the CSV codec model vs the csv module / to_csv / from_csv']},
                                     what=f'{sig}: the CSV text written or the result of reading a file differs from the codec model: {json.dumps(cases[i])[:300]}')
            continue
        small = shrink_history(chk, cases[i]) if cases[i]['kind'] == 'history' else cases[i]
        terms, o, f, rt = evaluate(chk, [small], tag='final')
        chk.report_violation(sig, {'case': small, 'impl': o[0], 'model_agrees': model_answer(chk, terms[0]) if 0 in terms else 'n/a',
                                   'theorem': THEOREM, 'failing_cases_total': len(failing) + len(rtfail)},
                             what=f'{sig}: {json.dumps(small)[:300]}')


def replay(chk, path):
    rp = json.loads(open(path).read())
    cases = rp['cases'] if 'cases' in rp else [rp['case']]
    for case in cases:
        terms, obs, f, rt = evaluate(chk, [case], tag='replay')
        chk.note_case(case)
        log('impl now :', json.dumps(obs[0])[:2000])
        log('agree    :', not f and not rt)
        if f or rt:
            chk.report_violation(rp.get('signature', sig_for(case, bool(rt), obs[0])), {'case': case, 'impl': obs[0]}, what='replayed case still fails')
