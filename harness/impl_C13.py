"""Observation of the hierarchical term-id sortings (C13)."""
import random
import warnings

warnings.simplefilter('ignore')

import numpy as np  # noqa: E402

from hpotk.model import TermId, Identified  # noqa: E402
from hpotk.util.sort import HierarchicalEdgeTermIdSorting, HierarchicalIcTermIdSorting  # noqa: E402
import hpotk.util.sort._hierarchical as H  # noqa: E402

from impl_graph import FACTORIES, exn_name, warm_up  # noqa: E402


class NpProxy:
    """numpy, with argmax recording what the clustering loop decides on"""
    def __init__(self):
        self.log = []

    def __getattr__(self, name):
        return getattr(np, name)

    def argmax(self, a, axis=None, **kw):
        idx = np.argmax(a, axis=axis, **kw)
        n = a.shape[0]
        self.log.append((int(idx) // n, int(idx) % n, float(a.flat[int(idx)])))
        return idx


PROXY = NpProxy()
H.np = PROXY


class Ident(Identified):
    def __init__(self, tid):
        self._tid = tid

    @property
    def identifier(self):
        return self._tid


def sig(node):
    if node.left is None and node.right is None:
        return (node.identifier.value,)
    return sig(node.left) + sig(node.right)


class Scripted(H.SimilarityMeasure):
    """a deterministic, arbitrary similarity: values drawn once per unordered pair of clusters"""
    def __init__(self, seed, levels):
        self.rng = random.Random(seed)
        self.levels = levels
        self.table = {}

    def compute_similarity(self, left, right):
        a, b = sig(left), sig(right)
        k = (a, b) if a <= b else (b, a)
        if k not in self.table:
            self.table[k] = self.rng.choice(self.levels)
        return self.table[k], TermId.from_curie('HP:0000001')


def decisions(sorter):
    eps = sorter._epsilon
    return [['last'] if v <= eps else ['pair', r, c] for r, c, v in PROXY.log]


class Recorder(H.SimilarityMeasure):
    """wraps the sorter's similarity measure: the values it returns, call by call"""
    def __init__(self, inner):
        self.inner = inner
        self.vals = []

    def compute_similarity(self, left, right):
        r = self.inner.compute_similarity(left, right)
        self.vals.append(float(r[0]))
        return r


def ranks(vals, eps):
    """an order-isomorphic integer image of the floats seen in one call, with 0.0 and epsilon"""
    import math
    if any(math.isnan(v) for v in vals):
        return None
    order = sorted(set(vals) | {0.0, float(eps)})
    idx = {v: i for i, v in enumerate(order)}
    return {'zero': idx[0.0], 'eps': idx[float(eps)], 'vals': [idx[v] for v in vals]}


def make_sorter(case, g):
    if case['kind'] == 'edge':
        return HierarchicalEdgeTermIdSorting(g)
    if case['kind'] == 'ic':
        ic = {TermId.from_curie(k): v for k, v in case['ic']}
        return HierarchicalIcTermIdSorting(g, lambda t: ic.get(t, 0.0))
    return H.HierarchicalSorting(g, Scripted(case['seed'], case['levels']))


def observe_argsort(case):
    edges = [(TermId.from_curie(s), TermId.from_curie(o)) for s, o in case['edges']]
    g = FACTORIES[case['factory']]().create_graph(edges)
    if len(case['edges']) % 2 == 0:
        warm_up(g, list(g), len(case['ids']))
    tids = [TermId.from_curie(x) for x in case['ids']]
    out = {}
    PROXY.log = []
    sorter = make_sorter(case, g)
    rec = Recorder(sorter._sim_measure)
    sorter._sim_measure = rec
    inp = list(tids)
    try:
        r1 = sorter.argsort(inp)
        out['ok'] = [int(i) for i in r1]
        out['is_tuple'] = isinstance(r1, tuple)
    except Exception as e:
        out['err'] = exn_name(e)
    out['decisions'] = decisions(sorter)
    out['sims'] = ranks(rec.vals, sorter._epsilon)
    out['input_untouched'] = len(inp) == len(tids) and all(a is b for a, b in zip(inp, tids))
    # further calls on the SAME sorter instance: same id set with other multiplicities, other sequences
    out['followups'] = []
    # in half of the cases every follow-up passes ONE list object that is edited in place between the calls
    # (a caller re-sorting its own growing / shrinking list), in the other half a fresh list per call
    inplace = len(case['ids']) % 2 == 0
    buf = []
    for n, seq in enumerate(case.get('followups', [])):
        PROXY.log = []
        rec = {}
        new = [TermId.from_curie(x) for x in seq]
        if inplace:
            buf[:] = new
            arg = buf
        else:
            arg = new
        recorder = sorter._sim_measure
        recorder.vals = []
        try:
            rec['ok'] = [int(i) for i in sorter.argsort(arg)]
        except Exception as e:
            rec['err'] = exn_name(e)
        rec['decisions'] = decisions(sorter)
        rec['sims'] = ranks(recorder.vals, sorter._epsilon)
        out['followups'].append(rec)
    if 'ok' in out:
        # same answer for identified objects with those ids, for a tuple input, and when called again
        PROXY.log = []
        sorter2 = make_sorter(case, g)
        try:
            out['identified'] = [int(i) for i in sorter2.argsort([Ident(t) for t in tids])]
        except Exception as e:
            out['identified'] = 'err:' + exn_name(e)
        try:
            out['again'] = [int(i) for i in sorter.argsort(tuple(tids))] if case['kind'] != 'scripted' else out['ok']
        except Exception as e:
            out['again'] = 'err:' + exn_name(e)
        # other kinds of sequences holding the same ids: a numpy object array, a deque
        import collections
        try:
            out['as_array'] = [int(i) for i in make_sorter(case, g).argsort(np.array(tids, dtype=object))] if case['kind'] != 'scripted' else out['ok']
        except Exception as e:
            out['as_array'] = 'err:' + exn_name(e)
        try:
            out['as_deque'] = [int(i) for i in make_sorter(case, g).argsort(collections.deque(tids))] if case['kind'] != 'scripted' else out['ok']
        except Exception as e:
            out['as_deque'] = 'err:' + exn_name(e)
    return out


def observe_find_indices(case):
    src = [TermId.from_curie('HP:%07d' % i) for i in case['source']]
    ordr = [TermId.from_curie('HP:%07d' % i) for i in case['ordered']]
    try:
        return {'ok': [int(i) for i in H.HierarchicalSorting._find_indices(tuple(src), ordr)]}
    except Exception as e:
        return {'err': exn_name(e)}


def observe(payload):
    res = []
    for case in payload['cases']:
        try:
            res.append(observe_find_indices(case) if case['kind'] == 'find_indices' else observe_argsort(case))
        except Exception as e:
            res.append({'crash': exn_name(e) + ': ' + str(e)[:300]})
    return {'cases': res}
