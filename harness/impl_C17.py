"""Observation of ImmutableCsrMatrix / CsrMatrixBuilder for C17."""
import warnings

warnings.simplefilter('ignore')

from hpotk.graph.csr import CsrMatrixBuilder, ImmutableCsrMatrix  # noqa: E402

DTYPES = {'int': (int, 1), 'bool': (bool, 1), 'float': (float, 4)}


def exn_name(e):
    n = type(e).__name__
    return n if n in ('ValueError', 'IndexError', 'KeyError', 'TypeError') else 'Other:' + n


def dec(v, dt):
    """Z code -> python value of the dtype"""
    ty, scale = DTYPES[dt]
    if dt == 'bool':
        return bool(v)
    if dt == 'float':
        return v / scale
    return int(v)


def decq(v, dt):
    """a QUERY value: the codes 999983 / 999985 stand for values the dtype cannot hold (1.5 asked of an int matrix, 2 of a
    bool matrix) - no cell equals them and they are not the default, so no column may be reported"""
    if v == 999983 and dt == 'int':
        return 1.5
    if v == 999985 and dt == 'bool':
        return 2
    return dec(v, dt)


def enc(x, dt):
    ty, scale = DTYPES[dt]
    f = float(x) * scale
    assert f == int(f), (x, dt)
    return int(f)


def attempt(f):
    try:
        return {'ok': f()}
    except Exception as e:
        return {'err': exn_name(e)}


def reads(m, q, dt):
    out = {'cells': [], 'rows': [], 'civ': []}
    for r, c in q['cells']:
        out['cells'].append([r, c, attempt(lambda: enc(m[r, c], dt))])
    for r in q['rows']:
        out['rows'].append([r, attempt(lambda: [enc(x, dt) for x in m[r]])])
    for r, v in q['civ']:
        out['civ'].append([r, v, attempt(lambda: sorted(int(x) for x in m.col_indices_of_val(r, decq(v, dt))))])
    return out


def observe(payload):
    res = []
    for case in payload['cases']:
        try:
            res.append(observe_case(case))
        except Exception as e:      # the frozen matrix could not even be built / read
            res.append({'crash': exn_name(e) + ': ' + str(e)[:200]})
    return {'cases': res}


def observe_scale(case):
    """a matrix far beyond what the model evaluates in reasonable time (more than 65 535 stored cells): compared cell by
    cell with the dense matrix it stands for - the property's own oracle, no model involved"""
    import numpy as np
    import random
    rng = random.Random(case['seed'])
    R, C = case['R'], case['C']
    dense = np.zeros((R, C), dtype=int)
    row, col, data = [0], [], []
    for r in range(R):
        cs = [c for c in range(C) if (r * 31 + c * 17) % case['gap'] != 0]
        rng.shuffle(cs)
        for c in cs:
            v = 1 + (r + 3 * c) % 5
            dense[r, c] = v
            col.append(c)
            data.append(v)
        row.append(len(col))
    m = ImmutableCsrMatrix(row, col, data, (R, C), dtype=int)
    bad = []
    for r in range(R):
        got = m[r]
        if list(got) != list(dense[r]):
            bad.append(['row', r])
        for q in (0, 1, 3):
            exp = sorted(int(c) for c in np.flatnonzero(dense[r] == q))
            if sorted(int(c) for c in m.col_indices_of_val(r, q)) != exp:
                bad.append(['col_indices_of_val', r, q])
    for _ in range(4000):
        r, c = rng.randrange(R), rng.randrange(C)
        if m[r, c] != dense[r, c]:
            bad.append(['cell', r, c])
    b = CsrMatrixBuilder(shape=(R, C))
    cells = [(r, c) for r in range(R - 3, R) for c in range(C)] + [(rng.randrange(R), rng.randrange(C)) for _ in range(3000)]
    rng.shuffle(cells)
    d2 = np.zeros((R, C), dtype=int)
    for r, c in cells:
        v = 1 + (r + c) % 4
        b[r, c] = v
        d2[r, c] = v
    m2 = ImmutableCsrMatrix(b.row, b.col, b.data, b.shape, dtype=int)
    for r in range(R):
        if list(m2[r]) != list(d2[r]):
            bad.append(['built-row', r])
    return {'stored': len(col), 'mismatches': bad[:10], 'n_mismatches': len(bad)}


def observe_case(case):
    res = []
    if case['kind'] == 'scale':
        return observe_scale(case)
    if True:
        dt = case['dtype']
        ty = DTYPES[dt][0]
        if case['kind'] == 'build':
            b = CsrMatrixBuilder(shape=(case['R'], case['C']))
            oks = []
            # matrices frozen from the builder in the middle of the history (every prefix of a short history, a few
            # of a long one): what they read must not change when the builder is assigned to afterwards
            n = len(case['ops'])
            at = set(range(n)) if n <= 6 else {n // 4, n // 2, (3 * n) // 4, n - 1}
            snaps = []
            for k, (r, c, v) in enumerate(case['ops']):
                if k in at:
                    try:
                        sm = ImmutableCsrMatrix(b.row, b.col, b.data, b.shape, dtype=ty)
                        snaps.append((k, sm, reads(sm, case['queries'], dt)))
                    except Exception:
                        pass
                try:
                    b[r, c] = dec(v, dt)
                    oks.append(True)
                except Exception:
                    oks.append(False)
            m = ImmutableCsrMatrix(b.row, b.col, b.data, b.shape, dtype=ty)
            assert tuple(m.shape) == (case['R'], case['C'])
            changed = []
            for k, sm, before in snaps:
                after = attempt(lambda: reads(sm, case['queries'], dt))
                if after != {'ok': before}:
                    changed.append(k)
            res.append({'oks': oks, 'reads': reads(m, case['queries'], dt), 'snapshots': len(snaps), 'snapshots_changed': changed})
        else:
            m = ImmutableCsrMatrix(case['row'], case['col'], [dec(v, dt) for v in case['data']],
                                   (case['R'], case['C']), dtype=ty)
            res.append({'reads': reads(m, case['queries'], dt)})
    return res[0]
