"""Observation of ImmutableCsrMatrix / CsrMatrixBuilder for C17."""
import warnings

warnings.simplefilter('ignore')

from hpotk.graph.csr import CsrMatrixBuilder, ImmutableCsrMatrix  # noqa: E402

DTYPES = {'int': (int, 1), 'bool': (bool, 1), 'float': (float, 4)}


def exn_name(e):
    n = type(e).__name__
    return n if n in ('ValueError', 'IndexError', 'KeyError', 'TypeError') else 'Other:' + n


def dec(v, dt):
    """Z code -> python value of the dtype"""
    ty, scale = DTYPES[dt]
    if dt == 'bool':
        return bool(v)
    if dt == 'float':
        return v / scale
    return int(v)


def enc(x, dt):
    ty, scale = DTYPES[dt]
    f = float(x) * scale
    assert f == int(f), (x, dt)
    return int(f)


def attempt(f):
    try:
        return {'ok': f()}
    except Exception as e:
        return {'err': exn_name(e)}


def reads(m, q, dt):
    out = {'cells': [], 'rows': [], 'civ': []}
    for r, c in q['cells']:
        out['cells'].append([r, c, attempt(lambda: enc(m[r, c], dt))])
    for r in q['rows']:
        out['rows'].append([r, attempt(lambda: [enc(x, dt) for x in m[r]])])
    for r, v in q['civ']:
        out['civ'].append([r, v, attempt(lambda: sorted(int(x) for x in m.col_indices_of_val(r, dec(v, dt))))])
    return out


def observe(payload):
    res = []
    for case in payload['cases']:
        try:
            res.append(observe_case(case))
        except Exception as e:      # the frozen matrix could not even be built / read
            res.append({'crash': exn_name(e) + ': ' + str(e)[:200]})
    return {'cases': res}


def observe_case(case):
    res = []
    if True:
        dt = case['dtype']
        ty = DTYPES[dt][0]
        if case['kind'] == 'build':
            b = CsrMatrixBuilder(shape=(case['R'], case['C']))
            oks = []
            for r, c, v in case['ops']:
                try:
                    b[r, c] = dec(v, dt)
                    oks.append(True)
                except Exception:
                    oks.append(False)
            m = ImmutableCsrMatrix(b.row, b.col, b.data, b.shape, dtype=ty)
            assert tuple(m.shape) == (case['R'], case['C'])
            res.append({'oks': oks, 'reads': reads(m, case['queries'], dt)})
        else:
            m = ImmutableCsrMatrix(case['row'], case['col'], [dec(v, dt) for v in case['data']],
                                   (case['R'], case['C']), dtype=ty)
            res.append({'reads': reads(m, case['queries'], dt)})
    return res[0]
