"""Observation of the I/O handle helper and of every reader / writer built on it (C16)."""
import gzip
import io
import json
import os
import pathlib
import re
import warnings

warnings.simplefilter('ignore')

import hpotk  # noqa: E402
from hpotk.model import TermId  # noqa: E402
from hpotk.util import open_text_io_handle_for_reading, open_text_io_handle_for_writing  # noqa: E402
from hpotk.util._io import looks_like_url, looks_gzipped  # noqa: E402
from hpotk.annotations.load.hpoa import SimpleHpoaDiseaseLoader  # noqa: E402
from hpotk.algorithm.similarity import SimilarityContainer  # noqa: E402
from hpotk.algorithm.similarity._model import SimpleAnnotationIcContainer  # noqa: E402


def exn_name(e):
    n = type(e).__name__
    return n if n in ('ValueError', 'IndexError', 'KeyError', 'TypeError') else 'Other:' + n


PURL = 'http://purl.obolibrary.org/obo/'


def obographs_doc(uni):
    nm = (lambda s: s + ' é–ü' if uni else s)
    nodes = [{'id': PURL + 'HP_%07d' % i, 'lbl': nm('term %d' % i), 'type': 'CLASS'} for i in (1, 118, 2, 3)]
    edges = [{'sub': PURL + 'HP_0000118', 'pred': 'is_a', 'obj': PURL + 'HP_0000001'},
             {'sub': PURL + 'HP_0000002', 'pred': 'is_a', 'obj': PURL + 'HP_0000118'},
             {'sub': PURL + 'HP_0000003', 'pred': 'is_a', 'obj': PURL + 'HP_0000002'}]
    return json.dumps({'graphs': [{'id': PURL + 'hp.json', 'meta': {'version': PURL + 'hp/releases/2024-01-01/hp.json'},
                                   'nodes': nodes, 'edges': edges}]}, ensure_ascii=False)


def hpoa_text(uni):
    name = 'Syndrome é–ü' if uni else 'Syndrome'
    rows = ['#description: "test"', '#version: 2024-01-01',
            'database_id\tdisease_name\tqualifier\thpo_id\treference\tevidence\tonset\tfrequency\tsex\tmodifier\taspect\tbiocuration',
            f'OMIM:100000\t{name}\t\tHP:0000002\tPMID:1\tPCS\t\t1/2\t\t\tP\tHPO:x[2020-01-01]',
            f'OMIM:100000\t{name}\tNOT\tHP:0000003\tPMID:2\tPCS\t\t\t\t\tP\tHPO:x[2020-01-01]',
            f'OMIM:200000\tOther\t\tHP:0000003\tOMIM:200000\tIEA\t\t3/7\t\t\tP\tHPO:y[2020-01-01]']
    return '\n'.join(rows) + '\n'


def csv_text(uni):
    k = 'HP:é' if uni else 'HP:9'
    return ('#Information content of the most informative common ancestor for term pairs\n'
            '#k=v;created=2024-01-01-00:00:00\nterm_a,term_b,ic_mica\n'
            f'HP:1,{k},1.5\nHP:1,HP:1,0.25\n')


def canon_onto(o):
    return {'terms': sorted((t.identifier.value, t.name) for t in o.terms), 'version': o.version,
            'edges': sorted((c.value, p.value) for c in o.graph for p in o.graph.get_parents(c)), 'n': len(o)}


def canon_diseases(ds):
    return {'version': ds.version,
            'diseases': sorted((d.identifier.value, d.name,
                                sorted((a.identifier.value, a.numerator, a.denominator) for a in d.annotations)) for d in ds)}


def canon_sim(c):
    return {'items': sorted((a, b, float(v).hex()) for a, b, v in c.items()), 'meta': sorted(c.metadata.items())}


def sources(work, tag, text):
    """(kind, factory returning the argument, cleanup)"""
    p = os.path.join(work, tag + '.dat')
    pg = os.path.join(work, tag + '#1;v?.dat.gz')        # a .gz name with characters that mean something in URLs
    with open(p, 'wb') as fh:
        fh.write(text.encode('utf-8'))
    with gzip.open(pg, 'wb') as fh:
        fh.write(text.encode('utf-8'))
    # the same content as a gzip file of several members (cat a.gz b.gz, bgzip): still "the gzip-compressed content"
    pm = os.path.join(work, tag + '.multi.dat.gz')
    raw = text.encode('utf-8')
    cut = [0, len(raw) // 3, 2 * len(raw) // 3, len(raw)]
    with open(pm, 'wb') as fh:
        for a, b in zip(cut, cut[1:]):
            fh.write(gzip.compress(raw[a:b]))
    p16 = os.path.join(work, tag + '.utf16.dat')
    with open(p16, 'w', encoding='utf-16', newline='') as fh:
        fh.write(text)
    return [
        ('path', lambda: p), ('gz-path', lambda: pg),
        ('text-file-utf16', lambda: open(p16, 'r', encoding='utf-16')),
        ('gz-path-multimember', lambda: pm), ('gzip-binary-stream-multimember', lambda: gzip.open(pm, 'rb')),
        ('text-file', lambda: open(p, 'r', encoding='utf-8')), ('binary-file', lambda: open(p, 'rb')),
        ('StringIO', lambda: io.StringIO(text, newline=None)), ('BytesIO', lambda: io.BytesIO(text.encode('utf-8'))),
        ('gzip-text-stream', lambda: gzip.open(pg, 'rt', encoding='utf-8')), ('gzip-binary-stream', lambda: gzip.open(pg, 'rb')),
    ]


def readers(hpo):
    return {
        'load_minimal_ontology': (obographs_doc, lambda a: canon_onto(hpotk.load_minimal_ontology(a))),
        'load_ontology': (obographs_doc, lambda a: canon_onto(hpotk.load_ontology(a))),
        'SimpleHpoaDiseaseLoader.load': (hpoa_text, lambda a: canon_diseases(SimpleHpoaDiseaseLoader(hpo).load(a))),
        'SimilarityContainer.from_csv': (csv_text, lambda a: canon_sim(SimilarityContainer.from_csv(a))),
    }


OTHERS = {'int': 5, 'none': None, 'bytes': b'/tmp/x', 'pathlib.Path': None, 'float': 1.5, 'list': ['x'], 'dict': {}}


class BareIO(io.IOBase):
    """an io.IOBase that is neither a text, a buffered nor a raw stream (like tempfile.SpooledTemporaryFile on 3.11+):
    it reads / writes fine but is none of the argument kinds the property lists"""

    def __init__(self, content):
        self._content, self._pos, self.written = content, 0, []

    def readable(self):
        return True

    def writable(self):
        return True

    def read(self, n=-1):
        n = len(self._content) - self._pos if n is None or n < 0 else n
        out = self._content[self._pos:self._pos + n]
        self._pos += len(out)
        return out

    def readline(self, n=-1):
        nl = '\n' if isinstance(self._content, str) else b'\n'
        k = self._content.find(nl, self._pos)
        end = len(self._content) if k < 0 else k + 1
        out = self._content[self._pos:end]
        self._pos = end
        return out

    def write(self, data):
        self.written.append(data)
        return len(data)


import tempfile        # noqa: E402
OTHERS.update({'iobase-only:text': BareIO(''), 'iobase-only:bytes': BareIO(b''),
               'spooled:text': tempfile.SpooledTemporaryFile(mode='w+'), 'spooled:binary': tempfile.SpooledTemporaryFile(mode='w+b')})


EOLS = {'lf': '\n', 'crlf': '\r\n', 'cr': '\r'}


def big_text(rname, mk):
    filler = ('é€x' * 7 + 'y') * 3                      # 2- and 3-byte characters, period coprime to powers of two
    if 'ontology' in rname:
        d = json.loads(mk(True))
        g = d['graphs'][0]
        g['nodes'] += [{'id': PURL + 'HP_%07d' % i, 'lbl': 'filler %d %s' % (i, filler), 'type': 'CLASS'} for i in range(1000, 3200)]
        g['edges'] += [{'sub': PURL + 'HP_%07d' % i, 'pred': 'is_a', 'obj': PURL + 'HP_0000001'} for i in range(1000, 3200)]
        return json.dumps(d, ensure_ascii=False)
    text = mk(True)
    if 'Hpoa' in rname:
        return text + ''.join(f'OMIM:3{i:05d}\tD {filler} {i}\t\tHP:0000002\tPMID:{i}\tPCS\t\t1/2\t\t\tP\tHPO:x[2020-01-01]\n' for i in range(2500))
    return text + ''.join(f'HP:{i},K{filler}{i},{(i % 7) + 0.5}\n' for i in range(4000))


def reader_product(work, unis=(False, True), eols=('lf', 'crlf', 'cr'), others=True):
    p0 = os.path.join(work, 'hpo0.json')
    with open(p0, 'w', encoding='utf-8') as fh:
        fh.write(obographs_doc(False))
    hpo = hpotk.load_minimal_ontology(p0)
    out = []
    for rname, (mk, fn) in readers(hpo).items():
        variants = [(u, e) for u in unis for e in eols] + ([('bom', 'lf'), ('big', 'lf')] if len(eols) > 1 else [])
        for uni, eol in variants:
            # 'bom': the content starts with a UTF-8 byte order mark - whatever a reader makes of it (the JSON loaders
            # reject it), it must make the same of it for every kind of source
            if uni == 'big':
                # well beyond any chunk / buffer size (8 KiB, 64 KiB, 128 KiB), with multi-byte characters at every byte offset
                # modulo 2 and 3: whatever the reader's chunking, some character straddles a chunk boundary
                text = big_text(rname, mk)
            else:
                text = ('\ufeff' + mk(False) if uni == 'bom' else mk(uni)).replace('\n', EOLS[eol])
            srcs = sources(work, 'r', text)
            ref = None
            for kind, factory in srcs:
                rec = {'reader': rname, 'kind': kind, 'non_ascii': uni, 'eol': eol}
                try:
                    outcome = ['ok', fn(factory())]
                except Exception as e:
                    outcome = ['err', exn_name(e)]
                    rec['err'] = exn_name(e) + ': ' + str(e)[:120]
                if kind == 'path':
                    ref = outcome
                    rec['path_outcome'] = outcome[0]
                rec['same_as_path'] = (outcome == ref)
                out.append(rec)
        OTHERS['pathlib.Path'] = pathlib.Path(p0)
        for oname, o in (OTHERS.items() if others else ()):
            rec = {'reader': rname, 'kind': 'other:' + oname}
            try:
                fn(o)
                rec['err'] = None
            except Exception as e:
                rec['err'] = exn_name(e)
            out.append(rec)
    return out


def strip_created(text):
    return re.sub(r'created=[^;\n]*', 'created=T', text)


def writer_product(work, others=True):
    sim = SimilarityContainer({'k': 'v'})
    sim.set_similarity('HP:1', 'HP:é', 1.5)
    sim.set_similarity('HP:1', 'HP:1', 0.25)
    ic = SimpleAnnotationIcContainer({TermId.from_curie('HP:0000001'): 0.0, TermId.from_curie('HP:0000002'): 1.25}, {'m': 'é'})
    out = []
    for wname, obj in (('SimilarityContainer.to_csv', sim), ('AnnotationIcContainer.to_csv', ic)):
        ref = None
        for kind in ('path', 'gz-path', 'text-file-stream', 'binary-file-stream'):
            p = os.path.join(work, 'w.' + kind + ('.csv.gz' if kind == 'gz-path' else '.csv'))
            rec = {'writer': wname, 'kind': kind}
            try:
                if kind in ('path', 'gz-path'):
                    obj.to_csv(p)
                elif kind == 'text-file-stream':
                    with open(p, 'w', encoding='utf-8') as fh:
                        obj.to_csv(fh)
                else:
                    with open(p, 'wb') as fh:
                        obj.to_csv(fh)
                raw = open(p, 'rb').read()
                text = (gzip.decompress(raw) if kind == 'gz-path' else raw).decode('utf-8')
                rec['content'] = strip_created(text)
            except Exception as e:
                rec['err'] = exn_name(e) + ': ' + str(e)[:120]
            if kind == 'path':
                ref = rec.get('content')
            rec['same_as_path'] = ('content' in rec and rec['content'] == ref)
            rec.pop('content', None)
            out.append(rec)
        for oname, o in (OTHERS.items() if others else ()):
            rec = {'writer': wname, 'kind': 'other:' + oname}
            try:
                obj.to_csv(o)
                rec['err'] = None
            except Exception as e:
                rec['err'] = exn_name(e)
            out.append(rec)
    return out


NAMES = ['plain', 'a.gz', 'b.GZ', 'c.gz.txt', '.gz', 'gz', 'x.tar.gz', 'd.gzz', 'e.g', 'é.gz', 'f.json', 'http', 'https.gz',
         'run#2.csv.gz', 'q?x=1.gz', 'v;1.gz', 'a b.gz', 'p%20q.gz', 'x.gz#frag', 'y.gz?raw=true']


def classify_read(res, arg):
    if res is arg:
        return 'pass'
    if isinstance(res, io.TextIOWrapper) and getattr(res, 'buffer', None) is arg:
        return 'wrap'
    if isinstance(res, io.TextIOWrapper) and isinstance(res.buffer, gzip.GzipFile):
        return 'open-gz'
    if isinstance(res, io.TextIOWrapper):
        return 'open-plain'
    return 'unknown:' + type(res).__name__


PROBE_RAW = 'a\r\nb\rc\n\r\n\rd\n\ne\r'
PROBE_TXT = 'a\nb\r\nc\rd\n\ne'


def enc_name(handle):
    import codecs
    try:
        return codecs.lookup(handle.encoding).name
    except Exception:
        return 'unknown:' + str(getattr(handle, 'encoding', None))


def read_layer(make_arg):
    """The text layer of the handle the helper creates for reading: does its encoding follow the `encoding`
    parameter (default: sys.getdefaultencoding(); explicit: latin-1), and what it delivers for PROBE_RAW."""
    import sys as _sys
    import codecs
    res = open_text_io_handle_for_reading(make_arg())
    follows = enc_name(res) == codecs.lookup(_sys.getdefaultencoding()).name
    got = res.read()
    res.close()
    res = open_text_io_handle_for_reading(make_arg(), encoding='latin-1')
    follows = follows and enc_name(res) == 'iso8859-1'
    res.close()
    return {'enc_follows': follows, 'raw': PROBE_RAW, 'got': got}


def write_layer(make_arg, read_back):
    import sys as _sys
    import codecs
    res = open_text_io_handle_for_writing(make_arg())
    follows = enc_name(res) == codecs.lookup(_sys.getdefaultencoding()).name
    res.write(PROBE_TXT)
    res.close()
    got = read_back().decode('utf-8')
    res = open_text_io_handle_for_writing(make_arg(), encoding='latin-1')
    follows = follows and enc_name(res) == 'iso8859-1'
    res.close()
    return {'enc_follows': follows, 'linesep': os.linesep, 'txt': PROBE_TXT, 'got': got}


def decision_table(work):
    out = []
    d = os.path.join(work, 'names')
    os.makedirs(d, exist_ok=True)
    for nm in NAMES:
        p = os.path.join(d, nm)
        with open(p, 'wb') as fh:
            fh.write(gzip.compress(b'x') if nm.endswith('.gz') else b'x')
        for mode, fn in (('read', open_text_io_handle_for_reading), ('write', open_text_io_handle_for_writing)):
            try:
                res = fn(p)
                obs = classify_read(res, p)
                res.close()
            except Exception as e:
                obs = 'raise:' + exn_name(e)
            rec = {'mode': mode, 'arg': ['str', nm], 'obs': obs}
            if obs in ('open-plain', 'open-gz'):
                try:
                    if mode == 'read':
                        with open(p, 'wb') as fh:
                            fh.write(gzip.compress(PROBE_RAW.encode()) if nm.endswith('.gz') else PROBE_RAW.encode())
                        rec['layer'] = read_layer(lambda: p)
                    else:
                        rec['layer'] = write_layer(lambda: p, lambda: (gzip.decompress(open(p, 'rb').read()) if nm.endswith('.gz') else open(p, 'rb').read()))
                except Exception as e:
                    rec['layer'] = {'err': exn_name(e) + ': ' + str(e)[:100]}
                with open(p, 'wb') as fh:
                    fh.write(gzip.compress(b'x') if nm.endswith('.gz') else b'x')
            out.append(rec)
    p = os.path.join(d, 'plain')
    streams = {
        'text': [lambda: open(p, 'r'), lambda: io.StringIO('x'), lambda: gzip.open(os.path.join(d, 'a.gz'), 'rt'),
                 lambda: open(p, 'r', encoding='latin-1'), lambda: open(p, 'r', encoding='utf-16')],
        'binary': [lambda: open(p, 'rb'), lambda: io.BytesIO(b'x'), lambda: gzip.open(os.path.join(d, 'a.gz'), 'rb'), lambda: open(p, 'rb', buffering=0)],
    }
    wstreams = {
        'text': [lambda: open(os.path.join(d, 'w1'), 'w'), lambda: io.StringIO(), lambda: gzip.open(os.path.join(d, 'w2.gz'), 'wt'),
                 lambda: open(os.path.join(d, 'w5'), 'w', encoding='latin-1')],
        'binary': [lambda: open(os.path.join(d, 'w3'), 'wb'), lambda: io.BytesIO(), lambda: gzip.open(os.path.join(d, 'w4.gz'), 'wb')],
    }
    for mode, fn, table in (('read', open_text_io_handle_for_reading, streams), ('write', open_text_io_handle_for_writing, wstreams)):
        for kind, factories in table.items():
            for k, factory in enumerate(factories):
                arg = factory()
                try:
                    res = fn(arg)
                    obs = classify_read(res, arg)
                except Exception as e:
                    obs = 'raise:' + exn_name(e)
                rec = {'mode': mode, 'arg': [kind, k], 'obs': obs}
                try:
                    arg.close()
                except Exception:
                    pass
                if obs == 'wrap':
                    try:
                        if mode == 'read':
                            rec['layer'] = read_layer(lambda: io.BytesIO(PROBE_RAW.encode()))
                        else:
                            class Keep(io.BytesIO):
                                data = b''

                                def close(self):
                                    Keep.data = self.getvalue()
                                    super().close()
                            rec['layer'] = write_layer(lambda: Keep(), lambda: Keep.data)
                    except Exception as e:
                        rec['layer'] = {'err': exn_name(e) + ': ' + str(e)[:100]}
                out.append(rec)
        for oname, o in OTHERS.items():
            if oname == 'pathlib.Path':
                o = pathlib.Path(p)
            try:
                fn(o)
                obs = 'returned'
            except Exception as e:
                obs = 'raise:' + exn_name(e)
            out.append({'mode': mode, 'arg': ['other', oname], 'obs': obs})
    return out


def observe(payload):
    work = payload['workdir']
    if payload.get('config'):
        # a second process configuration (e.g. a non-UTF-8 locale): the reader and writer products only
        import locale
        return {'config': payload['config'], 'preferred_encoding': locale.getpreferredencoding(False),
                'readers': reader_product(work, unis=(True,), eols=('lf',), others=False), 'writers': writer_product(work, others=False)}
    res = {'decisions': decision_table(work), 'readers': reader_product(work), 'writers': writer_product(work),
           'url': [[s, bool(looks_like_url(s))] for s in payload['strings']],
           'gz': [[s, bool(looks_gzipped(s))] for s in payload['strings']]}
    return res
