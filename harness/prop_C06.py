"""C06 - ontology lookups resolve primary and alternate ids to current terms only."""
import json

import gen_graph as G
import graphcorr as GC
from common import cstr, cnat, cbool, clist, log, run_coqc

TRUSTED_BASE = [
    'a Python dict is modelled by an association list with dict semantics (assignment to an existing key replaces in place)',
    'term objects are identified by their position in the list handed to create_(minimal_)ontology (object identity on the Python side)',
    'one model, generic in the term payload, stands for MinimalTerm and Term',
]
ASSUMPTIONS = ['C06_lookup assumes a disjoint assignment of ids to current terms (WfIds); all other theorems are unconditional',
               'the correspondence also runs collections that violate WfIds (clashing ids) - the model has dict overwrite semantics']
THEOREM = 'C06_len_and_terms / C06_never_obsolete / C06_lookup / C06_contains_and_name / C06_term_ids / C06_argument_forms'

HEADER = '''From Coq Require Import String List ZArith.
From Hpotk Require Import Base.Result Base.Emit TermId.Model Graph.Model Corr.Graph Ontology.Model Corr.C06.
Import ListNotations.
Open Scope string_scope.
Open Scope list_scope.
Definition ktable (tbl : list string) : list key := map (fun s => match from_curie s with Ok t => tkey t | Err _ => key0 end) tbl.
Definition kk (ks : list key) (i : nat) : key := nth i ks key0.'''


def cr(r, f):
    return GC.cr(r, f)


def copt(v, f):
    return 'None' if v is None else f'(Some {f(v)})'


def render_call(t, c, r):
    k = c[0]
    if k == 'len':
        return f'(OLen, ONat {cnat(r["ok"])})'
    if k == 'terms':
        return f'(OTerms, ONats {clist([cnat(x) for x in r["ok"]])})'
    if k == 'term_ids':
        return f'(OTermIds, OKeys {clist([t.s(x) for x in r["ok"]])})'
    if k == 'get':
        return f'(OGet {GC.carg(t, c[1])}, OTerm {cr(r, lambda v: copt(v, cnat))})'
    if k == 'name':
        return f'(OName {GC.carg(t, c[1])}, OStr {cr(r, lambda v: copt(v, cstr))})'
    if k == 'in':
        return f'(OIn {GC.carg(t, c[1])}, OBool {cr(r, cbool)})'
    raise AssertionError(k)


def render_case(case, obs):
    t = GC.Table()
    terms = clist([f'(mkTerm nat {t.k(tid)} {cstr(name)} {clist([t.k(a) for a in alts])} {cbool(ob)} {i})'
                   for i, (tid, name, alts, ob) in enumerate(case['terms'])])
    for c, r in zip(case['calls'], obs['results']):
        if 'err' in r and c[0] in ('len', 'terms', 'term_ids'):
            raise GC_Unrenderable(c, r)
    calls = clist([render_call(t, c, r) for c, r in zip(case['calls'], obs['results'])])
    tbl = clist([cstr(x) for x in t.items])
    return (f'(let tbl := {tbl} in let ks := ktable tbl in let s := tb tbl in let k := kk ks in '
            f'mkOCase {terms} {calls})')


class GC_Unrenderable(Exception):
    pass


def evaluate(chk, cases, tag='cases', shard=200):
    obs = chk.run_impl('C06', {'cases': cases})['cases']
    bad = [i for i, o in enumerate(obs) if 'crash' in o]
    live = [i for i, o in enumerate(obs) if 'crash' not in o]
    terms = {}
    for i in live:
        try:
            terms[i] = render_case(cases[i], obs[i])
        except GC_Unrenderable:
            bad.append(i)
    live = [i for i in live if i in terms]
    failing = [live[j] for j in chk.coq_failing(HEADER, [terms[i] for i in live], 'check_ocase', shard=shard, tag=tag)]
    return terms, obs, sorted(failing + bad)


def forms(rng, x):
    p, i = G.key_of(x)
    out = [['str', G.value_of(x)], ['tid', x], ['ident', x], ['oterm', x], ['cterm', x], ['utid', x], ['uident', x]]
    if p and '_' not in p and ':' not in i and '_' not in i:
        out.append(['str', p + '_' + i])
    return out


def gen_case(rng, kind, wf):
    pool = rng.sample(G.POOL_MIXED if rng.random() < 0.4 else G.POOL_PLAIN[:150], 90)
    ncur, nobs = rng.randint(0, 8), rng.randint(0, 4)
    terms, used = [], []
    fresh = iter(pool)
    for j in range(ncur + nobs):
        obsolete = j >= ncur
        tid = next(fresh)
        alts = [next(fresh) for _ in range(rng.choice([0, 0, 1, 2, 3]))]
        if not wf and used and rng.random() < 0.4:
            # clashes: an id of an earlier term re-used as primary or alternate id, or listed twice
            alts.append(rng.choice(used))
        if not wf and alts and rng.random() < 0.2:
            alts.append(alts[0])
        if obsolete and used and rng.random() < 0.5:
            # an obsolete term whose id / alt id is an id of a current term (allowed: only current terms must be disjoint)
            if rng.random() < 0.5:
                tid = rng.choice(used)
            else:
                alts.append(rng.choice(used))
        terms.append([tid, 'name %d %s' % (j, 'é' if rng.random() < 0.1 else ''), alts, obsolete])
        if not obsolete:
            used += [tid] + alts
    order = list(range(len(terms)))
    rng.shuffle(order)
    terms = [terms[i] for i in order]
    queries = []
    for tid, _, alts, ob in terms:
        for x in [tid] + alts:
            queries.append(x)
    queries += [next(fresh) for _ in range(4)] + ['owl:Thing']
    # absent ids that only a normalising id class would take for an id of the ontology
    known = {G.key_of(x) for t in terms for x in [t[0]] + t[2]}
    la = [y for x in (rng.sample(used, min(3, len(used))) if used else []) for y in G.lookalikes(G.value_of(x)) if G.key_of(y) not in known]
    rng.shuffle(la)
    queries += la[:5]
    calls = [['len'], ['terms'], ['term_ids']]
    for x in queries:
        fs = forms(rng, x)
        for f in (fs if rng.random() < 0.3 else [rng.choice(fs)]):
            calls += [['get', f], ['in', f], ['name', f]]
    for bad in (['other', 'none'], ['other', 'int'], ['str', 'nocurie'], ['other', 'tuple']):
        calls += [['get', bad], ['in', bad], ['name', bad]]
    # the listings again, AFTER successful and unsuccessful lookups
    calls += [['term_ids'], ['len'], ['terms']]
    return {'kind': kind, 'terms': terms, 'calls': calls, 'wf': wf}


def run(chk):
    rng = chk.rng
    n = 400 if chk.tier == 'quick' else 4000
    cases = GC.load_corpus('C06')
    chk.extra['corpus_cases'] = len(cases)
    for i in range(n):
        kind = 'minimal' if i % 2 == 0 else 'full'
        wf = rng.random() < 0.7
        c = gen_case(rng, kind, wf)
        cases.append(c)
        chk.count('kind:' + kind)
        chk.count('ids:' + ('disjoint' if wf else 'clashing'))
        chk.count('current:%d' % sum(1 for t in c['terms'] if not t[3]))
        chk.count('obsolete_with_alt_ids', sum(1 for t in c['terms'] if t[3] and t[2]))
        chk.note_case({'terms': c['terms']}, nontrivial=len(c['terms']) >= 2, sample_every=150)
    terms, obs, failing = evaluate(chk, cases)
    chk.evaluations = sum(len(c['calls']) for c in cases)
    chk.traces = len(cases)
    chk.rule = ('random term collections (0-8 current, 0-4 obsolete, 0-3 alternate ids each, obsolete terms with alternate ids and with ids that are ids of '
                'current terms; 30% with clashing ids) x {minimal, full} ontology; queries: every primary / alternate / obsolete id, unknown ids, owl:Thing, '
                'malformed arguments x {CURIE str in both spellings, TermId, Identified}: get_term (identity of the returned object), get_term_name, in, '
                'len, terms (order), term_ids (sorted with multiplicity). evaluations = calls compared')
    if failing:
        report(chk, cases, failing)


def shrink(chk, case):
    cur = case
    for _ in range(12):
        calls = cur['calls']
        if len(calls) <= 1:
            break
        half = [dict(cur, calls=calls[:len(calls) // 2]), dict(cur, calls=calls[len(calls) // 2:])]
        _, _, f = evaluate(chk, half, tag='shrink')
        if not f:
            break
        cur = half[f[0]]
    for _ in range(12):
        ts = cur['terms']
        cands = [dict(cur, terms=ts[:i] + ts[i + 1:]) for i in range(len(ts))]
        # dropping a term shifts payload indices on both sides alike
        if not cands:
            break
        _, _, f = evaluate(chk, cands, tag='shrink')
        if not f:
            break
        cur = cands[f[0]]
    return cur


def model_answer(chk, term):
    f = chk.work / 'model_answer.v'
    f.write_text(HEADER + f'\nEval vm_compute in (omodel_answers {term}).\n')
    r = run_coqc(f, timeout=120, cwd=chk.work)
    return (r.stdout + r.stderr)[-3000:]


def report(chk, cases, failing, limit=3):
    seen = {}
    for i in sorted(failing, key=lambda j: len(json.dumps(cases[j])))[:6]:
        small = shrink(chk, cases[i])
        sig = 'C06:%s:%s' % (small['kind'], small['calls'][0][0] if small['calls'] else '?')
        if sig in seen or len(seen) >= limit:
            continue
        seen[sig] = 1
        terms, obs, f = evaluate(chk, [small], tag='final')
        model = model_answer(chk, terms[0]) if 0 in terms else 'n/a'
        chk.report_violation(sig, {'case': small, 'impl': obs[0], 'model': model, 'theorem': THEOREM, 'failing_cases_total': len(failing)},
                             what=f'ontology answer differs from the model: kind={small["kind"]} terms={json.dumps(small["terms"])} calls={json.dumps(small["calls"][:2])}')


def replay(chk, path):
    rp = json.loads(open(path).read())
    cases = rp['cases'] if 'cases' in rp else [rp['case']]
    for case in cases:
        terms, obs, f = evaluate(chk, [case], tag='replay')
        chk.note_case(case)
        log('impl now :', json.dumps(obs[0])[:2000])
        log('model    :', model_answer(chk, terms[0]) if 0 in terms else 'n/a')
        log('agree    :', not f)
        if f:
            chk.report_violation(rp.get('signature', 'C06:replay'), {'case': case, 'impl': obs[0]}, what='replayed case still fails')
