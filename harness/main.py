"""./check <property> [--tier quick|thorough] [--replay FILE]"""
import argparse
import importlib
import os
import sys
import traceback

sys.path.insert(0, os.path.dirname(os.path.abspath(__file__)))
import common  # noqa: E402


def main():  # noqa
    ap = argparse.ArgumentParser()
    ap.add_argument('property')
    ap.add_argument('--tier', default=os.environ.get('VERIF_TIER', 'quick'), choices=['quick', 'thorough'])
    ap.add_argument('--replay', default=None)
    args = ap.parse_args()
    seed = int(os.environ.get('VERIF_SEED', '0') or 0)
    pid = args.property
    mod = importlib.import_module('prop_' + pid)
    chk = common.Check(pid, args.tier, seed, allow_primitives=getattr(mod, 'ALLOW_PRIMITIVES', False))
    chk.proof_gate()
    try:
        if args.replay:
            mod.replay(chk, args.replay)
        else:
            mod.run(chk)
    except common.ImplFailure as e:
        # the implementation worker died or hung: the observation named by the property cannot be taken
        chk.machinery_violation('implementation observer failed', str(e)[-3000:])
    except common.ModelFailure as e:
        chk.machinery_violation('model evaluation failed', str(e)[-3000:])
    except Exception:
        chk.machinery_violation('harness error', traceback.format_exc()[-3000:])
    try:
        chk.flush_breaks()
    except Exception:
        chk.machinery_violation('harness error', traceback.format_exc()[-3000:])
    try:
        import source_pins
        broken = source_pins.check(chk, common.REPO)
        if broken:
            found = [str(rp) for _, rp, nf in chk.violations if not nf]
            chk.report_violation(f'{pid}:source-pin:' + ','.join(b['name'] for b in broken),
                                 {'no_failing_input': not found, 'broken': [f"{b['file']}:{b['name']} is modelled by {b['modelled_by']}" for b in broken],
                                  'detail': broken, 'failing_inputs_found_by_the_exploration': found[:5]},
                                 what=f'{pid}:source-pin: a literal the model was written from changed in the source: ' + '; '.join(
                                     f"{b['name']} = {b['source_now_has']!r} (was {b['model_was_written_from']!r})" for b in broken)[:500])
    except Exception:
        chk.machinery_violation('harness error', traceback.format_exc()[-3000:])
    chk.gate_violation_if_needed()
    rc = chk.finish(level='proof', trusted_base=getattr(mod, 'TRUSTED_BASE', []) + common_trusted(),
                    assumptions=getattr(mod, 'ASSUMPTIONS', []))
    sys.exit(rc)


def common_trusted():
    return [
        'Coq 8.16.1 kernel (coqc, full .vo build) incl. the vm_compute evaluator used for the correspondence',
        'no axioms declared by the development; Print Assumptions of each theorem is checked against the allow-list on every run',
        'hand-written Gallina model; tie to the code = per-run differential correspondence against $VERIF_REPO/src',
        'Python harness: case generation, rendering of cases into Coq terms, exception-class mapping, parsing of the coqc result line',
    ]


if __name__ == '__main__':
    main()
