#!/bin/sh
# usage: harness/mutant.sh <property> <file-relative-to-repo> <python-regex-old> <new> [tier]
# copies /repo/src to a scratch dir, applies one textual mutation, runs the check against it, removes the copy.
set -e
PID=$1; FILE=$2; OLD=$3; NEW=$4; TIER=${5:-quick}
D=$(mktemp -d /tmp/hpotk_mut_XXXXXX)
mkdir -p "$D/src"
cp -r /repo/src/hpotk "$D/src/"
/venv/bin/python - "$D/$FILE" "$OLD" "$NEW" <<'PY'
import sys
p, old, new = sys.argv[1:4]
s = open(p).read()
assert s.count(old) >= 1, f'pattern not found: {old!r}'
s = s.replace(old, new, 1)
open(p, 'w').write(s)
PY
set +e
VERIF_REPO=$D /verif/check "$PID" --tier "$TIER"
RC=$?
rm -rf "$D"
echo "mutant rc=$RC"
exit 0
