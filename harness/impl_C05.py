"""Observation of hpotk.load_minimal_ontology / load_ontology on rendered Obographs documents (C05)."""
import json
import os
import warnings

warnings.simplefilter('ignore')

import hpotk  # noqa: E402
from hpotk.model import SynonymCategory, SynonymType  # noqa: E402
from impl_graph import FACTORIES, exn_name  # noqa: E402

CAT = {SynonymCategory.EXACT: '0', SynonymCategory.RELATED: '1', SynonymCategory.BROAD: '2', SynonymCategory.NARROW: '3'}
TYP = {SynonymType.LAYPERSON_TERM: '0', SynonymType.ABBREVIATION: '1', SynonymType.UK_SPELLING: '2', SynonymType.OBSOLETE_SYNONYM: '3',
       SynonymType.PLURAL_FORM: '4', SynonymType.ALLELIC_REQUIREMENT: '5'}


def ostr(v):
    return '-' if v is None else '=' + v


def render_term(full, t):
    out = ['T|' + t.identifier.value + '|' + t.name]
    out += ['A|' + a.value for a in t.alt_term_ids]
    if full:
        d = t.definition
        if d is None:
            out.append('D-')
        else:
            out.append('D|' + ostr(d.definition))
            out += ['DX|' + x for x in d.xrefs]
        out.append('C|' + ostr(t.comment))
        if t.synonyms is None:
            out.append('S-')
        else:
            for s in t.synonyms:
                out.append('S|' + ostr(s.name) + '|' + (CAT[s.category] if s.category is not None else '-') + '|' +
                           (TYP[s.synonym_type] if s.synonym_type is not None else '-'))
                out += ['SX-'] if s.xrefs is None else ['SX|' + x.value for x in s.xrefs]
        out += ['X-'] if t.xrefs is None else ['X|' + x.value for x in t.xrefs]
    return out


def render(full, o):
    out, direct = [], []
    terms = list(o.terms)
    for t in terms:
        out += render_term(full, t)
        if t.is_obsolete:
            direct.append(f'obsolete term {t.identifier.value} among the current terms')
    if len(o) != len(terms):
        direct.append(f'len(ontology) = {len(o)} but {len(terms)} terms are iterated')
    out += sorted('I|' + i.value for i in o.term_ids)
    g = o.graph
    out += sorted('E|' + c.value + '|' + p.value for c in g for p in g.get_parents(c))
    out.append('R|' + g.root.value)
    out.append('V|' + ostr(o.version))
    return out, direct


def observe_case(case, workdir):
    path = os.path.join(workdir, 'doc%d.json' % os.getpid())
    with open(path, 'w', encoding='utf-8') as fh:
        json.dump(case['json'], fh, ensure_ascii=False)
    try:
        loader = hpotk.load_ontology if case['full'] else hpotk.load_minimal_ontology
        kw = {'graph_factory': FACTORIES[case['factory']](), 'prefixes_of_interest': set(case['prefixes'])}
        if case.get('defaults'):
            kw = {}     # the shared default factories / prefixes {'HP'}
        try:
            o = loader(path, **kw)
        except Exception as e:
            return {'err': exn_name(e)}
        r, direct = render(case['full'], o)
        return {'ok': r, 'direct': direct}
    finally:
        os.remove(path)


def observe_dense(case, workdir):
    """a document with fewer than 255 terms and more than 256 is_a edges (every term has up to three parents), through both
    loaders and their default graph factory: the parents / children of every term and the ancestors of some are compared
    with the document itself - the property's own oracle, no model"""
    import random
    rng = random.Random(case['seed'])
    n, pur = case['n'], 'http://purl.obolibrary.org/obo/HP_%07d'
    ids = rng.sample(range(1, 9000), n)
    parents = {ids[0]: []}
    for k in range(1, n):
        parents[ids[k]] = sorted(rng.sample(ids[:k], min(k, 3)))
    nodes = [{'id': pur % i, 'lbl': 't%d' % i, 'type': 'CLASS'} for i in ids]
    edges = [{'sub': pur % c, 'pred': 'is_a', 'obj': pur % p} for c in ids for p in parents[c]]
    rng.shuffle(edges)
    path = os.path.join(workdir, 'dense%d.json' % os.getpid())
    with open(path, 'w', encoding='utf-8') as fh:
        json.dump({'graphs': [{'id': 'x', 'meta': {}, 'nodes': nodes, 'edges': edges}]}, fh)
    cur = lambda i: 'HP:%07d' % i       # noqa: E731
    children = {i: sorted(c for c in ids if i in parents[c]) for i in ids}

    def closure(i):
        seen, todo = set(), list(parents[i])
        while todo:
            x = todo.pop()
            if x not in seen:
                seen.add(x)
                todo += parents[x]
        return sorted(seen)
    mism = []
    try:
        for loader in (hpotk.load_minimal_ontology, hpotk.load_ontology):
            g = loader(path).graph
            for i in ids:
                got_p = sorted(t.value for t in g.get_parents(cur(i)))
                got_c = sorted(t.value for t in g.get_children(cur(i)))
                if got_p != [cur(x) for x in parents[i]]:
                    mism.append([loader.__name__, 'parents', cur(i), got_p, [cur(x) for x in parents[i]]])
                if got_c != [cur(x) for x in children[i]]:
                    mism.append([loader.__name__, 'children', cur(i), got_c, [cur(x) for x in children[i]]])
            for i in ids[-12:]:
                got = sorted(t.value for t in g.get_ancestors(cur(i)))
                if got != [cur(x) for x in closure(i)]:
                    mism.append([loader.__name__, 'ancestors', cur(i), got[:6], [cur(x) for x in closure(i)][:6]])
    finally:
        os.remove(path)
    return {'nodes': n, 'edges': len(edges), 'n_mismatches': len(mism), 'mismatches': mism[:3]}


def observe(payload):
    res = []
    for case in payload['cases']:
        try:
            if case.get('kind') == 'dense':
                res.append(observe_dense(case, payload['workdir']))
                continue
            res.append(observe_case(case, payload['workdir']))
        except Exception as e:
            res.append({'crash': exn_name(e) + ': ' + str(e)[:300]})
    return {'cases': res}
