"""Observation of hpotk.load_minimal_ontology / load_ontology on rendered Obographs documents (C05)."""
import json
import os
import warnings

warnings.simplefilter('ignore')

import hpotk  # noqa: E402
from hpotk.model import SynonymCategory, SynonymType  # noqa: E402
from impl_graph import FACTORIES, exn_name  # noqa: E402

CAT = {SynonymCategory.EXACT: '0', SynonymCategory.RELATED: '1', SynonymCategory.BROAD: '2', SynonymCategory.NARROW: '3'}
TYP = {SynonymType.LAYPERSON_TERM: '0', SynonymType.ABBREVIATION: '1', SynonymType.UK_SPELLING: '2', SynonymType.OBSOLETE_SYNONYM: '3',
       SynonymType.PLURAL_FORM: '4', SynonymType.ALLELIC_REQUIREMENT: '5'}


def ostr(v):
    return '-' if v is None else '=' + v


def render_term(full, t):
    out = ['T|' + t.identifier.value + '|' + t.name]
    out += ['A|' + a.value for a in t.alt_term_ids]
    if full:
        d = t.definition
        if d is None:
            out.append('D-')
        else:
            out.append('D|' + ostr(d.definition))
            out += ['DX|' + x for x in d.xrefs]
        out.append('C|' + ostr(t.comment))
        if t.synonyms is None:
            out.append('S-')
        else:
            for s in t.synonyms:
                out.append('S|' + ostr(s.name) + '|' + (CAT[s.category] if s.category is not None else '-') + '|' +
                           (TYP[s.synonym_type] if s.synonym_type is not None else '-'))
                out += ['SX-'] if s.xrefs is None else ['SX|' + x.value for x in s.xrefs]
        out += ['X-'] if t.xrefs is None else ['X|' + x.value for x in t.xrefs]
    return out


def render(full, o):
    out, direct = [], []
    terms = list(o.terms)
    for t in terms:
        out += render_term(full, t)
        if t.is_obsolete:
            direct.append(f'obsolete term {t.identifier.value} among the current terms')
    if len(o) != len(terms):
        direct.append(f'len(ontology) = {len(o)} but {len(terms)} terms are iterated')
    out += sorted('I|' + i.value for i in o.term_ids)
    g = o.graph
    out += sorted('E|' + c.value + '|' + p.value for c in g for p in g.get_parents(c))
    out.append('R|' + g.root.value)
    out.append('V|' + ostr(o.version))
    return out, direct


def observe_case(case, workdir):
    path = os.path.join(workdir, 'doc%d.json' % os.getpid())
    with open(path, 'w', encoding='utf-8') as fh:
        json.dump(case['json'], fh, ensure_ascii=False)
    try:
        loader = hpotk.load_ontology if case['full'] else hpotk.load_minimal_ontology
        kw = {'graph_factory': FACTORIES[case['factory']](), 'prefixes_of_interest': set(case['prefixes'])}
        if case.get('defaults'):
            kw = {}     # the shared default factories / prefixes {'HP'}
        try:
            o = loader(path, **kw)
        except Exception as e:
            return {'err': exn_name(e)}
        r, direct = render(case['full'], o)
        return {'ok': r, 'direct': direct}
    finally:
        os.remove(path)


def observe(payload):
    res = []
    for case in payload['cases']:
        try:
            res.append(observe_case(case, payload['workdir']))
        except Exception as e:
            res.append({'crash': exn_name(e) + ': ' + str(e)[:300]})
    return {'cases': res}
