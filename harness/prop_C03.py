"""C03 - all views of the hierarchy agree: implementations, predicates, index API, argument forms."""
import json

import gen_graph as G
import graphcorr as GC

TRUSTED_BASE = [
    'dict / bisect node lookup and the lazy any(...) scans are modelled functionally',
    'an Identified wrapper class defined in the harness stands for "any object carrying an identifier"',
]
ASSUMPTIONS = ['edge lists are acyclic and non-empty; owl:Thing is not an input term',
               '__contains__ is exercised with TermId operands (its declared signature)']
THEOREM = 'C03_implementations_agree / C03_predicates_are_membership / C03_converse / C03_index_bijection / C03_index_api_mirrors_node_api / C03_argument_forms'
FACTORIES = ['idx', 'inc', 'bld']


def forms(x, rng):
    """the same node as str (':' spelling, and '_' spelling when legal), TermId, Identified"""
    v = G.value_of(x)
    p, i = G.key_of(x)
    out = [['str', v], ['tid', x], ['ident', x], ['utid', x], ['uident', x]]
    if '_' not in p and ':' not in i and '_' not in i and p and rng.random() < 0.5:
        out.append(['str', p + '_' + i])
    return out


def calls_for(edges, rng, factory, all_pairs):
    nodes = G.nodes_of(edges)
    multi = len({G.key_of(b) for _, b in edges} - {G.key_of(a) for a, _ in edges}) > 1
    allnodes = nodes + (['owl:Thing'] if multi else [])
    n = len(allnodes)
    calls = [['nodes'], ['root']]
    pairs = [(a, b) for a in allnodes for b in allnodes]
    if not all_pairs:
        pairs = rng.sample(pairs, min(len(pairs), 60))
    for a, b in pairs:
        for q in 'PCAD':
            fa, fb = rng.choice(forms(a, rng)), rng.choice(forms(b, rng))
            calls.append(['pred', q, fa, fb])
            if all_pairs:
                calls.append(['pred', q, ['tid', a], ['tid', b]])
    for x in allnodes:
        for f in forms(x, rng):
            calls.append(['leaf', f])
            q = rng.choice('PCAD')
            calls.append(['query', q, f, rng.random() < 0.5])
        calls.append(['contains', x])
    if factory == 'idx':
        calls.append(['root_idx'])
        for x in allnodes:
            calls.append(['node_to_idx', x])
        for i in range(n):
            calls.append(['idx_to_node', ['i', i]])
            for q in 'PCAD':
                calls.append(['idx_query', q, ['i', i] if rng.random() < 0.8 else ['np', i]])
        ipairs = [(i, j) for i in range(n) for j in range(n)]
        if not all_pairs:
            ipairs = rng.sample(ipairs, min(len(ipairs), 60))
        for i, j in ipairs:
            for q in 'PCAD':
                calls.append(['idx_pred', q, ['i', i], ['i', j]])
    return calls


def gen(chk):
    rng = chk.rng
    thorough = chk.tier == 'thorough'
    graphs = []
    for edges in G.all_acyclic_edge_sets(3):
        graphs.append(('exh3', G.label(edges, ['HP:2', 'HP:10', 'MP_1'])))
    sets4 = list(G.all_acyclic_edge_sets(4))
    for edges in (sets4 if thorough else rng.sample(sets4, 120)):
        graphs.append(('exh4', G.label(edges, rng.sample(['HP:10', 'HP:9', 'MP_1', 'HP:é', 'A_B:1', 'HP:1'], 4))))
    for _ in range(120 if not thorough else 1000):
        fam, m, edges = G.random_dag(rng, 4, 7)
        if m > 7:
            continue
        graphs.append((fam, G.label(edges, G.pick_labels(rng, m))))
    for _ in range(40 if not thorough else 300):
        fam, m, edges = G.random_dag(rng, 8, 16 if not thorough else 40)
        graphs.append((fam + ':large', G.label(edges, G.pick_labels(rng, m))))
    # one dense graph: more than 255 edges on 24 nodes
    graphs.append(('dense', G.dense_graph(rng, 24)))
    return graphs


def run(chk):
    rng = chk.rng
    graphs = gen(chk)
    cases = []
    for fam, es in graphs:
        chk.count('shape:' + fam)
        small = len(G.nodes_of(es)) <= 7
        for f in FACTORIES:
            cases.append({'factory': f, 'edges': es, 'calls': calls_for(es, rng, f, small)})
        chk.note_case({'edges': es}, nontrivial=len(es) >= 2, sample_every=80)
    for c in cases:
        for call in c['calls']:
            chk.count('call:' + call[0])
    terms, obs, failing = GC.evaluate(chk, cases, shard=60)
    chk.evaluations = sum(len(c['calls']) for c in cases)
    chk.traces = len(cases)
    chk.extra['graphs'] = len(graphs)
    chk.exhaustive = True
    chk.rule = ('every acyclic edge set over 3 positions, a sample (thorough: all) of those over 4, random DAGs <= 7 nodes: ALL ordered pairs of nodes x 4 predicates '
                '(random argument forms str/str-with-underscore/TermId/Identified per call + the plain TermId call) x 3 factories; is_leaf and one query per node and form; '
                'membership; for the indexed graph the whole index API (node_to_idx, idx_to_node, root_idx, get_*_idx, is_*_of_idx on all index pairs; numpy ints mixed in); '
                'larger graphs sample 60 pairs. Every answer is compared with the model, which the theorems tie to the traversal results. '
                'evaluations = API calls compared; distinct_nontrivial = distinct edge lists with >= 2 edges')
    if failing:
        GC.report(chk, 'C03', cases, failing, THEOREM)


def replay(chk, path):
    GC.replay(chk, path, 'C03')
