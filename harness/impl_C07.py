"""Driving the real OntologyStore through histories, faults, kills and races (C07).

Every I/O boundary of a load is intercepted from the harness (module attributes of hpotk.store._api
are replaced by proxies; the remote services are injected): isfile, fetch, mkstemp, read, write,
close, replace, load.  A `gate` is called before each boundary is executed."""
import io
import json
import os
import re
import shutil
import tempfile
import threading
import warnings

warnings.simplefilter('ignore')

import hpotk  # noqa: E402
import hpotk.store._api as api  # noqa: E402
from hpotk.store import OntologyType, OntologyStore, RemoteOntologyService, OntologyReleaseService  # noqa: E402

TYPES = [OntologyType.HPO, OntologyType.MAxO, OntologyType.MONDO]
PURL = 'http://purl.obolibrary.org/obo/'


def exn_name(e):
    n = type(e).__name__
    return n if n in ('ValueError', 'IndexError', 'KeyError', 'TypeError') else 'Other:' + n


def content(t, k):
    """the document the remote serves for type index t, release index k: a distinct term set per release"""
    if EMPTY.get((t, k)):           # the remote serves nothing at all for this tag (a broken release asset)
        return b''
    pre = TYPES[t].identifier
    ids = [1, 2, 3 + k, 10 + t]
    rev = REV.get((t, k), 0)        # the remote re-published this tag with other content
    if rev:
        ids.append(40 + rev)
    nodes = [{'id': PURL + '%s_%07d' % (pre, i), 'lbl': 'term %d' % i, 'type': 'CLASS'} for i in ids]
    edges = [{'sub': PURL + '%s_%07d' % (pre, i), 'pred': 'is_a', 'obj': PURL + '%s_%07d' % (pre, 1)} for i in ids[1:]]
    # a second, foreign prefix in the same document: the loader options (prefixes_of_interest) decide what a load returns
    nodes += [{'id': PURL + 'XX_%07d' % i, 'lbl': 'other %d' % i, 'type': 'CLASS'} for i in [1, 5 + k] + ([40 + rev] if rev else [])]
    edges += [{'sub': PURL + 'XX_%07d' % i, 'pred': 'is_a', 'obj': PURL + 'XX_0000001'} for i in [5 + k] + ([40 + rev] if rev else [])]
    # the document is larger than one network read (see Response.read): a member the loader ignores pads it to ~20 KiB
    return json.dumps({'graphs': [{'id': 'x', 'meta': {}, 'nodes': nodes, 'edges': edges}], 'padding': 'x' * 20000}).encode('utf-8')


REV = {}
EMPTY = {}


def expected_terms(t, k, view=0):
    rev = REV.get((t, k), 0)
    if view:
        return sorted('XX:%07d' % i for i in [1, 5 + k] + ([40 + rev] if rev else []))
    pre = TYPES[t].identifier
    return sorted('%s:%07d' % (pre, i) for i in [1, 2, 3 + k, 10 + t] + ([40 + rev] if rev else []))


class Ctx(threading.local):
    gate = None        # callable(name)
    plan = None        # None | 'fetch' | 'read' | ('write', k)


CTX = Ctx()


def gate(name):
    g = CTX.gate
    if g is not None:
        g(name)


class Fault(IOError):
    pass


class Response(io.BytesIO):
    def __init__(self, data, plan):
        super().__init__(data)
        self._plan = plan

    def read(self, *a):
        if not getattr(self, '_read_started', False):      # one model boundary per download, however many reads it takes
            self._read_started = True
            gate('read')
        if self._plan == 'read':
            raise Fault('connection reset while reading')
        if a and a[0] is not None and a[0] > 0:
            # a sized read behaves like a socket: it hands over what has arrived (at most 8 KiB), not what was asked for;
            # only b'' means end of stream
            return super().read(min(a[0], 8192))
        return super().read(*a)


class Remote(RemoteOntologyService):
    def __init__(self, releases, logfile):
        self.releases = releases
        self.logfile = logfile

    def fetch_ontology(self, ontology_type, release):
        gate('fetch')
        t = TYPES.index(ontology_type)
        with open(self.logfile, 'a') as fh:
            fh.write('%d %s\n' % (t, release))
        if CTX.plan == 'fetch':
            raise Fault('cannot connect')
        return Response(content(t, self.releases[t].index(release)), CTX.plan)


class Releases(OntologyReleaseService):
    def __init__(self, releases):
        self.releases = releases

    def fetch_tags(self, ontology_type):
        return iter(self.releases[TYPES.index(ontology_type)])


class FileProxy:
    """the file being written.  Two ways a write can fail: at write() (plan ('write', k): k bytes reach the file,
    then ENOSPC) or - the usual way for a payload smaller than the io buffer - only when the buffer is flushed at
    close() (plan ('close', k)).  close() is a boundary of its own (model: PBuffered -> PWritten): a kill or another
    loader's step can land between write() and close(), when the data is still in the io buffer."""
    def __init__(self, fh):
        self._fh = fh
        self._held = None
        self._closed = False

    def write(self, data):
        if not getattr(self, '_write_started', False):       # one model boundary per file, however many chunks are written
            self._write_started = True
            gate('write')
        plan = CTX.plan
        if isinstance(plan, (list, tuple)) and plan[0] == 'write':
            self._fh.write(data[:plan[1]])
            self._fh.flush()
            raise Fault('no space left on device')
        if isinstance(plan, (list, tuple)) and plan[0] == 'close':
            self._held = (self._held or b'') + bytes(data)      # stays in the buffer
            return len(data)
        return self._fh.write(data)

    def close(self):
        if self._closed:
            return
        self._closed = True
        gate('close')
        plan = CTX.plan
        if isinstance(plan, (list, tuple)) and plan[0] == 'close' and self._held is not None:
            self._fh.write(self._held[:plan[1]])
            try:
                self._fh.close()
            finally:
                raise Fault('no space left on device (at flush)')
        return self._fh.close()

    def __enter__(self):
        return self

    def __exit__(self, *a):
        self.close()
        return False

    def __getattr__(self, n):
        return getattr(self._fh, n)


class PathProxy:
    def __getattr__(self, n):
        return getattr(os.path, n)

    def isfile(self, p):
        gate('isfile')
        return os.path.isfile(p)


class OsProxy:
    path = PathProxy()

    def __getattr__(self, n):
        return getattr(os, n)

    def replace(self, a, b):
        gate('replace')
        return os.replace(a, b)

    def rename(self, a, b):
        gate('replace')
        return os.rename(a, b)

    def fdopen(self, fd, *a, **kw):
        return FileProxy(os.fdopen(fd, *a, **kw))


class TempfileProxy:
    def __getattr__(self, n):
        return getattr(tempfile, n)

    def mkstemp(self, *a, **kw):
        gate('mkstemp')
        return tempfile.mkstemp(*a, **kw)

    def NamedTemporaryFile(self, *a, **kw):
        gate('mkstemp')
        return FileProxy(tempfile.NamedTemporaryFile(*a, **kw))


def proxy_open(p, mode='r', *a, **kw):
    fh = open(p, mode, *a, **kw)
    if 'w' in mode or 'a' in mode or 'x' in mode:
        gate('mkstemp')       # the unrepaired code creates the target itself: counted as the "create file" boundary
        return FileProxy(fh)
    return fh


_real_min, _real_full = api.load_minimal_ontology, api.load_ontology


def _load_min(path, **kw):
    gate('load')
    return _real_min(path, **kw)


def _load_full(path, **kw):
    gate('load')
    return _real_full(path, **kw)


def install():
    api.os = OsProxy()
    if hasattr(api, 'tempfile'):
        api.tempfile = TempfileProxy()
    api.open = proxy_open
    api.load_minimal_ontology = _load_min
    api.load_ontology = _load_full


install()


class Env:
    def __init__(self, workdir, name, relative, releases):
        self.base = os.path.join(workdir, name)
        shutil.rmtree(self.base, ignore_errors=True)
        os.makedirs(os.path.join(self.base, 'store'))
        self.logfile = os.path.join(self.base, 'fetch.log')
        open(self.logfile, 'w').close()
        self.releases = [list(r) for r in releases]        # private copy: a history may publish further releases
        self.relative = relative
        self.views = {}
        REV.clear()
        EMPTY.clear()
        if relative:
            os.chdir(self.base)
            self.store_dir = 'store'
        else:
            self.store_dir = os.path.join(self.base, 'store')
        self.store = OntologyStore(self.store_dir, Releases(self.releases), Remote(self.releases, self.logfile))

    def abs_store(self):
        return os.path.join(self.base, 'store')

    def snapshot(self):
        finals, leftovers, incomplete, listing = [], 0, [], []
        root = self.abs_store()
        for d, _, files in os.walk(root):
            for f in files:
                rel = os.path.relpath(os.path.join(d, f), root)
                # the raw listing for the model-side classification: name + whose served bytes the file holds
                with open(os.path.join(d, f), 'rb') as fh:
                    data = fh.read()
                tag = next(([ti, r] for ti in range(len(TYPES)) for k, r in enumerate(self.releases[ti]) if data == content(ti, k)), None)
                listing.append([rel.replace(os.sep, '/'), tag])
                m = re.match(r'^([A-Z]+)/([a-z]+)\.(.+)\.json$', rel)
                t = next((i for i, ty in enumerate(TYPES) if m and ty.identifier == m.group(1) and ty.identifier.lower() == m.group(2)), None)
                if t is not None and m.group(3) in self.releases[t]:
                    finals.append([t, m.group(3)])
                    with open(os.path.join(d, f), 'rb') as fh:
                        if fh.read() != content(t, self.releases[t].index(m.group(3))):
                            incomplete.append(rel)
                else:
                    leftovers += 1
        fetches = [[int(l.split(' ', 1)[0]), l.rstrip('\n').split(' ', 1)[1]] for l in open(self.logfile)]
        return {'finals': sorted(finals), 'leftovers': leftovers, 'fetches': fetches, 'incomplete': incomplete, 'listing': sorted(listing, key=lambda e: e[0])}

    def load(self, t, release, plan=None, full=False, gatefn=None):
        """returns 1 (right ontology) | 2 (raised) | 4 (wrong ontology)"""
        CTX.plan, CTX.gate = plan, gatefn
        try:
            fn = self.store.load_ontology if full else self.store.load_minimal_ontology
            # the same (type, release, entry point) is asked with alternating loader options: the answer must be what a
            # direct load of the served bytes with THESE options gives
            key = (t, release, full)
            view = self.views.get(key, 0) % 2
            self.views[key] = view + 1
            o = fn(TYPES[t], release, prefixes_of_interest={'XX'} if view else {TYPES[t].identifier})
            r = release if release is not None else max(self.releases[t])
            return 1 if sorted(x.identifier.value for x in o.terms) == expected_terms(t, self.releases[t].index(r), view) else 4
        except Fault:
            return 2
        except Exception as e:
            self.last_error = exn_name(e) + ': ' + str(e)[:200]
            return 2
        finally:
            CTX.plan, CTX.gate = None, None

    def cleanup(self):
        if self.relative:
            os.chdir('/')
        shutil.rmtree(self.base, ignore_errors=True)


def run_history(payload, case, idx):
    env = Env(payload['workdir'], 'h%d' % idx, case['relative'], case['releases'])
    out, direct, outcomes = [], [], []
    try:
        for op in case['ops']:
            k = op[0]
            rec = {}
            before = env.snapshot()
            if k == 'load':
                outcomes.append(env.load(op[1], op[2], plan=op[3], full=op[4]))
                if outcomes[-1] == 2 and op[3] is None and getattr(env, 'last_error', None):
                    rec['error'] = env.last_error
                # ---- the property itself, evaluated directly (independent of the model) ----
                rel = op[2] if op[2] is not None else max(env.releases[op[1]])
                had_copy = [op[1], rel] in before['finals'] and not before['incomplete']
                after = env.snapshot()
                new_fetches = after['fetches'][len(before['fetches']):]
                if had_copy and new_fetches:
                    direct.append(f'a complete local copy of {rel} existed, yet the remote was asked for {new_fetches}')
                if outcomes[-1] == 4:
                    direct.append(f'load {op} returned an ontology that differs from loading the served bytes directly')
                if (op[3] is None or had_copy) and outcomes[-1] != 1:
                    direct.append(f'a load from a healthy remote (or with a complete local copy) did not succeed: {op} -> outcome {outcomes[-1]} {getattr(env, "last_error", "")}')
                if outcomes[-1] == 1 and [op[1], rel] not in after['finals']:
                    direct.append(f'after a successful load of {rel} there is no copy at its cache location')
            elif k == 'clear':
                try:
                    env.store.clear(None if op[1] is None else TYPES[op[1]])
                except Exception as e:
                    rec['error'] = exn_name(e) + ': ' + str(e)[:200]
                    direct.append(f'clear({op[1]}) raised {rec["error"]}')
                if op[1] is not None:
                    after = env.snapshot()
                    tdir = TYPES[op[1]].identifier + '/'
                    left = [e[0] for e in after['listing'] if e[0].startswith(tdir)]
                    gone = [e[0] for e in before['listing'] if not e[0].startswith(tdir) and e not in after['listing']]
                    if left:
                        direct.append(f'clear of one type left its files behind: {left}')
                    if gone:
                        direct.append(f'clear of one type removed or changed files of other types: {gone}')
            elif k == 'publish':
                # the remote publishes a further release of this type (the release service and the remote share env.releases)
                if op[2] not in env.releases[op[1]]:
                    env.releases[op[1]].append(op[2])
            elif k == 'resolve':
                try:
                    p = env.store.resolve_store_path(TYPES[op[1]], op[2])
                    r = op[2] if op[2] is not None else max(env.releases[op[1]])
                    exp = os.path.join(env.store_dir, TYPES[op[1]].identifier, '%s.%s.json' % (TYPES[op[1]].identifier.lower(), r))
                    if p != exp:
                        direct.append(f'resolve_store_path gives {p!r}, expected {exp!r}')
                    rec['resolved'] = [op[1], r, os.path.relpath(p, env.store_dir).replace(os.sep, '/')]
                except Exception as e:
                    direct.append(f'resolve_store_path raised {exn_name(e)}')
            snap = env.snapshot()
            if snap['incomplete']:
                direct.append(f'incomplete file at a cache location after {op}: {snap["incomplete"]}')
            if k == 'clear' and op[1] is None and (snap['finals'] or snap['leftovers']):
                direct.append('the store is not empty after clear()')
            rec.update({'snap': snap, 'outcomes': list(outcomes)})
            out.append(rec)
        return {'steps': out, 'direct': direct}
    finally:
        env.cleanup()


class KillGate:
    """kills the process before its k-th boundary"""
    def __init__(self, k):
        self.k, self.n = k, 0

    def __call__(self, name):
        self.n += 1
        if self.n == self.k:
            os._exit(17)        # no flush, no cleanup: like SIGKILL


def run_kill(payload, case, idx):
    env = Env(payload['workdir'], 'k%d' % idx, case['relative'], case['releases'])
    direct, outcomes = [], []
    try:
        for op in case['before']:
            outcomes.append(env.load(op[1], op[2]))
        t, r, k = case['victim']
        pid = os.fork()
        if pid == 0:
            try:
                env.load(t, r, gatefn=KillGate(k))
            finally:
                os._exit(0)
        _, status = os.waitpid(pid, 0)
        killed = os.WIFEXITED(status) and os.WEXITSTATUS(status) == 17
        outcomes.append(3 if killed else 0)
        snap1 = env.snapshot()
        if snap1['incomplete']:
            direct.append(f'incomplete file at a cache location after a kill at boundary {k}: {snap1["incomplete"]}')
        # a later load from a healthy remote must succeed
        outcomes.append(env.load(t, r))
        if outcomes[-1] != 1:
            direct.append(f'the load after a kill at boundary {k} did not succeed: {getattr(env, "last_error", "")}')
        snap2 = env.snapshot()
        if snap2['incomplete']:
            direct.append('incomplete file at a cache location after the recovery load')
        return {'killed': killed, 'snap1': snap1, 'snap2': snap2, 'outcomes1': outcomes[:-1], 'outcomes2': outcomes, 'direct': direct}
    finally:
        env.cleanup()


class StepGate:
    """blocks the calling thread before every boundary until the scheduler lets it pass"""
    def __init__(self):
        self.go = threading.Semaphore(0)
        self.arrived = threading.Event()
        self.done = False

    free = False

    def __call__(self, name):
        if self.free:
            return
        self.arrived.set()
        self.go.acquire()


def run_race(payload, case, idx):
    env = Env(payload['workdir'], 'r%d' % idx, case['relative'], case['releases'])
    direct = []
    try:
        n = len(case['loaders'])
        gates = [StepGate() for _ in range(n)]
        results = [0] * n

        def work(i):
            t, r, plan = case['loaders'][i]
            results[i] = env.load(t, r, plan=plan, gatefn=gates[i])
            gates[i].done = True
            gates[i].arrived.set()

        threads = [threading.Thread(target=work, args=(i,), daemon=True) for i in range(n)]
        for th, g in zip(threads, gates):
            th.start()
            g.arrived.wait(30)
        taken = []
        for i in list(case['schedule']) + [j for j in range(n) for _ in range(12)]:
            g = gates[i]
            if g.done:
                if len(taken) < len(case['schedule']):
                    taken.append(i)
                continue
            g.arrived.clear()
            g.go.release()
            if not g.arrived.wait(30):
                direct.append('a loader did not reach its next boundary within 30 s')
                break
            taken.append(i)
            snap = env.snapshot()
            if snap['incomplete']:
                direct.append(f'incomplete file OBSERVABLE at a cache location during the race after steps {taken}: {snap["incomplete"]}')
                break
        for g in gates:          # let whatever is still blocked run to its end
            g.free = True
            g.go.release()
        for th in threads:
            th.join(10)
        snap = env.snapshot()
        if snap['incomplete']:
            direct.append(f'incomplete file left at a cache location after the race: {snap["incomplete"]}')
        return {'snap': snap, 'outcomes': results, 'direct': direct}
    finally:
        env.cleanup()


def run_latest(payload, case, idx):
    env = Env(payload['workdir'], 'l%d' % idx, False, [case['tags'], [], []])
    try:
        try:
            p = env.store.resolve_store_path(TYPES[0])
            m = re.match(r'^.*/hp\.(.*)\.json$', p)
            got = m.group(1) if m else '?' + p
            return {'ok': got, 'direct': [] if case['tags'] and got == max(case['tags']) else [f'omitting the release selected {got!r}, the greatest tag is {max(case["tags"]) if case["tags"] else None!r}']}
        except Exception as e:
            return {'err': exn_name(e), 'direct': [] if (not case['tags'] and exn_name(e) == 'ValueError') else [f'omitting the release raised {exn_name(e)} for tags {case["tags"]}']}
    finally:
        env.cleanup()


def run_republish(payload, case, idx):
    """load a release, clear, the remote re-publishes the SAME tag with other content, load again: nothing is cached, so the
    new bytes must be fetched, stored and loaded (evaluated directly - the model's remote is a fixed function)"""
    env = Env(payload['workdir'], 'p%d' % idx, case['relative'], case['releases'])
    t, r, full = case['t'], case['release'], case['full']
    k = env.releases[t].index(r)
    direct, outcomes = [], []
    try:
        for j in range(case.get('warm', 1)):
            outcomes.append(env.load(t, r, full=full))
        try:
            env.store.clear(None if case['clear'] is None else TYPES[case['clear']])
        except Exception as e:
            direct.append(f'clear({case["clear"]}) raised {exn_name(e)}')
        REV[(t, k)] = 1
        before = env.snapshot()
        outcomes.append(env.load(t, r, full=full))
        after = env.snapshot()
        if outcomes[-1] == 4:
            direct.append(f'after clear and a re-publication of {r} the load returned an ontology that differs from loading the served bytes directly')
        elif outcomes[-1] != 1:
            direct.append(f'a load from a healthy remote did not succeed after clear and a re-publication of {r}: outcome {outcomes[-1]} {getattr(env, "last_error", "")}')
        if not after['fetches'][len(before['fetches']):]:
            direct.append(f'no complete local copy of {r} existed after clear, yet the remote was not asked')
        if after['incomplete'] or [t, r] not in after['finals']:
            direct.append(f'after the load the cache location of {r} does not hold the bytes the remote served: incomplete file {after["incomplete"]}')
        n = len(after['fetches'])
        outcomes.append(env.load(t, r, full=full))
        last = env.snapshot()
        if outcomes[-1] == 4:
            direct.append(f'the cache hit after the re-publication of {r} returned an ontology that differs from loading the served bytes directly')
        if last['fetches'][n:]:
            direct.append(f'a complete local copy of {r} existed, yet the remote was asked for {last["fetches"][n:]}')
        return {'outcomes': outcomes, 'direct': direct}
    finally:
        env.cleanup()


def run_empty(payload, case, idx):
    """the remote serves ZERO bytes for a tag: the stored copy is byte-identical to that (an empty file), so it is a complete
    local copy - loading it fails the same way every time, and the remote is asked once (evaluated directly)"""
    env = Env(payload['workdir'], 'z%d' % idx, case['relative'], case['releases'])
    t, r = case['t'], case['release']
    EMPTY[(t, env.releases[t].index(r))] = True
    direct, outcomes = [], []
    try:
        outcomes.append(env.load(t, r, full=case['full']))
        first = env.snapshot()
        if [t, r] not in first['finals'] or first['incomplete']:
            direct.append(f'after the load the cache location of {r} does not hold the (zero) bytes the remote served: incomplete file {first["incomplete"]}')
        for _ in range(2):
            outcomes.append(env.load(t, r, full=case['full']))
        last = env.snapshot()
        if last['fetches'][len(first['fetches']):]:
            direct.append(f'a complete local copy of {r} existed (the remote served zero bytes), yet the remote was asked for {last["fetches"][len(first["fetches"]):]}')
        if len(set(outcomes)) != 1:
            direct.append(f'loads of the same stored bytes did not succeed / fail alike: outcomes {outcomes}')
        return {'outcomes': outcomes, 'direct': direct}
    finally:
        env.cleanup()


def observe(payload):
    res = []
    fn = {'empty': run_empty, 'history': run_history, 'kill': run_kill, 'race': run_race, 'latest': run_latest, 'republish': run_republish}
    for idx, case in enumerate(payload['cases']):
        try:
            res.append(fn[case['kind']](payload, case, idx))
        except Exception as e:
            import traceback
            res.append({'crash': exn_name(e) + ': ' + traceback.format_exc()[-600:]})
    return {'cases': res}
