"""C12 - queries are pure: results independent of history and iterator interleaving."""
import itertools
import json

import gen_graph as G
import graphcorr as GC
import impl_C16_docs as DOCS
from common import cstr, cbool, clist, ctuple, log

TRUSTED_BASE = [
    'in the model isolation is structural (iterator state is a value, graphs are immutable); the verdict of this check rests on the property\'s own observable evaluated on the '
    'implementation: results after histories equal fresh results, each interleaved iterator yields exactly its solo sequence, reader threads see the precomputed answers, '
    'documents load the same before and after other documents',
    'the yields of interleaved iterators are additionally compared with the proved graph model inside Coq (no repeats; same multiset as the model\'s answer)',
    'the footprint digest of the graph object is diagnostic only (recorded in the evidence, never a verdict)',
    'PARTIAL: thread preemption inside one generator step cannot be exhibited by the model; concurrent readers are explored (8 threads), not proved',
]
ASSUMPTIONS = ['edge lists are acyclic and non-empty; sources are nodes of the graph']
THEOREM = 'C12_lazy_refines_eager / C12_partial_is_prefix / C12_non_interference / C12_indexed_graph_iterators / C12_matrix_graph_iterators'

HEADER = GC.HEADER.replace('Corr.Graph.', 'Corr.Graph Corr.C12.')


def render(case, obs):
    t = GC.Table()
    edges = clist([ctuple([t.s(a), t.s(b)]) for a, b in case['edges']])
    iters = []
    for rec in obs['inter']:
        for i, o in zip(rec['opened'], rec['outs']):
            q = case['queries'][i]
            ys = 'None' if isinstance(o, str) else '(Some ' + clist([t.s(x) for x in o]) + ')'
            iters.append(f'({GC.Q[q[1]]}, {t.k(q[2])}, {cbool(q[3])}, {ys})')
    tbl = clist([cstr(x) for x in t.items])
    return (f'(let tbl := {tbl} in let ks := ktable tbl in let s := tb tbl in let k := kk ks in '
            f'mkPCase {GC.FACT[case["factory"]]} {edges} {clist(iters)})')


def evaluate(chk, cases, tag='cases'):
    obs = []
    for part in [cases[i:i + 150] for i in range(0, len(cases), 150)]:
        obs += chk.run_impl('C12', {'cases': part, 'workdir': str(chk.work)}, timeout=1500)['cases']
    failing = {}
    gi = [i for i, c in enumerate(cases) if c['kind'] == 'graph' and 'crash' not in obs[i]]
    terms = {i: render(cases[i], obs[i]) for i in gi}
    for j in chk.coq_failing(HEADER, [terms[i] for i in gi], 'check_pcase', shard=40, tag=tag):
        failing.setdefault(gi[j], []).append('an interleaved iterator yielded a repeated node or a different set of nodes than the model\'s answer')
    # the loader cases once more in another process with the differently configured HPOA loaders in the opposite order
    li = [i for i, c in enumerate(cases) if c['kind'] == 'loader' and c.get('hpoa_rich') and 'crash' not in obs[i]]
    if li:
        rev = chk.run_impl('C12', {'cases': [dict(cases[i], rev=True) for i in li], 'workdir': str(chk.work)}, timeout=1500)['cases']
        for i, o2 in zip(li, rev):
            if 'crash' in o2:
                failing.setdefault(i, []).append('driver crashed: ' + o2['crash'])
                continue
            t1, t2 = obs[i].get('hpoa_table', {}), o2.get('hpoa_table', {})
            bad = sorted(k for k in t1 if t1[k] != t2.get(k))
            if bad:
                obs[i].setdefault('direct', []).append(
                    f'HPOA loads depend on the order in which differently configured loaders ran in the process: (cohort_size/salvage:file) {bad[:4]} '
                    f'e.g. {json.dumps(t1[bad[0]])[:160]} vs {json.dumps(t2.get(bad[0]))[:160]}')
            if o2.get('direct'):
                obs[i].setdefault('direct', []).extend(o2['direct'])
    for i, o in enumerate(obs):
        if 'crash' in o:
            failing.setdefault(i, []).append('driver crashed: ' + o['crash'])
        elif o.get('direct'):
            failing.setdefault(i, [])
            failing[i] = o['direct'] + failing[i]
    return terms, obs, failing


def multiset_perms(counts, limit, rng):
    """interleavings of iterators: schedules with counts[i] entries of i (random sample of `limit`, all if few)"""
    base = [i for i, c in enumerate(counts) for _ in range(c)]
    total = 1
    n = 0
    for c in counts:
        for j in range(1, c + 1):
            n += 1
            total = total * n // j
    if total <= limit:
        out = set()

        def rec(rem, acc):
            if not any(rem):
                out.add(tuple(acc))
                return
            for i in range(len(rem)):
                if rem[i]:
                    rem[i] -= 1
                    rec(rem, acc + [i])
                    rem[i] += 1
        rec(list(counts), [])
        return [list(x) for x in sorted(out)]
    res = []
    for _ in range(limit):
        s = list(base)
        rng.shuffle(s)
        res.append(s)
    return res


def gen_graph_case(rng, thorough):
    fam, m, edges = G.random_dag(rng, 4, 9)
    if rng.random() < 0.5:
        # make sure there is a diamond: two routes to a common ancestor
        edges = G.diamond_ladder(rng.randint(1, 2)) + ([(7, 6)] if rng.random() < 0.5 else [])
        m = 1 + max(max(a, b) for a, b in edges)
        perm = list(range(m))
        rng.shuffle(perm)
        edges = [(perm[a], perm[b]) for a, b in edges]
    # 40%: several prefixes sharing their id parts (HP:1 / MP:1 / ZZ:1): a cache keyed by part of an id shows
    twins = [p + ':' + str(i) for i in (1, 2, 3, 4, 5, 6, 7, 9, 10, 11) for p in ('HP', 'MP', 'ZZ')]
    es = G.label(edges, G.pick_labels(rng, m, pool=twins if rng.random() < 0.4 and m <= len(twins) else G.POOL_PLAIN))
    nodes = G.nodes_of(es)
    queries = [['trav', q, x, incl] for x in nodes for q in 'PCAD' for incl in (False, True)]
    nq = len(queries)
    queries += [['pred', q, a, b] for q in 'PCAD' for a in nodes[:4] for b in nodes[:4]] + [['leaf', x] for x in nodes] + [['contains', x] for x in nodes] + [['nodes'], ['root']]
    hist = [(rng.randrange(len(queries)), rng.randrange(nq), rng.randrange(len(queries)), rng.randint(0, 2)) for _ in range(40)]
    # interleavings: 2-3 open traversal iterators (ancestors / descendants mostly), stepped in every order
    inter = []
    trav = [i for i, q in enumerate(queries[:nq]) if q[1] in 'AD']
    near = [i for i, q in enumerate(queries[:nq]) if q[1] in 'PC']        # parents / children are lazy iterators too
    for _ in range(3 if not thorough else 8):
        k = rng.choice([2, 2, 3])
        opened = [rng.choice(near if rng.random() < 0.3 else trav) for _ in range(k)]
        if rng.random() < 0.4:
            opened[1] = opened[0]              # the same query twice
        counts = [rng.randint(2, 4) for _ in opened]
        for s in multiset_perms(counts, 60 if not thorough else 1680, rng):
            inter.append([opened, s])
    return {'kind': 'graph', 'factory': rng.choice(['idx', 'idx', 'inc', 'bld']), 'edges': es, 'queries': queries, 'histories': hist,
            'interleavings': inter, 'threads': 150 if rng.random() < 0.3 else 0, 'seed': rng.randrange(10 ** 6)}


def run(chk):
    rng = chk.rng
    thorough = chk.tier == 'thorough'
    cases = GC.load_corpus('C12')
    for _ in range(60 if not thorough else 200):
        cases.append(gen_graph_case(rng, thorough))
    for _ in range(4 if not thorough else 12):
        docs = [DOCS.obographs_doc(rng, 'HP', 3 + j) for j in range(3)]
        cases.append({'kind': 'loader', 'docs': docs, 'order': rng.choice([[0, 1, 0], [0, 1, 2, 0, 1], [1, 0, 0, 1]]), 'hpoa': [DOCS.hpoa_text(1), DOCS.hpoa_text(2)],
                      'hpoa_rich': [DOCS.hpoa_rich(1), DOCS.hpoa_rich(2)]})
    cases.append({'kind': 'loader', 'docs': DOCS.chained_docs(rng, 'HP'), 'order': [0, 1, 0, 1], 'hpoa': [DOCS.hpoa_text(1), DOCS.hpoa_text(2)]})
    cases.append({'kind': 'loader', 'docs': DOCS.slim_docs('HP'), 'order': [1, 0, 1, 0], 'hpoa': [DOCS.hpoa_text(1), DOCS.hpoa_text(2)]})
    for c in cases:
        chk.count('kind:' + c['kind'])
        if c['kind'] == 'graph':
            chk.count('factory:' + c['factory'])
            chk.count('interleavings', len(c['interleavings']))
            chk.count('histories', len(c['histories']))
            chk.count('reader_thread_queries', 8 * c['threads'])
        chk.note_case({k: (v if k not in ('queries', 'interleavings', 'histories', 'docs', 'hpoa') else len(v)) for k, v in c.items()}, nontrivial=True, sample_every=20)
    terms, obs, failing = evaluate(chk, cases)
    chk.evaluations = sum(len(c.get('interleavings', [])) + len(c.get('histories', [])) for c in cases) + sum(1 for c in cases if c['kind'] == 'loader')
    chk.traces = chk.evaluations
    chk.extra['footprint_changes_diagnostic'] = sum(1 for o in obs if o.get('diag'))
    chk.rule = ('random DAGs (half of them diamond ladders: nodes reachable over two routes) through the three real factories, each graph built by a factory instance that has built other graphs before (a primer graph whose last edge shares its subject with the first edge of this graph): (a) 40 histories per graph [a query, a traversal consumed '
                '0-2 items, then a query whose result must equal the result on a fresh graph, then (every second history) the half-consumed traversal is resumed and must finish its solo sequence] over all traversals / predicates / leaf / membership / iteration; (b) 2-3 '
                'simultaneously open ancestor / descendant (30%: parent / child) iterators (the same query twice in 40%), ALL interleavings of 2-4 next() calls each when <= 60 (thorough: <= 1680), else a random '
                'sample: each iterator must yield exactly its solo sequence, and the yields are compared with the model in Coq (no repeats, right multiset); (c) digest of the graph '
                'object before/after (diagnostic); (d) 8 reader threads x 150 random queries against precomputed answers on 30% of the graphs; (e) Obographs documents A,B,A,.. '
                'through the shared default factories of both loaders vs fresh factories (incl. a slim document with dangling edges loaded before and after the full one), HPOA files A,B,A through one loader instance; HPOA files whose frequencies depend on the '
                'loader configuration (frequency terms, percentages, negated lines) through five differently configured loaders (cohort size, salvaging) in one process, in two processes with opposite orders: '
                'every (configuration, file) result must be the same; (f) ontology-level queries (lookups of primary / alternate / obsolete / absent ids as CURIE, TermId and term, membership, names, len, both listings, version, root, closures) on three fresh loads per loader: fixed order, reverse order, shuffled order with an open term_ids and an open terms iterator - same answers, and the open iterators finish with the fresh listing')
    if failing:
        report(chk, cases, obs, failing)


def sig_of(problems):
    p = problems[0]
    if 'when interleaved' in p or 'interleaved iterator' in p:
        return 'C12:interleaved-iterators'
    if 'thread' in p:
        return 'C12:reader-threads'
    if 'ontology query' in p:
        return 'C12:ontology-history'
    if 'loads differently' in p or 'default factories' in p or 'loads depend on the order' in p:
        return 'C12:loader-history'
    if 'partially consumed' in p:
        return 'C12:query-history'
    return 'C12:other'


def shrink(chk, case, sig):
    if case['kind'] != 'graph':
        return case
    cur = dict(case, threads=0)
    if sig == 'C12:interleaved-iterators':
        cur['histories'] = []
        for item in case['interleavings']:
            c1 = dict(cur, interleavings=[item])
            _, _, f = evaluate(chk, [c1], tag='shrink')
            if f:
                return c1
    elif sig == 'C12:query-history':
        cur['interleavings'] = []
    return cur


def report(chk, cases, obs, failing, limit=3):
    seen = {}
    for i in sorted(failing, key=lambda j: len(json.dumps(cases[j]))):
        sig = sig_of(failing[i])
        if sig in seen or len(seen) >= limit:
            continue
        seen[sig] = 1
        small = shrink(chk, cases[i], sig)
        terms, o, f = evaluate(chk, [small], tag='final')
        compact = dict(small)
        compact['queries'] = [small['queries'][j] for it in small.get('interleavings', [])[:1] for j in it[0]] if small['kind'] == 'graph' else None
        chk.report_violation(sig, {'case': small, 'impl': {'direct': o[0].get('direct'), 'inter': o[0].get('inter', [])[:2]}, 'problems': f.get(0, failing[i])[:4],
                                   'theorem': THEOREM, 'failing_cases_total': len(failing)},
                             what=f'{sig}: {f.get(0, failing[i])[0]} | factory={small.get("factory")} edges={json.dumps(small.get("edges"))}'[:900])


def replay(chk, path):
    rp = json.loads(open(path).read())
    cases = rp['cases'] if 'cases' in rp else [rp['case']]
    for case in cases:
        terms, obs, f = evaluate(chk, [case], tag='replay')
        chk.note_case({'replay': path})
        log('impl now :', json.dumps(obs[0])[:1500])
        log('problems :', f.get(0, []))
        if f:
            chk.report_violation(rp.get('signature', 'C12:replay'), {'case': case, 'impl': obs[0], 'problems': f[0]}, what='replayed case still fails')
