"""Exploration of query purity on the real implementation (C12): histories, interleaved iterators,
reader threads, repeated loads through the shared default factories."""
import hashlib
import json
import os
import random
import threading
import warnings

warnings.simplefilter('ignore')

import numpy as np  # noqa: E402

import hpotk  # noqa: E402
from hpotk.model import TermId, MinimalTerm  # noqa: E402
from hpotk.ontology import create_minimal_ontology  # noqa: E402
from hpotk.annotations.load.hpoa import SimpleHpoaDiseaseLoader  # noqa: E402

from impl_graph import FACTORIES, QUERY, PRED, exn_name  # noqa: E402
import impl_C16  # noqa: E402  (documents)


SHARED = {k: f() for k, f in FACTORIES.items()}      # one factory instance per kind, reused for every graph of the run


def build(case, shared=False):
    edges = [(TermId.from_curie(s), TermId.from_curie(o)) for s, o in case['edges']]
    if not shared:
        return FACTORIES[case['factory']]().create_graph(edges)
    # a factory that has built other graphs before: first a primer graph whose LAST edge has the subject of this
    # graph's FIRST edge (at another index), then the graph itself - any state kept on the factory shows
    fac = SHARED[case['factory']]
    first_sub = edges[0][0]
    top = TermId.from_curie('ZZZ:top')
    primer = [(TermId.from_curie('AA:0'), top), (TermId.from_curie('AA:1'), top), (first_sub, top)]
    try:
        fac.create_graph(primer)
    except Exception:        # the primer is ours: it must never decide the outcome
        pass
    # ... and a look-alike of this graph: same number of nodes, same first and last node, but the second-largest node is
    # replaced by one that sorts right after the smallest - every node in between sits at another index
    nodes = sorted({t for e in edges for t in e})
    if len(nodes) >= 4:
        gone = nodes[-2]
        new = TermId.from_curie(nodes[0].prefix + ':' + nodes[0].id + '!')
        if new not in nodes:
            try:
                fac.create_graph([(new if s == gone else s, new if o == gone else o) for s, o in edges])
            except Exception:
                pass
    return fac.create_graph(edges)


def run_query(g, q):
    """q = [kind, ...]; result as a JSON-able value; sequences keep their order"""
    try:
        if q[0] == 'trav':
            return [t.value for t in getattr(g, QUERY[q[1]])(TermId.from_curie(q[2]), include_source=q[3])]
        if q[0] == 'pred':
            return bool(getattr(g, PRED[q[1]])(TermId.from_curie(q[2]), TermId.from_curie(q[3])))
        if q[0] == 'leaf':
            return bool(g.is_leaf(TermId.from_curie(q[1])))
        if q[0] == 'contains':
            return TermId.from_curie(q[1]) in g
        if q[0] == 'nodes':
            return [t.value for t in g]
        if q[0] == 'root':
            return g.root.value
    except Exception as e:
        return 'raise:' + exn_name(e)
    raise AssertionError(q)


def partial(g, q, k):
    """start a traversal, consume k items, abandon the iterator"""
    if q[0] != 'trav':
        return run_query(g, q)
    try:
        it = iter(getattr(g, QUERY[q[1]])(TermId.from_curie(q[2]), include_source=q[3]))
        got = []
        for _ in range(k):
            y = next(it, None)
            if y is not None:
                got.append(y.value)
        return (it, got)
    except Exception:
        return None


def digest(obj, depth=0, seen=None):
    """digest of everything reachable from the attributes of obj (diagnostic)"""
    seen = seen if seen is not None else set()
    if id(obj) in seen or depth > 6:
        return 'rec'
    if isinstance(obj, np.ndarray):
        return 'nd:' + hashlib.sha1(obj.tobytes()).hexdigest()[:12]
    if isinstance(obj, (str, int, float, bool, type(None), bytes)):
        return repr(obj)
    if isinstance(obj, TermId):
        return obj.value
    seen.add(id(obj))
    if isinstance(obj, dict):
        return 'd:' + hashlib.sha1(repr(sorted((digest(k, depth + 1, seen), digest(v, depth + 1, seen)) for k, v in obj.items())).encode()).hexdigest()[:12]
    if isinstance(obj, (list, tuple, set, frozenset)):
        items = [digest(x, depth + 1, seen) for x in obj]
        if isinstance(obj, (set, frozenset)):
            items.sort()
        return 'l:' + hashlib.sha1(repr(items).encode()).hexdigest()[:12]
    if hasattr(obj, '__dict__'):
        return type(obj).__name__ + ':' + hashlib.sha1(repr(sorted((k, digest(v, depth + 1, seen)) for k, v in vars(obj).items())).encode()).hexdigest()[:12]
    return type(obj).__name__


def observe_graph_case(case):
    rng = random.Random(case['seed'])
    g = build(case, shared=True)
    fresh = build(case)
    direct, diag = [], []
    queries = case['queries']
    base = [run_query(fresh, q) for q in queries]
    # (a) history independence: q1 fully, q2 partially consumed and abandoned, then q
    d0 = digest(g)
    keep = []
    for h, (i1, i2, i3, k) in enumerate(case['histories']):
        run_query(g, queries[i1])
        part = partial(g, queries[i2], k)
        keep.append(part)
        if len(keep) > 3:
            keep.pop(0)
        r = run_query(g, queries[i3])
        if r != base[i3]:
            direct.append(f'after {queries[i1]} and a partially consumed {queries[i2]}, {queries[i3]} gives {r} instead of {base[i3]}')
            break
        if h % 2 == 0 and isinstance(part, tuple) and isinstance(base[i2], list):
            # ... and the half-consumed traversal, resumed after the other query, finishes its solo sequence
            try:
                whole = part[1] + [y.value for y in part[0]]
            except Exception as e:
                whole = 'raise:' + exn_name(e)
            if whole != base[i2]:
                direct.append(f'a partially consumed {queries[i2]} resumed after {queries[i3]} yields {whole} in all instead of {base[i2]}')
                break
    if digest(g) != d0:
        diag.append('the attributes reachable from the graph object changed while queries ran (diagnostic)')
    # (b) interleaved consumption of several open traversal iterators
    inter = []
    for opened, schedule in case['interleavings']:
        solo = [run_query(fresh, queries[i]) for i in opened]
        its, outs = [], []
        for i in opened:
            q = queries[i]
            try:
                its.append(iter(getattr(g, QUERY[q[1]])(TermId.from_curie(q[2]), include_source=q[3])))
                outs.append([])
            except Exception as e:
                its.append(None)
                outs.append('raise:' + exn_name(e))
        for k in list(schedule) + [j for j in range(len(opened)) for _ in range(200)]:
            if its[k] is None or isinstance(outs[k], str):
                continue
            try:
                y = next(its[k])
                outs[k].append(y.value)
            except StopIteration:
                its[k] = None
            except Exception as e:
                outs[k] = 'raise:' + exn_name(e)
        for i, s, o in zip(opened, solo, outs):
            if s != o:
                direct.append(f'iterator of {queries[i]} yields {o} when interleaved (schedule {schedule[:12]}...) but {s} when consumed alone')
        inter.append({'opened': opened, 'outs': outs})
    # (d) concurrent readers
    if case.get('threads'):
        errors = []

        def reader(seed):
            r = random.Random(seed)
            for _ in range(case['threads']):
                i = r.randrange(len(queries))
                got = run_query(g, queries[i])
                if got != base[i]:
                    errors.append(f'thread: {queries[i]} gives {got} instead of {base[i]}')
                    return
        ths = [threading.Thread(target=reader, args=(s,)) for s in range(8)]
        for t in ths:
            t.start()
        for t in ths:
            t.join()
        direct += errors[:2]
    return {'inter': inter, 'direct': direct, 'diag': diag}


def canon_onto(o):
    return impl_C16.canon_onto(o)


def observe_loader_case(case, workdir):
    """documents A, B, A through the shared default factories; HPOA files A, B, A through one loader"""
    direct = []
    paths = []
    for j, doc in enumerate(case['docs']):
        p = os.path.join(workdir, 'doc%d_%d.json' % (os.getpid(), j))
        with open(p, 'w', encoding='utf-8') as fh:
            json.dump(doc, fh)
        paths.append(p)
    try:
        for loader in (hpotk.load_minimal_ontology, hpotk.load_ontology):
            res = [canon_onto(loader(paths[j])) for j in case['order']]
            again = {}
            for j, r in zip(case['order'], res):
                if j in again and again[j] != r:
                    direct.append(f'{loader.__name__}: document {j} loads differently after other documents were loaded')
                again.setdefault(j, r)
            from hpotk.ontology.load.obographs import MinimalTermFactory, TermFactory
            from hpotk.graph import CsrIndexedGraphFactory
            for j in set(case['order']):
                tf = MinimalTermFactory() if loader is hpotk.load_minimal_ontology else TermFactory()
                ref = canon_onto(loader(paths[j], term_factory=tf, graph_factory=CsrIndexedGraphFactory()))
                if ref != again[j]:
                    direct.append(f'{loader.__name__}: document {j} through the shared default factories differs from a load with fresh factories')
        direct += onto_history(case['docs'][0], workdir)
        direct += same_options_object(case['docs'], workdir)
        hpo = hpotk.load_minimal_ontology(paths[0])
        hl = SimpleHpoaDiseaseLoader(hpo)
        hp = []
        for j, text in enumerate(case['hpoa']):
            p = os.path.join(workdir, 'ann%d_%d.hpoa' % (os.getpid(), j))
            with open(p, 'w', encoding='utf-8') as fh:
                fh.write(text)
            hp.append(p)
        # a third file without any version line (what a loader remembers from an earlier file must not fill the gap)
        p = os.path.join(workdir, 'ann%d_nov.hpoa' % os.getpid())
        with open(p, 'w', encoding='utf-8') as fh:
            fh.write(''.join(l + '\n' for l in case['hpoa'][0].splitlines() if not l.startswith('#version')))
        hp.append(p)
        seen = {}
        fresh = {}
        for j in list(case['order']) + [2, 0, 2]:
            k = j % len(hp)
            r = impl_C16.canon_diseases(hl.load(hp[k]))
            if k not in fresh:
                fresh[k] = impl_C16.canon_diseases(SimpleHpoaDiseaseLoader(hpo).load(hp[k]))
            if (k in seen and seen[k] != r) or r != fresh[k]:
                direct.append(f'HPOA file loads differently after another file was loaded with the same loader (file {k}: version {r["version"]!r}, a fresh loader gives {fresh[k]["version"]!r})')
                break
            seen.setdefault(k, r)
        for p in hp:
            os.remove(p)
        # differently configured loaders in one process: the result of (configuration, file) must not depend on
        # which other loaders ran before (the prop file compares two processes that use opposite orders)
        table = {}
        if case.get('hpoa_rich'):
            rp = []
            for j, text in enumerate(case['hpoa_rich']):
                p = os.path.join(workdir, 'rich%d_%d.hpoa' % (os.getpid(), j))
                with open(p, 'w', encoding='utf-8') as fh:
                    fh.write(text)
                rp.append(p)
            order = [(ci, fi) for ci in range(len(HPOA_CONFIGS)) for fi in range(len(rp))]
            order = order + order[::2]
            if case.get('rev'):
                order = order[::-1]
            for ci, fi in order:
                cs, sv = HPOA_CONFIGS[ci]
                try:
                    r = impl_C16.canon_diseases(SimpleHpoaDiseaseLoader(hpo, cohort_size=cs, salvage_negated_frequencies=sv).load(rp[fi]))
                except Exception as e:
                    r = 'raised ' + exn_name(e)
                key = '%d/%s:%d' % (cs, sv, fi)
                if key in table and table[key] != r:
                    direct.append(f'HPOA file {fi} loads differently with cohort_size={cs}, salvage={sv} after differently configured loaders ran')
                table.setdefault(key, r)
            for p in rp:
                os.remove(p)
    finally:
        for p in paths:
            os.remove(p)
    return {'direct': direct, 'hpoa_table': table}


def same_options_object(docs, workdir):
    """one mutable set object handed in as prefixes_of_interest for several loads and edited by the caller in between: every
    load must give what a load with a fresh, equal set gives"""
    g0 = json.loads(json.dumps(docs[0]))['graphs'][0]
    g1 = json.loads(json.dumps(docs[-1]).replace('HP_', 'MP_').replace('HP:', 'MP:'))['graphs'][0]
    doc = {'graphs': [{'id': 'two', 'meta': {}, 'nodes': g0['nodes'] + g1['nodes'], 'edges': g0['edges'] + g1['edges']}]}
    p = os.path.join(workdir, 'two%d.json' % os.getpid())
    with open(p, 'w', encoding='utf-8') as fh:
        json.dump(doc, fh)
    problems = []
    try:
        for loader in (hpotk.load_minimal_ontology, hpotk.load_ontology):
            prefixes = {'HP'}
            got, asked = [], []
            for edit in (lambda s: None, lambda s: s.add('MP'), lambda s: s.discard('HP'), lambda s: s.add('HP')):
                edit(prefixes)                    # nothing else is loaded between these loads
                asked.append(sorted(prefixes))
                try:
                    got.append(canon_onto(loader(p, prefixes_of_interest=prefixes)))
                except Exception as e:
                    got.append('raised ' + exn_name(e))
            for step, (want, g) in enumerate(zip(asked, got)):
                try:
                    ref = canon_onto(loader(p, prefixes_of_interest=set(want)))
                except Exception as e:
                    ref = 'raised ' + exn_name(e)
                if g != ref:
                    problems.append(f'{loader.__name__}: a document loads differently with the caller\'s own prefix set {want} (edited between the loads, step {step}) than with a fresh equal set')
                    break
    finally:
        os.remove(p)
    return problems


def run_onto_query(o, q):
    try:
        if q[0] == 'get':
            x = {'str': lambda v: v, 'tid': TermId.from_curie, 'term': lambda v: MinimalTerm.create_minimal_term(TermId.from_curie(v), 'n', [], False)}[q[1]](q[2])
            t = o.get_term(x)
            return None if t is None else [t.identifier.value, t.name, sorted(a.value for a in t.alt_term_ids), t.is_obsolete]
        if q[0] == 'in':
            return TermId.from_curie(q[1]) in o
        if q[0] == 'name':
            return o.get_term_name(q[1])
        if q[0] == 'len':
            return len(o)
        if q[0] == 'terms':
            return [t.identifier.value for t in o.terms]
        if q[0] == 'term_ids':
            return [t.value for t in o.term_ids]
        if q[0] == 'version':
            return o.version
        if q[0] == 'root':
            return o.graph.root.value
        if q[0] == 'anc':
            return sorted(t.value for t in o.graph.get_ancestors(q[1]))
        if q[0] == 'desc':
            return sorted(t.value for t in o.graph.get_descendants(q[1]))
        raise AssertionError(q)
    except AssertionError:
        raise
    except Exception as e:
        return 'raised ' + exn_name(e)


def onto_history(doc, workdir):
    """ontology-level purity: every ontology query (lookups of present / alternate / obsolete / absent ids in the three
    argument forms, membership, names, len, the two listings, version, root, closures) is asked on three freshly loaded
    copies - in a fixed order, in the reverse order, and in a shuffled order while a `term_ids` and a `terms` iterator are
    open - and must answer the same; the open iterators must finish with exactly the listing of a fresh ontology"""
    doc = json.loads(json.dumps(doc))
    g = doc['graphs'][0]
    ids = [n['id'].rsplit('/', 1)[1].replace('_', ':') for n in g['nodes']]
    alts = [n['meta']['basicPropertyValues'][0]['val'] for n in g['nodes'] if n.get('meta', {}).get('basicPropertyValues')]
    prefix = ids[0].split(':')[0]
    gone = prefix + ':0000777'
    g['nodes'].append({'id': impl_C16.PURL + gone.replace(':', '_'), 'lbl': 'gone', 'type': 'CLASS', 'meta': {'deprecated': True}})
    absent = [prefix + ':9999999', prefix + ':0000000', 'QQ:0000001', ids[0] + '0', alts[0][:-1] if alts else prefix + ':1']
    qs = []
    for x in ids[:4] + alts[:3] + absent + [gone]:
        qs += [['get', f, x] for f in ('str', 'tid', 'term')] + [['in', x], ['name', x]]
    qs += [['len'], ['terms'], ['term_ids'], ['version'], ['root'], ['anc', ids[-1]], ['desc', ids[0]]]
    p = os.path.join(workdir, 'onto%d.json' % os.getpid())
    with open(p, 'w', encoding='utf-8') as fh:
        json.dump(doc, fh)
    problems = []
    try:
        for loader in (hpotk.load_minimal_ontology, hpotk.load_ontology):
            o1, o2, o3 = loader(p), loader(p), loader(p)
            ref = [run_onto_query(o1, q) for q in qs]
            rev = [run_onto_query(o2, q) for q in reversed(qs)][::-1]
            for q, a, b in zip(qs, ref, rev):
                if a != b:
                    problems.append(f'{loader.__name__}: ontology query {q} answers {a!r} in one order of the queries and {b!r} in the reverse order')
                    break
            solo_ids, solo_terms = run_onto_query(loader(p), ['term_ids']), run_onto_query(loader(p), ['terms'])
            it_ids, it_terms = iter(o3.term_ids), iter(o3.terms)
            got_ids, got_terms = [next(it_ids).value], [next(it_terms).identifier.value]
            order = list(range(len(qs)))
            random.Random(len(qs)).shuffle(order)
            for k in order:
                a = run_onto_query(o3, qs[k])
                if a != ref[k]:
                    problems.append(f'{loader.__name__}: ontology query {qs[k]} answers {a!r} after other queries with open listing iterators, {ref[k]!r} on a fresh ontology')
                    break
            try:
                got_ids += [t.value for t in it_ids]
                got_terms += [t.identifier.value for t in it_terms]
            except Exception as e:
                problems.append(f'{loader.__name__}: ontology query: an open term_ids / terms iterator broke after other queries ran: {exn_name(e)}')
            else:
                if got_ids != solo_ids or got_terms != solo_terms:
                    problems.append(f'{loader.__name__}: ontology query: a listing iterator opened before other queries ran yields {got_ids if got_ids != solo_ids else got_terms!r}, '
                                    f'a fresh ontology lists {solo_ids if got_ids != solo_ids else solo_terms!r}')
    finally:
        os.remove(p)
    return problems[:3]


HPOA_CONFIGS = [(50, False), (10, True), (50, True), (10, False), (7, True)]      # first and last differ in both parameters


def observe(payload):
    res = []
    for case in payload['cases']:
        try:
            if case['kind'] == 'graph':
                res.append(observe_graph_case(case))
            else:
                res.append(observe_loader_case(case, payload['workdir']))
        except Exception as e:
            import traceback
            res.append({'crash': exn_name(e) + ': ' + traceback.format_exc()[-500:]})
    return {'cases': res}
