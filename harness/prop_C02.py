"""C02 - construction depends only on the edge SET; the root is unique or owl:Thing."""
import json

import gen_graph as G
import graphcorr as GC

TRUSTED_BASE = [
    'numpy.unique / set iteration / defaultdict grouping are modelled functionally (sort_unique, sorted candidate list, row lists)',
    'TermId nodes are represented by their (prefix,id) key (justified by C04)',
]
ASSUMPTIONS = ['edge lists are acyclic and non-empty; owl:Thing is not an input term']
THEOREM = 'C02_nodes / C02_root / C02_root_queries / C02_edge_set_only (+ C01_queries_are_closure)'
FACTORIES = ['idx', 'inc', 'bld']


def calls_for(edges, rng, full):
    nodes = G.nodes_of(edges)
    root_calls = [['nodes'], ['root']]
    for r in ['owl:Thing'] + nodes[:0]:
        pass
    calls = list(root_calls)
    pick = nodes if full else rng.sample(nodes, min(len(nodes), 6))
    for x in pick + ['owl:Thing']:
        for q in 'PCAD':
            calls.append(['query', q, ['tid', x], False])
        calls.append(['contains', x])
    return calls


def variants(rng, edges):
    """re-orderings and repetitions of one edge list (same edge set)"""
    out = [('original', edges)]
    p = list(edges)
    rng.shuffle(p)
    out.append(('shuffled', p))
    out.append(('reversed', list(reversed(edges))))
    out.append(('by_object', sorted(edges, key=lambda e: (e[1], e[0]))))
    out.append(('by_subject', sorted(edges, key=lambda e: (e[0], e[1]))))
    # repeats: adjacent and non-adjacent (to defeat the last-subject cache)
    r = list(edges)
    for _ in range(rng.randint(1, 3)):
        e = rng.choice(edges)
        r.insert(rng.randint(0, len(r)), e)
    out.append(('repeat_random', r))
    e = rng.choice(edges)
    i = edges.index(e)
    out.append(('repeat_adjacent', edges[:i + 1] + [e] + edges[i + 1:]))
    out.append(('repeat_far', edges + [edges[0]] if len(edges) > 1 else edges + edges))
    out.append(('all_twice', edges + edges))
    # the same edge spelled with the other delimiter is the same edge
    def respell(c):
        return c.replace(':', '_', 1) if (':' in c and '_' not in c) else c
    out.append(('respelled', [[respell(a), b] for a, b in edges] + [edges[-1]]))
    return out


def gen(chk):
    rng = chk.rng
    thorough = chk.tier == 'thorough'
    graphs = []
    # every acyclic edge set over 3 positions (all root constellations), all variants
    for edges in G.all_acyclic_edge_sets(3 if not thorough else 4):
        if thorough and rng.random() < 0.5:
            continue
        graphs.append(('exh', G.label(edges, ['HP:2', 'HP:10', 'MP_1', 'HP:1'])))
    for _ in range(120 if not thorough else 1200):
        fam, m, edges = G.random_dag(rng, 4, 12 if not thorough else 30)
        graphs.append((fam, G.label(edges, G.pick_labels(rng, m))))
    # forests with 1..4 parentless terms
    for roots in (1, 2, 3, 4):
        for _ in range(15 if not thorough else 100):
            n = rng.randint(roots + 1, 10)
            edges = list(dict.fromkeys(G.multi_root(rng, n, roots)))
            if not edges or not G.is_acyclic(n, edges):
                continue
            graphs.append(('forest%d' % roots, G.label(edges, G.pick_labels(rng, n))))
    # one dense graph: more than 255 edges on 24 nodes
    graphs.append(('dense', G.dense_graph(rng, 24)))
    return graphs


def run(chk):
    rng = chk.rng
    graphs = gen(chk)
    cases, group = [], []
    for ci, c in enumerate(GC.load_corpus('C02')):
        cases.append(c)
        group.append((-1 - ci, 'corpus', c['factory']))
        chk.count('corpus')
    for gi, (fam, es) in enumerate(graphs):
        chk.count('shape:' + fam)
        subs = {a for a, _ in es}
        k = len({G.key_of(b) for _, b in es} - {G.key_of(a) for a in subs})
        chk.count('parentless:%d' % min(k, 4))
        calls = calls_for(es, rng, full=len(G.nodes_of(es)) <= 6 or fam == 'dense')
        for vname, v in variants(rng, es):
            chk.count('variant:' + vname)
            for f in FACTORIES:
                cases.append({'factory': f, 'edges': v, 'calls': calls})
                group.append((gi, vname, f))
        chk.note_case({'edges': es}, nontrivial=len(es) >= 2, sample_every=60)
    terms, obs, failing = GC.evaluate(chk, cases)
    chk.evaluations = sum(len(c['calls']) for c in cases)
    chk.traces = len(cases)
    # direct cross-variant / cross-factory comparison of the implementation with itself
    cross = []
    first = {}
    for i, (gi, vname, f) in enumerate(group):
        o = json.dumps(obs[i], sort_keys=True)
        if gi not in first:
            first[gi] = (i, o)
        elif first[gi][1] != o:
            cross.append(i)
    chk.extra['graphs'] = len(graphs)
    chk.extra['variant_factory_cases'] = len(cases)
    chk.extra['cross_variant_disagreements'] = len(cross)
    chk.exhaustive = True
    chk.rule = ('every acyclic edge set over 3 (thorough: 4) positions + random DAGs + forests with 1..4 parentless terms; each edge list in 10 variants '
                '(original, shuffled, reversed, grouped by object/subject, random/adjacent/far repeats, all edges twice, re-spelled delimiter) x 3 factories; '
                'observed: iter(graph) as sorted list with multiplicity, root, membership and the four queries of (sampled) nodes and of owl:Thing; compared with '
                'the model AND across variants/factories. evaluations = API calls compared; distinct_nontrivial = distinct base edge lists with >= 2 edges')
    allf = sorted(set(failing) | set(cross))
    if allf:
        GC.report(chk, 'C02', cases, [i for i in allf if i in set(failing)] or allf, THEOREM,
                  sig_of=lambda c: 'C02:%s:%s' % (c['factory'], 'repeated-edge' if len(c['edges']) != len({(G.key_of(a), G.key_of(b)) for a, b in c['edges']}) else 'edge-order-or-root'))


def replay(chk, path):
    GC.replay(chk, path, 'C02')
