"""C14 - unknown nodes and bad indices are rejected, never silently answered."""
import json

import gen_graph as G
import graphcorr as GC

TRUSTED_BASE = [
    'numpy integer indexing and dict/bisect misses are modelled by explicit range checks / option results',
]
ASSUMPTIONS = ['edge lists are acyclic and non-empty; owl:Thing is not an input term',
               'for the two-index predicates the index whose row is read must raise ValueError; the other index must never yield True (reading fixed in DESIGN §4 C14)']
THEOREM = 'C14_unknown_node / C14_bad_argument / C14_index_out_of_range / C14_index_predicates'
FACTORIES = ['idx', 'inc', 'bld']

BAD_STR = ['nocurie', '', 'HP', 'HP 1', '0000001']
OTHER = ['none', 'int', 'float', 'bytes', 'tuple', 'list', 'bool']


def absent_ids(edges, rng):
    """absent ids placed before / between / after the sorted nodes, and with a foreign prefix"""
    keys = sorted(G.key_of(x) for x in G.nodes_of(edges))
    have = set(keys)
    out = []
    first, last = keys[0], keys[-1]
    cands = [('!' + first[0], first[1]), (first[0], ''), (last[0] + 'z', last[1]), (last[0], last[1] + '0'),
             ('ZZZ', '1'), ('AAA', '1'), ('owl', 'Thing2'), ('owl', 'Thin')]
    for a, b in zip(keys, keys[1:]):
        cands.append((a[0], a[1] + '!'))      # sorts right after a, before b unless equal
    # another prefix with the id part of an existing node (a lookup that looks at the id part only must not find it),
    # and an existing prefix with an unused id part
    twins = []
    for a in keys[:3] + keys[-1:]:
        twins.append(('MP' if a[0] != 'MP' else 'HP', a[1]))
        twins.append((a[0], a[1] + a[1]))
    for k in cands:
        if k not in have and k != ('owl', 'Thing') and ':' not in k[0]:
            out.append(k[0] + ':' + k[1])
    rng.shuffle(out)
    tw = [k[0] + ':' + k[1] for k in twins if k not in have and ':' not in k[0]]
    rng.shuffle(tw)
    # ids that only a normalising id class would take for a present node (zero padding, sign, blanks, digit separators,
    # non-ASCII digits, letter case of the prefix)
    la = [x for a in rng.sample(keys, min(2, len(keys))) for x in G.lookalikes(a[0] + ':' + a[1]) if G.key_of(x) not in have]
    rng.shuffle(la)
    return list(dict.fromkeys(tw[:3] + la[:4] + out))[:13]


def calls_for(edges, rng, factory):
    nodes = G.nodes_of(edges)
    multi = len({G.key_of(b) for _, b in edges} - {G.key_of(a) for a, _ in edges}) > 1
    n = len(nodes) + (1 if multi else 0)
    known = rng.choice(nodes)
    calls = []
    for x in absent_ids(edges, rng):
        for form in (['tid', x], ['str', x], ['ident', x], ['utid', x]):
            for q in 'PCAD':
                calls.append(['query', q, form, rng.random() < 0.5])
                calls.append(['query1', q, form, True])       # only the first item is asked for: still no answer
            calls.append(['leaf', form])
        for q in 'PCAD':
            calls.append(['pred', q, ['tid', known], ['tid', x]])     # unknown object -> ValueError
            calls.append(['pred', q, ['tid', x], ['tid', known]])     # unknown subject -> False
            calls.append(['pred', q, ['str', x], ['ident', x]])
        calls.append(['contains', x])
        if factory == 'idx':
            calls.append(['node_to_idx', x])
    for s in BAD_STR:
        for q in 'PCAD':
            calls.append(['query', q, ['str', s], False])
            calls.append(['pred', q, ['str', s], ['tid', known]])
            calls.append(['pred', q, ['tid', known], ['str', s]])
        calls.append(['leaf', ['str', s]])
    for o in OTHER:
        for q in 'PCAD':
            calls.append(['query', q, ['other', o], rng.random() < 0.5])
            calls.append(['pred', q, ['other', o], ['tid', known]])
            calls.append(['pred', q, ['tid', known], ['other', o]])
        calls.append(['leaf', ['other', o]])
    if factory == 'idx':
        bad = list(range(-n - 2, 0)) + [n, n + 1, n + 2, 10 ** 6, 2 ** 62, -10 ** 6]
        good = rng.randrange(n)
        for i in bad:
            kind = 'i' if abs(i) > 2 ** 40 or rng.random() < 0.7 else 'np'
            calls.append(['idx_to_node', [kind, i]])
            for q in 'PCAD':
                calls.append(['idx_query', q, [kind, i]])
                calls.append(['idx_pred', q, [kind, i], ['i', good]])
                calls.append(['idx_pred', q, ['i', good], [kind, i]])
                calls.append(['idx_pred', q, [kind, i], [kind, i]])
        for i in range(n):      # boundary from the inside: the last valid rows must still answer
            calls.append(['idx_to_node', ['i', i]])
            calls.append(['idx_query', 'C', ['i', i]])
            calls.append(['idx_query', 'A', ['i', i]])
    return calls


def gen(chk):
    rng = chk.rng
    thorough = chk.tier == 'thorough'
    graphs = []
    for edges in G.all_acyclic_edge_sets(3):
        graphs.append(('exh3', G.label(edges, ['HP:2', 'HP:10', 'MP_1'])))
    for _ in range(60 if not thorough else 600):
        fam, m, edges = G.random_dag(rng, 4, 12 if not thorough else 30)
        graphs.append((fam, G.label(edges, G.pick_labels(rng, m))))
    return graphs


def sig_of(case):
    return 'C14:' + case['factory']


def run(chk):
    rng = chk.rng
    graphs = gen(chk)
    cases = list(GC.load_corpus('C14'))
    for fam, es in graphs:
        chk.count('shape:' + fam)
        for f in FACTORIES:
            cases.append({'factory': f, 'edges': es, 'calls': calls_for(es, rng, f)})
        chk.note_case({'edges': es}, nontrivial=True, sample_every=20)
    for c in cases:
        for call in c['calls']:
            chk.count('call:' + call[0])
    terms, obs, failing = GC.evaluate(chk, cases, shard=60)
    for o in obs:
        for r in o.get('results', []):
            chk.count('outcome:' + (r['err'] if 'err' in r else 'value'))
    chk.evaluations = sum(len(c['calls']) for c in cases)
    chk.traces = len(cases)
    chk.extra['graphs'] = len(graphs)
    chk.rule = ('every acyclic edge set over 3 positions + random DAGs, x 3 factories; per graph: absent ids sorting before/between/after the nodes and with foreign '
                'prefixes in all three argument forms, non-CURIE strings, non-node argument types (None, int, float, bytes, tuple, list, bool) on every query, predicate '
                '(both positions) and is_leaf; membership; for the indexed graph every index in {-n-2..-1, n, n+1, n+2, 1e6, 2^62, -1e6} (python and numpy ints) on '
                'idx_to_node, get_*_idx, is_*_of_idx (each position), plus all valid indices. The exact outcome (value or exception class) is compared with the model. '
                'evaluations = API calls compared; distinct_nontrivial = distinct edge lists')
    if failing:
        def sig(case):
            return 'C14:' + case['factory']
        # refine the signature with the failing call kind after shrinking (done inside report via sig_of on the original case)
        GC.report(chk, 'C14', cases, failing, THEOREM, sig_of=sig)


def replay(chk, path):
    GC.replay(chk, path, 'C14')
