"""Observation of SimilarityContainer and the MetadataAware codec (C15)."""
import os
import warnings

warnings.simplefilter('ignore')

from hpotk.algorithm.similarity import SimilarityContainer  # noqa: E402
from hpotk.model import MetadataAware  # noqa: E402


def exn_name(e):
    n = type(e).__name__
    return n if n in ('ValueError', 'IndexError', 'KeyError', 'TypeError') else 'Other:' + n


def fl(tok):
    return float.fromhex(tok)


def hx(v):
    return float(v).hex()


def read_all(c, keys):
    gets = [hx(c.get_similarity(a, b)) for a in keys for b in keys]
    items = sorted((a, b, hx(v)) for a, b, v in c.items())
    return {'gets': gets, 'len': len(c), 'items': items}


def roundtrip(c, keys, path):
    """write, read back, compare (property evaluated directly on the implementation)"""
    c.to_csv(path)
    d = SimilarityContainer.from_csv(path)
    before, after = read_all(c, keys), read_all(d, keys)
    problems = []
    if before != after:
        problems.append({'similarities_before': before, 'similarities_after': after})
    if dict(d.metadata) != dict(c.metadata):
        problems.append({'metadata_before': dict(c.metadata), 'metadata_after': dict(d.metadata)})
    # second generation: the container that was read back gets further metadata (now `created` is no longer the last
    # entry of the header line) and further writes, is written and read again
    extra = [(k + '2', v) for k, v in list(c.metadata.items()) if k != 'created'][:3]
    for k, v in extra:
        d.metadata[k] = v
    if keys:
        d.set_similarity(keys[0], keys[-1], 0.5)
    d.to_csv(path)
    e = SimilarityContainer.from_csv(path)
    before2, after2 = read_all(d, keys), read_all(e, keys)
    if before2 != after2:
        problems.append({'similarities_before': before2, 'similarities_after': after2, 'generation': 2})
    if dict(e.metadata) != dict(d.metadata):
        problems.append({'metadata_before': dict(d.metadata), 'metadata_after': dict(e.metadata), 'generation': 2})
    return problems


def observe_history(case, workdir):
    keys = case['keys']
    c = SimilarityContainer(dict(case.get('metadata') or {}))
    steps = []
    for a, b, tok in case['ops']:
        try:
            c.set_similarity(a, b, fl(tok))
            acc = True
        except ValueError:
            acc = False
        steps.append({'accepted': acc, 'rb': read_all(c, keys)})
    out = {'steps': steps}
    if case.get('csv'):
        rt = {}
        for ext in ('.csv', '.csv.gz'):
            path = os.path.join(workdir, 'rt%d%s' % (os.getpid(), ext))
            try:
                rt[ext] = roundtrip(c, keys, path)
            except Exception as e:
                rt[ext] = [{'exception': exn_name(e) + ': ' + str(e)[:200]}]
            finally:
                if os.path.exists(path):
                    os.remove(path)
        out['roundtrip'] = rt
    return out


def observe_meta_to_str(case):
    c = SimilarityContainer(dict(case['meta']))
    try:
        s = c.metadata_to_str()
    except Exception as e:
        return {'err': exn_name(e)}
    # the header line exactly as to_csv frames it
    return {'ok': s, 'line': '#' + s + '\n'}


def observe_meta_from_str(case):
    try:
        d = MetadataAware.metadata_from_str(case['s'])
    except Exception as e:
        return {'err': exn_name(e)}
    return {'ok': sorted(d.items())}


def observe_csv(case):
    import csv
    import io
    if case['kind'] == 'csv_write':
        buf = io.StringIO(newline='')
        csv.writer(buf).writerow(case['fields'])
        return {'line': buf.getvalue()}
    rows = list(csv.reader([case['line']]))
    return {'fields': rows[0] if rows else None}


def observe_csv_file(case, workdir):
    """the data lines SimilarityContainer.to_csv really writes, and what from_csv reads from them"""
    c = SimilarityContainer({'k': 'v'})
    for a, b, tok in case['ops']:
        c.set_similarity(a, b, fl(tok))
    path = os.path.join(workdir, 'cf%d.csv' % os.getpid())
    try:
        c.to_csv(path)
        with open(path, 'r', newline='', encoding='utf-8') as fh:
            raw = fh.read()
        body = raw
        while body.startswith('#'):          # the two comment lines end with LF, the csv rows with CR LF
            body = body[body.index('\n') + 1:]
        lines = body.split('\r\n')
        data = [l + '\r\n' for l in lines[:-1]] if body.endswith('\r\n') else None
        rows = [[a, b, repr(v)] for a, b, v in c.items()]
        return {'data_lines': data, 'rows': [['term_a', 'term_b', 'ic_mica']] + rows, 'raw_head': raw[:200],
                # the whole file against the model's to_csv_text (the description line is a constant of to_csv)
                'text': raw, 'description': raw[1:raw.index('\n')] if raw.startswith('#') and '\n' in raw else None,
                'meta_str': c.metadata_to_str(), 'items': rows}
    finally:
        if os.path.exists(path):
            os.remove(path)


def float_table(text):
    """the float oracle of the model: for every cell text that may be looked up, does float() accept it, is the value
    negative, and its float.hex()"""
    import csv
    import io
    uni = text.replace('\r\n', '\n').replace('\r', '\n')
    toks = set()
    try:
        for row in csv.reader(io.StringIO(uni, newline='')):
            toks.update(row)
    except Exception:
        pass
    for line in uni.split('\n'):
        toks.update(line.split(','))
    table = []
    for t in sorted(toks):
        try:
            v = float(t)
            table.append([t, True, bool(v < 0), v.hex()])
        except ValueError:
            table.append([t, False, False, ''])
    return table


def observe_csv_text(case, workdir):
    """SimilarityContainer.from_csv on an arbitrary (well-formed, mutated or malformed) file"""
    path = os.path.join(workdir, 'ct%d.csv' % os.getpid())
    text = case['text']
    out = {'table': float_table(text)}
    try:
        with open(path, 'w', newline='', encoding='utf-8') as fh:
            fh.write(text)
        try:
            c = SimilarityContainer.from_csv(path)
            out['ok'] = {'meta': sorted([k, v] for k, v in c.metadata.items()), 'items': sorted([a, b, hx(v)] for a, b, v in c.items())}
        except Exception as e:
            out['err'] = exn_name(e)
            out['msg'] = str(e)[:120]
    finally:
        if os.path.exists(path):
            os.remove(path)
    return out


def observe(payload):
    res = []
    for case in payload['cases']:
        try:
            if case['kind'] == 'history':
                res.append(observe_history(case, payload['workdir']))
            elif case['kind'] == 'meta_to_str':
                res.append(observe_meta_to_str(case))
            elif case['kind'] in ('csv_write', 'csv_read'):
                res.append(observe_csv(case))
            elif case['kind'] == 'csv_file':
                res.append(observe_csv_file(case, payload['workdir']))
            elif case['kind'] == 'csv_text':
                res.append(observe_csv_text(case, payload['workdir']))
            else:
                res.append(observe_meta_from_str(case))
        except Exception as e:
            res.append({'crash': exn_name(e) + ': ' + str(e)[:300]})
    return {'cases': res}
