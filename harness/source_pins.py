"""Source pins: literals of the implementation that a model reads as string functions (regular expressions,
format strings).  The models of C05 / C08 / C07 re-implement what these patterns mean (purl_curie, last_date,
the HPOA frequency classification, the store's file names); they stay tied to the code behaviourally, and - here -
textually: on every run the literal is read from the source AST and compared with the one the model was written
from.  A changed literal breaks the tie: the check reports it (with the failing inputs of the behavioural
exploration when it found any, with no-failing-input-found otherwise)."""
import ast

PINS = {
    'C05': [
        ('src/hpotk/ontology/load/obographs/_load.py', 'PURL_PATTERN', r'http://purl\.obolibrary\.org/obo/(?P<curie>(?P<prefix>\w+)_(?P<id>\w+))', 'Obographs.Model.purl_curie'),
        ('src/hpotk/ontology/load/obographs/_load.py', 'DATE_PATTERN', r'.*/(?P<date>\d{4}-\d{2}-\d{2})/.*', 'Obographs.Model.last_date (Obographs.Version.version_spec)'),
        ('src/hpotk/ontology/load/obographs/_factory.py', 'OBO_PURL_PT', r'^http://purl\.obolibrary\.org/obo/(?P<value>.+)$', 'Obographs.Model.syn_type'),
        ('src/hpotk/ontology/load/obographs/_factory.py', 'HP_VAL_PT', r'^hp(.*)#(?P<value>.+)$', 'Obographs.Model.syn_type'),
    ],
    'C08': [
        ('src/hpotk/annotations/load/hpoa/_impl.py', 'HPOA_VERSION_PATTERN', r'^#(date|version): (?P<version>[\w-]+)\w?$', 'Hpoa.Text.version_of_line'),
        ('src/hpotk/annotations/load/hpoa/_impl.py', 'HPO_PATTERN', r'^HP:\d{7}$', 'Hpoa.Text.freq_of_string'),
        ('src/hpotk/annotations/load/hpoa/_impl.py', 'RATIO_PATTERN', r'^(?P<numerator>\d+)/(?P<denominator>\d+)$', 'Hpoa.Text.freq_of_string'),
        ('src/hpotk/annotations/load/hpoa/_impl.py', 'PERCENTAGE_PATTERN', r'^(?P<value>\d+\.?(\d+)?)%$', 'Hpoa.Text.freq_of_string'),
    ],
}


def read_pattern(path, name):
    tree = ast.parse(open(path, encoding='utf-8').read())
    for n in tree.body:
        if isinstance(n, ast.Assign) and len(n.targets) == 1 and isinstance(n.targets[0], ast.Name) and n.targets[0].id == name:
            v = n.value
            if (isinstance(v, ast.Call) and isinstance(v.func, ast.Attribute) and v.func.attr == 'compile' and isinstance(v.func.value, ast.Name)
                    and v.func.value.id == 're' and len(v.args) == 1 and not v.keywords and isinstance(v.args[0], ast.Constant) and isinstance(v.args[0].value, str)):
                return v.args[0].value
            return ('unsupported', ast.dump(v)[:200])
    return None


def check(chk, repo):
    """returns the list of broken pins for chk.pid and records the pinned literals in the evidence"""
    broken, ok = [], []
    for rel, name, expected, used_by in PINS.get(chk.pid, []):
        try:
            got = read_pattern(str(repo / rel), name)
        except Exception as e:
            got = ('unreadable', f'{type(e).__name__}: {e}')
        if got == expected:
            ok.append(f'{rel}:{name}')
        else:
            broken.append({'file': rel, 'name': name, 'model_was_written_from': expected, 'source_now_has': got, 'modelled_by': used_by})
    if PINS.get(chk.pid):
        chk.extra['source_pins'] = {'unchanged': ok, 'changed': broken}
    return broken
