"""C09 - information content equals -log of the propagated annotation frequency."""
import json
import math

import gen_graph as G
import graphcorr as GC
from common import cstr, cbool, clist, ctuple, log

TRUSTED_BASE = [
    'PARTIAL: binary64 math.log and / are not modelled. The model (Coq) delivers the integer count c(t) of every key and the population count; the harness '
    'recomputes -math.log(c/pop[, base]) with the same expression and compares it with the implementation value (rel. tolerance 1e-12), and asserts IC(root) = 0, '
    'IC >= 0 and monotonicity towards descendants directly on the implementation values',
    'Counter / set are modelled by a multiset of increments (list) and duplicate-free lists',
    'AnnotatedItemContainer / AnnotatedItem / annotation stubs are defined in the harness through the public ABCs',
    'the real-valued theorem C09_ic_real depends on the standard library axioms of the reals (see assumptions_of_theorems)',
]
ASSUMPTIONS = ['annotation ids and the module root are nodes of the ontology graph; base > 1']
THEOREM = 'C09_count_is_propagated_frequency / C09_count_monotone / C09_excluded_and_order_irrelevant / C09_result_keys / C09_ic_real'
ALLOW_STDLIB_REALS = True

HEADER = '''From Coq Require Import String List ZArith.
From Hpotk Require Import Base.Result Base.Emit TermId.Model Graph.Model Corr.Graph Ic.Model Corr.C09.
Import ListNotations.
Open Scope string_scope.
Open Scope list_scope.
Definition ktable (tbl : list string) : list key := map (fun s => match from_curie s with Ok t => tkey t | Err _ => key0 end) tbl.
Definition kk (ks : list key) (i : nat) : key := nth i ks key0.'''


def render_case(case):
    t = GC.Table()
    edges = clist([ctuple([t.s(a), t.s(b)]) for a, b in case['edges']])
    mod = 'None' if case['module'] is None else f'(Some {t.k(case["module"])})'
    terms = clist([t.k(x) for x in case['terms']])
    items = clist([clist([ctuple([t.k(k), cbool(p)]) for k, p in item]) for item in case['items']])
    qs = clist([t.k(q) for q in case['queries']])
    tbl = clist([cstr(x) for x in t.items])
    return (f'(let tbl := {tbl} in let ks := ktable tbl in let s := tb tbl in let k := kk ks in '
            f'mkICase {GC.FACT[case["factory"]]} {edges} {mod} {cbool(case["pseudo"])} {terms} {items} {qs})')


def expected_ic(c, pop, base):
    return -math.log(c / pop) if base is None else -math.log(c / pop, base)


def compare(case, obs, model):
    """returns a list of problems (empty = agree)"""
    probs = []
    if model[0] == 0:
        if 'err' not in obs:
            probs.append('model raises (code %d), implementation returns a mapping' % model[1])
        elif model[1] == 5:
            if not obs['err'].startswith('Other:'):
                probs.append('exception class differs: model OtherError (ZeroDivisionError), implementation %s' % obs['err'])
        elif {1: 'ValueError', 2: 'IndexError', 3: 'KeyError', 4: 'TypeError'}.get(model[1]) != obs['err']:
            probs.append('exception class differs: model code %d, implementation %s' % (model[1], obs['err']))
        return probs
    if 'err' in obs:
        return ['implementation raises %s, model returns counts' % obs['err']]
    o = obs['ok']
    pop, counts = model[1], model[2:]
    nkeys = 0
    for q, c, v in zip(case['queries'], counts, o['values']):
        if c == 0:
            if v is not None:
                probs.append(f'{q}: never counted (c=0) but present in the result with IC {float.fromhex(v)}')
            continue
        nkeys += 1
        if v is None:
            probs.append(f'{q}: count {c} but absent from the result')
            continue
        if pop == 0:
            probs.append('population count 0 with non-empty result')
            continue
        e, x = expected_ic(c, pop, case['base']), float.fromhex(v)
        if not (abs(e - x) <= 1e-12 * max(1.0, abs(e))):
            probs.append(f'{q}: IC {x!r} but -log(c/pop) = {e!r} for c={c}, pop={pop}, base={case["base"]}')
    if nkeys != o['n']:
        probs.append(f'result has {o["n"]} keys, model has {nkeys} among the queried terms (queries cover all nodes)')
    # the consequences, asserted directly on the implementation's floats
    val = {q: (None if v is None else float.fromhex(v)) for q, v in zip(case['queries'], o['values'])}
    root = case['module'] if case['module'] is not None else o['root']
    if val.get(root) is not None and val[root] != 0.0:
        probs.append(f'IC of the (module) root {root} is {val[root]!r}, not 0')
    for q, x in val.items():
        if x is not None and x < 0.0:
            probs.append(f'negative IC {x!r} for {q}')
    for a, b in case['edges']:
        va, vb = val.get(G.value_of(a)), val.get(G.value_of(b))
        if va is not None and vb is not None and va < vb - 1e-12:
            probs.append(f'IC decreases from {b} ({vb!r}) to its descendant {a} ({va!r})')
    return probs


def evaluate(chk, cases, tag='eval'):
    obs = chk.run_impl('C09', {'cases': cases})['cases']
    models = chk.coq_eval_ints(HEADER, [render_case(c) for c in cases], 'icase_counts', shard=60, tag=tag)
    failing = {}
    for i, (c, o, m) in enumerate(zip(cases, obs, models)):
        if 'crash' in o:
            failing[i] = ['implementation observer crashed: ' + o['crash']]
            continue
        p = compare(c, o, m)
        if p:
            failing[i] = p
    return obs, models, failing


IDS = ['HP:%07d' % i for i in range(2, 60)]


def gen_case(rng, n):
    ids = ['HP:0000001'] + rng.sample(IDS, n)
    edges = []
    for i in range(1, len(ids)):
        k = 1 if rng.random() < 0.5 else 2 if rng.random() < 0.8 else 3
        ps = rng.sample(range(i), min(k, i))
        edges += [(ids[i], ids[p]) for p in ps]
    rng.shuffle(edges)
    nodes = sorted({x for e in edges for x in e})
    items = []
    for _ in range(rng.randint(0, 8)):
        anns = []
        for _ in range(rng.randint(0, 6)):
            x = rng.choice(nodes) if not anns or rng.random() < 0.8 else rng.choice(anns)[0]
            anns.append([x, rng.random() < 0.7])
        items.append(anns)
    module = None if rng.random() < 0.45 else rng.choice(nodes)
    terms = list(nodes)
    if rng.random() < 0.3:
        terms = rng.sample(nodes, rng.randint(1, len(nodes)))          # an ontology whose term list covers only some nodes
    return {'factory': rng.choice(['idx', 'inc', 'bld']), 'edges': [list(e) for e in edges], 'items': items, 'module': module,
            'pseudo': rng.random() < 0.5, 'base': rng.choice([None, None, 2, 10, 1.5, 2.0]), 'terms': terms, 'queries': nodes}


def run(chk):
    rng = chk.rng
    cases = GC.load_corpus('C09')
    for i in range(400 if chk.tier == 'quick' else 4000):
        cases.append(gen_case(rng, rng.randint(1, 4) if i % 4 == 0 else rng.randint(4, 12)))
    for c in cases:
        chk.count('base:%s' % c['base'])
        chk.count('module:%s' % ('none' if c['module'] is None else 'root' if c['module'] == 'HP:0000001' else 'inner'))
        chk.count('pseudocount:%s' % c['pseudo'])
        chk.count('items:%d' % len(c['items']))
        chk.count('excluded_annotations', sum(1 for it in c['items'] for a in it if not a[1]))
        chk.note_case(c, nontrivial=sum(len(it) for it in c['items']) >= 2, sample_every=120)
    obs, models, failing = evaluate(chk, cases)
    chk.evaluations = sum(len(c['queries']) for c in cases)
    chk.traces = len(cases)
    chk.rule = ('random multi-parent DAGs under HP:0000001 (2-13 nodes), corpora of 0-8 items x 0-6 annotations (70% present, repeats), base in {e, 2, 10, 1.5}, '
                'pseudocount on/off, module root none / the root / any inner node, ontologies whose term list covers all or only some nodes; for EVERY node the '
                'implementation IC is compared with -log(c/pop) recomputed from the model integer counts (absent iff c = 0), plus root = 0, non-negativity and '
                'monotonicity asserted on the implementation floats. evaluations = term ICs compared')
    if failing:
        report(chk, cases, failing)


def shrink(chk, case):
    cur = case
    for _ in range(30):
        cands = []
        for i in range(len(cur['items'])):
            cands.append(dict(cur, items=cur['items'][:i] + cur['items'][i + 1:]))
            for j in range(len(cur['items'][i])):
                it = cur['items'][i]
                cands.append(dict(cur, items=cur['items'][:i] + [it[:j] + it[j + 1:]] + cur['items'][i + 1:]))
        if not cands:
            break
        try:
            _, _, f = evaluate(chk, cands, tag='shrink')
        except Exception:
            break
        if not f:
            break
        cur = cands[sorted(f)[0]]
    return cur


def report(chk, cases, failing, limit=2):
    n = 0
    for i in sorted(failing, key=lambda j: len(json.dumps(cases[j])))[:limit]:
        small = shrink(chk, cases[i])
        obs, models, f = evaluate(chk, [small], tag='final')
        probs = f.get(0, failing[i])
        sig = 'C09:%s' % ('module' if small['module'] else 'plain') + (':pseudo' if small['pseudo'] else '')
        chk.report_violation(sig + ':%d' % n, {'case': small, 'impl': obs[0], 'model_counts': models[0], 'problems': probs[:6], 'theorem': THEOREM,
                                               'failing_cases_total': len(failing)},
                             what=f'{sig}: {probs[0]} | edges={json.dumps(small["edges"])} items={json.dumps(small["items"])} module={small["module"]} base={small["base"]}'[:900])
        n += 1


def replay(chk, path):
    rp = json.loads(open(path).read())
    cases = rp['cases'] if 'cases' in rp else [rp['case']]
    for case in cases:
        obs, models, f = evaluate(chk, [case], tag='replay')
        chk.note_case(case)
        log('impl now :', json.dumps(obs[0])[:1500])
        log('model    :', models[0])
        log('problems :', f.get(0, []))
        if f:
            chk.report_violation(rp.get('signature', 'C09:replay'), {'case': case, 'impl': obs[0], 'problems': f[0]}, what='replayed case still fails')
