"""Observation of the validators (C11)."""
import re
import warnings

warnings.simplefilter('ignore')

from hpotk.model import TermId, Identified, MinimalTerm  # noqa: E402
from hpotk.ontology import create_minimal_ontology  # noqa: E402
from hpotk.validate import (AnnotationPropagationValidator, PhenotypicAbnormalityValidator,  # noqa: E402
                            ObsoleteTermIdsValidator, ValidationRunner, ValidationLevel)

from impl_graph import FACTORIES, exn_name, warm_up  # noqa: E402

VALIDATORS = {'P': AnnotationPropagationValidator, 'A': PhenotypicAbnormalityValidator, 'O': ObsoleteTermIdsValidator}
KIND = {('ERROR', 'annotation_propagation'): 'P', ('WARNING', 'phenotypic_abnormality_descendant'): 'A',
        ('WARNING', 'obsolete_term_id_is_used'): 'O'}
CURIE = re.compile(r'[A-Za-z]+:[0-9A-Za-z]+')


class FeatAttr(Identified):
    """identified feature with a bool attribute is_present"""
    def __init__(self, tid, present):
        self._tid = tid
        self.is_present = present

    @property
    def identifier(self):
        return self._tid


class FeatMethod(Identified):
    """identified feature with a method is_present()"""
    def __init__(self, tid, present):
        self._tid = tid
        self._p = present

    @property
    def identifier(self):
        return self._tid

    def is_present(self):
        return self._p


class FeatPlain(Identified):
    """identified object without any status: counts as present"""
    def __init__(self, tid):
        self._tid = tid

    @property
    def identifier(self):
        return self._tid


def mkitem(spec):
    curie, present, form = spec
    tid = TermId.from_curie(curie)
    if form == 'tid':
        return tid
    if form == 'plain':
        return FeatPlain(tid)
    if form == 'attr':
        return FeatAttr(tid, present)
    return FeatMethod(tid, present)


def snapshot(items):
    out = []
    for it in items:
        if isinstance(it, TermId):
            out.append(('tid', it.value, id(it)))
        else:
            p = getattr(it, 'is_present', None)
            if callable(p):
                p = p()
            out.append((type(it).__name__, it.identifier.value, id(it.identifier), p, sorted(vars(it).keys())))
    return out


def canon(r):
    kind = KIND.get((r.level.name, r.category), '?' + r.level.name + '/' + r.category)
    if kind == 'P':
        ids = re.findall(r'\[([^\]]+)\]', r.message)
        state = 'present' if 'both present' in r.message else 'excluded' if 'both excluded' in r.message else '?'
        return 'P|' + '|'.join(ids) + '|' + state
    if kind == 'A':
        ids = re.findall(r'\[([^\]]+)\]', r.message)
        # the first bracket names the item; the second is always HP:0000118
        return 'A|' + ids[0]
    if kind == 'O':
        m = re.match(r'Using the obsolete (\S+) instead of (\S+) for ', r.message)
        return 'O|' + (m.group(1) + '|' + m.group(2) if m else '?' + r.message)
    return kind + '|' + r.message


RUNNERS = [0]


def observe_case(case):
    edges = [(TermId.from_curie(s), TermId.from_curie(o)) for s, o in case['edges']]
    g = FACTORIES[case['factory']]().create_graph(edges)
    terms = [MinimalTerm.create_minimal_term(tid, 'name of ' + tid, alts, obsolete) for tid, alts, obsolete in case['terms']]
    hpo = create_minimal_ontology(g, terms, 'v')
    if len(case['edges']) % 2 == 0:
        warm_up(hpo, list(g), len(case['runs']))
    runs = []
    for run in case['runs']:
        items = [mkitem(s) for s in run['items']]
        seq = tuple(items) if run.get('tuple') else items
        before = snapshot(items)
        vs = [VALIDATORS[v](hpo) for v in run['validators']]
        try:
            if run.get('direct') and len(vs) == 1:
                res = vs[0].validate(seq)
            else:
                # the runner takes an iterable of validators: a list, a tuple, a one-shot generator, a map object (by turns)
                RUNNERS[0] += 1
                form = RUNNERS[0] % 4
                given = vs if form == 0 else tuple(vs) if form == 1 else (v for v in vs) if form == 2 else map(lambda v: v, vs)
                res = ValidationRunner(given).validate_all(seq)
            found = [canon(r) for r in res.results]
            out = {'ok': sorted(found), 'is_ok': bool(res.is_ok())}
            # the runner's report = concatenation, validator by validator (each compared as a multiset)
            if not run.get('direct'):
                pos, concat_ok = 0, True
                for v in vs:
                    part = sorted(canon(r) for r in v.validate(seq).results)
                    if sorted(found[pos:pos + len(part)]) != part:
                        concat_ok = False
                    pos += len(part)
                out['concat_ok'] = concat_ok and pos == len(found)
        except Exception as e:
            out = {'err': exn_name(e)}
        out['mutated'] = snapshot(items) != before or (isinstance(seq, list) and any(a is not b for a, b in zip(seq, items)))
        runs.append(out)
    return {'runs': runs}


def observe(payload):
    res = []
    for case in payload['cases']:
        try:
            res.append(observe_case(case))
        except Exception as e:
            res.append({'crash': exn_name(e) + ': ' + str(e)[:300]})
    return {'cases': res}
