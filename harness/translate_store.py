"""Fail-closed translator of the NAMES used by src/hpotk/store/_api.py  ->  Gallina  (a static tie for Store/Paths.v).

Read off the AST:
  * the members of `OntologyType` and their identifiers (`HPO = 'HPO', 'HP'` ...), in order;
  * resolve_store_path:  os.path.join(os.path.join(self._store_dir, ontology_type.identifier),
                                      f"{ontology_type.identifier.lower()}.{release}.json")
  * the one `tempfile.mkstemp(dir=fdir_ontology, prefix=f"{os.path.basename(fpath_ontology)}.", suffix=".tmp")` call of
    _impl_load_ontology.
The emitted file defines type_id_src / lower_id_src / final_name_src / temp_name_src (paths relative to the store
directory, '/' as os.sep) and proves them equal to Store.Paths.  Trusted: os.path.join / basename on relative POSIX
paths and str.lower() on the (ASCII) identifiers, which the translator evaluates itself."""
import ast

from translate_io import TranslateError, fail, cstr, is_name, is_attr, body_without_docstring, const
from translate_termid import cls, method


def members(c):
    out = []
    for n in c.body:
        if isinstance(n, ast.Assign) and len(n.targets) == 1 and isinstance(n.targets[0], ast.Name):
            v = n.value
            if not (isinstance(v, ast.Tuple) and len(v.elts) == 2 and all(isinstance(e, ast.Constant) and isinstance(e.value, str) for e in v.elts)):
                fail(n, 'OntologyType member must be NAME = (value, identifier)')
            out.append((n.targets[0].id, v.elts[0].value, v.elts[1].value))
    # the identifier property must return the second element
    init = method(c, '__init__')
    if [a.arg for a in init.args.args][-1] != 'identifier':
        fail(init, 'OntologyType.__init__(self, _, identifier) expected')
    return out


def ident_expr(e):
    return isinstance(e, ast.Attribute) and e.attr == 'identifier' and is_name(e.value, 'ontology_type')


def join_call(e):
    if not (isinstance(e, ast.Call) and isinstance(e.func, ast.Attribute) and e.func.attr == 'join' and is_attr(e.func.value, 'os', 'path') and len(e.args) == 2 and not e.keywords):
        fail(e, 'expected os.path.join(a, b)')
    return e.args


def fstring_parts(e):
    if not isinstance(e, ast.JoinedStr):
        fail(e, 'expected an f-string')
    parts = []
    for v in e.values:
        if isinstance(v, ast.Constant):
            parts.append(('lit', v.value))
        elif isinstance(v, ast.FormattedValue) and v.format_spec is None and v.conversion == -1:
            parts.append(('expr', v.value))
        else:
            fail(v, 'unsupported f-string part')
    return parts


def resolve(fn):
    b = body_without_docstring(fn)
    if len(b) != 3:
        fail(fn, 'resolve_store_path: expected directory assignment, the default-release branch and the return')
    a, i, r = b
    if not (isinstance(a, ast.Assign) and is_name(a.targets[0], 'fdir_ontology')):
        fail(a, 'expected fdir_ontology = os.path.join(self._store_dir, ontology_type.identifier)')
    d0, d1 = join_call(a.value)
    if not (is_attr(d0, 'self', '_store_dir') and ident_expr(d1)):
        fail(a, 'the type directory must be <store_dir>/<identifier>')
    if not (isinstance(i, ast.If) and isinstance(i.test, ast.Compare) and is_name(i.test.left, 'release') and isinstance(i.test.ops[0], ast.Is)
            and isinstance(i.test.comparators[0], ast.Constant) and i.test.comparators[0].value is None and not i.orelse):
        fail(i, 'expected `if release is None: release = <latest>`')
    if not isinstance(r, ast.Return):
        fail(r, 'expected a return')
    f0, f1 = join_call(r.value)
    if not is_name(f0, 'fdir_ontology'):
        fail(r, 'the file must be joined to fdir_ontology')
    parts = fstring_parts(f1)
    shape = []
    for kind, v in parts:
        if kind == 'lit':
            shape.append(('lit', v))
        elif is_name(v, 'release'):
            shape.append(('release',))
        elif (isinstance(v, ast.Call) and isinstance(v.func, ast.Attribute) and v.func.attr == 'lower' and not v.args and ident_expr(v.func.value)):
            shape.append(('lower_id',))
        else:
            fail(v, 'unsupported expression in the file name')
    return shape


def mkstemp(fn):
    calls = [n for n in ast.walk(fn) if isinstance(n, ast.Call) and is_attr(n.func, 'tempfile', 'mkstemp')]
    if len(calls) != 1:
        fail(fn, f'expected exactly one tempfile.mkstemp call, found {len(calls)}')
    c = calls[0]
    kw = {k.arg: k.value for k in c.keywords}
    if c.args or sorted(kw) != ['dir', 'prefix', 'suffix']:
        fail(c, 'mkstemp(dir=, prefix=, suffix=) expected')
    if not is_name(kw['dir'], 'fdir_ontology'):
        fail(c, 'the temporary file must be created in the type directory')
    pre = fstring_parts(kw['prefix'])
    if not (len(pre) == 2 and pre[0][0] == 'expr' and isinstance(pre[0][1], ast.Call) and isinstance(pre[0][1].func, ast.Attribute) and pre[0][1].func.attr == 'basename'
            and is_attr(pre[0][1].func.value, 'os', 'path') and len(pre[0][1].args) == 1 and is_name(pre[0][1].args[0], 'fpath_ontology') and pre[1][0] == 'lit'):
        fail(c, 'prefix must be f"{os.path.basename(fpath_ontology)}<literal>"')
    suf = const(kw['suffix'])
    # fdir_ontology / fpath_ontology must be the resolved path and its directory
    ok_dir = any(isinstance(n, ast.Assign) and is_name(n.targets[0], 'fdir_ontology') and isinstance(n.value, ast.Call) and isinstance(n.value.func, ast.Attribute)
                 and n.value.func.attr == 'dirname' and len(n.value.args) == 1 and is_name(n.value.args[0], 'fpath_ontology') for n in ast.walk(fn))
    ok_path = any(isinstance(n, ast.Assign) and is_name(n.targets[0], 'fpath_ontology') and isinstance(n.value, ast.Call) and is_attr(n.value.func, 'self', 'resolve_store_path')
                  for n in ast.walk(fn))
    if not (ok_dir and ok_path):
        fail(fn, 'fpath_ontology must come from resolve_store_path and fdir_ontology must be its dirname')
    return pre[1][1], suf


def translate(path):
    tree = ast.parse(open(path, encoding='utf-8').read())
    ms = members(cls(tree, 'OntologyType'))
    if len(ms) != 3:
        fail(None, f'three ontology types expected, found {[m[0] for m in ms]}')
    store = cls(tree, 'OntologyStore')
    shape = resolve(method(store, 'resolve_store_path'))
    sep, suf = mkstemp(method(store, '_impl_load_ontology'))

    def table(f):
        return f'match t with 0 => {cstr(f(ms[0]))} | 1 => {cstr(f(ms[1]))} | _ => {cstr(f(ms[2]))} end'
    name = ' ++ '.join({'lit': lambda x: cstr(x[1]), 'release': lambda x: 'r', 'lower_id': lambda x: 'lower_id_src t'}[x[0]](x) for x in shape)
    return f'''(* GENERATED by harness/translate_store.py from {path} - do not edit *)
From Coq Require Import String Ascii List Bool Arith.
From Hpotk Require Import Base.Str Store.Model Store.Paths.
Open Scope string_scope.

(* OntologyType members in source order: {", ".join(f"{m[0]}={m[1]!r}/{m[2]!r}" for m in ms)} *)
Definition type_id_src (t : otype) : string := {table(lambda m: m[2])}.
Definition lower_id_src (t : otype) : string := {table(lambda m: m[2].lower())}.
Definition base_name_src (t : otype) (r : string) : string := {name}.
Definition final_name_src (t : otype) (r : string) : string := type_id_src t ++ "/" ++ base_name_src t r.
Definition temp_name_src (t : otype) (r rnd : string) : string := type_id_src t ++ "/" ++ base_name_src t r ++ {cstr(sep)} ++ rnd ++ {cstr(suf)}.

Lemma sapp_assoc_s (a b c : string) : (a ++ b) ++ c = a ++ (b ++ c).
Proof. induction a as [|x a IH]; cbn [append]; [reflexivity | rewrite IH; reflexivity]. Qed.
Lemma names_src_ok : forall t r rnd,
  type_id_src t = type_id t /\\ lower_id_src t = lower_id t /\\ final_name_src t r = final_name t r /\\ temp_name_src t r rnd = temp_name t r rnd.
Proof.
  intros t r rnd. unfold final_name_src, temp_name_src, base_name_src, final_name, temp_name, base_name.
  destruct t as [|[|t]]; cbn [type_id_src lower_id_src type_id lower_id]; rewrite ?sapp_assoc_s; repeat split; reflexivity.
Qed.
'''


if __name__ == '__main__':
    import sys
    print(translate(sys.argv[1]))
